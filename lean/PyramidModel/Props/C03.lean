import PyramidModel.Lemmas.ViewLookupOrder
/-!
# C03 — view lookup invokes the most specific view whose predicates all hold

Property theorems only.  Model: `ViewLookup.lean` (registration into IView/ISecuredView/IMultiView
slots, MultiView buckets, `_find_views`, `_call_view`, predicates); spec: `ViewLookupSpec.lean`
(`inForce`, `candidates`, `expectedView`); helper lemmas: `Lemmas/ViewLookup*.lean`; generated table:
`Gen/C03Tables.lean`.

All statements quantify over registration lists of any length in any order, any request record, any
resolution orders.
-/
namespace Pyr.ViewLookup

/-! ## the generated table is the one the model and the theorems assume -/

/-- `_find_views` iterates the request-interface order outermost, binds the triple in the order
(classifier, request, context), probes `(IView, ISecuredView, IMultiView)` in that order, and so does
`register_view`; the order arithmetic has the shape `1 << n + 1`, `// (len + 1)`, `MAX_ORDER = 2^30`. -/
theorem gen_tables_as_modelled :
    Gen.C03.requestMajor = true ∧ Gen.C03.sourceIfacesOk = true ∧
    Gen.C03.viewTypes = ["IView", "ISecuredView", "IMultiView"] ∧
    Gen.C03.registerViewTypes = ["IView", "ISecuredView", "IMultiView"] ∧
    Gen.C03.maxOrder = 2 ^ 30 ∧ Gen.C03.weightShiftPlus = 1 ∧ Gen.C03.orderDivPlus = 1 ∧
    Gen.C03.predNames.length = 13 ∧ Gen.C03.predNames.Nodup := by decide

/-- `scoreOf` is the fold over the predicates' positions: what the probe table records is what the model computes -/
theorem orderOf_eq_kinds (ps : List Pred) :
    orderOf ps = orderOfScore (scoreOfKinds (ps.map (·.kind))) (ps.map (·.kind)).length := by
  simp [orderOf, scoreOf, scoreOfKinds, List.foldl_map]

/-- **The order arithmetic of the model is the one `PredicateList.make` was OBSERVED to perform** (table produced
by running the tree under test): on the empty predicate set, every single default predicate, every pair, every
triple, all thirteen, and two calls with 2 / 3 predicates of the same name (`custom`, which tells `|` from `+`),
the returned `order` is `(MAX_ORDER − ⋁ 2^(n+1)) / (len + 1)` as the model computes it.  The coverage of the
table is part of the statement (381 rows; every singleton and every pair of positions is there, the full set,
the repeated position). -/
theorem order_closed_form_on_probes :
    (∀ p ∈ Gen.C03.orderProbes, orderOfScore (scoreOfKinds p.1) p.1.length = p.2) ∧
    Gen.C03.orderProbes.length = 381 ∧
    (∀ i ∈ List.range 13, ∀ j ∈ List.range 13,
      i < j → [i] ∈ Gen.C03.orderProbes.map (·.1) ∧ [i, j] ∈ Gen.C03.orderProbes.map (·.1)) ∧
    [] ∈ Gen.C03.orderProbes.map (·.1) ∧ List.range 13 ∈ Gen.C03.orderProbes.map (·.1) ∧
    [12, 12] ∈ Gen.C03.orderProbes.map (·.1) ∧ [0, 12, 12, 12] ∈ Gen.C03.orderProbes.map (·.1) := by
  decide +kernel

/-- **`_find_views` was OBSERVED to enumerate as the model does**: on a scratch registry holding a marker for every
(request iface, context iface, view type) of two 3-element resolution orders, the real function returned the 27
markers in the order of the model's `sroPairsOf` with the view types innermost. -/
theorem find_views_probe_as_modelled :
    Gen.C03.findViewsProbe =
      (sroPairsOf [0, 1, 2] [0, 1, 2]).flatMap fun (q, c) => Gen.C03.viewTypes.map fun t => (q, c, t) := by
  decide +kernel

/-! ## the central refinement -/

/-- **Registering any list of views in any order and then looking a request up runs exactly the view
the declarative reading names**: the first, in the order (request-interface resolution order,
context resolution order, inside a slot: acceptable media types best first, then `order`, then
registration sequence), of the registrations in force whose predicates all hold; a protected view
refuses instead of running; none ⇒ not found.
Hypothesis `Coherent`: registrations of one slot with equal phash agree on order/accept (a fact about
sha256 inputs) and on protectedness (see `override_ignored_when_protectedness_differs`). -/
theorem lookup_eq_spec (regs : List ViewReg) (classifier : Nat) (r : Request) (h : Coherent regs) :
    callView (registerAll regs) classifier r = expectedView regs classifier r := by
  have hslot : ∀ k, registerAll regs k = slotOf (inForce (slotRegs regs k)) := registerAll_slot regs h
  have hviews : (findViews (registerAll regs) classifier r).flatMap (Callable.views r)
      = candidates regs classifier r := by
    simp only [findViews, sroPairs_eq, candidates, hslot, List.flatMap_assoc, slotCallables_slotOf_views]
  have hempty : (!(findViews (registerAll regs) classifier r).isEmpty) = anyRegistered regs classifier r := by
    simp only [findViews, sroPairs_eq, anyRegistered, hslot, isEmpty_flatMap, slotCallables_slotOf_isEmpty,
      inForce_isEmpty, slotRegs_isEmpty]
    generalize specPairs r = ps
    induction ps with
    | nil => rfl
    | cons p ps ih => simp only [List.all_cons, List.any_cons, Bool.not_and, Bool.not_not, ih]
  simp only [callView, callViews_eq, hviews, hempty, expectedView, resultOf, Bool.false_or]
  cases List.find? (fun x => x.holds r) (candidates regs classifier r) <;> rfl

private def req0 : Request where
  method := "GET"
  getParams := []
  postParams := []
  environ := []
  pathInfo := "/"
  matchdict := none
  authenticated := false
  customTrue := []
  reTable := []
  accQ := []
  lineage := [[10]]
  physPath := some [""]
  permitted := false
  reqSro := [0, 50]
  ctxSro := [10, 0]
  viewName := ""

/-- The protectedness part of `Coherent` is needed — and the real code behaves like the model here
(recorded finding F-C03b, replayed by the harness): an unprotected view (tag 1) re-registered with
the same predicates but a permission (tag 2) is stored beside it (ISecuredView next to IView), and
`_find_views` asks IView first, so the overridden, unprotected body still answers. -/
theorem override_ignored_when_protectedness_differs :
    let regs : List ViewReg := [⟨0, 0, 0, "", [], none, false, 1⟩, ⟨0, 0, 0, "", [], none, true, 2⟩]
    coherentB regs = false ∧ callView (registerAll regs) 0 req0 = .response 1 ∧
      expectedView regs 0 req0 = .forbidden 2 := by decide

/-! ## registrations in force -/

/-- **Same slot, same predicates: the later registration replaces the earlier.**  A derived view is in
force in its slot exactly when it is the last one registered there with its phash … -/
theorem later_registration_replaces_earlier (vs : List DView) (x : DView) :
    x ∈ inForce vs ↔ ∃ pre post, vs = pre ++ x :: post ∧ ∀ y ∈ post, y.phash ≠ x.phash :=
  mem_inForce_iff vs x

/-- … and no two views in force share a phash. -/
theorem in_force_one_per_phash (vs : List DView) :
    (inForce vs).Pairwise (fun a b => a.phash ≠ b.phash) := inForce_nodup vs

/-! ## which view runs: first in the candidate list -/

/-- The outcome of the declarative reading is decided by the *first* candidate whose predicates all
hold: everything before it fails a predicate (fall-through), it holds, nothing after it matters. -/
theorem fallthrough_next_candidate (regs : List ViewReg) (classifier : Nat) (r : Request) (t : Nat) :
    (expectedView regs classifier r = .response t ∨ expectedView regs classifier r = .forbidden t) ↔
      ∃ pre v post, candidates regs classifier r = pre ++ v :: post ∧ (∀ u ∈ pre, u.holds r = false) ∧
        v.holds r = true ∧ v.tag = t := by
  simp only [expectedView]
  constructor
  · intro h
    cases hf : (candidates regs classifier r).find? (·.holds r) with
    | none =>
      rw [hf] at h
      simp only at h
      split at h <;> simp at h
    | some v =>
      rw [hf] at h
      obtain ⟨hv, pre, post, hsplit, hpre⟩ := List.find?_eq_some_iff_append.mp hf
      refine ⟨pre, v, post, hsplit, ?_, hv, ?_⟩
      · intro u hu; simpa using hpre u hu
      · simp only at h
        split at h <;> simp at h <;> exact h
  · rintro ⟨pre, v, post, hsplit, hpre, hv, rfl⟩
    have hf : (candidates regs classifier r).find? (·.holds r) = some v := by
      rw [List.find?_eq_some_iff_append]
      exact ⟨hv, pre, post, hsplit, by intro u hu; simp [hpre u hu]⟩
    rw [hf]
    simp only
    split
    · exact Or.inr rfl
    · exact Or.inl rfl

/-! ## which predicates the lookup asks -/

/-- **The lookup asks the candidates' predicates in candidate order, each once, and stops at the first that
holds**: the trace of the views whose predicates `_call_view` / `MultiView.__call__` evaluate (model `callViewAsked`,
the call loops written with a trace) is the candidate list cut after the first qualifying candidate. -/
theorem lookup_asks_candidate_prefix (regs : List ViewReg) (classifier : Nat) (r : Request) (h : Coherent regs) :
    callViewAsked (registerAll regs) classifier r =
      ((candidates regs classifier r).takeWhile fun v => !v.holds r).map (·.tag) ++
        (((candidates regs classifier r).find? (·.holds r)).map (·.tag)).toList := by
  have hslot : ∀ k, registerAll regs k = slotOf (inForce (slotRegs regs k)) := registerAll_slot regs h
  have hviews : (findViews (registerAll regs) classifier r).flatMap (Callable.views r)
      = candidates regs classifier r := by
    simp only [findViews, sroPairs_eq, candidates, hslot, List.flatMap_assoc, slotCallables_slotOf_views]
  simp only [callViewAsked, askedViews_eq, hviews, askedFirst_eq, askedSpec]

/-- **The selected candidate's predicates are evaluated exactly once, and nothing is asked after it**: when a view
runs (or refuses), the trace is `tags of the failing candidates before it ++ [its tag]`; with distinct tags its tag
occurs once.  (A second evaluation of the winner's predicates — e.g. a pre-check before the call — is not what the
lookup does: a stateful predicate is asked once per candidate reached.) -/
theorem selected_candidate_asked_once_and_last (regs : List ViewReg) (classifier : Nat) (r : Request)
    (h : Coherent regs) (t : Nat)
    (hrun : callView (registerAll regs) classifier r = .response t ∨
            callView (registerAll regs) classifier r = .forbidden t) :
    ∃ pre v post, candidates regs classifier r = pre ++ v :: post ∧ (∀ u ∈ pre, u.holds r = false) ∧
      v.holds r = true ∧ v.tag = t ∧
      callViewAsked (registerAll regs) classifier r = pre.map (·.tag) ++ [t] ∧
      (((candidates regs classifier r).map (·.tag)).Nodup →
        (callViewAsked (registerAll regs) classifier r).count t = 1) := by
  rw [lookup_eq_spec regs classifier r h] at hrun
  obtain ⟨pre, v, post, hsplit, hpre, hv, rfl⟩ := (fallthrough_next_candidate regs classifier r t).mp hrun
  have hall : ∀ u ∈ pre, u.holds r = false := hpre
  have hany : pre.any (·.holds r) = false := by
    rw [List.any_eq_false]; intro u hu; simp [hall u hu]
  have htrace : callViewAsked (registerAll regs) classifier r = pre.map (·.tag) ++ [v.tag] := by
    have hslot : ∀ k, registerAll regs k = slotOf (inForce (slotRegs regs k)) := registerAll_slot regs h
    have hviews : (findViews (registerAll regs) classifier r).flatMap (Callable.views r)
        = candidates regs classifier r := by
      simp only [findViews, sroPairs_eq, candidates, hslot, List.flatMap_assoc, slotCallables_slotOf_views]
    simp only [callViewAsked, askedViews_eq, hviews, hsplit, askedFirst_append, hany, Bool.false_eq_true, if_false,
      askedFirst, hv, if_true]
  refine ⟨pre, v, post, hsplit, hpre, hv, rfl, htrace, ?_⟩
  intro hnd
  rw [htrace]
  rw [hsplit, List.map_append, List.map_cons] at hnd
  have hnot : v.tag ∉ pre.map (·.tag) := by
    intro hm
    have := (List.nodup_append.mp hnd).2.2 _ hm _ List.mem_cons_self
    exact this rfl
  simp [List.count_append, List.count_eq_zero_of_not_mem hnot]

/-- Refusal is exactly: the first qualifying candidate is protected and the policy denies. -/
theorem forbidden_iff (regs : List ViewReg) (classifier : Nat) (r : Request) (v : DView)
    (hf : (candidates regs classifier r).find? (·.holds r) = some v) :
    expectedView regs classifier r = (if v.secured && !r.permitted then .forbidden v.tag else .response v.tag) := by
  simp [expectedView, hf]

/-- **A view with a failing predicate never runs** (any registry state, not only reachable ones): the
body that ran, or refused, belongs to a registered callable found by `_find_views`, and all its
predicates hold. -/
theorem failing_predicate_never_runs (reg : Registry) (classifier : Nat) (r : Request) (t : Nat)
    (h : callView reg classifier r = .response t ∨ callView reg classifier r = .forbidden t) :
    ∃ c ∈ findViews reg classifier r, ∃ v ∈ c.views r, v.tag = t ∧ v.holds r = true := by
  simp only [callView, callViews_eq] at h
  cases hf : ((findViews reg classifier r).flatMap (Callable.views r)).find? (·.holds r) with
  | none =>
    rw [hf] at h
    simp only at h
    split at h <;> simp at h
  | some v =>
    rw [hf] at h
    have hv := List.find?_some hf
    have hmem := List.mem_of_find?_eq_some hf
    obtain ⟨c, hc, hvc⟩ := List.mem_flatMap.mp hmem
    refine ⟨c, hc, v, hvc, ?_, hv⟩
    simp only [resultOf] at h
    split at h <;> simp at h <;> exact h

/-- The view that runs was registered for the view name, under the classifier, for a request
interface and a context type on the request's resolution orders, and its predicates hold. -/
theorem winner_is_a_matching_registration (regs : List ViewReg) (classifier : Nat) (r : Request)
    (hc : Coherent regs) (t : Nat)
    (h : callView (registerAll regs) classifier r = .response t ∨
         callView (registerAll regs) classifier r = .forbidden t) :
    ∃ reg ∈ regs, reg.tag = t ∧ (derive reg).holds r = true ∧ reg.classifier = classifier ∧
      reg.name = r.viewName ∧ reg.reqIface ∈ r.reqSro ∧ reg.ctxIface ∈ r.ctxSro := by
  rw [lookup_eq_spec regs classifier r hc] at h
  obtain ⟨pre, v, post, hsplit, _, hv, rfl⟩ := (fallthrough_next_candidate regs classifier r t).mp h
  have hmem : v ∈ candidates regs classifier r := by rw [hsplit]; simp
  obtain ⟨reg, hreg, rfl, h1, h2, h3, h4⟩ := mem_candidates regs classifier r v hmem
  exact ⟨reg, hreg, rfl, hv, h1, h2, h3, h4⟩

/-- **Not found exactly when no candidate qualifies**; `PredicateMismatch` (rather than a plain
`HTTPNotFound`) exactly when something is registered under the name on the resolution orders. -/
theorem notfound_iff_no_candidate (regs : List ViewReg) (classifier : Nat) (r : Request) :
    (expectedView regs classifier r = .mismatch ∨ expectedView regs classifier r = .none) ↔
      ∀ v ∈ candidates regs classifier r, v.holds r = false := by
  simp only [expectedView]
  cases hf : (candidates regs classifier r).find? (·.holds r) with
  | none =>
    have := List.find?_eq_none.mp hf
    constructor
    · intro _ v hv; simpa using this v hv
    · intro _; simp only; split
      · exact Or.inl rfl
      · exact Or.inr rfl
  | some v =>
    have hv := List.find?_some hf
    have hmem := List.mem_of_find?_eq_some hf
    constructor
    · intro h; simp only at h; split at h <;> simp at h
    · intro h; have := h v hmem; simp [hv] at this

theorem mismatch_iff_registered (regs : List ViewReg) (classifier : Nat) (r : Request)
    (h : ∀ v ∈ candidates regs classifier r, v.holds r = false) :
    expectedView regs classifier r = (if anyRegistered regs classifier r then .mismatch else .none) := by
  have hf : (candidates regs classifier r).find? (·.holds r) = none := by
    rw [List.find?_eq_none]; intro v hv; simp [h v hv]
  simp [expectedView, hf]

/-- **No qualifying registered view is forgotten**: a registration in force for a slot on the request's
resolution orders, whose predicates all hold, is a candidate — so "not found" really means that no
registered view in force qualifies. -/
theorem qualifying_view_in_force_is_candidate (regs : List ViewReg) (classifier : Nat) (r : Request)
    (reg : ViewReg) (q c : Nat) (hq : q ∈ r.reqSro) (hc : c ∈ r.ctxSro)
    (hin : derive reg ∈ inForce (slotRegs regs ⟨classifier, q, c, r.viewName⟩))
    (hh : (derive reg).holds r = true) : derive reg ∈ candidates regs classifier r := by
  apply mem_candidates_of_slot regs classifier r q c _ hq hc
  simp only [slotCands]
  rw [mem_slotCandidates_iff]
  refine ⟨hin, ?_⟩
  cases ha : (derive reg).accept with
  | none => exact Or.inr (Or.inl rfl)
  | some o => exact Or.inr (Or.inr ⟨o, rfl, derive_accept_coherent reg r o ha hh⟩)

theorem notfound_means_nothing_in_force_qualifies (regs : List ViewReg) (classifier : Nat) (r : Request)
    (h : expectedView regs classifier r = .mismatch ∨ expectedView regs classifier r = .none)
    (reg : ViewReg) (q c : Nat) (hq : q ∈ r.reqSro) (hc : c ∈ r.ctxSro)
    (hin : derive reg ∈ inForce (slotRegs regs ⟨classifier, q, c, r.viewName⟩)) :
    (derive reg).holds r = false := by
  cases hh : (derive reg).holds r with
  | false => rfl
  | true =>
    have hc' := qualifying_view_in_force_is_candidate regs classifier r reg q c hq hc hin hh
    have := (notfound_iff_no_candidate regs classifier r).mp h _ hc'
    rw [hh] at this; exact absurd this (by simp)

/-! ## the order of the candidate list -/

/-- **Route-bound before global** (and in general: request-interface resolution order is the
outermost criterion): all candidates of the interfaces in `A` stand before all candidates of the
interfaces in `B` when the request's order is `A ++ B`. -/
theorem candidates_request_order (regs : List ViewReg) (classifier : Nat) (r : Request) (A B : List Nat)
    (h : r.reqSro = A ++ B) :
    candidates regs classifier r
      = candidatesOn regs classifier r A r.ctxSro ++ candidatesOn regs classifier r B r.ctxSro := by
  rw [candidates_eq_on, h, candidatesOn_append_req]

/-- **More specific context first**: for one request interface the candidates follow the context's
resolution order. -/
theorem candidates_context_order (regs : List ViewReg) (classifier : Nat) (r : Request) (q : Nat) (C D : List Nat) :
    candidatesOn regs classifier r [q] (C ++ D)
      = candidatesOn regs classifier r [q] C ++ candidatesOn regs classifier r [q] D :=
  candidatesOn_append_ctx regs classifier r q C D

/-- A view of an earlier request interface that qualifies beats every view of a later one. -/
theorem earlier_request_iface_wins (regs : List ViewReg) (classifier : Nat) (r : Request) (A B : List Nat)
    (h : r.reqSro = A ++ B) (u : DView) (hu : u ∈ candidatesOn regs classifier r A r.ctxSro)
    (hh : u.holds r = true) :
    ∃ w ∈ candidatesOn regs classifier r A r.ctxSro,
      (candidates regs classifier r).find? (·.holds r) = some w := by
  rw [candidates_request_order regs classifier r A B h, List.find?_append]
  cases hf : (candidatesOn regs classifier r A r.ctxSro).find? (·.holds r) with
  | some w => exact ⟨w, List.mem_of_find?_eq_some hf, rfl⟩
  | none =>
    have := List.find?_eq_none.mp hf u hu
    simp [hh] at this

/-- Inside one slot: the views without `accept=` are tried in ascending `order`, and so are the
views of each media type. -/
theorem slot_groups_sorted_by_order (es : List DView) (o : Offer) :
    SortedBy byOrder (sortL byOrder (es.filter (·.accept = none))) ∧
    SortedBy byOrder (sortL byOrder (es.filter (·.accept = some o))) :=
  ⟨sortL_sorted byOrder_total _, sortL_sorted byOrder_total _⟩

/-- The candidates of a slot are exactly its registrations in force (no view is lost or invented),
when no view of the slot has `accept=`. -/
theorem slot_candidates_perm (es : List DView) (r : Request) (h : ∀ e ∈ es, e.accept = none) :
    (slotCandidates es r).Perm es := by
  rw [slotCandidates_no_accept es r h]; exact sortL_perm _ _

/-- **More predicates before fewer** — arithmetic of `PredicateList.make`, for all predicate lists over
the default predicate names with up to 20000 predicates (1000 custom ones are far inside):
a list with more predicates gets a strictly smaller `order`. -/
theorem more_preds_first (a b : List RawPred) (hlen : (mkPreds b).length < (mkPreds a).length)
    (hb : (mkPreds b).length ≤ 20000) : orderOf (mkPreds a) < orderOf (mkPreds b) := by
  have hk : ∀ ps : List RawPred, scoreOf (mkPreds ps) < 2 ^ 14 := by
    intro ps
    apply scoreOf_lt
    intro p hp
    have := mkPreds_kind ps p hp
    have h13 : Gen.C03.predNames.length = 13 := by decide
    have h1 : Gen.C03.weightShiftPlus = 1 := rfl
    omega
  have h1 := hk a
  have h2 := hk b
  simp only [orderOf, orderOfScore]
  have hM : Gen.C03.maxOrder = 1073741824 := rfl
  have hD : Gen.C03.orderDivPlus = 1 := rfl
  rw [hM, hD]
  apply order_lt_of_more _ _ _ _ _ hlen
  generalize scoreOf (mkPreds b) = s2 at *
  generalize (mkPreds b).length = n2 at *
  have hs2 : s2 ≤ 16383 := by omega
  calc (s2 + n2 + 1) * (n2 + 1) + s2 ≤ (16383 + 20000 + 1) * (20000 + 1) + 16383 :=
        Nat.add_le_add (Nat.mul_le_mul (by omega) (by omega)) hs2
    _ ≤ 1073741824 := by decide

/-- **Within one registration slot more predicates before fewer** — `_partial`: proved for slots in
which no view has an `accept=` option.  With `accept=` the real code (and the model) try the views of
the media types the request accepts *before* all others, whatever their predicate count: see
`accept_outranks_predicate_count` (finding F-C03a). -/
theorem more_predicates_first_in_slot_partial (regs : List ViewReg) (k : SlotKey) (r : Request)
    (hacc : ∀ reg ∈ regs, reg.key = k → reg.accept = none)
    (a b : ViewReg) (ha : derive a ∈ inForce (slotRegs regs k)) (hb : derive b ∈ inForce (slotRegs regs k))
    (hlen : (mkPreds b.raw).length < (mkPreds a.raw).length) (hbound : (mkPreds b.raw).length ≤ 20000) :
    ∃ pre post, slotCandidates (inForce (slotRegs regs k)) r = pre ++ derive a :: post ∧ derive b ∈ post := by
  have hnone : ∀ e ∈ inForce (slotRegs regs k), e.accept = none := by
    intro e he
    have := mem_inForce _ _ he
    simp only [slotRegs, List.mem_map, List.mem_filter, decide_eq_true_eq] at this
    obtain ⟨reg, ⟨hreg, hk⟩, rfl⟩ := this
    simp [derive, hacc reg hreg hk]
  rw [slotCandidates_no_accept _ r hnone]
  apply before_of_sorted _ (sortL_sorted byOrder_total _)
  · exact (mem_sortL _ _ _).mpr ha
  · exact (mem_sortL _ _ _).mpr hb
  · exact more_preds_first a.raw b.raw hlen hbound

private def reqAcc : Request where
  method := "GET"
  getParams := []
  postParams := []
  environ := [("HTTP_ACCEPT", "text/html"), ("HTTP_X_REQUESTED_WITH", "XMLHttpRequest")]
  pathInfo := "/"
  matchdict := none
  authenticated := false
  customTrue := []
  reTable := []
  accQ := [(0, 1000)]
  lineage := [[10]]
  physPath := some [""]
  permitted := true
  reqSro := [0, 50]
  ctxSro := [10, 0]
  viewName := ""

/-- The full statement "within one slot more predicates before fewer" does NOT hold for the code as
it is: view 1 has one predicate (`accept='text/html'`), view 2 of the same slot has two
(`request_method='GET'`, `xhr=True`), both hold for the request, and view 1 runs.
(Finding F-C03a; the harness replays this witness on the real code.) -/
theorem accept_outranks_predicate_count :
    let html : Offer := ⟨0, some 0, none, false⟩
    let regs : List ViewReg :=
      [⟨0, 0, 0, "", [], some (html, "text/html"), false, 1⟩,
       ⟨0, 0, 0, "", [⟨"request_method", false, .method ["GET"]⟩, ⟨"xhr", false, .xhr true⟩], none, false, 2⟩]
    coherentB regs = true ∧
    (derive regs[0]).preds.length = 1 ∧ (derive regs[1]).preds.length = 2 ∧
    (derive regs[0]).holds reqAcc = true ∧ (derive regs[1]).holds reqAcc = true ∧
    callView (registerAll regs) 0 reqAcc = .response 1 := by decide

/-! ## each built-in predicate holds exactly when its documented condition is true -/

/-- `request_method`: the request's method is one of the values; GET also allows HEAD. -/
theorem request_method_get_head (r : Request) (vals : List String) :
    (mkCond (.method vals)).eval r = true ↔ r.method ∈ vals ∨ (r.method = "HEAD" ∧ "GET" ∈ vals) := by
  simp only [mkCond, Cond.eval, List.contains_eq_mem, decide_eq_true_eq]
  exact mem_normMethods r.method vals

/-- `request_param='name'` (no `=`): the parameter is present (GET first, then POST; in each the last
value counts). -/
theorem request_param_present (r : Request) (p : String) (h : '=' ∉ p.toList) :
    (mkCond (.params [p])).eval r = true ↔ (r.param p).isSome = true := by
  have hparse : parseParam p = (p, none) := by
    simp only [parseParam]
    cases hcs : p.toList with
    | nil => simp [splitOnce]
    | cons c cs =>
      have hc : c ≠ '=' := fun e => h (by rw [hcs, e]; simp)
      have hn : splitOnce '=' (c :: cs) = none := splitOnce_none '=' _ (by rw [← hcs]; exact h)
      split
      · rename_i heq; simp at heq; exact absurd heq.1 hc
      · simp [hn]
  simp only [mkCond, sortedSet_single, List.map_cons, List.map_nil, hparse, Cond.eval, List.all_cons,
    List.all_nil, Bool.and_true]
  cases r.param p <;> simp

/-- `request_param='k=v'`: the parameter `k` (stripped) is present with exactly the value `v`
(stripped). -/
theorem request_param_kv (r : Request) (c : Char) (k v : List Char) (hc : c ≠ '=') (hk : '=' ∉ k) :
    (mkCond (.params [String.ofList (c :: k ++ '=' :: v)])).eval r = true ↔
      r.param (String.ofList (stripCs (c :: k))) = some (String.ofList (stripCs v)) := by
  have hparse : parseParam (String.ofList (c :: k ++ '=' :: v))
      = (String.ofList (stripCs (c :: k)), some (String.ofList (stripCs v))) := by
    simp only [parseParam, String.toList_ofList]
    have hs : splitOnce '=' (c :: k ++ '=' :: v) = some (c :: k, v) := by
      have := splitOnce_append '=' (c :: k) v (by simp [hc.symm, hk])
      simpa using this
    split
    · rename_i heq; simp at heq; exact absurd heq.1 hc
    · simp only [List.cons_append] at hs ⊢; rw [hs]
  simp only [mkCond, sortedSet_single, List.map_cons, List.map_nil, hparse, Cond.eval, List.all_cons,
    List.all_nil, Bool.and_true]
  cases r.param (String.ofList (stripCs (c :: k))) <;> simp

/-- `header='Name'`: the header is present (WebOb's case-insensitive, `-`/`_`-folding lookup);
`header='Name:regex'`: present and the regex matches at the start of its value. -/
theorem header_documented (r : Request) (name pat : String) :
    ((Cond.headers [(name, none)]).eval r = true ↔ (r.header name).isSome = true) ∧
    ((Cond.headers [(name, some pat)]).eval r = true ↔ ∃ value, r.header name = some value ∧ r.reMatch pat value = true) := by
  constructor
  · simp [Cond.eval]
  · simp only [Cond.eval, List.all_cons, List.all_nil, Bool.and_true]
    cases r.header name <;> simp

/-- `not_(…)` inverts (whenever the wrapped predicate has a non-empty phash text, which every
built-in predicate has). -/
theorem not_inverts (r : Request) (n : Nat) (name : String) (val : RawVal) (h : condText val ≠ "") :
    (mkPred n ⟨name, true, val⟩).eval r = !((mkPred n ⟨name, false, val⟩).eval r) := by
  have h2 : ("!" ++ condText val) ≠ "" := by
    intro e
    have := congrArg String.length e
    simp [String.length_append] at this
  simp [mkPred, Pred.eval, h, h2]

/-- the remaining built-in predicates, each against its documented condition -/
theorem builtin_predicates_documented (r : Request) :
    (∀ v, (mkCond (.xhr v)).eval r = true ↔ (r.isXhr = v)) ∧
    (∀ pat, (mkCond (.pathInfo pat)).eval r = true ↔ r.reMatch pat r.pathInfo = true) ∧
    (∀ o t, (mkCond (.accept o t)).eval r = true ↔ 0 < r.q o) ∧
    (∀ i t, (mkCond (.containment i t)).eval r = true ↔ ∃ loc ∈ r.lineage, i ∈ loc) ∧
    (∀ l t, (mkCond (.physicalPathSeq l t)).eval r = true ↔ r.physPath = some l) ∧
    (∀ v, (mkCond (.isAuthenticated v)).eval r = true ↔ r.authenticated = v) ∧
    (∀ i t, (mkCond (.custom i t)).eval r = true ↔ i ∈ r.customTrue) ∧
    (∀ k v, (Cond.matchParam [(k, v)]).eval r = true ↔
        ∃ md, r.matchdict = some md ∧ md ≠ [] ∧ (md.find? (·.1 = k)).map (·.2) = some v) := by
  refine ⟨?_, ?_, ?_, ?_, ?_, ?_, ?_, ?_⟩
  · intro v; simp [mkCond, Cond.eval]
  · intro pat; simp [mkCond, Cond.eval]
  · intro o t; simp [mkCond, Cond.eval]
  · intro i t; simp [mkCond, Cond.eval]
  · intro l t; simp [mkCond, Cond.eval]
  · intro v; simp [mkCond, Cond.eval]
  · intro i t; simp [mkCond, Cond.eval]
  · intro k v
    cases hmd : r.matchdict with
    | none => simp [Cond.eval, hmd]
    | some md =>
      cases md with
      | nil => simp [Cond.eval, hmd]
      | cons x xs => simp [Cond.eval, hmd]

/-- a view's predicates hold iff every single one does (`predicated_view` / `__predicated__`) -/
theorem holds_iff_all (v : DView) (r : Request) : v.holds r = true ↔ ∀ p ∈ v.preds, p.eval r = true := by
  simp [DView.holds, List.all_eq_true]

/-! ## non-vacuity -/

private def reqGet : Request where
  method := "HEAD"
  getParams := [("a", "2"), ("a", "1")]
  postParams := []
  environ := [("HTTP_X_A", "1")]
  pathInfo := "/"
  matchdict := none
  authenticated := false
  customTrue := []
  reTable := []
  accQ := []
  lineage := [[11, 10], [10]]
  physPath := some ["", "k1"]
  permitted := true
  reqSro := [1, 0, 50]
  ctxSro := [11, 10, 0]
  viewName := ""

/-- A population with a route-bound view, a more specific and a less specific context, a same-phash
override, a failing predicate and `GET ⇒ HEAD`: it is `Coherent`, five views compete, and the winner is
found by falling through the route-bound candidate (the lookup asks views 4 and 3, each once, and nothing after the
winner). -/
example :
    let regs : List ViewReg :=
      [⟨0, 0, 10, "", [], none, false, 1⟩,
       ⟨0, 0, 11, "", [⟨"request_method", false, .method ["POST"]⟩], none, false, 2⟩,
       ⟨0, 0, 11, "", [⟨"request_method", false, .method ["GET"]⟩, ⟨"request_param", false, .params ["a=1"]⟩], none, false, 3⟩,
       ⟨0, 1, 0, "", [⟨"header", false, .headers ["X-B"]⟩], none, false, 4⟩,
       ⟨0, 0, 11, "", [⟨"request_method", false, .method ["POST"]⟩], none, false, 5⟩,
       ⟨0, 0, 11, "", [], none, false, 6⟩]
    coherentB regs = true ∧
    (candidates regs 0 reqGet).map (·.tag) = [4, 3, 5, 6, 1] ∧
    callView (registerAll regs) 0 reqGet = .response 3 ∧ expectedView regs 0 reqGet = .response 3 ∧
    callViewAsked (registerAll regs) 0 reqGet = [4, 3] := by
  decide +kernel

/-- hypotheses of `more_preds_first` / `more_predicates_first_in_slot_partial` are satisfiable -/
example :
    let a : List RawPred := [⟨"xhr", false, .xhr true⟩, ⟨"custom", false, .custom 1 "custom:1"⟩, ⟨"custom", false, .custom 2 "custom:2"⟩]
    let b : List RawPred := [⟨"custom", false, .custom 1 "custom:1"⟩, ⟨"header", true, .headers ["X-A"]⟩]
    (mkPreds b).length < (mkPreds a).length ∧ (mkPreds b).length ≤ 20000 ∧
      orderOf (mkPreds a) = 268433407 ∧ orderOf (mkPreds b) = 357911200 := by decide

example : condText (.method ["GET"]) ≠ "" := by decide

end Pyr.ViewLookup
