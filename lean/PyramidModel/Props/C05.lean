import PyramidModel.Lemmas.SecurityPhases
import PyramidModel.Lemmas.SecurityConfig
import PyramidModel.TopoDerive
/-!
# C05 — a protected view body runs only after the security policy granted its permission

Property theorems only.  Model: `PyramidModel/Security.lean`; helper lemmas: `Lemmas/Security*.lean`.

Two groups.
* Obligations over the tables REGENERATED from the tree under test on every run (`Gen/C05.lean`): behavioural
  tables obtained by running that tree's code over finite domains (the observed wrapping order of the default deriver
  chain, `secured_view`, `_call_view`, `MultiView`, the exception-view tween, the phases of the effectful actions, the
  special directives) compared row by row with the model's functions, and one structural table (every place that can
  reach a view callable from the router passes `secure=True`).  All by `decide` over the whole table.
* Model theorems, for ALL configurations (any statements in any written order on top of any prior registry
  state), ALL policy decision tables and ALL requests: `mediation`, `refused_no_body_403`,
  `refused_no_body_partial` (+ the `decide`d witness of F-C05a), `unprotected_never_blocked`,
  `no_policy_never_blocked`, `views_see_final_policy`, `statement_order_irrelevant`, …
-/
namespace Pyr.Security

open Pyr.Topo Pyr.Gen.C05 Pyr.Gen.C18

/-! ## obligations over the tables regenerated from the tree under test

Most of these tables are BEHAVIOURAL: `extract/c05_probe.py` runs the code of the tree under test over a finite
domain and records what it does (Gen/C05.lean); the theorems below compare every row with what the MODEL's
functions compute for that row, so they hold for any source text that behaves the same and fail for any that does
not.  Only `router_paths_secure` is about the source text (every place in the tree that can reach a view). -/

/-- the sorter of `add_view_deriver` (C18's proven model) fed with the hints the running code recorded -/
def probedSorterResult : Option (List String) :=
  let known := probedHints.map (·.1)
  let id := nameId "INGRESS" "VIEW" known
  let s0 := mkSorter ⟨none, some "INGRESS", "INGRESS", "VIEW"⟩ known
  let ops : List AddOp := probedHints.map fun h => { name := id h.1, after := some (h.2.1.map id), before := some (h.2.2.map id) }
  match (s0.addAll ops).sorted with
  | .ok ids => some (ids.map fun i => known.getD (i - 20) "?")
  | _ => none

/-- The wrapping order OBSERVED on the tree under test (tracing derivers, a derived view called): only the two fixed
wrappers `attr_wrapped_view`, `predicated_view` are entered before `secured_view`; `mapped_view` (which calls the
user's callable) is entered last; the default derivers' own order is `secured_view` first; and C18's proven sorter
model, fed with the hints the running `add_view_deriver` recorded, predicts exactly the order the running sorter
returned. -/
theorem secured_outermost :
    probedWrapping = ["attr_wrapped_view", "predicated_view", "secured_view", "csrf_view", "owrapped_view",
                      "http_cached_view", "decorated_view", "rendered_view", "mapped_view"] ∧
    probedSorted.head? = some "secured_view" ∧ probedSorted.getLast? = some "mapped_view" ∧
    probedWrapping.takeWhile (fun n => n != "secured_view") = ["attr_wrapped_view", "predicated_view"] ∧
    probedWrapping.drop 2 = probedSorted ∧
    probedSorterResult = some probedSorted := by decide

/-- the layers the model interprets, as computed from the observed wrapping order -/
theorem chain_layers :
    chain = [.other, .predicated, .secured, .other, .owrapped, .other, .decorated, .other, .other] := by decide

/-- what the model theorems need of a chain: the permission check is reached before any user decorator code -/
theorem chain_ok : securedFirst chain = true := by decide

/-! ### the constraint graph behind the order, and replacements of built-in derivers

One sorted order is not robust: an application may REPLACE a built-in deriver by name (`add_view_deriver(f,
name='csrf_view', under=INGRESS, …)`), which drops the hints that name carried.  What keeps the other built-ins under
`secured_view` then is the constraint GRAPH: every built-in must be reachable "under" `secured_view` through hints that
do not pass through the replaced name. -/

def builtins : List String := probedHints.map (·.1)

/-- `(u, v)`: `v` is constrained to come after (under) `u` — from `v`'s `under` or from `u`'s `over` -/
def hintEdges : List (String × String) :=
  probedHints.flatMap fun h => h.2.1.map (fun u => (u, h.1)) ++ h.2.2.map (fun o => (h.1, o))

def stepReach (del : String) (cur : List String) : List String :=
  (cur ++ (hintEdges.filter fun e => cur.contains e.1 && e.2 != del).map (·.2)).eraseDups

def reachFrom (del : String) : Nat → List String → List String
  | 0, c => c
  | n + 1, c => reachFrom del n (stepReach del c)

/-- the built-ins that are held under `secured_view` ONLY through `x`: re-placing `x` re-places them with it -/
def dependents (x : String) : List String :=
  builtins.filter fun y => y != x && y != "secured_view" &&
    !(reachFrom x (builtins.length + 2) ["secured_view"]).contains y

/-- the placements of a replaced built-in that are enumerated: under INGRESS with the default `over`, both defaults,
under INGRESS over VIEW, under INGRESS over each other built-in -/
def replacementHints (x : String) : List DeriverOp :=
  [⟨x, some ["INGRESS"], none⟩, ⟨x, none, none⟩, ⟨x, some ["INGRESS"], some ["VIEW"]⟩] ++
  ((builtins.filter fun m => m != x).map fun m => ⟨x, some ["INGRESS"], some [m]⟩)

def replacementOk (x : String) (o : DeriverOp) : Bool :=
  match sortedDerivers [o] with
  | none => true     -- the sorter refuses the placement (cycle): nothing is configured
  | some l =>
    (builtins.all fun m => m == x || m == "secured_view" || (dependents x).contains m ||
      decide (l.idxOf "secured_view" < l.idxOf m)) &&
    (x == "decorated_view" || (dependents x).contains "decorated_view" ||
      securedFirst ((chainNamesFor [o]).map layerOf))

/-- **Replacing a built-in deriver does not move the others out from under the permission check.**  On the hints the
running `add_view_deriver` recorded: (a) the built-ins held under `secured_view` only through `x` are exactly the ones
the documented chain hangs below `x` — none for `csrf_view` ("nothing in the default pipeline depends on the order of
the csrf_view"), `mapped_view`, `rendered_view`; (b) through C18's sorter model: for every built-in `x ≠ secured_view`
re-added with any of the enumerated placements the sorter accepts, `secured_view` still sorts before every built-in
other than `x` and `x`'s dependents, and — unless the application re-placed `decorated_view` or something it hangs
below — the resulting chain reaches the permission check before the user's decorator (`securedFirst`). -/
theorem secured_outermost_under_replacement :
    builtins.map (fun x => (x, dependents x)) =
      [("secured_view", []),
       ("owrapped_view", ["http_cached_view", "decorated_view", "rendered_view"]),
       ("http_cached_view", ["decorated_view", "rendered_view"]),
       ("decorated_view", ["rendered_view"]),
       ("rendered_view", []), ("mapped_view", []), ("csrf_view", [])] ∧
    ((builtins.filter fun x => x != "secured_view").all fun x => (replacementHints x).all (replacementOk x)) = true := by
  decide +kernel

/-- non-vacuity of (b): the sorter model accepts e.g. the placement of the seeded scenario and keeps `secured_view`
above everything but the re-placed `csrf_view` -/
example : sortedDerivers [⟨"csrf_view", some ["INGRESS"], some ["owrapped_view"]⟩] =
    some ["csrf_view", "secured_view", "owrapped_view", "http_cached_view", "decorated_view", "rendered_view",
          "mapped_view"] := by decide +kernel

/-- The action whose EXECUTION registers the security policy (`set_security_policy`; for the legacy pair the
authentication policy's action, which installs the shim policy) and the one that registers the default permission
carry an `order` below that of the action that registers a view — observed by executing the queued actions of each
directive one by one on the tree under test.  So a view derived in the same commit scope sees them, whatever the
written order (`views_see_final_policy`). -/
theorem policy_visible_at_derivation : PhasesOK :=
  ⟨by decide, by decide, by decide⟩

/-- the observed phase table -/
theorem phase_table :
    phaseConstants = [("PHASE0_CONFIG", -30), ("PHASE1_CONFIG", -20), ("PHASE2_CONFIG", -10), ("PHASE3_CONFIG", 0)] ∧
    phasePolicy = -10 ∧ phaseLegacy = -10 ∧ phaseDefault = -20 ∧ phaseView = 0 ∧
    lookupOrder "add_route" 99999 = -10 ∧ lookupOrder "add_view_deriver" 99999 = -20 := by decide

/-- the audited list (sorted) of every place in `src/pyramid` that calls a view-lookup entry point or touches
`__call_permissive__`; a site inside a module-level helper is listed under the same-module functions that call the
helper (`preserve_view_attrs` ↦ `wraps_view.inner`, `runtime_exc_view` ↦ `add_view.register`, `_error_handler` ↦
`excview_tween`), so extracting or inlining such a helper does not change the table -/
def auditedCallSites : List CallSite := [
  ⟨"config/views.py", "MultiView.__call_permissive__", "str:__call_permissive__", "", ""⟩,
  ⟨"config/views.py", "ViewsConfiguratorMixin.add_view.register", "attr:__call_permissive__:store", "", ""⟩,
  ⟨"config/views.py", "ViewsConfiguratorMixin.add_view.register", "str:__call_permissive__", "", ""⟩,
  ⟨"config/views.py", "ViewsConfiguratorMixin.add_view.register_view", "str:__call_permissive__", "", ""⟩,
  ⟨"router.py", "Router.handle_request", "call:_call_view", "default", ""⟩,
  ⟨"tweens.py", "excview_tween_factory.excview_tween", "call:request.invoke_exception_view", "default", ""⟩,
  ⟨"view.py", "ViewMethodsMixin.invoke_exception_view", "call:_call_view", "secure", ""⟩,
  ⟨"view.py", "_call_view", "str:__call_permissive__", "", "secure=false"⟩,
  ⟨"view.py", "render_view", "call:render_view_to_iterable", "secure", ""⟩,
  ⟨"view.py", "render_view_to_iterable", "call:render_view_to_response", "secure", ""⟩,
  ⟨"view.py", "render_view_to_response", "call:_call_view", "secure", ""⟩,
  ⟨"viewderivers.py", "_secured_view", "attr:__call_permissive__:store", "", ""⟩,
  ⟨"viewderivers.py", "owrapped_view._owrapped_view", "call:render_view_to_response", "default", ""⟩,
  ⟨"viewderivers.py", "rendered_view.rendered_view", "call:*.render_view", "", ""⟩,
  ⟨"viewderivers.py", "wraps_view.inner", "str:__call_permissive__", "", ""⟩
]

/-- the functions a request travels through from `Router.__call__` to a view callable -/
def routerReachable : List String :=
  ["Router.handle_request", "_error_handler", "excview_tween_factory.excview_tween",
   "ViewMethodsMixin.invoke_exception_view", "owrapped_view._owrapped_view"]

def viewLookupCalls : List String :=
  ["call:_call_view", "call:request.invoke_exception_view", "call:render_view_to_response",
   "call:render_view_to_iterable", "call:render_view"]

/-- a call site leaves `secure` at its default, or is `invoke_exception_view` handing on its own `secure`
parameter (whose only caller, `_error_handler`, leaves it at the default) -/
def passesSecure (s : CallSite) : Bool :=
  s.arg == "default" || s.arg == "True" ||
    (s.arg == "secure" && s.func == "ViewMethodsMixin.invoke_exception_view")

/-- STRUCTURAL (python `ast` over the whole tree).  The call-site table equals the audited whitelist; every lookup
made by a function on the router's path passes `secure=True` (all defaults, read off the live signatures, are
`True`); the only caller-side use of the permissive handle is `_call_view`'s, reachable only when `secure` is false
(`if not secure:` and `if secure: … else:` are the same guard); nothing in the tree passes `secure=False`. -/
theorem router_paths_secure :
    callSites = auditedCallSites ∧
    (∀ s ∈ callSites, s.func ∈ routerReachable → s.what ∈ viewLookupCalls → passesSecure s = true) ∧
    secureDefaults = [("_call_view", "True"), ("render_view_to_response", "True"), ("render_view_to_iterable", "True"),
                      ("render_view", "True"), ("invoke_exception_view", "True")] ∧
    (∀ s ∈ callSites, s.func = "_call_view" → s.what = "str:__call_permissive__" → s.guard = "secure=false") ∧
    (∀ s ∈ callSites, s.what ≠ "kw:secure=False") := by decide

/-! ### `secured_view`, probed -/

def decodePerm (code id : Nat) : PermArg := if code = 0 then .absent else if code = 1 then .name id else .npr

def encEv : Event → Nat
  | .permits _ p _ => 9 + p
  | .body t _ _ _ => t
  | .mainRaised k => 1000 + k
  | .deco t _ _ => 500 + t

def encOut : Outcome → List Nat
  | .resp t => [0, t]
  | .none => [1]
  | .mismatch => [2]
  | .raised k => [3, k]
  | .perm b => [4, if b then 1 else 0]

/-- what the MODEL says about one probed run of `secured_view(view, info)`: the guard is `effPerm` (explicit name
↦ 1, default name ↦ 2) when a policy is registered; `__call_permissive__` is the wrapped view; calling the result is
the `secured` layer over the body (tag 20): `permits(request, context, guard)` first, the body only on a truthy
answer, HTTPForbidden otherwise; `__permitted__` is that answer. -/
def securedRowOk (r : SecuredRow) : Bool :=
  let g := if r.policy then effPerm (decodePerm r.dflt 2) (decodePerm r.perm 1) r.excOnly else none
  let d : DView := { tag := 20, name := 0, route := 0, ctxClass := 0, exc := r.excOnly, order := 0, preds := [],
                     guard := g, wrapper := none, act := 0 }
  let res := runLayers (fun _ => ([], .none)) (fun _ _ => r.truthy) [] 7 d [.secured]
  r.guard == g.getD 0 && r.permissiveInner &&
  r.trace == res.1.map encEv &&
  [r.outcome] == (match res.2 with | .resp _ => [0] | .raised k => if k = kForbidden then [1] else [9] | _ => [9]) &&
  r.permitted == (match g with | none => 2 | some _ => if r.truthy then 1 else 0)

/-- BEHAVIOURAL (replaces the source-shape obligation).  The registered deriver `secured_view`, run on the tree under
test over permission {absent, name, marker} × exception_only × default permission {unset, name, marker} × policy
{absent, answering `True False 1 0 'yes' '' None Allowed Denied`} — 180 runs — behaves in every run as the model's
`effPerm` + `secured` layer say. -/
theorem secured_view_behaviour :
    securedProbe.length = 180 ∧ securedProbe.all securedRowOk = true := by decide +kernel

/-! ### `_call_view`, probed -/

def probeView (tag : Nat) : DView :=
  { tag := tag, name := 0, route := 0, ctxClass := 0, exc := false, order := 0, preds := [], guard := none,
    wrapper := none, act := 0 }

def kindRes (tag kind : Nat) : Res :=
  ([.body tag false 0 none], if kind = 0 then .resp tag else if kind = 1 then .mismatch else .raised kForbidden)

/-- the model's `_call_view` loop on the probed callables: each found callable is a one-view slot; `run` is the
callable itself, `runP` its permissive handle when it has one -/
def callViewRowOk (r : CallViewRow) : Bool :=
  let spec := fun (d : DView) => r.views.getD (d.tag - 1) (9, false)
  let run := fun (d : DView) => kindRes d.tag (spec d).1
  let runP := fun (d : DView) => if (spec d).2 then (([.body (100 + d.tag) false 0 none], .resp (100 + d.tag)) : Res) else run d
  let slots := (List.range r.views.length).map fun i => [probeView (i + 1)]
  let res := callSlots (callSlot run runP (fun _ => true) r.secure) slots false
  r.events == res.1.map encEv && r.out == encOut res.2

/-- BEHAVIOURAL.  `_call_view` on the tree under test over 0–2 found callables × {response, PredicateMismatch,
HTTPForbidden} × {plain, with a permissive handle} × `secure` (86 runs): it calls the callables themselves when
`secure=True` and the permissive handle only when `secure=False`, stops at the first that does not raise
`PredicateMismatch`, lets HTTPForbidden through, re-raises the last mismatch, returns `None` when nothing was found —
exactly the model's `callSlots`/`callSlot`. -/
theorem call_view_behaviour :
    callViewProbe.length = 86 ∧ callViewProbe.all callViewRowOk = true := by decide +kernel

/-! ### `MultiView`, probed -/

def mvSpec (r : MultiRow) (d : DView) : Nat × Nat := r.views.getD (d.tag - 1) (9, 9)

/-- a constituent as the secured, predicated callable it is: predicate false ⇒ mismatch; unsecured ⇒ body (100+i);
secured ⇒ "policy asked" (200+i), then body or HTTPForbidden -/
def mvRun (r : MultiRow) (d : DView) : Res :=
  let ps := mvSpec r d
  if ps.1 = 2 then ([], .mismatch)
  else if ps.2 = 0 then ([.body (100 + d.tag) false 0 none], .resp d.tag)
  else if ps.2 = 1 then ([.body (200 + d.tag) false 0 none, .body (100 + d.tag) false 0 none], .resp d.tag)
  else ([.body (200 + d.tag) false 0 none], .raised kForbidden)

def mvRunP (r : MultiRow) (d : DView) : Res :=
  if (mvSpec r d).2 = 0 then mvRun r d else ([.body (100 + d.tag) false 0 none], .resp d.tag)

def mvViews (r : MultiRow) : List DView :=
  (List.range r.views.length).map fun i =>
    { probeView (i + 1) with guard := if (r.views.getD i (9, 9)).2 = 0 then none else some (200 + i + 1) }

def multiRowOk (r : MultiRow) : Bool :=
  let ds := mvViews r
  let holds := fun (d : DView) => (mvSpec r d).1 != 2
  let call := callMulti (mvRun r) ds
  let perm := callSlot (mvRun r) (mvRunP r) holds false ds
  let w : World := { pol := fun _ p => (r.views.getD (p - 201) (9, 9)).2 == 1, excSro := fun _ => [] }
  let pmt := multiPermitted w 0 holds ds
  r.callEv == call.1.map encEv && r.callOut == encOut call.2 &&
  (r.views.length == 1 || (r.permEv == perm.1.map encEv && r.permOut == encOut perm.2)) &&
  r.pmtEv == pmt.1.map (fun e => match e with | .permits _ p _ => p | _ => 0) &&
  r.pmtOut == (match pmt.2 with | .raised _ => [2] | o => encOut o)

/-- BEHAVIOURAL.  `MultiView.__call__` / `__call_permissive__` / `__permitted__` on the tree under test over 0–2
constituents × predicate {none, true, false} × {unsecured, secured+granted, secured+refused} (91 multiviews): `__call__`
calls each constituent ITSELF (never its permissive handle) and only swallows `PredicateMismatch` (`callMulti`);
`__call_permissive__` takes the first constituent whose predicate holds and calls its permissive handle;
`__permitted__` asks that constituent's `__permitted__` or answers `True`.  (A one-element MultiView never exists in a
registry, so the permissive comparison skips those rows.) -/
theorem multiview_behaviour :
    multiViewProbe.length = 91 ∧ multiViewProbe.all multiRowOk = true := by decide +kernel

/-! ### the exception-view tween, probed -/

def tweenRowOk (r : Nat × Bool × List Nat × List Nat) : Bool :=
  let kind := r.1
  if kind = 9 then r.2.2.1 == [] && r.2.2.2 == [0, 7]
  else
    -- the outcome of the exception-view lookup as `_call_view` reports it
    let o : Outcome := if kind = 0 then .none else if kind = 1 then .resp 1 else if kind = 2 then .mismatch
                       else if kind = 3 then .raised kNotFound else if kind = 4 then .raised kForbidden else .raised 2
    r.2.2.1 == (if kind = 0 then [50] else [50, 1]) && r.2.2.2 == encOut (excOutcome 1 o)

/-- BEHAVIOURAL.  `excview_tween` + `Request.invoke_exception_view` on the tree under test, handler raising an
exception of kind 1, one exception view of each behaviour × {plain, with a permissive handle}: the exception view is
called ITSELF (event 1, never the permissive handle 101 — `secure=True` on this path); no view / `PredicateMismatch` /
`HTTPNotFound` ⇒ the ORIGINAL exception is re-raised; a response is returned; HTTPForbidden or anything else the
exception view raises propagates — the model's `excOutcome`; a handler that returns is passed through. -/
theorem tween_behaviour :
    tweenProbe.length = 12 ∧ tweenProbe.all tweenRowOk = true := by decide

/-- BEHAVIOURAL.  On the tree under test, `render_view_to_response` calls the found view ITSELF (permission check
included) when `secure` is left at its default or is `True`, and its permissive handle only for `secure=False`; the
wrapper lookup made by `owrapped_view` (after the inner view, event 50) calls the wrapper view itself.  Together with
`call_view_behaviour`, `multiview_behaviour` and `tween_behaviour` every component on the router's path is observed never
to take the permissive handle — whatever helper functions the source is split into. -/
theorem entry_points_behaviour :
    entryProbe = [("render:default", [1]), ("render:True", [1]), ("render:False", [101]), ("owrapped", [50, 1])] := by
  decide

/-- BEHAVIOURAL.  The shim policy the legacy authentication + authorization pair installs
(`LegacySecurityPolicy.permits`), called on ONE request for (c1,p), (c2,p), (c1,q), (c1,p): every call asks the
AUTHORIZATION policy exactly once, about exactly (that context, the authentication policy's effective principals, that
permission), and passes its answer on — no answer is carried over from an earlier call with the same permission name or
the same context (a question is coded 100·context + 10·permission + 1 when the principals are the effective ones).
(This is what lets the model treat the legacy pair as a policy function of (context, permission).) -/
theorem legacy_shim_behaviour :
    legacyShimProbe = [(1, 1, [111], true), (2, 1, [211], false), (1, 2, [121], false), (1, 1, [111], true)] := by
  decide

/-- `excPhase` is the exception-view lookup followed by `excOutcome` -/
theorem excPhase_outcome (views : List DView) (w : World) (q : Req) (k : Nat) :
    (excPhase chain views w q k).2 =
      excOutcome k (callView chain views w q.wrapIfaces q.preds (fuelFor views) true q.excIfaces (w.excSro k) 0
        (excCtx k) true).2 := by
  simp only [excPhase, excOutcome]
  split <;> try rfl
  split <;> rfl

/-- BEHAVIOURAL.  Under a security policy AND a default permission, the callables derived for `add_forbidden_view`
/ `add_notfound_view` / `add_exception_view` and for `add_static_view` without `permission=` carry no permission
wrapper; the first three are exception-only and reject a `permission` argument (static honours one). -/
theorem special_directives_table :
    specialDirectives = [
      ("add_forbidden_view", "unguarded", true, true),
      ("add_notfound_view", "unguarded", true, true),
      ("add_exception_view", "unguarded", true, true),
      ("add_static_view", "unguarded", false, false)] := by decide

/-! ### the `viewdefaults` merge, probed -/

def vdCode (code id : Nat) : Option PermArg :=
  if code = 0 then none else if code = 1 then some .absent else if code = 2 then some (.name id) else some .npr

def viewDefaultsRowOk (r : Nat × Nat × Nat × Nat × Nat) : Bool :=
  let v : ViewStmt := { tag := 1, name := 0, route := 0, ctxClass := 0, isExcCtx := false, excOnly := false,
                        perm := decodePerm r.2.2.1 1, order := 0, preds := [], wrapper := none, act := 0,
                        vdOwn := vdCode r.2.1 3, vdBase := vdCode r.1 2 }
  r.2.2.2.2 == ((deriveOne true (if r.2.2.2.1 = 0 then .absent else .name 4) v false).guard).getD 0

/-- BEHAVIOURAL.  `config.add_view(Sub, attr=…)` on the tree under test, under a policy, over base class {undecorated,
`@view_defaults` without permission, a name, the marker} × the class itself {same} × explicit `permission=` {absent, a
name, the marker} × default permission {unset, set} (96 runs): the derived callable's guard is the model's
`effPerm dflt (stmtPerm v)` — explicit argument, else the class's `__view_defaults__` found by ordinary attribute
lookup (own replaces inherited wholesale; an undecorated subclass inherits), else the default permission.  A
class-level permission makes the forbidden / notfound / exception directives refuse the class. -/
theorem view_defaults_behaviour :
    viewDefaultsProbe.length = 96 ∧ viewDefaultsProbe.all viewDefaultsRowOk = true ∧
    classPermissionRejected = [("add_forbidden_view", true), ("add_notfound_view", true), ("add_exception_view", true)] := by
  decide +kernel

/-! ## configuration: effective permission, and independence of the written order -/

/-- The effective permission as the statement defines it: the explicit permission; otherwise the default
permission unless it is an exception view; the marker (explicit or as the default) means none. -/
theorem effective_permission_spec (dflt perm : PermArg) (excView : Bool) (p : Nat) :
    effPerm dflt perm excView = some p ↔
      perm = .name p ∨ (perm = .absent ∧ excView = false ∧ dflt = .name p) := by
  cases perm <;> cases excView <;> cases dflt <;> simp [effPerm]

/-- … with the view-defaults layer in front: the explicit `permission=` argument; otherwise the `permission` of the
class's `__view_defaults__` — the class's own if it has one, else an inherited one; otherwise (no class-level
permission) the default permission unless it is an exception view; the marker at any of the three levels means none. -/
theorem effective_permission_of_statement (dflt : PermArg) (v : ViewStmt) (excView : Bool) (p : Nat) :
    effPerm dflt (stmtPerm v) excView = some p ↔
      v.perm = .name p ∨
      (v.perm = .absent ∧ classDefault v.vdOwn v.vdBase = .name p) ∨
      (v.perm = .absent ∧ classDefault v.vdOwn v.vdBase = .absent ∧ excView = false ∧ dflt = .name p) := by
  rw [effective_permission_spec]
  cases hp : v.perm <;> simp [stmtPerm, hp]

/-- which `__view_defaults__` counts: the class's own replaces an inherited one wholesale (even when it names no
permission); an undecorated subclass sees its base's -/
theorem class_default_lookup (own base : Option PermArg) :
    classDefault own base = (match own, base with
      | some p, _ => p
      | none, some p => p
      | none, none => .absent) := by
  cases own <;> cases base <;> rfl

/-- After one commit scope, on top of ANY prior registry state and for ANY written order of the statements: the
policy flag and the default permission are the scope's final ones, and the registered views are the prior ones
followed by the scope's view statements (in the order written), each derived against the FINAL policy flag and
default permission. -/
theorem views_see_final_policy (r0 : Reg) (stmts : List Stmt) :
    (configure r0 stmts).policy = policyAfter r0 stmts ∧
    (configure r0 stmts).dflt = dfltAfter r0 stmts ∧
    (configure r0 stmts).views =
      r0.views ++ derivedOf (policyAfter r0 stmts) (dfltAfter r0 stmts) (viewStmts stmts) :=
  configure_spec policy_visible_at_derivation r0 stmts

/-- Every registered derived view is a prior one or comes from a view statement of the scope, and then its guard
is exactly the statement's effective permission when a policy is configured (anywhere in the scope or before),
and absent when none is. -/
theorem guard_is_effective_permission (r0 : Reg) (stmts : List Stmt) (d : DView)
    (hd : d ∈ (configure r0 stmts).views) :
    d ∈ r0.views ∨
    ∃ dir v, Stmt.addView dir v ∈ stmts ∧ d.tag = v.tag ∧
      (d.exc = true → (lower dir v).isExcCtx = true) ∧ (d.exc = false → (lower dir v).excOnly = false) ∧
      d.guard = if policyAfter r0 stmts then effPerm (dfltAfter r0 stmts) (stmtPerm (lower dir v)) d.exc else none := by
  rw [(views_see_final_policy r0 stmts).2.2] at hd
  rcases List.mem_append.mp hd with h | h
  · exact Or.inl h
  · right
    simp only [derivedOf, List.mem_flatMap, viewStmts, List.mem_filterMap] at h
    obtain ⟨⟨dir, v⟩, ⟨s, hs, hsv⟩, hmem⟩ := h
    have hst : s = Stmt.addView dir v := by
      cases s <;> simp [viewOf] at hsv
      obtain ⟨rfl, rfl⟩ := hsv; rfl
    subst hst
    refine ⟨dir, v, hs, ?_⟩
    simp only [deriveBoth, List.mem_append] at hmem
    have hlt : (lower dir v).tag = v.tag := by
      simp only [lower]
      split
      · split <;> rfl
      · split
        · split <;> rfl
        · rfl
    rcases hmem with h | h
    · split at h
      · cases h
      · next hne =>
        simp only [List.mem_singleton] at h
        subst h
        exact ⟨hlt, by simp [deriveOne], by intro _; simpa using hne, by simp [deriveOne]⟩
    · split at h
      · next he =>
        simp only [List.mem_singleton] at h
        subst h
        exact ⟨hlt, by intro _; exact he, by simp [deriveOne], by simp [deriveOne]⟩
      · cases h

/-- "In whatever order the configuration was written": two scopes holding the same statements in different
orders (with at most one `set_default_permission`, which is what the configurator accepts without a conflict)
register the same derived views. -/
theorem statement_order_irrelevant (r0 : Reg) (stmts stmts' : List Stmt) (hp : stmts.Perm stmts')
    (h1 : (stmts.filterMap defOf).length ≤ 1) (d : DView) :
    d ∈ (configure r0 stmts).views ↔ d ∈ (configure r0 stmts').views := by
  have hpol : policyAfter r0 stmts = policyAfter r0 stmts' := by
    simp only [policyAfter]; rw [hp.any_eq]
  have hd : stmts.filterMap defOf = stmts'.filterMap defOf := by
    have hpf := hp.filterMap defOf
    match hl : stmts.filterMap defOf, h1 with
    | [], _ => rw [hl] at hpf; exact (List.nil_perm.mp hpf).symm
    | [x], _ => rw [hl] at hpf; exact List.singleton_perm.mp hpf
    | _ :: _ :: _, h => simp at h
  have hdf : dfltAfter r0 stmts = dfltAfter r0 stmts' := by simp only [dfltAfter, hd]
  rw [(views_see_final_policy r0 stmts).2.2, (views_see_final_policy r0 stmts').2.2, hpol, hdf]
  simp only [List.mem_append, derivedOf, List.mem_flatMap]
  have hv : ∀ x, x ∈ viewStmts stmts ↔ x ∈ viewStmts stmts' := fun x => (hp.filterMap viewOf).mem_iff
  constructor
  · rintro (h | ⟨x, hx, hm⟩)
    · exact Or.inl h
    · exact Or.inr ⟨x, (hv x).mp hx, hm⟩
  · rintro (h | ⟨x, hx, hm⟩)
    · exact Or.inl h
    · exact Or.inr ⟨x, (hv x).mpr hx, hm⟩

/-- a statement whose permission is the marker is derived without a guard, in both variants -/
theorem guard_none_of_npr (policy : Bool) (dflt : PermArg) (v : ViewStmt) (h : v.perm = .npr) :
    ∀ d ∈ deriveBoth policy dflt v, d.guard = none := by
  intro d hd
  simp only [deriveBoth, List.mem_append] at hd
  have hb : ∀ b, (deriveOne policy dflt v b).guard = none := by intro b; simp [deriveOne, effPerm, stmtPerm, h]
  rcases hd with hd | hd <;> split at hd <;>
    first
    | (simp only [List.mem_singleton] at hd; subst hd; exact hb _)
    | cases hd

/-- Forbidden, not-found and exception views (whatever the directive was given) and static views without an
explicit permission are derived without a guard, under any policy and any default permission. -/
theorem special_views_unprotected (policy : Bool) (dflt : PermArg) (dir : Nat) (v : ViewStmt)
    (hdir : dir = 1 ∨ dir = 2 ∨ dir = 3 ∨ (dir = 4 ∧ v.perm = .absent)) :
    ∀ d ∈ deriveBoth policy dflt (lower dir v), d.guard = none := by
  have f1 : forcedPerm "add_forbidden_view" = some .npr := by decide
  have f2 : forcedPerm "add_notfound_view" = some .npr := by decide
  have f3 : forcedPerm "add_exception_view" = some .npr := by decide
  have f4 : forcedPerm "add_static_view" = some .npr := by decide
  apply guard_none_of_npr
  rcases hdir with rfl | rfl | rfl | ⟨rfl, hv⟩
  · simp [lower, directiveName, f1]
  · simp [lower, directiveName, f2]
  · simp [lower, directiveName, f3]
  · simp [lower, directiveName, f4, hv]

/-! ## the central theorem -/

/-- **Mediation.**  For every prior registry state, every list of statements in every written order, every
policy decision table, every exception-class table and every request: in the event trace of the request through
the router and the exception-view tween, every body event belongs to a registered derived view (same tag,
variant and guard — and by `guard_is_effective_permission` the guard is the view's effective permission), and if
that guard is `p`, then `permits(ctx, p) ↦ true` stands earlier in the trace for the very context the body sees,
the policy's table really grants `(ctx, p)`, and no body at all lies between the grant and the body. -/
theorem mediation (ch : List Layer) (hch : securedFirst ch = true) (r0 : Reg) (stmts : List Stmt) (w : World) (q : Req)
    (i tag : Nat) (exc : Bool) (ctx : Nat) (g : Option Nat)
    (hi : (handle ch (configure r0 stmts).views w q).1[i]? = some (.body tag exc ctx g)) :
    (∃ d ∈ (configure r0 stmts).views, d.tag = tag ∧ d.exc = exc ∧ d.guard = g) ∧
    (∀ p, g = some p → ∃ j, j < i ∧
      (handle ch (configure r0 stmts).views w q).1[j]? = some (.permits ctx p true) ∧ w.pol ctx p = true ∧
      ∀ k, j < k → k < i → ∀ e, (handle ch (configure r0 stmts).views w q).1[k]? = some e → e.isBody = false) := by
  have h := handle_parts hch (configure r0 stmts).views w q
  exact mediated_of_good h.1 h.2.1 h.2.2.1 i tag exc ctx g hi

/-- Mediation read against the configuration as written: the view whose body ran is a prior registration or one
of the scope's view statements (same tag), and in the latter case the guard the grant was checked for is that
statement's effective permission under the scope's final policy / default permission — wherever in the scope
`set_security_policy` / `set_default_permission` were written. -/
theorem mediation_end_to_end (ch : List Layer) (hch : securedFirst ch = true) (r0 : Reg) (stmts : List Stmt) (w : World) (q : Req)
    (i tag : Nat) (exc : Bool) (ctx : Nat) (g : Option Nat)
    (hi : (handle ch (configure r0 stmts).views w q).1[i]? = some (.body tag exc ctx g)) :
    ((∃ d ∈ r0.views, d.tag = tag ∧ d.exc = exc ∧ d.guard = g) ∨
     (∃ dir v, Stmt.addView dir v ∈ stmts ∧ v.tag = tag ∧
        g = if policyAfter r0 stmts then effPerm (dfltAfter r0 stmts) (stmtPerm (lower dir v)) exc else none)) ∧
    (∀ p, g = some p → ∃ j, j < i ∧
      (handle ch (configure r0 stmts).views w q).1[j]? = some (.permits ctx p true) ∧ w.pol ctx p = true) := by
  have h := mediation ch hch r0 stmts w q i tag exc ctx g hi
  obtain ⟨⟨d, hd, ht, he, hg⟩, h2⟩ := h
  refine ⟨?_, ?_⟩
  · rcases guard_is_effective_permission r0 stmts d hd with h0 | ⟨dir, v, hs, htag, _, _, hgd⟩
    · exact Or.inl ⟨d, h0, ht, he, hg⟩
    · refine Or.inr ⟨dir, v, hs, by rw [← htag, ht], ?_⟩
      rw [← hg, hgd, he]
  · intro p hp
    obtain ⟨j, hj, hjl, hpol, _⟩ := h2 p hp
    exact ⟨j, hj, hjl, hpol⟩

/-- the same for `render_view_to_response(…, secure=True)` called directly (and hence for `render_view`,
`render_view_to_iterable`) -/
theorem mediation_render (ch : List Layer) (hch : securedFirst ch = true) (r0 : Reg) (stmts : List Stmt) (w : World) (q : Req)
    (i tag : Nat) (exc : Bool) (ctx : Nat) (g : Option Nat)
    (hi : (render ch (configure r0 stmts).views w q true).1[i]? = some (.body tag exc ctx g)) :
    (∃ d ∈ (configure r0 stmts).views, d.tag = tag ∧ d.exc = exc ∧ d.guard = g) ∧
    (∀ p, g = some p → ∃ j, j < i ∧
      (render ch (configure r0 stmts).views w q true).1[j]? = some (.permits ctx p true) ∧ w.pol ctx p = true ∧
      ∀ k, j < k → k < i → ∀ e, (render ch (configure r0 stmts).views w q true).1[k]? = some e → e.isBody = false) := by
  have h := render_inv hch (configure r0 stmts).views w q
  exact mediated_of_good h.good h.tru h.src i tag exc ctx g hi

/-- The policy is asked only about permissions some registered view is guarded by, and the recorded answer is
the decision table's. -/
theorem asked_exactly (ch : List Layer) (hch : securedFirst ch = true) (r0 : Reg) (stmts : List Stmt) (w : World) (q : Req) (c p : Nat) (a : Bool)
    (h : Event.permits c p a ∈ (handle ch (configure r0 stmts).views w q).1) :
    a = w.pol c p ∧ ∃ d ∈ (configure r0 stmts).views, d.guard = some p := by
  have hp := handle_parts hch (configure r0 stmts).views w q
  refine ⟨?_, hp.2.2.2 c p a h⟩
  have := hp.2.1
  simp only [truthful, List.all_eq_true] at this
  simpa [truthfulEv] using this _ h

/-! ## refusal -/

/-- **Refusal in the main phase ⇒ no body, 403 handling.**  If the policy refuses while the router is looking up
and calling the view for the request (the view itself, a multiview constituent, or a wrapper view), the refusal
is the LAST event of the main phase — no body runs after it — the main handler raises HTTPForbidden, and the
request continues exactly as the exception-view lookup for HTTPForbidden (the forbidden view, or the framework's
exception-response view giving the 403). -/
theorem refused_no_body_403 (ch : List Layer) (hch : securedFirst ch = true) (views : List DView) (w : World) (q : Req) (i c p : Nat)
    (hi : (mainPhase ch views w q).1[i]? = some (.permits c p false)) :
    i + 1 = (mainPhase ch views w q).1.length ∧
    (mainPhase ch views w q).2 = .raised kForbidden ∧
    handle ch views w q =
      ((mainPhase ch views w q).1 ++ .mainRaised kForbidden :: (excPhase ch views w q kForbidden).1,
       (excPhase ch views w q kForbidden).2) := by
  have hm := mainPhase_inv hch views w q
  have ht := tight_refusal _ i _ hm.tgt hi rfl
  refine ⟨ht.1, ht.2, ?_⟩
  rcases handle_eq ch views w q with ⟨k, hk, he⟩ | ⟨hne, _⟩
  · rw [ht.2] at hk; injection hk with hk; subst hk; exact he
  · exact absurd ht.2 (hne kForbidden)

/-- **Refusal while an exception is being rendered (partial).**  When the refused view is an exception view
invoked by the excview tween (or its wrapper view), the body still does not run — the refusal is the last event —
but the outcome is the HTTPForbidden itself, raised out of the tween: nothing renders it.  What is missing
against the statement ("the forbidden (403) handling runs instead") is shown by
`refused_exception_view_unrendered` (finding F-C05a). -/
theorem refused_no_body_partial (ch : List Layer) (hch : securedFirst ch = true) (views : List DView) (w : World) (q : Req) (k i c p : Nat)
    (hi : (excPhase ch views w q k).1[i]? = some (.permits c p false)) :
    i + 1 = (excPhase ch views w q k).1.length ∧ (excPhase ch views w q k).2 = .raised kForbidden := by
  have hm := excPhase_inv hch views w q k
  exact tight_refusal _ i _ hm.tgt hi rfl

/-- the witness configuration of F-C05a: a policy, a view whose body raises E1 (kind 11), and an exception-only
view for E1 protected by permission 1 -/
def witnessStmts : List Stmt :=
  [ .addView 0 { tag := 1, name := 0, route := 0, ctxClass := 0, isExcCtx := false, excOnly := false, perm := .absent,
                 order := 0, preds := [], wrapper := none, act := 11 },
    .addView 0 { tag := 2, name := 0, route := 0, ctxClass := 11, isExcCtx := true, excOnly := true, perm := .name 1,
                 order := 0, preds := [], wrapper := none, act := 0 },
    .setPolicy false ]

def witnessWorld (deny : Nat → Nat → Bool) : World :=
  { pol := fun c p => !deny c p, excSro := fun k => if k = 11 then [11, 10, 0] else if k = 13 then [13, 15, 10, 0] else [0] }

def witnessReq : Req := { ctx := 1, sro := [1, 0], ifaces := [0], excIfaces := [0], wrapIfaces := [0], name := 0, preds := [] }

/-- **F-C05a** (replayed on the real code by the harness): the policy refuses permission 1 on the E1 exception;
the exception view's body (tag 2) does not run, but the request ends as a raised HTTPForbidden — the
exception-view lookup for HTTPForbidden (kind 13) never happens: no second `mainRaised`, no 403 response. -/
theorem refused_exception_view_unrendered :
    handle chain (configure {} witnessStmts).views (witnessWorld fun c p => c == 111 && p == 1) witnessReq =
      ([.body 1 false 1 none, .mainRaised 11, .permits 111 1 false], .raised kForbidden) := by decide

/-! ## never blocked -/

/-- A derived view without a guard (no effective permission, or no policy) whose predicates hold is not blocked:
called through the chain, the first thing that happens is the view's own code — its decorator if it has one, else its
body — and the policy is not consulted for it. -/
theorem unprotected_never_blocked (wrap : Nat → Res) (pol : Nat → Nat → Bool) (truePreds : List Nat) (ctx : Nat)
    (d : DView) (hg : d.guard = none) (hp : predsHold truePreds d = true) :
    (runLayers wrap pol truePreds ctx d chain).1.head? =
      some (if d.deco then .deco d.tag ctx none else .body d.tag d.exc ctx none) := by
  rw [chain_layers]
  cases hw : d.wrapper <;> by_cases ha : d.act = 0 <;> cases hd : d.deco <;> simp [runLayers, hg, hp, hw, ha, hd]

/-- **User decorator code runs only after the grant.**  For every chain that reaches the permission check before the
decorator layer (`securedFirst`; the default chain — `chain_ok` — and every chain of
`secured_outermost_under_replacement`), the `decorator=` code of a guarded view is entered only after
`permits(ctx, p) ↦ true` for the same context, with no body in between. -/
theorem decorator_after_grant (ch : List Layer) (hch : securedFirst ch = true) (r0 : Reg) (stmts : List Stmt) (w : World)
    (q : Req) (i tag ctx p : Nat)
    (hi : (handle ch (configure r0 stmts).views w q).1[i]? = some (.deco tag ctx (some p))) :
    ∃ j, j < i ∧ (handle ch (configure r0 stmts).views w q).1[j]? = some (.permits ctx p true) ∧ w.pol ctx p = true ∧
      ∀ k, j < k → k < i → ∀ e, (handle ch (configure r0 stmts).views w q).1[k]? = some e → e.isBody = false := by
  have h := handle_parts hch (configure r0 stmts).views w q
  exact decorator_of_good h.1 h.2.1 i tag ctx p hi

/-- the hypothesis is needed: with the decorator layer outside the check (what the seeded change C05-6 produces once
`csrf_view` is re-placed under INGRESS) the decorator of a protected view is entered before the policy is asked -/
theorem decorator_outside_check_runs_first :
    (handle [.other, .predicated, .other, .owrapped, .other, .decorated, .other, .secured, .other]
      (configure {} [.setPolicy false,
        .addView 0 { tag := 1, name := 0, route := 0, ctxClass := 0, isExcCtx := false, excOnly := false, perm := .name 1,
                     order := 0, preds := [], wrapper := none, act := 0, deco := true }]).views
      (witnessWorld fun _ _ => true) witnessReq).1 = [.deco 1 1 (some 1), .permits 1 1 false, .mainRaised 13] := by decide

/-- If no registered view carries a guard — in particular (`no_policy_never_blocked`) when no policy is
configured — the policy is never consulted, for any request. -/
theorem unguarded_never_asked (ch : List Layer) (hch : securedFirst ch = true) (views : List DView) (w : World) (q : Req) (h : ∀ d ∈ views, d.guard = none)
    (c p : Nat) (a : Bool) : Event.permits c p a ∉ (handle ch views w q).1 := by
  intro hm
  obtain ⟨d, hd, hg⟩ := (handle_parts hch views w q).2.2.2 c p a hm
  rw [h d hd] at hg; cases hg

/-- **No policy ⇒ never blocked.**  When neither the prior state nor the scope configures a policy (and the prior
views carry no guard), no view of the resulting registry carries a guard, the policy is never consulted, and
(by `unprotected_never_blocked`) every view whose predicates hold runs its body. -/
theorem no_policy_never_blocked (ch : List Layer) (hch : securedFirst ch = true) (r0 : Reg) (stmts : List Stmt) (h0 : ∀ d ∈ r0.views, d.guard = none)
    (hno : policyAfter r0 stmts = false) :
    (∀ d ∈ (configure r0 stmts).views, d.guard = none) ∧
    ∀ (w : World) (q : Req) (c p : Nat) (a : Bool),
      Event.permits c p a ∉ (handle ch (configure r0 stmts).views w q).1 := by
  have hall : ∀ d ∈ (configure r0 stmts).views, d.guard = none := by
    intro d hd
    rcases guard_is_effective_permission r0 stmts d hd with h | ⟨dir, v, _, _, _, _, hg⟩
    · exact h0 d h
    · rw [hg, hno]; rfl
  exact ⟨hall, fun w q c p a => unguarded_never_asked ch hch _ w q hall c p a⟩

/-! ## `view_execution_permitted` -/

/-- `view_execution_permitted` answers with the policy's decision for the guard of the view it found (asking
exactly once, about the probe's context), or `True` without consulting the policy when that view has no guard. -/
theorem vep_spec (views : List DView) (w : World) (q : Req) (b : Bool) (h : (vep views w q).2 = .perm b) :
    (∃ p, (vep views w q).1 = [.permits q.ctx p b] ∧ b = w.pol q.ctx p ∧ ∃ d ∈ views, d.guard = some p) ∨
    ((vep views w q).1 = [] ∧ b = true) := by
  have key : ∀ d, d ∈ views → ∀ b, (permittedOf w q.ctx d).2 = .perm b →
      (∃ p, (permittedOf w q.ctx d).1 = [.permits q.ctx p b] ∧ b = w.pol q.ctx p ∧ ∃ d ∈ views, d.guard = some p) ∨
      ((permittedOf w q.ctx d).1 = [] ∧ b = true) := by
    intro d hd b hb
    simp only [permittedOf] at hb ⊢
    cases hg : d.guard with
    | none => rw [hg] at hb; injection hb with hb; exact Or.inr ⟨rfl, hb.symm⟩
    | some p => rw [hg] at hb; injection hb with hb; subst hb; exact Or.inl ⟨p, rfl, rfl, d, hd, hg⟩
  have hmem : ∀ s, (findViews views false q.ifaces q.sro q.name).find? isSecuredKind = some s → ∀ d ∈ s, d ∈ views :=
    fun s hs d hd => (mem_findViews (List.mem_of_find?_eq_some hs) d hd).1
  unfold vep at h ⊢
  simp only at h ⊢
  cases hf : (findViews views false q.ifaces q.sro q.name).find? isSecuredKind with
  | none =>
    rw [hf] at h
    simp only at h ⊢
    split at h
    · cases h
    · next hne => simp only [hne]; injection h with h; exact Or.inr ⟨by simp, h.symm⟩
  | some s =>
    rw [hf] at h
    have hm := hmem s hf
    cases s with
    | nil =>
      cases h
    | cons d ds =>
      cases ds with
      | nil =>
        simp only at h ⊢
        exact key d (hm d (List.mem_singleton.mpr rfl)) b h
      | cons d2 ds2 =>
        simp only [multiPermitted] at h ⊢
        cases hfd : (d :: d2 :: ds2).find? (predsHold q.preds) with
        | none => rw [hfd] at h; cases h
        | some d' =>
          rw [hfd] at h
          simp only at h ⊢
          exact key d' (hm d' (List.mem_of_find?_eq_some hfd)) b h

/-! ## why `router_paths_secure` matters: the documented bypass exists -/

/-- `render_view_to_response(…, secure=False)` runs a protected body without consulting the policy (the
documented behaviour of `secure=False`; no router path uses it — `router_paths_secure`). -/
theorem insecure_render_bypasses :
    render chain (configure {} [.setPolicy false,
        .addView 0 { tag := 1, name := 0, route := 0, ctxClass := 0, isExcCtx := false, excOnly := false, perm := .name 1,
                     order := 0, preds := [], wrapper := none, act := 0 }]).views
      (witnessWorld fun _ _ => true) witnessReq false = ([.body 1 false 1 (some 1)], .resp 1) := by decide

/-! ## non-vacuity -/

/-- a concrete run with everything in it: default permission written AFTER the views, policy written last, a
protected view with a protected wrapper view, both granted: each body directly after its grant -/
example :
    handle chain (configure {} [
        .addView 0 { tag := 1, name := 0, route := 0, ctxClass := 1, isExcCtx := false, excOnly := false, perm := .absent,
                     order := 5, preds := [3], wrapper := some 2, act := 0 },
        .addView 0 { tag := 2, name := 2, route := 0, ctxClass := 0, isExcCtx := false, excOnly := false, perm := .name 2,
                     order := 5, preds := [], wrapper := none, act := 0 },
        .setDefault (.name 1), .other (-10), .setPolicy true]).views
      (witnessWorld fun _ _ => false) { witnessReq with preds := [3] } =
      ([.permits 1 1 true, .body 1 false 1 (some 1), .permits 1 2 true, .body 2 false 1 (some 2)], .resp 2) := by decide

/-- refusal in the main phase: last event of the phase, then the 403 handling (here the forbidden view, tag 3,
registered through `add_forbidden_view`, runs unguarded although a default permission is set) -/
example :
    handle chain (configure {} [
        .addView 1 { tag := 3, name := 0, route := 0, ctxClass := 13, isExcCtx := true, excOnly := false, perm := .absent,
                     order := 5, preds := [], wrapper := none, act := 0 },
        .addView 0 { tag := 1, name := 0, route := 0, ctxClass := 1, isExcCtx := false, excOnly := false, perm := .absent,
                     order := 5, preds := [], wrapper := none, act := 0 },
        .setDefault (.name 1), .setPolicy false]).views
      (witnessWorld fun c p => c == 1 && p == 1) witnessReq =
      ([.permits 1 1 false, .mainRaised 13, .body 3 true 113 none], .resp 3) := by decide

/-- the hypotheses of `statement_order_irrelevant` and `no_policy_never_blocked` are satisfiable by non-trivial
inputs -/
example : (witnessStmts.filterMap defOf).length ≤ 1 ∧ witnessStmts.Perm witnessStmts.reverse ∧
    policyAfter {} (witnessStmts.filter fun s => !isPolicy s) = false := by
  refine ⟨by decide, (List.reverse_perm _).symm, by decide⟩

/-- the execution order really sorts by phase and keeps the written order inside a phase -/
example : (execOrder [.addView 0 { tag := 1, name := 0, route := 0, ctxClass := 0, isExcCtx := false, excOnly := false,
                                   perm := .absent, order := 0, preds := [], wrapper := none, act := 0 },
                      .setPolicy false, .setDefault .npr, .other (-10), .setPolicy true]).map Stmt.phase
    = [-20, -10, -10, -10, 0] := by decide

end Pyr.Security
