import PyramidModel.Lemmas.SecurityPhases
import PyramidModel.Lemmas.SecurityConfig
/-!
# C05 — a protected view body runs only after the security policy granted its permission

Property theorems only.  Model: `PyramidModel/Security.lean`; helper lemmas: `Lemmas/Security*.lean`.

Two groups.
* Obligations over the tables REGENERATED from the source on every run (`Gen/C05.lean`, `Gen/C18.lean`): the
  secured-view deriver is the outermost of the sorted default chain, the policy and the default permission are
  registered in earlier phases than views, every place that can reach a view callable from the router passes
  `secure=True`, the shapes of `_secured_view` / `MultiView` / `_call_view` / `_error_handler` are the ones the
  model mirrors, the special directives force `NO_PERMISSION_REQUIRED`.  All by `decide` over the whole table.
* Model theorems, for ALL configurations (any statements in any written order on top of any prior registry
  state), ALL policy decision tables and ALL requests: `mediation`, `refused_no_body_403`,
  `refused_no_body_partial` (+ the `decide`d witness of F-C05a), `unprotected_never_blocked`,
  `no_policy_never_blocked`, `views_see_final_policy`, `statement_order_irrelevant`, …
-/
namespace Pyr.Security

open Pyr.Topo Pyr.Gen.C05

/-! ## obligations over the generated tables -/

/-- Among the default view derivers, sorted by the proven C18 sorter from the `under`/`over` hints the source
declares, `secured_view` is the first (= outermost) and `mapped_view` (which calls the user's callable) the last;
in the wrapping order only the two fixed wrappers `attr_wrapped_view`, `predicated_view` stand outside the
permission check, and the chain is exactly the one the model's layers were written for. -/
theorem secured_outermost :
    (deriverNamesOf defaultDeriverSorter.sorted).bind List.head? = some "secured_view" ∧
    (deriverNamesOf defaultDeriverSorter.sorted).bind List.getLast? = some "mapped_view" ∧
    chainNames.takeWhile (fun n => n != "secured_view") = ["attr_wrapped_view", "predicated_view"] ∧
    chainNames = ["attr_wrapped_view", "predicated_view", "secured_view", "csrf_view", "owrapped_view",
                  "http_cached_view", "decorated_view", "rendered_view", "mapped_view"] ∧
    chain = [.other, .predicated, .secured, .other, .owrapped, .other, .other, .other, .other] := by decide

/-- what the model theorems need of the chain -/
theorem chain_secured : Layer.secured ∈ chain := by decide

/-- `set_security_policy` (PHASE2), the legacy authentication policy whose registration installs the shim policy
(PHASE2) and `set_default_permission` (PHASE1) all execute before `add_view`'s registration (default order), so a
view derived in the same commit scope sees them — whatever the written order (`views_see_final_policy`). -/
theorem policy_visible_at_derivation : PhasesOK :=
  ⟨by decide, by decide, by decide⟩

/-- the phase table itself, as resolved through the `PHASEn_CONFIG` constants -/
theorem phase_table :
    phaseConstants = [("PHASE0_CONFIG", -30), ("PHASE1_CONFIG", -20), ("PHASE2_CONFIG", -10), ("PHASE3_CONFIG", 0)] ∧
    actionDefaultOrder = 0 ∧
    phasePolicy = -10 ∧ phaseLegacy = -10 ∧ phaseDefault = -20 ∧ phaseView = 0 ∧
    (directiveOrders.lookup "add_route").map (fun l => l.map (·.1)) = some [0, -10] := by decide

/-- the audited list of every place in `src/pyramid` that calls a view-lookup entry point or touches
`__call_permissive__` -/
def auditedCallSites : List CallSite := [
  ⟨"router.py", "Router.handle_request", "call:_call_view", "default", ""⟩,
  ⟨"tweens.py", "_error_handler", "call:request.invoke_exception_view", "default", ""⟩,
  ⟨"view.py", "render_view_to_response", "call:_call_view", "secure", ""⟩,
  ⟨"view.py", "render_view_to_iterable", "call:render_view_to_response", "secure", ""⟩,
  ⟨"view.py", "render_view", "call:render_view_to_iterable", "secure", ""⟩,
  ⟨"view.py", "_call_view", "str:__call_permissive__", "", "if not secure"⟩,
  ⟨"view.py", "ViewMethodsMixin.invoke_exception_view", "call:_call_view", "secure", ""⟩,
  ⟨"viewderivers.py", "preserve_view_attrs", "str:__call_permissive__", "", ""⟩,
  ⟨"viewderivers.py", "owrapped_view._owrapped_view", "call:render_view_to_response", "default", ""⟩,
  ⟨"viewderivers.py", "_secured_view", "attr:__call_permissive__:store", "", ""⟩,
  ⟨"viewderivers.py", "rendered_view.rendered_view", "call:*.render_view", "", ""⟩,
  ⟨"config/views.py", "MultiView.__call_permissive__", "str:__call_permissive__", "", ""⟩,
  ⟨"config/views.py", "ViewsConfiguratorMixin.add_view.register_view", "str:__call_permissive__", "", ""⟩,
  ⟨"config/views.py", "runtime_exc_view", "attr:__call_permissive__:store", "", ""⟩,
  ⟨"config/views.py", "runtime_exc_view", "str:__call_permissive__", "", ""⟩
]

/-- the functions a request travels through from `Router.__call__` to a view callable -/
def routerReachable : List String :=
  ["Router.handle_request", "_error_handler", "ViewMethodsMixin.invoke_exception_view", "owrapped_view._owrapped_view"]

def viewLookupCalls : List String :=
  ["call:_call_view", "call:request.invoke_exception_view", "call:render_view_to_response",
   "call:render_view_to_iterable", "call:render_view"]

/-- a call site leaves `secure` at its default, or is `invoke_exception_view` handing on its own `secure`
parameter (whose only caller, `_error_handler`, leaves it at the default) -/
def passesSecure (s : CallSite) : Bool :=
  s.arg == "default" || s.arg == "True" ||
    (s.arg == "secure" && s.func == "ViewMethodsMixin.invoke_exception_view")

/-- The generated call-site table equals the audited whitelist; every lookup made by a function on the router's
path passes `secure=True` (all defaults are `True`); the only caller-side use of the permissive handle is
`_call_view`'s, under `if not secure`; nothing in the tree passes `secure=False` to anything. -/
theorem router_paths_secure :
    callSites = auditedCallSites ∧
    (∀ s ∈ callSites, s.func ∈ routerReachable → s.what ∈ viewLookupCalls → passesSecure s = true) ∧
    secureDefaults = [("_call_view", "True"), ("render_view_to_response", "True"), ("render_view_to_iterable", "True"),
                      ("render_view", "True"), ("invoke_exception_view", "True")] ∧
    (∀ s ∈ callSites, s.func = "_call_view" → s.what = "str:__call_permissive__" → s.guard = "if not secure") ∧
    (∀ s ∈ callSites, s.what ≠ "kw:secure=False") := by decide

/-- `_secured_view` (local names alpha-normalised: v0 = the wrapped view, v1 = info, v2 = permission, v3 = policy,
v4 = `permitted`, v7 = the wrapper): the permission is the explicit one, else — unless `exception_only` — the
default; the marker clears it; no policy or no permission ⇒ the view is returned unwrapped; the wrapper asks
`policy.permits(request, context, permission)`, calls the wrapped view only under `if result:`, raises
`HTTPForbidden` otherwise, and binds `__call_permissive__` to the wrapped view.  `secured_view` applies it (and
the debug wrapper) through `wraps_view`. -/
theorem secured_view_shape :
    shapeSecuredInner = [
      "def(v0,v1)",
      "v2 = v1.options.get('permission')",
      "if not v1.exception_only and v2 is None:",
      "  v2 = v1.registry.queryUtility(IDefaultPermission)",
      "if v2 == NO_PERMISSION_REQUIRED:",
      "  v2 = None",
      "v3 = v1.registry.queryUtility(ISecurityPolicy)",
      "if v3 is None or v2 is None:",
      "  return v0",
      "def v4(v5,v6):",
      "  return v3.permits(v6, v5, v2)",
      "def v7(v5,v6):",
      "  v8 = v4(v5, v6)",
      "  if v8:",
      "    return v0(v5, v6)",
      "  v9 = getattr(v0, '__name__', v0)",
      "  v10 = getattr(v6, 'authdebug_message', 'Unauthorized: %s failed permission check' % v9)",
      "  raise HTTPForbidden(v10, result=v8)",
      "v7.__call_permissive__ = v0",
      "v7.__permission__ = v2",
      "v7.__permitted__ = v4",
      "return v7"] ∧
    shapeSecuredDeriver = [
      "def(v0,v1)",
      "for v2 in (_secured_view, _authdebug_view):",
      "  v0 = wraps_view(v2)(v0, v1)",
      "return v0"] := by decide

/-- `MultiView.__call__` calls each constituent view itself (never its permissive handle) and only swallows
`PredicateMismatch`; `__permitted__`/`__call_permissive__`/`match` as modelled; the loop of `_call_view` takes the
permissive handle only under `if not v2` (that `v2` is the parameter `secure` is the call-site table's guard
`if not secure`, `router_paths_secure`); `_error_handler` re-raises the original exception
only for `HTTPNotFound`. -/
theorem lookup_shapes :
    shapeMultiCall = [
      "def(v0,v1,v2)",
      "for (v3, v4, v5) in v0.get_views(v2):",
      "  try:",
      "    return v4(v1, v2)",
      "  except PredicateMismatch:",
      "    continue",
      "raise PredicateMismatch(v0.name)"] ∧
    shapeMultiPermitted = [
      "def(v0,v1,v2)",
      "v3 = v0.match(v1, v2)",
      "if hasattr(v3, '__permitted__'):",
      "  return v3.__permitted__(v1, v2)",
      "return True"] ∧
    shapeMultiPermissive = [
      "def(v0,v1,v2)",
      "v3 = v0.match(v1, v2)",
      "v3 = getattr(v3, '__call_permissive__', v3)",
      "return v3(v1, v2)"] ∧
    shapeMultiMatch = [
      "def(v0,v1,v2)",
      "for (v3, v4, v5) in v0.get_views(v2):",
      "  if not hasattr(v4, '__predicated__'):",
      "    return v4",
      "  if v4.__predicated__(v1, v2):",
      "    return v4",
      "raise PredicateMismatch(v0.name)"] ∧
    shapeCallViewLoop = [
      "for v0 in v1:",
      "  try:",
      "    if not v2:",
      "      v0 = getattr(v0, '__call_permissive__', v0)",
      "    v3 = v0(v4, v5)",
      "    return v3",
      "  except PredicateMismatch as v6:",
      "    v7 = v6"] ∧
    shapeErrorHandler = [
      "def(v0,v1)",
      "v2 = sys.exc_info()",
      "try:",
      "  v3 = v0.invoke_exception_view(v2)",
      "except HTTPNotFound:",
      "  reraise(*v2)",
      "return v3"] := by decide

/-- `add_forbidden_view` / `add_notfound_view` / `add_exception_view` hand `add_view` `permission=
NO_PERMISSION_REQUIRED` and `exception_only=True` and reject a `permission` argument; `add_static_view` defaults
the permission to `NO_PERMISSION_REQUIRED`. -/
theorem special_directives_table :
    specialDirectives = [
      ("add_forbidden_view", "NO_PERMISSION_REQUIRED", true, true),
      ("add_notfound_view", "NO_PERMISSION_REQUIRED", true, true),
      ("add_exception_view", "NO_PERMISSION_REQUIRED", true, true),
      ("add_static_view", "NO_PERMISSION_REQUIRED", false, false)] := by decide

/-! ## configuration: effective permission, and independence of the written order -/

/-- The effective permission as the statement defines it: the explicit permission; otherwise the default
permission unless it is an exception view; the marker (explicit or as the default) means none. -/
theorem effective_permission_spec (dflt perm : PermArg) (excView : Bool) (p : Nat) :
    effPerm dflt perm excView = some p ↔
      perm = .name p ∨ (perm = .absent ∧ excView = false ∧ dflt = .name p) := by
  cases perm <;> cases excView <;> cases dflt <;> simp [effPerm]

/-- After one commit scope, on top of ANY prior registry state and for ANY written order of the statements: the
policy flag and the default permission are the scope's final ones, and the registered views are the prior ones
followed by the scope's view statements (in the order written), each derived against the FINAL policy flag and
default permission. -/
theorem views_see_final_policy (r0 : Reg) (stmts : List Stmt) :
    (configure r0 stmts).policy = policyAfter r0 stmts ∧
    (configure r0 stmts).dflt = dfltAfter r0 stmts ∧
    (configure r0 stmts).views =
      r0.views ++ derivedOf (policyAfter r0 stmts) (dfltAfter r0 stmts) (viewStmts stmts) :=
  configure_spec policy_visible_at_derivation r0 stmts

/-- Every registered derived view is a prior one or comes from a view statement of the scope, and then its guard
is exactly the statement's effective permission when a policy is configured (anywhere in the scope or before),
and absent when none is. -/
theorem guard_is_effective_permission (r0 : Reg) (stmts : List Stmt) (d : DView)
    (hd : d ∈ (configure r0 stmts).views) :
    d ∈ r0.views ∨
    ∃ dir v, Stmt.addView dir v ∈ stmts ∧ d.tag = v.tag ∧
      (d.exc = true → (lower dir v).isExcCtx = true) ∧ (d.exc = false → (lower dir v).excOnly = false) ∧
      d.guard = if policyAfter r0 stmts then effPerm (dfltAfter r0 stmts) (lower dir v).perm d.exc else none := by
  rw [(views_see_final_policy r0 stmts).2.2] at hd
  rcases List.mem_append.mp hd with h | h
  · exact Or.inl h
  · right
    simp only [derivedOf, List.mem_flatMap, viewStmts, List.mem_filterMap] at h
    obtain ⟨⟨dir, v⟩, ⟨s, hs, hsv⟩, hmem⟩ := h
    have hst : s = Stmt.addView dir v := by
      cases s <;> simp [viewOf] at hsv
      obtain ⟨rfl, rfl⟩ := hsv; rfl
    subst hst
    refine ⟨dir, v, hs, ?_⟩
    simp only [deriveBoth, List.mem_append] at hmem
    have hlt : (lower dir v).tag = v.tag := by
      simp only [lower]
      split
      · split <;> rfl
      · split
        · split <;> rfl
        · rfl
    rcases hmem with h | h
    · split at h
      · cases h
      · next hne =>
        simp only [List.mem_singleton] at h
        subst h
        exact ⟨hlt, by simp [deriveOne], by intro _; simpa using hne, by simp [deriveOne]⟩
    · split at h
      · next he =>
        simp only [List.mem_singleton] at h
        subst h
        exact ⟨hlt, by intro _; exact he, by simp [deriveOne], by simp [deriveOne]⟩
      · cases h

/-- "In whatever order the configuration was written": two scopes holding the same statements in different
orders (with at most one `set_default_permission`, which is what the configurator accepts without a conflict)
register the same derived views. -/
theorem statement_order_irrelevant (r0 : Reg) (stmts stmts' : List Stmt) (hp : stmts.Perm stmts')
    (h1 : (stmts.filterMap defOf).length ≤ 1) (d : DView) :
    d ∈ (configure r0 stmts).views ↔ d ∈ (configure r0 stmts').views := by
  have hpol : policyAfter r0 stmts = policyAfter r0 stmts' := by
    simp only [policyAfter]; rw [hp.any_eq]
  have hd : stmts.filterMap defOf = stmts'.filterMap defOf := by
    have hpf := hp.filterMap defOf
    match hl : stmts.filterMap defOf, h1 with
    | [], _ => rw [hl] at hpf; exact (List.nil_perm.mp hpf).symm
    | [x], _ => rw [hl] at hpf; exact List.singleton_perm.mp hpf
    | _ :: _ :: _, h => simp at h
  have hdf : dfltAfter r0 stmts = dfltAfter r0 stmts' := by simp only [dfltAfter, hd]
  rw [(views_see_final_policy r0 stmts).2.2, (views_see_final_policy r0 stmts').2.2, hpol, hdf]
  simp only [List.mem_append, derivedOf, List.mem_flatMap]
  have hv : ∀ x, x ∈ viewStmts stmts ↔ x ∈ viewStmts stmts' := fun x => (hp.filterMap viewOf).mem_iff
  constructor
  · rintro (h | ⟨x, hx, hm⟩)
    · exact Or.inl h
    · exact Or.inr ⟨x, (hv x).mp hx, hm⟩
  · rintro (h | ⟨x, hx, hm⟩)
    · exact Or.inl h
    · exact Or.inr ⟨x, (hv x).mpr hx, hm⟩

/-- a statement whose permission is the marker is derived without a guard, in both variants -/
theorem guard_none_of_npr (policy : Bool) (dflt : PermArg) (v : ViewStmt) (h : v.perm = .npr) :
    ∀ d ∈ deriveBoth policy dflt v, d.guard = none := by
  intro d hd
  simp only [deriveBoth, List.mem_append] at hd
  have hb : ∀ b, (deriveOne policy dflt v b).guard = none := by intro b; simp [deriveOne, effPerm, h]
  rcases hd with hd | hd <;> split at hd <;>
    first
    | (simp only [List.mem_singleton] at hd; subst hd; exact hb _)
    | cases hd

/-- Forbidden, not-found and exception views (whatever the directive was given) and static views without an
explicit permission are derived without a guard, under any policy and any default permission. -/
theorem special_views_unprotected (policy : Bool) (dflt : PermArg) (dir : Nat) (v : ViewStmt)
    (hdir : dir = 1 ∨ dir = 2 ∨ dir = 3 ∨ (dir = 4 ∧ v.perm = .absent)) :
    ∀ d ∈ deriveBoth policy dflt (lower dir v), d.guard = none := by
  have f1 : forcedPerm "add_forbidden_view" = some .npr := by decide
  have f2 : forcedPerm "add_notfound_view" = some .npr := by decide
  have f3 : forcedPerm "add_exception_view" = some .npr := by decide
  have f4 : forcedPerm "add_static_view" = some .npr := by decide
  apply guard_none_of_npr
  rcases hdir with rfl | rfl | rfl | ⟨rfl, hv⟩
  · simp [lower, directiveName, f1]
  · simp [lower, directiveName, f2]
  · simp [lower, directiveName, f3]
  · simp [lower, directiveName, f4, hv]

/-! ## the central theorem -/

/-- **Mediation.**  For every prior registry state, every list of statements in every written order, every
policy decision table, every exception-class table and every request: in the event trace of the request through
the router and the exception-view tween, every body event belongs to a registered derived view (same tag,
variant and guard — and by `guard_is_effective_permission` the guard is the view's effective permission), and if
that guard is `p`, then `permits(ctx, p) ↦ true` stands earlier in the trace for the very context the body sees,
the policy's table really grants `(ctx, p)`, and no body at all lies between the grant and the body. -/
theorem mediation (r0 : Reg) (stmts : List Stmt) (w : World) (q : Req)
    (i tag : Nat) (exc : Bool) (ctx : Nat) (g : Option Nat)
    (hi : (handle chain (configure r0 stmts).views w q).1[i]? = some (.body tag exc ctx g)) :
    (∃ d ∈ (configure r0 stmts).views, d.tag = tag ∧ d.exc = exc ∧ d.guard = g) ∧
    (∀ p, g = some p → ∃ j, j < i ∧
      (handle chain (configure r0 stmts).views w q).1[j]? = some (.permits ctx p true) ∧ w.pol ctx p = true ∧
      ∀ k, j < k → k < i → ∀ e, (handle chain (configure r0 stmts).views w q).1[k]? = some e → e.isBody = false) := by
  have h := handle_parts chain_secured (configure r0 stmts).views w q
  exact mediated_of_good h.1 h.2.1 h.2.2.1 i tag exc ctx g hi

/-- Mediation read against the configuration as written: the view whose body ran is a prior registration or one
of the scope's view statements (same tag), and in the latter case the guard the grant was checked for is that
statement's effective permission under the scope's final policy / default permission — wherever in the scope
`set_security_policy` / `set_default_permission` were written. -/
theorem mediation_end_to_end (r0 : Reg) (stmts : List Stmt) (w : World) (q : Req)
    (i tag : Nat) (exc : Bool) (ctx : Nat) (g : Option Nat)
    (hi : (handle chain (configure r0 stmts).views w q).1[i]? = some (.body tag exc ctx g)) :
    ((∃ d ∈ r0.views, d.tag = tag ∧ d.exc = exc ∧ d.guard = g) ∨
     (∃ dir v, Stmt.addView dir v ∈ stmts ∧ v.tag = tag ∧
        g = if policyAfter r0 stmts then effPerm (dfltAfter r0 stmts) (lower dir v).perm exc else none)) ∧
    (∀ p, g = some p → ∃ j, j < i ∧
      (handle chain (configure r0 stmts).views w q).1[j]? = some (.permits ctx p true) ∧ w.pol ctx p = true) := by
  have h := mediation r0 stmts w q i tag exc ctx g hi
  obtain ⟨⟨d, hd, ht, he, hg⟩, h2⟩ := h
  refine ⟨?_, ?_⟩
  · rcases guard_is_effective_permission r0 stmts d hd with h0 | ⟨dir, v, hs, htag, _, _, hgd⟩
    · exact Or.inl ⟨d, h0, ht, he, hg⟩
    · refine Or.inr ⟨dir, v, hs, by rw [← htag, ht], ?_⟩
      rw [← hg, hgd, he]
  · intro p hp
    obtain ⟨j, hj, hjl, hpol, _⟩ := h2 p hp
    exact ⟨j, hj, hjl, hpol⟩

/-- the same for `render_view_to_response(…, secure=True)` called directly (and hence for `render_view`,
`render_view_to_iterable`) -/
theorem mediation_render (r0 : Reg) (stmts : List Stmt) (w : World) (q : Req)
    (i tag : Nat) (exc : Bool) (ctx : Nat) (g : Option Nat)
    (hi : (render chain (configure r0 stmts).views w q true).1[i]? = some (.body tag exc ctx g)) :
    (∃ d ∈ (configure r0 stmts).views, d.tag = tag ∧ d.exc = exc ∧ d.guard = g) ∧
    (∀ p, g = some p → ∃ j, j < i ∧
      (render chain (configure r0 stmts).views w q true).1[j]? = some (.permits ctx p true) ∧ w.pol ctx p = true ∧
      ∀ k, j < k → k < i → ∀ e, (render chain (configure r0 stmts).views w q true).1[k]? = some e → e.isBody = false) := by
  have h := render_inv chain_secured (configure r0 stmts).views w q
  exact mediated_of_good h.good h.tru h.src i tag exc ctx g hi

/-- The policy is asked only about permissions some registered view is guarded by, and the recorded answer is
the decision table's. -/
theorem asked_exactly (r0 : Reg) (stmts : List Stmt) (w : World) (q : Req) (c p : Nat) (a : Bool)
    (h : Event.permits c p a ∈ (handle chain (configure r0 stmts).views w q).1) :
    a = w.pol c p ∧ ∃ d ∈ (configure r0 stmts).views, d.guard = some p := by
  have hp := handle_parts chain_secured (configure r0 stmts).views w q
  refine ⟨?_, hp.2.2.2 c p a h⟩
  have := hp.2.1
  simp only [truthful, List.all_eq_true] at this
  simpa [truthfulEv] using this _ h

/-! ## refusal -/

/-- **Refusal in the main phase ⇒ no body, 403 handling.**  If the policy refuses while the router is looking up
and calling the view for the request (the view itself, a multiview constituent, or a wrapper view), the refusal
is the LAST event of the main phase — no body runs after it — the main handler raises HTTPForbidden, and the
request continues exactly as the exception-view lookup for HTTPForbidden (the forbidden view, or the framework's
exception-response view giving the 403). -/
theorem refused_no_body_403 (views : List DView) (w : World) (q : Req) (i c p : Nat)
    (hi : (mainPhase chain views w q).1[i]? = some (.permits c p false)) :
    i + 1 = (mainPhase chain views w q).1.length ∧
    (mainPhase chain views w q).2 = .raised kForbidden ∧
    handle chain views w q =
      ((mainPhase chain views w q).1 ++ .mainRaised kForbidden :: (excPhase chain views w q kForbidden).1,
       (excPhase chain views w q kForbidden).2) := by
  have hm := mainPhase_inv chain_secured views w q
  have ht := tight_refusal _ i _ hm.tgt hi rfl
  refine ⟨ht.1, ht.2, ?_⟩
  rcases handle_eq chain views w q with ⟨k, hk, he⟩ | ⟨hne, _⟩
  · rw [ht.2] at hk; injection hk with hk; subst hk; exact he
  · exact absurd ht.2 (hne kForbidden)

/-- **Refusal while an exception is being rendered (partial).**  When the refused view is an exception view
invoked by the excview tween (or its wrapper view), the body still does not run — the refusal is the last event —
but the outcome is the HTTPForbidden itself, raised out of the tween: nothing renders it.  What is missing
against the statement ("the forbidden (403) handling runs instead") is shown by
`refused_exception_view_unrendered` (finding F-C05a). -/
theorem refused_no_body_partial (views : List DView) (w : World) (q : Req) (k i c p : Nat)
    (hi : (excPhase chain views w q k).1[i]? = some (.permits c p false)) :
    i + 1 = (excPhase chain views w q k).1.length ∧ (excPhase chain views w q k).2 = .raised kForbidden := by
  have hm := excPhase_inv chain_secured views w q k
  exact tight_refusal _ i _ hm.tgt hi rfl

/-- the witness configuration of F-C05a: a policy, a view whose body raises E1 (kind 11), and an exception-only
view for E1 protected by permission 1 -/
def witnessStmts : List Stmt :=
  [ .addView 0 { tag := 1, name := 0, route := 0, ctxClass := 0, isExcCtx := false, excOnly := false, perm := .absent,
                 order := 0, preds := [], wrapper := none, act := 11 },
    .addView 0 { tag := 2, name := 0, route := 0, ctxClass := 11, isExcCtx := true, excOnly := true, perm := .name 1,
                 order := 0, preds := [], wrapper := none, act := 0 },
    .setPolicy false ]

def witnessWorld (deny : Nat → Nat → Bool) : World :=
  { pol := fun c p => !deny c p, excSro := fun k => if k = 11 then [11, 10, 0] else if k = 13 then [13, 15, 10, 0] else [0] }

def witnessReq : Req := { ctx := 1, sro := [1, 0], ifaces := [0], excIfaces := [0], wrapIfaces := [0], name := 0, preds := [] }

/-- **F-C05a** (replayed on the real code by the harness): the policy refuses permission 1 on the E1 exception;
the exception view's body (tag 2) does not run, but the request ends as a raised HTTPForbidden — the
exception-view lookup for HTTPForbidden (kind 13) never happens: no second `mainRaised`, no 403 response. -/
theorem refused_exception_view_unrendered :
    handle chain (configure {} witnessStmts).views (witnessWorld fun c p => c == 111 && p == 1) witnessReq =
      ([.body 1 false 1 none, .mainRaised 11, .permits 111 1 false], .raised kForbidden) := by decide

/-! ## never blocked -/

/-- A derived view without a guard (no effective permission, or no policy) whose predicates hold is not blocked:
called through the chain, the first thing that happens is its body — the policy is not consulted for it. -/
theorem unprotected_never_blocked (wrap : Nat → Res) (pol : Nat → Nat → Bool) (truePreds : List Nat) (ctx : Nat)
    (d : DView) (hg : d.guard = none) (hp : predsHold truePreds d = true) :
    (runLayers wrap pol truePreds ctx d chain).1.head? = some (.body d.tag d.exc ctx none) := by
  rw [secured_outermost.2.2.2.2]
  cases hw : d.wrapper <;> by_cases ha : d.act = 0 <;> simp [runLayers, hg, hp, hw, ha]

/-- If no registered view carries a guard — in particular (`no_policy_never_blocked`) when no policy is
configured — the policy is never consulted, for any request. -/
theorem unguarded_never_asked (views : List DView) (w : World) (q : Req) (h : ∀ d ∈ views, d.guard = none)
    (c p : Nat) (a : Bool) : Event.permits c p a ∉ (handle chain views w q).1 := by
  intro hm
  obtain ⟨d, hd, hg⟩ := (handle_parts chain_secured views w q).2.2.2 c p a hm
  rw [h d hd] at hg; cases hg

/-- **No policy ⇒ never blocked.**  When neither the prior state nor the scope configures a policy (and the prior
views carry no guard), no view of the resulting registry carries a guard, the policy is never consulted, and
(by `unprotected_never_blocked`) every view whose predicates hold runs its body. -/
theorem no_policy_never_blocked (r0 : Reg) (stmts : List Stmt) (h0 : ∀ d ∈ r0.views, d.guard = none)
    (hno : policyAfter r0 stmts = false) :
    (∀ d ∈ (configure r0 stmts).views, d.guard = none) ∧
    ∀ (w : World) (q : Req) (c p : Nat) (a : Bool),
      Event.permits c p a ∉ (handle chain (configure r0 stmts).views w q).1 := by
  have hall : ∀ d ∈ (configure r0 stmts).views, d.guard = none := by
    intro d hd
    rcases guard_is_effective_permission r0 stmts d hd with h | ⟨dir, v, _, _, _, _, hg⟩
    · exact h0 d h
    · rw [hg, hno]; rfl
  exact ⟨hall, fun w q c p a => unguarded_never_asked _ w q hall c p a⟩

/-! ## `view_execution_permitted` -/

/-- `view_execution_permitted` answers with the policy's decision for the guard of the view it found (asking
exactly once, about the probe's context), or `True` without consulting the policy when that view has no guard. -/
theorem vep_spec (views : List DView) (w : World) (q : Req) (b : Bool) (h : (vep views w q).2 = .perm b) :
    (∃ p, (vep views w q).1 = [.permits q.ctx p b] ∧ b = w.pol q.ctx p ∧ ∃ d ∈ views, d.guard = some p) ∨
    ((vep views w q).1 = [] ∧ b = true) := by
  have key : ∀ d, d ∈ views → ∀ b, (permittedOf w q.ctx d).2 = .perm b →
      (∃ p, (permittedOf w q.ctx d).1 = [.permits q.ctx p b] ∧ b = w.pol q.ctx p ∧ ∃ d ∈ views, d.guard = some p) ∨
      ((permittedOf w q.ctx d).1 = [] ∧ b = true) := by
    intro d hd b hb
    simp only [permittedOf] at hb ⊢
    cases hg : d.guard with
    | none => rw [hg] at hb; injection hb with hb; exact Or.inr ⟨rfl, hb.symm⟩
    | some p => rw [hg] at hb; injection hb with hb; subst hb; exact Or.inl ⟨p, rfl, rfl, d, hd, hg⟩
  have hmem : ∀ s, (findViews views false q.ifaces q.sro q.name).find? isSecuredKind = some s → ∀ d ∈ s, d ∈ views :=
    fun s hs d hd => (mem_findViews (List.mem_of_find?_eq_some hs) d hd).1
  unfold vep at h ⊢
  simp only at h ⊢
  cases hf : (findViews views false q.ifaces q.sro q.name).find? isSecuredKind with
  | none =>
    rw [hf] at h
    simp only at h ⊢
    split at h
    · cases h
    · next hne => simp only [hne]; injection h with h; exact Or.inr ⟨by simp, h.symm⟩
  | some s =>
    rw [hf] at h
    have hm := hmem s hf
    cases s with
    | nil =>
      simp only [List.find?_nil] at h
      cases h
    | cons d ds =>
      cases ds with
      | nil =>
        simp only at h ⊢
        exact key d (hm d (List.mem_singleton.mpr rfl)) b h
      | cons d2 ds2 =>
        simp only at h ⊢
        cases hfd : (d :: d2 :: ds2).find? (predsHold q.preds) with
        | none => rw [hfd] at h; cases h
        | some d' =>
          rw [hfd] at h
          simp only at h ⊢
          exact key d' (hm d' (List.mem_of_find?_eq_some hfd)) b h

/-! ## why `router_paths_secure` matters: the documented bypass exists -/

/-- `render_view_to_response(…, secure=False)` runs a protected body without consulting the policy (the
documented behaviour of `secure=False`; no router path uses it — `router_paths_secure`). -/
theorem insecure_render_bypasses :
    render chain (configure {} [.setPolicy false,
        .addView 0 { tag := 1, name := 0, route := 0, ctxClass := 0, isExcCtx := false, excOnly := false, perm := .name 1,
                     order := 0, preds := [], wrapper := none, act := 0 }]).views
      (witnessWorld fun _ _ => true) witnessReq false = ([.body 1 false 1 (some 1)], .resp 1) := by decide

/-! ## non-vacuity -/

/-- a concrete run with everything in it: default permission written AFTER the views, policy written last, a
protected view with a protected wrapper view, both granted: each body directly after its grant -/
example :
    handle chain (configure {} [
        .addView 0 { tag := 1, name := 0, route := 0, ctxClass := 1, isExcCtx := false, excOnly := false, perm := .absent,
                     order := 5, preds := [3], wrapper := some 2, act := 0 },
        .addView 0 { tag := 2, name := 2, route := 0, ctxClass := 0, isExcCtx := false, excOnly := false, perm := .name 2,
                     order := 5, preds := [], wrapper := none, act := 0 },
        .setDefault (.name 1), .other (-10), .setPolicy true]).views
      (witnessWorld fun _ _ => false) { witnessReq with preds := [3] } =
      ([.permits 1 1 true, .body 1 false 1 (some 1), .permits 1 2 true, .body 2 false 1 (some 2)], .resp 2) := by decide

/-- refusal in the main phase: last event of the phase, then the 403 handling (here the forbidden view, tag 3,
registered through `add_forbidden_view`, runs unguarded although a default permission is set) -/
example :
    handle chain (configure {} [
        .addView 1 { tag := 3, name := 0, route := 0, ctxClass := 13, isExcCtx := true, excOnly := false, perm := .absent,
                     order := 5, preds := [], wrapper := none, act := 0 },
        .addView 0 { tag := 1, name := 0, route := 0, ctxClass := 1, isExcCtx := false, excOnly := false, perm := .absent,
                     order := 5, preds := [], wrapper := none, act := 0 },
        .setDefault (.name 1), .setPolicy false]).views
      (witnessWorld fun c p => c == 1 && p == 1) witnessReq =
      ([.permits 1 1 false, .mainRaised 13, .body 3 true 113 none], .resp 3) := by decide

/-- the hypotheses of `statement_order_irrelevant` and `no_policy_never_blocked` are satisfiable by non-trivial
inputs -/
example : (witnessStmts.filterMap defOf).length ≤ 1 ∧ witnessStmts.Perm witnessStmts.reverse ∧
    policyAfter {} (witnessStmts.filter fun s => !isPolicy s) = false := by
  refine ⟨by decide, (List.reverse_perm _).symm, by decide⟩

/-- the execution order really sorts by phase and keeps the written order inside a phase -/
example : (execOrder [.addView 0 { tag := 1, name := 0, route := 0, ctxClass := 0, isExcCtx := false, excOnly := false,
                                   perm := .absent, order := 0, preds := [], wrapper := none, act := 0 },
                      .setPolicy false, .setDefault .npr, .other (-10), .setPolicy true]).map Stmt.phase
    = [-20, -10, -10, -10, 0] := by decide

end Pyr.Security
