import PyramidModel.Lemmas.UrlGenCompile
import PyramidModel.Lemmas.UrlGenCache
import PyramidModel.Gen.C06
/-!
# C06 — a generated route URL is matched by its route and yields the supplied values

Property theorems only (model: `UrlGen.lean` on C01's `Route.lean`; helper lemmas: `Lemmas/UrlGen*.lean`; generated
facts about the source: `Gen/C06.lean`).  Every statement quantifies over all token lists (any number of literals and
placeholders), all keyword dictionaries, all texts of arbitrary Unicode scalar values, all byte strings.

Reading guide
* §0 the safe sets, measured on the tree under test through its public entry points, are what the proofs need
  (generated terms, decided).  Nothing depends on the shape of the source text.
* §1 `gen % newdict` on the template C01 checks character by character *is* token-wise substitution.
* §2 the output is ASCII and obeys `( unreserved | PATH_SAFE | "%" HEX HEX )*`; it never holds `?` or `#`.
* §3 it is one piece per token, and a literal's piece is the literal, quoted with safe `/` — decoding gives it back.
* §4 a missing value is `KeyError`; nothing else makes the formatting fail.
* §5 extra elements: appended, one individually quoted segment each; the `lru_cache` in front of the joiner is
  transparent for every history (F-C06b, repaired by 9c714c3; the old key is kept as a decided regression fact).
* §6 `route_url` = scheme://authority ++ `route_path`.
* §7 **the round trip**: for admissible patterns and values the generated path, decoded the way a server decodes
  it, is matched by the same pattern and the dictionary is the supplied values — full, for every admissible input
  (a `*remainder` may hold line feeds and any other control character since fc43a19: `(?s:.*?)`).
* §8 the excluded points of the domain, each decided: the round trip does fail there.
-/
namespace Pyr.UrlGen

open Pyr Pyr.Trav Pyr.Pct Pyr.Route
open Pyr.Rx (Rx Ucd Lang)

/-! ## 0. the generated facts -/

/-- The translator's probes all ran on the tree under test: every ASCII byte, at each of the six quoting sites
(`{name}` value, `*remainder` element, leading literal, inner literal, extra element, `SCRIPT_NAME`), came out either as
itself or as its `%HH` escape, through `Route.generate` / `Request.route_path` — no reading of closure internals. -/
theorem probes_ran : Pyr.Gen.C06.probed = true := by decide

/-- The safe sets measured on the source: `{name}` values and `*remainder` elements are quoted with the same set;
literals keep exactly `/`; the value set keeps `/`; the element set does not;
all are ASCII without `%`; none lets `?` or `#` through; value and literal sets lie inside unreserved ∪ PATH_SAFE,
the element set inside RFC 3986 `pchar`. -/
theorem safe_sets_ok :
    Pyr.Gen.C06.restSafe = Pyr.Gen.C06.valSafe ∧
    Pyr.Gen.C06.litSafePrefix = [47] ∧ Pyr.Gen.C06.litSafeInner = [47] ∧
    valSafe.contains 47 = true ∧ elemSafe.contains 47 = false ∧
    SafeOk valSafe ∧ SafeOk litSafe ∧ SafeOk elemSafe ∧ SafeOk scriptSafe ∧
    safeWithin genOk valSafe = true ∧ safeWithin isPcharC elemSafe = true ∧ safeWithin isPathC scriptSafe = true ∧
    genOk '?' = false ∧ genOk '#' = false ∧ genOk '%' = false := by decide

/-! ## 1. `%`-formatting of the template is substitution -/

/-- `gen % newdict`, run by the scanner that models Python's `%` operator on the very template text C01's
correspondence compares with the closure's, equals the token-wise substitution: each literal once-quoted (the doubled
`%` collapse), each placeholder replaced by the dictionary's text, `KeyError` at the first missing name. -/
theorem format_is_substitution (nd : List (Text × Text)) (toks : List Tok) (h : namesPlain toks = true) :
    fmtScan nd .txt (genTemplate toks) = substToks nd toks :=
  fmt_template nd toks h

theorem generate_closed_form (toks : List Tok) (kw : Kw) (h : namesPlain toks = true) :
    generate toks kw = generateClosed toks kw :=
  generate_eq_closed toks kw h

example : namesPlain [.lit "/a/".toList, .ph "x".toList Rx.notSlashPlus, .rest "rest".toList] = true := by decide
/-- the excluded point: a name with a parenthesis is read differently by `%`-formatting -/
example : fmtScan [("a)b".toList, "v".toList)] .txt (genTemplate [.ph "a)b".toList Rx.notSlashPlus]) = .error .keyError ∧
    substToks [("a)b".toList, "v".toList)] [.ph "a)b".toList Rx.notSlashPlus] = .ok "v".toList := by decide
/-- dropping the `%`-doubling: the literal `100%/` would reach the formatter as `/100%25/` and fail -/
example : fmtScan [] .txt "/100%25/".toList = .error .format ∧
    generate [.lit "/100%/".toList] [] = .ok "/100%25/".toList := by decide

/-! ## 2. the characters of the output -/

/-- **`gen_ascii`.**  Whatever the pattern and the values, a generated path obeys the grammar
`( unreserved | PATH_SAFE | "%" HEX HEX )*`; in particular every character is ASCII and is unreserved, in `PATH_SAFE`,
or `%`. -/
theorem gen_ascii (toks : List Tok) (kw : Kw) (p : Text) (hn : namesPlain toks = true) (h : generate toks kw = .ok p) :
    pctWF genOk p = true ∧ ∀ c ∈ p, c.toNat < 128 ∧ (genOk c = true ∨ c = '%') := by
  rw [generate_eq_closed toks kw hn] at h
  unfold generateClosed at h
  cases hnd : newDict (remName toks) kw with
  | error e => rw [hnd] at h; cases h
  | ok nd =>
    rw [hnd] at h
    have hwf := substToks_wf nd (newDict_wf _ kw nd hnd) toks p h
    refine ⟨hwf, ?_⟩
    intro c hc
    rcases mem_of_pctWF genOk p hwf c hc with h1 | h1 | h1
    · exact ⟨genOk_is_ascii c h1, .inl h1⟩
    · subst h1; exact ⟨by decide, .inr rfl⟩
    · have := genOk_unreserved c (hex_is_unreserved c h1)
      exact ⟨genOk_is_ascii c this, .inl this⟩

/-- Hence the generated path never contains a query or fragment delimiter: the `?` / `#` that `route_url` appends
are the first ones. -/
theorem gen_has_no_delimiter (toks : List Tok) (kw : Kw) (p : Text) (hn : namesPlain toks = true)
    (h : generate toks kw = .ok p) : ∀ c ∈ p, c ≠ '?' ∧ c ≠ '#' := by
  intro c hc
  have := ((gen_ascii toks kw p hn h).2 c hc).2
  constructor
  · rintro rfl
    rcases this with h1 | h1
    · exact absurd h1 (by decide)
    · exact absurd h1 (by decide)
  · rintro rfl
    rcases this with h1 | h1
    · exact absurd h1 (by decide)
    · exact absurd h1 (by decide)

example : generate [.lit "/a b/".toList, .ph "x".toList Rx.notSlashPlus] [("x".toList, .one (.str "50% off?#;+é".toList))] =
    .ok "/a%20b/50%25%20off%3F%23;+%C3%A9".toList := by decide +kernel

/-! ## 3. literals are kept -/

/-- **`gen_keeps_literals`.**  The generated path is the concatenation of one piece per token, in order; the piece
of a literal is the literal quoted with safe `/`, and percent-decoding that piece gives the literal back. -/
theorem gen_keeps_literals (toks : List Tok) (kw : Kw) (p : Text) (hn : namesPlain toks = true)
    (h : generate toks kw = .ok p) :
    (∃ pieces : List Text, p = pieces.flatten ∧ PiecesOf toks pieces) ∧
      ∀ l, unquote (quote litSafe l) = some l := by
  rw [generate_eq_closed toks kw hn] at h
  unfold generateClosed at h
  cases hnd : newDict (remName toks) kw with
  | error e => rw [hnd] at h; cases h
  | ok nd =>
    rw [hnd] at h
    exact ⟨substToks_pieces nd toks p h, fun l => unquote_quote litSafe litSafe_ok l⟩

/-- a literal made of unreserved characters and `/` appears verbatim -/
example : quote litSafe "/blog/2024-archive_v1.x~/".toList = "/blog/2024-archive_v1.x~/".toList := by decide +kernel
example : PiecesOf [.lit "/a b/".toList, .ph "x".toList Rx.notSlashPlus] ["/a%20b/".toList, "v".toList] := by
  refine ⟨by decide +kernel, trivial⟩

/-- A `/` inside a remainder string stays a `/` of the URL (it is never hidden as `%2F`): quoting distributes over
the `/`-separated parts. -/
theorem rest_string_keeps_slashes (a b : Text) :
    quote valSafe (a ++ '/' :: b) = quote valSafe a ++ '/' :: quote valSafe b := by
  have e : a ++ '/' :: b = a ++ (['/'] ++ b) := rfl
  rw [e, quote_append, quote_append, quote_slash]
  rfl

/-- A remainder sequence generates exactly what its `/`-joined string generates: per-element quoting joined with `/`
is the quoting of the joined text. -/
theorem rest_sequence_is_joined_string (n : Text) (xs : List Atom) (ts : List Text) (h : atomTexts xs = some ts) :
    quoteVal (some n) n (.many xs) = quoteVal (some n) n (.one (.str (joinWith '/' ts))) := by
  simp [quoteVal, qAtoms_ok xs ts h, qAtom, atomText, join_quoted]

example : quoteVal (some "r".toList) "r".toList (.many [.str "a b".toList, .int 7, .bytes [0xc3, 0xa9]]) =
    .ok "a%20b/7/%C3%A9".toList := by decide +kernel

/-! ## 4. a missing value is `KeyError` -/

/-- **`missing_value_keyerror`.**  When every supplied entry can be quoted, generation raises `KeyError` as soon as
some placeholder (or the remainder) of the pattern has no value — whatever else is supplied. -/
theorem missing_value_keyerror (toks : List Tok) (kw : Kw) (hn : namesPlain toks = true)
    (hk : kwOk (remName toks) kw = true) (hm : ∃ n ∈ tokNames toks, kw.lookup n = none) :
    generate toks kw = .error .keyError := by
  rw [generate_eq_closed toks kw hn]
  unfold generateClosed
  obtain ⟨nd, hnd⟩ := newDict_ok _ kw hk
  rw [hnd]
  obtain ⟨n, hmem, hl⟩ := hm
  exact substToks_missing nd toks ⟨n, hmem, newDict_none _ kw nd hnd n hl⟩

/-- Conversely, with a value for every name (and every entry quotable) generation succeeds; and the template never
fails in any other way than `KeyError`. -/
theorem all_values_present_generates (toks : List Tok) (kw : Kw) (hn : namesPlain toks = true)
    (hk : kwOk (remName toks) kw = true) (hp : ∀ n ∈ tokNames toks, (kw.lookup n).isSome = true) :
    ∃ p, generate toks kw = .ok p := by
  rw [generate_eq_closed toks kw hn]
  unfold generateClosed
  obtain ⟨nd, hnd⟩ := newDict_ok _ kw hk
  rw [hnd]
  simp only []
  cases hs : substToks nd toks with
  | ok p => exact ⟨p, rfl⟩
  | error e =>
    exfalso
    obtain ⟨_, n, hmem, hl⟩ := substToks_error nd toks e hs
    obtain ⟨v, hv⟩ := Option.isSome_iff_exists.mp (hp n hmem)
    obtain ⟨q, _, hq⟩ := newDict_some _ kw nd hnd n v hv
    rw [hq] at hl; cases hl

example : kwOk (remName [.lit "/".toList, .ph "a".toList Rx.notSlashPlus, .lit "/".toList, .ph "b".toList Rx.notSlashPlus])
    [("a".toList, .one (.str "x".toList)), ("zz".toList, .one (.int 3))] = true := by decide
example : generate [.lit "/".toList, .ph "a".toList Rx.notSlashPlus, .lit "/".toList, .ph "b".toList Rx.notSlashPlus]
    [("a".toList, .one (.str "x".toList)), ("zz".toList, .one (.int 3))] = .error .keyError := by decide +kernel
/-- outside `kwOk`: an undecodable `bytes` value is reported first, even under a key the pattern does not use -/
example : generate [.lit "/".toList, .ph "a".toList Rx.notSlashPlus] [("zz".toList, .one (.bytes [0xff]))] =
    .error .unicodeDecode := by decide +kernel

/-! ## 5. extra elements -/

/-- **`extra_elements_appended_quoted`.**  With extra positional elements the result is the result without them,
cut before the query string, plus a `/` (unless the path already ends with one), plus the elements, each quoted on
its own with `PATH_SEGMENT_SAFE` and joined with `/`; each quoted element is a single segment (no `/`, `?`, `#`)
that decodes back to the element.  (Stated for the cache-free `routePath`; by `element_cache_transparent` it holds
after every history of calls.) -/
theorem extra_elements_appended_quoted (script : Text) (toks : List Tok) (elems : List Atom) (es : List Text)
    (kw : Kw) (qs frag path : Text) (hg : generate toks kw = .ok path) (he : atomTexts elems = some es)
    (hne : elems ≠ []) :
    routePath script toks elems kw qs frag =
      .ok (quotedScript script ++ path ++ ((if endsWithSlash path then [] else ['/']) ++
        joinWith '/' (es.map (quote elemSafe))) ++ qs ++ frag) ∧
    ∀ e ∈ es, unquote (quote elemSafe e) = some e ∧
      '/' ∉ quote elemSafe e ∧ '?' ∉ quote elemSafe e ∧ '#' ∉ quote elemSafe e := by
  constructor
  · unfold routePath assemble routeSuffix
    rw [hg]
    simp only [hne, if_false, qElems_ok elems es he]
    split <;> simp
  · intro e _
    refine ⟨unquote_quote elemSafe elemSafe_ok e, ?_, ?_, ?_⟩ <;>
    · apply not_mem_quoteBytes
      · decide
      · decide
      · decide

/-- **`element_cache_transparent`.**  `_join_elements` keys its `lru_cache` on the elements' *texts* (9c714c3).  For
every history of earlier calls — any element tuples, through any route — `route_path` answers what the cache-free
computation answers, errors included: the key determines the result (`atomTKey_determines`), so every entry the cache
ever holds is the uncached result of every tuple that maps to its key. -/
theorem element_cache_transparent (history : List (List Atom)) (script : Text) (toks : List Tok) (elems : List Atom)
    (kw : Kw) (qs frag : Text) :
    assembleMemo (cacheAfterCalls atomTKey [] history) (quotedScript script) toks elems kw qs frag =
      routePath script toks elems kw qs frag := by
  unfold assembleMemo routePath assemble
  cases generate toks kw with
  | error e => rfl
  | ok path =>
    simp only [routeSuffixMemo_ok _ (cacheAfterCalls_ok atomTKey atomTKey_determines history [] (cacheOk_nil _))]

/-- the joiner alone: after any history the memoised `_join_elements` returns the plain per-element quoting -/
theorem join_elements_history_independent (history : List (List Atom)) (elems : List Atom) :
    (joinElementsMemo (cacheAfterCalls atomTKey [] history) elems).1 = joinElements elems :=
  memo_transparent atomTKey atomTKey_determines history elems

/-- the same for the history shape the driver replays: earlier `route_path('r', *h, **kw)` calls on the same route -/
theorem element_cache_transparent_same_route (history : List (List Atom)) (script : Text) (toks : List Tok)
    (elems : List Atom) (kw : Kw) (qs frag : Text) :
    assembleMemo (cacheAfter toks kw [] history) (quotedScript script) toks elems kw qs frag =
      routePath script toks elems kw qs frag :=
  element_cache_transparent (reaching toks kw history) script toks elems kw qs frag

example : (joinElementsMemo (cacheAfterCalls atomTKey [] [[.other "True".toList], [.other "1.0".toList]]) [.int 1]).1 =
    .ok "1".toList := by decide +kernel

/-- **Regression fact about the OLD key** (the repaired defect F-C06b, fixed by 9c714c3): with the objects themselves
as key, `True == 1` shares an entry — after `_join_elements((True,))` the call `_join_elements((1,))` answered `True` —
so the old key does *not* determine the result, and the transparency argument above fails exactly there. -/
theorem old_element_key_confused_equal_values :
    (joinMemo oldAtomKey (cacheAfterCalls oldAtomKey [] [[Atom.other "True".toList]]) [.int 1]).1 = .ok "True".toList ∧
      joinElements [.int 1] = .ok "1".toList ∧
      (joinMemo oldAtomKey (cacheAfterCalls oldAtomKey [] [[Atom.int 1]]) [.other "1.0".toList]).1 = .ok "1".toList ∧
      ¬ KeyDetermines oldAtomKey := by
  refine ⟨by decide +kernel, by decide +kernel, by decide +kernel, ?_⟩
  intro h
  have := h [Atom.other "True".toList] [.int 1] (by decide)
  exact absurd this (by decide +kernel)

/-! ## 6. route URL = scheme://authority + route path -/

/-- **`url_is_prefix_plus_path`.**  For every input — errors included — `route_url` is `route_path` with the
request's `scheme://authority` in front. -/
theorem url_is_prefix_plus_path (origin script : Text) (toks : List Tok) (elems : List Atom) (kw : Kw) (qs frag : Text) :
    routeUrl origin script toks elems kw qs frag =
      match routePath script toks elems kw qs frag with
      | .ok p => .ok (origin ++ p)
      | .error e => .error e := by
  unfold routeUrl routePath assemble
  cases generate toks kw with
  | error e => rfl
  | ok path =>
    simp only []
    cases routeSuffix path elems with
    | error e => rfl
    | ok s => simp

/-! ## 7. the round trip -/

/-- What the server hands to the route matcher for a generated path is the intended text: literals verbatim, each
value as its text — for every pattern and all values (no admissibility needed: decoding always undoes quoting). -/
theorem gen_decodes (toks : List Tok) (kw : Kw) (I : Text) (hn : namesPlain toks = true)
    (hk : kwOk (remName toks) kw = true) (hi : intended kw toks = some I) (hne : I ≠ []) :
    ∃ p, generate toks kw = .ok p ∧ serverDecode p = some I := by
  rw [generate_eq_closed toks kw hn]
  unfold generateClosed
  obtain ⟨nd, hnd⟩ := newDict_ok _ kw hk
  rw [hnd]
  obtain ⟨P, hP, hD⟩ := subst_decodes _ kw nd hnd toks I hi
  refine ⟨P, hP, ?_⟩
  unfold serverDecode
  rw [hD.wsgiBytes]
  simp [Route.requestPath, utf8_roundtrip, hne]

/-- For admissible input, the intended path has exactly one reading by the pattern — the supplied values — whatever
a remainder may contain: backtracking has nothing else to find. -/
theorem admissible_reading_unique (u : Ucd) (toks : List Tok) (kw : Kw) (ha : Admissible toks kw) (I : Text) (E e : Env)
    (hi : intended kw toks = some I) (he : expectEnv kw toks = some E)
    (hs : Splits u (fun _ => True) toks I e) : e = E :=
  unique_reading u _ kw toks I E e ha.2.2.1 hi he hs

/-- **`gen_match_roundtrip`.**  For every admissible pattern and dictionary: generation succeeds, and the generated
path — percent-decoded to bytes and read as UTF-8 the way a server and `request.path_info` do — is matched by the same
pattern, with a match dictionary equal to the supplied values (`{name}`: the value's text; `*name`: the elements of a
sequence, or `split_path_info` of a string).  No restriction on the characters of any value: line feeds and other
control characters in a `*remainder` included (the former exclusion, F-C06a / F-C01b, was repaired by fc43a19). -/
theorem gen_match_roundtrip (u : Ucd) (toks : List Tok) (kw : Kw) (ha : Admissible toks kw) :
    ∃ p E, generate toks kw = .ok p ∧ expectEnv kw toks = some E ∧
      (serverDecode p).bind (matchToks u toks) = some E := by
  obtain ⟨hlead, hn, hs, hk⟩ := ha
  obtain ⟨I, E, hi, he⟩ := sepOk_defined kw toks hs
  obtain ⟨p, hp, hd⟩ := gen_decodes toks kw I hn hk hi (intended_lead kw toks I hlead hi)
  refine ⟨p, E, hp, he, ?_⟩
  rw [hd]
  simp only [Option.bind_some]
  have hsp := intended_splits u kw toks I E hs hi he
  have hdef : defaultOnly toks = true := by
    clear hsp hd hp hi he hlead hn hk
    induction toks with
    | nil => rfl
    | cons t ts ih =>
      cases t with
      | lit l => simpa [defaultOnly] using ih (by simpa [sepOk] using hs)
      | ph n rx =>
        obtain ⟨hrx, _, hs'⟩ := sepOk_ph kw n rx ts hs
        simp [defaultOnly, hrx, ih hs']
      | rest n =>
        simp only [sepOk, Bool.and_eq_true] at hs
        simpa [defaultOnly] using hs.1
  have hmem := matchAll_complete u (defaultOnly_toksOk toks hdef) hsp
  unfold matchToks
  cases hm : matchAll u .endOfString toks I with
  | nil => rw [hm] at hmem; simp at hmem
  | cons e0 rest =>
    have h0 : e0 ∈ matchAll u .endOfString toks I := by rw [hm]; simp
    have hs0 := matchAll_sound u toks I e0 h0
    rw [unique_reading u _ kw toks I E e0 hs hi he hs0]
    rfl

/-- **The same through `route_path` and a mounted application.**  `route_path` without extra
elements, with any query string and fragment (each empty or introduced by its delimiter) and any `SCRIPT_NAME`:
the client/server cut the target at the first `?`/`#`, percent-decode, take the `SCRIPT_NAME` bytes off — and the
route matches what is left with the supplied values. -/
theorem request_roundtrip (u : Ucd) (script : Text) (toks : List Tok) (kw : Kw) (qs frag : Text)
    (ha : Admissible toks kw)
    (hq : qs = [] ∨ qs.head? = some '?') (hf : frag = [] ∨ frag.head? = some '#') :
    ∃ target E, routePath script toks [] kw qs frag = .ok target ∧ expectEnv kw toks = some E ∧
      requestMatch u toks script target = some E := by
  obtain ⟨p, E, hp, he, hm⟩ := gen_match_roundtrip u toks kw ha
  obtain ⟨hlead, hn, hs, hk⟩ := ha
  obtain ⟨I, E', hi, he'⟩ := sepOk_defined kw toks hs
  obtain ⟨p', hp', hd⟩ := gen_decodes toks kw I hn hk hi (intended_lead kw toks I hlead hi)
  rw [hp] at hp'; cases hp'
  refine ⟨quotedScript script ++ p ++ [] ++ qs ++ frag, E, ?_, he, ?_⟩
  · simp [routePath, assemble, hp, routeSuffix]
  · -- the target is cut where the generated part ends
    have hcut : targetPath (quotedScript script ++ p ++ [] ++ qs ++ frag) = quotedScript script ++ p := by
      have e : quotedScript script ++ p ++ [] ++ qs ++ frag = (quotedScript script ++ p) ++ (qs ++ frag) := by simp
      rw [e]
      apply targetPath_cut
      · intro c hc
        rcases List.mem_append.mp hc with h | h
        · constructor
          · rintro rfl
            exact absurd h (not_mem_quoteBytes scriptSafe _ '?' (by decide) (by decide) (by decide))
          · rintro rfl
            exact absurd h (not_mem_quoteBytes scriptSafe _ '#' (by decide) (by decide) (by decide))
        · exact gen_has_no_delimiter toks kw p hn hp c h
      · rcases hq with rfl | hq
        · rcases hf with rfl | hf
          · exact .inl rfl
          · exact .inr (.inr (by simpa using hf))
        · cases qs with
          | nil => simp at hq
          | cons d r => exact .inr (.inl (by simpa using hq))
    -- the decoded bytes are SCRIPT_NAME's followed by the intended path's
    rw [generate_eq_closed toks kw hn] at hp
    unfold generateClosed at hp
    obtain ⟨nd, hnd⟩ := newDict_ok _ kw hk
    rw [hnd] at hp
    simp only [] at hp
    obtain ⟨P, hP, hD⟩ := subst_decodes _ kw nd hnd toks I hi
    rw [hp] at hP; cases hP
    have hDs := (decodes_quote scriptSafe scriptSafe_ok script).append hD
    unfold requestMatch wsgiPathInfo
    rw [hcut]
    have : wsgiBytes (quotedScript script ++ p) = some (utf8Enc script ++ utf8Enc I) := hDs.wsgiBytes
    rw [this]
    simp only [Option.bind_some, dropBytes_append]
    have hd' : serverDecode p = (Route.requestPath (some (utf8Enc I))) := by
      unfold serverDecode; rw [hD.wsgiBytes]; rfl
    rw [hd'] at hm
    exact hm

/-- What `_compile_route` accepts always has the shape the theorems ask for: a leading literal that begins with `/`
and group names without parentheses (they are identifiers). -/
theorem compiled_pattern_shape (u : Ucd) (lib : Lib) (route : Text) (toks : List Tok)
    (h : compileRoute u lib route = .ok toks) : leadSlash toks = true ∧ namesPlain toks = true :=
  ⟨compile_lead_slash u lib route toks h, compile_names_plain u lib route toks h⟩

/-- **The round trip stated on the pattern text.**  For every pattern text `_compile_route`
accepts: if the values are admissible for its tokens and every entry of the dictionary can be quoted, the path
generated from the compiled pattern is matched by it with the supplied values. -/
theorem pattern_roundtrip (u : Ucd) (lib : Lib) (route : Text) (toks : List Tok) (kw : Kw)
    (hc : compileRoute u lib route = .ok toks) (hs : sepOk kw toks = true) (hk : kwOk (remName toks) kw = true) :
    ∃ p E, generate toks kw = .ok p ∧ expectEnv kw toks = some E ∧
      (serverDecode p).bind (matchToks u toks) = some E :=
  gen_match_roundtrip u toks kw
    ⟨compile_lead_slash u lib route toks hc, compile_names_plain u lib route toks hc, hs, hk⟩

/-- An `int` is always a legal `{name}` value: `str(i)` is never empty and has no `/`. -/
theorem int_values_in_domain (i : Int) : phValueOk (.one (.int i)) = true := int_value_ok i

example : compileRoute Ucd.ascii [] "archive/{year}-{month}/*rest".toList =
    .ok [.lit "/archive/".toList, .ph "year".toList Rx.notSlashPlus, .lit "-".toList, .ph "month".toList Rx.notSlashPlus,
      .lit "/".toList, .rest "rest".toList] := by decide +kernel

/-! ### non-vacuity: concrete admissible inputs, run end to end -/

example : Admissible [.lit "/a b/".toList, .ph "x".toList Rx.notSlashPlus, .lit "/é/".toList, .rest "rest".toList]
    [("x".toList, .one (.str "50% off?#;+é".toList)),
     ("rest".toList, .many [.str "p q".toList, .int 7, .bytes [0xc3, 0xa9]])] := by decide +kernel
/-- a remainder with LF, CR, NUL and DEL in it is admissible -/
example : Admissible [.lit "/s/".toList, .rest "rest".toList]
    [("rest".toList, .many [.str "a\nb".toList, .str "\r".toList, .str [Char.ofNat 0, Char.ofNat 127]])] := by decide +kernel
/-- `/{year}-{a}-{b}` with dash-free values: admissible although the separator repeats -/
example : Admissible [.lit "/".toList, .ph "year".toList Rx.notSlashPlus, .lit "-".toList, .ph "a".toList Rx.notSlashPlus,
      .lit "-".toList, .ph "b".toList Rx.notSlashPlus]
    [("year".toList, .one (.int 2024)), ("a".toList, .one (.str "1.2".toList)), ("b".toList, .one (.bytes [51]))] := by
  decide +kernel
/-- `/{a}/edit` with the value `edit`: admissible (a separator containing `/` asks nothing of the values) -/
example : Admissible [.lit "/".toList, .ph "a".toList Rx.notSlashPlus, .lit "/edit".toList]
    [("a".toList, .one (.str "edit".toList))] := by decide +kernel
example :
    let toks := [Tok.lit "/a b/".toList, .ph "x".toList Rx.notSlashPlus, .lit "/".toList, .rest "rest".toList]
    let kw : Kw := [("x".toList, .one (.str "50% off?#".toList)), ("rest".toList, .one (.str "/p//q/./r/../s/".toList))]
    generate toks kw = .ok "/a%20b/50%25%20off%3F%23//p//q/./r/../s/".toList ∧
    (serverDecode "/a%20b/50%25%20off%3F%23//p//q/./r/../s/".toList).bind (matchToks Ucd.ascii toks) =
      some [("x".toList, .str "50% off?#".toList), ("rest".toList, .segs ["p".toList, "q".toList, "s".toList])] ∧
    expectEnv kw toks = some [("x".toList, .str "50% off?#".toList), ("rest".toList, .segs ["p".toList, "q".toList, "s".toList])] := by
  decide +kernel
example :
    requestMatch Ucd.ascii [.lit "/s/".toList, .ph "x".toList Rx.notSlashPlus] "/scr ipt".toList
      "/scr%20ipt/s/a%3Fb?q=1#f".toList = some [("x".toList, .str "a?b".toList)] := by decide +kernel

/-! ## 8. the excluded points of the domain: the round trip fails there (each replayed on the real code) -/

/-- an empty `{name}` value: `/a//b` is not matched by `/a/{x}/b` (an empty segment cannot match `[^/]+`) -/
theorem empty_value_breaks_roundtrip :
    let toks := [Tok.lit "/a/".toList, .ph "x".toList Rx.notSlashPlus, .lit "/b".toList]
    let kw : Kw := [("x".toList, .one (.str []))]
    ¬ Admissible toks kw ∧ generate toks kw = .ok "/a//b".toList ∧
      (serverDecode "/a//b".toList).bind (matchToks Ucd.ascii toks) = none := by decide +kernel

/-- a dot segment in a remainder sequence: `('a','..','b')` comes back as `('b',)` -/
theorem dot_segment_breaks_roundtrip :
    let toks := [Tok.lit "/s/".toList, .rest "rest".toList]
    let kw : Kw := [("rest".toList, .many [.str "a".toList, .str "..".toList, .str "b".toList])]
    ¬ Admissible toks kw ∧ generate toks kw = .ok "/s/a/../b".toList ∧
      (serverDecode "/s/a/../b".toList).bind (matchToks Ucd.ascii toks) = some [("rest".toList, .segs ["b".toList])] ∧
      expectEnv kw toks = some [("rest".toList, .segs ["a".toList, "..".toList, "b".toList])] := by decide +kernel

/-- a `/` inside a remainder element: `('a/b',)` comes back as `('a','b')` (`/` is in `PATH_SAFE`) -/
theorem slash_in_element_breaks_roundtrip :
    let toks := [Tok.lit "/s/".toList, .rest "rest".toList]
    let kw : Kw := [("rest".toList, .many [.str "a/b".toList])]
    ¬ Admissible toks kw ∧ generate toks kw = .ok "/s/a/b".toList ∧
      (serverDecode "/s/a/b".toList).bind (matchToks Ucd.ascii toks) =
        some [("rest".toList, .segs ["a".toList, "b".toList])] ∧
      expectEnv kw toks = some [("rest".toList, .segs ["a/b".toList])] := by decide +kernel

/-- a separator that occurs in the following value: `/{a}-{b}` with `a='x'`, `b='y-z'` comes back as `a='x-y'`,
`b='z'` (the greedy `[^/]+` takes the longest) -/
theorem separator_in_value_breaks_roundtrip :
    let toks := [Tok.lit "/".toList, .ph "a".toList Rx.notSlashPlus, .lit "-".toList, .ph "b".toList Rx.notSlashPlus]
    let kw : Kw := [("a".toList, .one (.str "x".toList)), ("b".toList, .one (.str "y-z".toList))]
    ¬ Admissible toks kw ∧ generate toks kw = .ok "/x-y-z".toList ∧
      (serverDecode "/x-y-z".toList).bind (matchToks Ucd.ascii toks) =
        some [("a".toList, .str "x-y".toList), ("b".toList, .str "z".toList)] := by decide +kernel

/-- **Regression fact for the repaired F-C06a / F-C01b** (fc43a19): an admissible remainder value with a line feed
generates `/s/a%0Ab`, the server decodes it to `/s/a⏎b`, and its own route matches it with the supplied value — with
the remainder compiled to `.*?` (`Rx.lazyDotStar`, the code before the fix) the very same path had no match. -/
theorem rest_newline_roundtrips :
    let toks := [Tok.lit "/s/".toList, .rest "rest".toList]
    let kw : Kw := [("rest".toList, .one (.str "a\nb".toList))]
    Admissible toks kw ∧ generate toks kw = .ok "/s/a%0Ab".toList ∧
      serverDecode "/s/a%0Ab".toList = some "/s/a\nb".toList ∧
      (serverDecode "/s/a%0Ab".toList).bind (matchToks Ucd.ascii toks) = some [("rest".toList, .segs ["a\nb".toList])] ∧
      expectEnv kw toks = some [("rest".toList, .segs ["a\nb".toList])] ∧
      (Rx.run Ucd.ascii Rx.lazyDotStar "a\nb".toList).map (·.1) = [[], ['a']] := by decide +kernel

end Pyr.UrlGen
