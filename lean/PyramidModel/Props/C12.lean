import PyramidModel.Lemmas.CsrfProofs
import PyramidModel.Lemmas.CsrfGen
/-!
# C12 — CSRF-protected views run only with the stored token and a trusted origin

Property theorems only (model: `Csrf.lean`; spec: `Lemmas/Csrf.lean`; helper lemmas: `Lemmas/CsrfProofs.lean`;
generated table: `Gen/C12.lean`).  All statements quantify over every configuration (`ViewCfg`: `require_csrf`,
default options incl. names or `None`, safe methods, `check_origin`, `allow_no_origin`, any callback, the three
storage policies, any trusted list) and every request (`Req`: any method, scheme, CGI keys, form body, query
string, stored token), and over every finite sequence of checks sharing one trusted-origins list.
-/
namespace Pyr.Csrf

/-! ## the deriver: model = spec -/

/-- CENTRAL: the wrapped view's body runs exactly when the spec says so: checking is not in force for the view,
or the method is safe, or the callback waives the check, or (origin condition, when origins are checked) and the
supplied token is the held token. -/
theorem view_runs_iff_spec (c : ViewCfg) (r : Req) : csrfView c r = .ok () ↔ specViewRuns c r = true := by
  rw [csrfView_cases]
  unfold specViewRuns checksApply
  simp only [csrfEnabled_eq_spec]
  generalize (specEnabled c && !c.opts.safeMethods.contains r.method &&
      match c.opts.callback with | none => true | some cb => cb r) = applies
  cases applies <;> cases c.opts.checkOrigin <;> cases specOriginOk c.trustedSetting c.opts.allowNoOrigin r <;>
    cases specTokenOk c.storage c.opts.token c.opts.header r <;> simp

/-- The checks apply exactly to an unsafe method of a view with checking in force (explicitly; or by the default,
for views that are not exception views; and at least one of the two names configured) whose callback, if any,
does not waive them. -/
theorem checks_apply_iff (c : ViewCfg) (r : Req) :
    checksApply c r = true ↔
      ((c.explicit = some true ∨ (c.explicit = none ∧ c.opts.requireCsrf = true ∧ c.exceptionOnly = false)) ∧
        (truthy c.opts.token = true ∨ truthy c.opts.header = true)) ∧
      r.method ∉ c.opts.safeMethods ∧
      (∀ cb, c.opts.callback = some cb → cb r = true) := by
  unfold checksApply
  rw [csrfEnabled_eq_spec]
  unfold specEnabled
  simp only []
  have hm : (!c.opts.safeMethods.contains r.method) = true ↔ r.method ∉ c.opts.safeMethods := by
    rw [Bool.not_eq_true', ← Bool.not_eq_true, List.contains_iff_mem]
  cases hcb : c.opts.callback with
  | none =>
    cases hx : c.explicit with
    | none => simp [hm, and_assoc, and_comm, and_left_comm]
    | some b => cases b <;> simp [hm, and_assoc, and_comm, and_left_comm]
  | some cb =>
    cases hx : c.explicit with
    | none => simp [hm, and_assoc, and_comm, and_left_comm]
    | some b => cases b <;> simp [hm, and_assoc, and_comm, and_left_comm]

/-- The body of a protected view runs for a checked request ONLY IF the supplied token — the configured header
when present and non-empty, else the last value of the configured form-body field, never the query string — equals
the token the storage policy holds, and, when origins are checked, the origin condition of the statement holds. -/
theorem body_runs_only_if (c : ViewCfg) (r : Req) (hrun : csrfView c r = .ok ()) (happ : checksApply c r = true) :
    specSupplied c.opts.token c.opts.header r = specHeld c.storage r ∧
      (c.opts.checkOrigin = true → OriginAccepts c.trustedSetting c.opts.allowNoOrigin r) := by
  rw [csrfView_cases] at hrun
  simp only [happ, ite_true] at hrun
  constructor
  · by_cases ht : specTokenOk c.storage c.opts.token c.opts.header r = true
    · simpa [specTokenOk] using ht
    · split at hrun
      · cases hrun
      · simp [ht] at hrun
  · intro hco
    apply specOriginOk_sound
    by_cases hso : specOriginOk c.trustedSetting c.opts.allowNoOrigin r = true
    · exact hso
    · simp [hco, hso] at hrun

/-! ## the origin condition -/

/-- `check_csrf_origin` passes ONLY IF: the request is not https; or there is no Origin/Referer value and
`allow_no_origin` is set; or the Origin header's value is `null` and `null` is literally a trusted origin; or the value
reads as an https origin whose host part is admitted by the request's own host(:port) or by a trusted pattern. -/
theorem origin_condition_spec (tl : List Text) (allowNo raises : Bool) (r : Req)
    (h : checkOrigin tl allowNo raises r = .ok true) : OriginAccepts tl allowNo r := by
  apply specOriginOk_sound
  rw [checkOrigin_eq_spec] at h
  by_cases hs : specOriginOk tl allowNo r = true
  · exact hs
  · simp only [hs, Bool.false_eq_true, ite_false] at h
    exact absurd h (failOrigin_ne_ok_true raises)

/-- The verdict is a function of the executable spec; a refusal is `False` (`raises=False`) or `BadCSRFOrigin`. -/
theorem origin_check_eq_spec (tl : List Text) (allowNo raises : Bool) (r : Req) :
    checkOrigin tl allowNo raises r =
      if specOriginOk tl allowNo r then .ok true else (if raises then .error .badOrigin else .ok false) :=
  checkOrigin_eq_spec tl allowNo raises r

/-- What a trusted-origin pattern admits: the host equal to the (lower-cased) pattern; for a pattern `.d` also `d`
and every host that ends in `.d` — the match is at a label boundary (`evilexample.com` is not admitted by
`.example.com`). -/
theorem same_domain_iff (host pattern : Text) : isSameDomain host pattern = true ↔ DomainMatches host pattern := by
  rw [isSameDomain_eq]; exact matchesPattern_iff host pattern

/-- A missing origin passes only when so configured. -/
theorem missing_origin_needs_allow (tl : List Text) (raises : Bool) (r : Req) (hs : r.scheme = s "https")
    (hno : originValue r = none ∨ originValue r = some []) :
    checkOrigin tl false raises r = failOrigin raises := by
  rw [checkOrigin_eq_spec]
  have : specOriginOk tl false r = false := by
    unfold specOriginOk
    unfold originValue at hno
    simp only [hs, bne_self_eq_false, Bool.false_eq_true, ite_false]
    cases ho : header r (s "Origin") with
    | some o =>
      rw [ho] at hno
      have : lastOrigin o = [] := by simpa using hno
      simp [this]
    | none =>
      rw [ho] at hno
      simp only at hno ⊢
      rcases hno with h | h <;> simp [h]
  simp [this]

/-! ## the token condition -/

/-- `check_csrf_token` passes exactly when the supplied token IS the held token (the constant-time comparison of
the UTF-8 encodings is equality of the texts); otherwise `False` / `BadCSRFToken`. -/
theorem token_condition_spec (st : Storage) (token hdr : Option Text) (raises : Bool) (r : Req) :
    (checkToken st token hdr raises r = .ok true ↔ specSupplied token hdr r = specHeld st r) ∧
    (checkToken st token hdr raises r = .ok true ∨
      checkToken st token hdr raises r = (if raises then .error .badToken else .ok false)) := by
  rw [checkToken_eq]
  unfold specTokenOk
  by_cases h : specSupplied token hdr r = specHeld st r
  · simp [h]
  · cases raises <;> simp [h]

/-- The query string is never consulted: changing it changes neither check. -/
theorem query_token_ignored (st : Storage) (token hdr : Option Text) (tl : List Text) (a raises : Bool) (r : Req)
    (q : List (Text × Text)) :
    checkToken st token hdr raises { r with query := q } = checkToken st token hdr raises r ∧
    checkOrigin tl a raises { r with query := q } = checkOrigin tl a raises r := ⟨rfl, rfl⟩

/-- … and neither does the deriver, as long as the application's callback does not look at it. -/
theorem view_ignores_query (c : ViewCfg) (r : Req) (q : List (Text × Text))
    (hcb : ∀ cb, c.opts.callback = some cb → cb { r with query := q } = cb r) :
    csrfView c { r with query := q } = csrfView c r := by
  have happ : checksApply c { r with query := q } = checksApply c r := by
    simp only [checksApply]
    cases h : c.opts.callback with
    | none => rfl
    | some cb => simp only [hcb cb h]
  unfold csrfView
  rw [happ]
  rfl

/-- A token that is supplied only in the query string is refused: with no (non-empty) configured header and no
such field in a parsed form body the supplied token is empty, and the held token is not.
Hypotheses on the held token: a freshly generated token is non-empty, and a legacy session does not hold an
empty token (see `legacy_empty_token_excluded_point`). -/
theorem token_only_in_query_rejected (st : Storage) (token hdr : Option Text) (r : Req)
    (hh : ∀ v, hdr.bind (header r) = some v → v = [])
    (hf : ∀ t, token = some t → ∀ kv ∈ r.form, kv.1 ≠ t)
    (hfresh : r.fresh ≠ []) (hleg : st = .legacy → r.stored ≠ some []) :
    checkToken st token hdr true r = .error .badToken := by
  rw [checkToken_eq]
  have hsup : specSupplied token hdr r = [] := by
    have hfilt : ∀ t, token = some t → r.form.filter (fun kv => kv.1 == t) = [] := by
      intro t ht
      rw [List.filter_eq_nil_iff]
      intro kv hkv
      simpa using hf t ht kv hkv
    have hfield : ∀ tok : Option Text, tok = token → (match tok with
        | none => []
        | some t => if isFormSubmission r = true then
            match (r.form.filter fun kv => kv.1 == t).getLast? with
            | some kv => kv.2
            | none => []
          else []) = ([] : Text) := by
      intro tok htok
      cases tok with
      | none => rfl
      | some t =>
        simp only [hfilt t htok.symm, List.getLast?_nil]
        split <;> rfl
    unfold specSupplied
    cases hb : hdr.bind (header r) with
    | none => exact hfield token rfl
    | some v =>
      have := hh v hb
      subst this
      exact hfield token rfl
  have hheld : specHeld st r ≠ [] := by
    unfold specHeld
    cases hs : r.stored with
    | none => simpa using hfresh
    | some t =>
      cases t with
      | nil => cases st <;> simp_all
      | cons x xs => cases st <;> simp
  have : specTokenOk st token hdr r = false := by
    unfold specTokenOk
    rw [hsup]
    exact beq_eq_false_iff_ne.mpr (fun e => hheld e.symm)
  simp [this]

/-! ## what is NOT checked -/

/-- Safe methods are not checked. -/
theorem safe_methods_unchecked (c : ViewCfg) (r : Req) (h : r.method ∈ c.opts.safeMethods) :
    csrfView c r = .ok () := by
  have : checksApply c r = false := by
    have hc : c.opts.safeMethods.contains r.method = true := List.contains_iff_mem.mpr h
    simp only [checksApply, hc, Bool.not_true, Bool.and_false, Bool.false_and]
  rw [csrfView_cases, this]; rfl

/-- A view that opted out (`require_csrf=False`) is not checked, whatever the defaults. -/
theorem opted_out_unchecked (c : ViewCfg) (r : Req) (h : c.explicit = some false) : csrfView c r = .ok () := by
  have : checksApply c r = false := by
    unfold checksApply
    rw [csrfEnabled_eq_spec]; unfold specEnabled; simp [h]
  rw [csrfView_cases, this]; rfl

/-- The configured default does not reach exception views; no default at all (no `set_default_csrf_options`) means
no checking unless the view asks for it. -/
theorem default_only_for_non_exception_views (c : ViewCfg) (r : Req) (hx : c.explicit = none)
    (h : c.exceptionOnly = true ∨ c.defaults = none ∨ c.opts.requireCsrf = false) : csrfView c r = .ok () := by
  have : checksApply c r = false := by
    unfold checksApply
    rw [csrfEnabled_eq_spec]; unfold specEnabled
    rcases h with h | h | h
    · simp [hx, h]
    · have : c.opts.requireCsrf = false := by simp [ViewCfg.opts, h, builtinDefaults]
      simp [hx, this]
    · simp [hx, h]
  rw [csrfView_cases, this]; rfl

/-- With both names disabled (`None` or empty) nothing is checked. -/
theorem no_names_unchecked (c : ViewCfg) (r : Req) (ht : truthy c.opts.token = false) (hh : truthy c.opts.header = false) :
    csrfView c r = .ok () := by
  have : checksApply c r = false := by
    unfold checksApply
    rw [csrfEnabled_eq_spec]; unfold specEnabled; simp [ht, hh]
  rw [csrfView_cases, this]; rfl

/-! ## rejection -/

/-- Whatever the request and the configuration, the wrapped view either runs the body or raises `BadCSRFToken` /
`BadCSRFOrigin` (both `HTTPBadRequest`): no `ValueError` from `urlparse`, no `UnicodeEncodeError` from `bytes_`
escapes; and the two functions with `raises=False` return a boolean. -/
theorem rejection_is_bad_request (c : ViewCfg) (r : Req) :
    csrfView c r = .ok () ∨ csrfView c r = .error .badToken ∨ csrfView c r = .error .badOrigin := by
  rw [csrfView_cases]
  cases checksApply c r <;> cases c.opts.checkOrigin <;> cases specOriginOk c.trustedSetting c.opts.allowNoOrigin r <;>
    cases specTokenOk c.storage c.opts.token c.opts.header r <;> simp

theorem no_raise_functions_return_bool (st : Storage) (token hdr : Option Text) (tl : List Text) (a : Bool) (r : Req) :
    (∃ b, checkToken st token hdr false r = .ok b) ∧ (∃ b, checkOrigin tl a false r = .ok b) := by
  rw [checkToken_eq, checkOrigin_eq_spec]
  constructor
  · cases specTokenOk st token hdr r <;> simp
  · cases specOriginOk tl a r <;> simp [failOrigin]

/-- The origin is checked BEFORE the token: a request failing both is refused as a bad origin. -/
theorem origin_checked_before_token (c : ViewCfg) (r : Req) (happ : checksApply c r = true)
    (hco : c.opts.checkOrigin = true) (hbad : specOriginOk c.trustedSetting c.opts.allowNoOrigin r = false) :
    csrfView c r = .error .badOrigin := by
  rw [csrfView_cases]; simp [happ, hco, hbad]

/-! ## history independence -/

/-- `check_csrf_origin` leaves the caller's `trusted_origins` list as it found it, and therefore the verdicts of
ANY sequence of checks sharing one list object are the verdicts each request gets on its own with the original
list: the verdict depends on the current request and the settings only. -/
theorem verdict_history_independent (allowNo raises : Bool) (tl : List Text) :
    (∀ r, (checkOriginSt tl allowNo raises r).2 = tl) ∧
    (∀ rs, checkOriginSeq allowNo raises tl rs = (rs.map (checkOrigin tl allowNo raises), tl)) :=
  ⟨checkOriginSt_list tl allowNo raises, checkOriginSeq_eq allowNo raises tl⟩

/-! ## the three repaired defects, as statements about the code shapes they had (regression witnesses; the same
inputs are in `corpus/C12/r0*.json` and are replayed on the real code by every run) -/

/-- F-C12a: without the `list(trusted_origins)` copy the own host of request 1 stays in the shared list and
request 2, from another host, with request 1's origin, is accepted. -/
theorem shape_without_copy_is_history_dependent :
    let r1 : Req := ⟨s "POST", s "https", [(s "HTTP_HOST", s "evil.example:8443"), (s "HTTP_ORIGIN", s "https://evil.example:8443")], [], [], none, s "f", true, true⟩
    let r2 : Req := ⟨s "POST", s "https", [(s "HTTP_HOST", s "example.com"), (s "HTTP_ORIGIN", s "https://evil.example:8443")], [], [], none, s "f", true, true⟩
    let tl := [s "example.com"]
    (checkOriginCore false true tl false false r2).1 = .ok false ∧
    (checkOriginCore false true (checkOriginCore false true tl false false r1).2 false false r2).1 = .ok true ∧
    (checkOriginCore true true (checkOriginCore true true tl false false r1).2 false false r2).1 = .ok false := by
  decide

/-- F-C12b: with the latin-1 codec a token outside latin-1 raises instead of failing the comparison. -/
theorem shape_with_latin1_codec_crashes :
    let r : Req := ⟨s "POST", s "http", [], [], [], some (s "abc"), s "f", true, true⟩
    policyCheckWith .latin1 .cookie r (s "€") = .error .unicodeError ∧
    policyCheckWith .utf8 .cookie r (s "€") = .ok false := by
  decide

/-- F-C12c: without the `try … except ValueError` an unparsable origin raises instead of failing the check. -/
theorem shape_without_catch_crashes :
    let r : Req := ⟨s "POST", s "https", [(s "HTTP_HOST", s "example.com"), (s "HTTP_ORIGIN", s "https://[")], [], [], none, s "f", true, true⟩
    (checkOriginCore true false [] false false r).1 = .error .valueError ∧
    (checkOriginCore true true [] false false r).1 = .ok false := by
  decide

/-- Excluded point of `token_only_in_query_rejected` (hypothesis `hleg`): a LEGACY session that holds an empty token
accepts a request that supplies no token at all — the empty supplied token equals the held one.  Only the
application can store an empty token; the harness replays this point on the real code (evidence notes). -/
theorem legacy_empty_token_excluded_point :
    let r : Req := ⟨s "POST", s "http", [(s "HTTP_HOST", s "example.com")], [], [], some [], s "f", true, true⟩
    checkToken .legacy (some (s "csrf_token")) (some (s "X-CSRF-Token")) false r = .ok true ∧
    checkToken .session (some (s "csrf_token")) (some (s "X-CSRF-Token")) false r = .ok false := by
  simp only [checkToken_eq]
  decide

/-! ## the generated tables (extract/c12.py RUNS the code under test over finite probe domains; `Lemmas/CsrfGen.lean`
evaluates the model on each row): on every probed input the model gives the verdict the implementation gave.  The rows
cover the built-in defaults (names, safe-method set, check_origin / allow_no_origin, no default requirement), every option
of a registered utility, the `enabled` truth table, header / body / query lookups, the order of the two checks, signature
defaults, the codec of the comparison, the list copy, the caught ValueError, the own-host/port rule. -/

open Pyr.Gen.C12 in
/-- the wrapper derived by `csrf_view` — 221 probed calls -/
theorem gen_view_rows : viewRows.all viewRowOk = true := by decide +kernel

open Pyr.Gen.C12 in
/-- The verdict does not depend on the OTHER options of the view: 560 WSGI requests through real applications whose view was
registered through `add_view` without and with each of `request_method` (single / tuple, incl. only RFC-safe methods under
custom `safe_methods`), `xhr`, `name` instead of `route_name`, `attr`, `decorator`, `renderer`, `permission`, `http_cache`,
`wrapper`, `mapper` — each carries the outcome the model computes from (enabled, safe_methods, callback, method, token,
origin) alone; every listed option occurs in the table. -/
theorem gen_view_option_rows :
    optRows.all optRowOk = true ∧ extraViewOptions.all (fun o => optRows.any fun r => r.opt == o) = true ∧
      extraViewOptions.length = 13 := by
  refine ⟨by decide +kernel, by decide +kernel, by decide⟩

open Pyr.Gen.C12 in
/-- `check_csrf_origin` — 192 probed calls, incl. omitted arguments, the caller's list and the settings list afterwards -/
theorem gen_origin_rows : originRows.all originRowOk = true := by decide +kernel

open Pyr.Gen.C12 in
/-- `check_csrf_token` (198) and the storage policies' comparison (129: prefix, case, non-latin-1, mojibake) -/
theorem gen_token_rows : tokenRows.all tokenRowOk = true ∧ policyRows.all policyRowOk = true := by
  constructor <;> decide +kernel

open Pyr.Gen.C12 in
/-- `is_same_domain` over 8 hosts × 9 patterns, `strings_differ` over 5 × 5 byte strings -/
theorem gen_util_rows : domainRows.all domainRowOk = true ∧ differRows.all differRowOk = true := by
  constructor <;> decide +kernel

open Pyr.Gen.C12 in
/-- `set_default_csrf_options()` without arguments registers the documented defaults, and each argument lands in the
attribute of the same name (`require_csrf`, `token`, `header`, `safe_methods`, `check_origin`, `allow_no_origin`, `callback`) -/
theorem gen_options :
    optionsDefaults = some ⟨true, some "csrf_token", some "X-CSRF-Token", ["GET", "HEAD", "OPTIONS", "TRACE"], true, false, "none"⟩ ∧
    optionsStore = [("allow_no_origin", "allow_no_origin"), ("callback", "callback"), ("check_origin", "check_origin"),
                    ("header", "header"), ("require_csrf", "require_csrf"), ("safe_methods", "safe_methods"), ("token", "token")] ∧
    (match optionsDefaults.bind defaultsOfRow with
     | some d => d.token == builtinDefaults.token && d.header == builtinDefaults.header &&
         d.safeMethods == builtinDefaults.safeMethods && d.checkOrigin == builtinDefaults.checkOrigin &&
         d.allowNoOrigin == builtinDefaults.allowNoOrigin && d.requireCsrf
     | none => false) = true := by
  decide

/-! ## non-vacuity -/

/-- a request that satisfies every hypothesis of `body_runs_only_if` non-trivially: https POST from a subdomain
admitted by a leading-dot pattern, token in the form body -/
example :
    let d : Defaults := { builtinDefaults with requireCsrf := true }
    let c : ViewCfg := ⟨none, false, some d, .session, [s ".example.com"]⟩
    let r : Req := ⟨s "POST", s "https",
      [(s "HTTP_HOST", s "app.internal:8443"), (s "HTTP_ORIGIN", s "https://sub.example.com https://evilexample.com/x"),
       (s "CONTENT_TYPE", s "application/x-www-form-urlencoded")],
      [(s "csrf_token", s "old"), (s "csrf_token", s "tök€n")], [(s "csrf_token", s "query")], some (s "tök€n"), s "f", true, true⟩
    checksApply c r = true ∧ specViewRuns c r = false ∧
      specViewRuns c { r with environ := [(s "HTTP_HOST", s "app.internal:8443"), (s "HTTP_ORIGIN", s "https://evilexample.com HTTPS://Sub.example.com/x"),
       (s "CONTENT_TYPE", s "application/x-www-form-urlencoded")] } = true ∧
      ownHost r = s "app.internal:8443" := by
  decide

/-- hypotheses of `token_only_in_query_rejected` hold for a request carrying the right token in the query string -/
example :
    let r : Req := ⟨s "POST", s "http", [(s "HTTP_HOST", s "example.com"), (s "HTTP_X_CSRF_TOKEN", [])], [(s "other", s "abc")],
      [(s "csrf_token", s "abc")], some (s "abc"), s "f", true, true⟩
    (∀ v, (some (s "X-CSRF-Token")).bind (header r) = some v → v = []) ∧
    (∀ kv ∈ r.form, kv.1 ≠ s "csrf_token") ∧ r.fresh ≠ [] ∧ specTokenOk .session (some (s "csrf_token")) (some (s "X-CSRF-Token")) r = false := by
  refine ⟨?_, by decide, by decide, by decide⟩
  intro v hv
  have : (some (s "X-CSRF-Token")).bind (header ⟨s "POST", s "http", [(s "HTTP_HOST", s "example.com"), (s "HTTP_X_CSRF_TOKEN", [])], [(s "other", s "abc")],
      [(s "csrf_token", s "abc")], some (s "abc"), s "f", true, true⟩) = some [] := by decide
  rw [this] at hv
  exact (Option.some.inj hv).symm

/-- `OriginAccepts` is not trivially true: it is refuted by the model on a foreign origin, and `DomainMatches`
distinguishes a label boundary -/
example : isSameDomain (s "sub.example.com") (s ".Example.com") = true ∧ isSameDomain (s "evilexample.com") (s ".example.com") = false ∧
    isSameDomain (s "example.com") (s ".example.com") = true ∧ isSameDomain (s "Example.com") (s "example.com") = false := by decide

/-- a sequence where history WOULD matter if the list leaked (cf. `shape_without_copy_is_history_dependent`) -/
example :
    let r1 : Req := ⟨s "POST", s "https", [(s "HTTP_HOST", s "evil.example:8443"), (s "HTTP_ORIGIN", s "https://evil.example:8443")], [], [], none, s "f", true, true⟩
    let r2 : Req := ⟨s "POST", s "https", [(s "HTTP_HOST", s "example.com"), (s "HTTP_ORIGIN", s "https://evil.example:8443")], [], [], none, s "f", true, true⟩
    checkOriginSeq false false [s "example.com"] [r1, r2] = ([.ok true, .ok false], [s "example.com"]) := by
  decide

end Pyr.Csrf
