import PyramidModel.Lemmas.ConfigOrderViews
import PyramidModel.Gen.C08Phases
import PyramidModel.Props.C04
import PyramidModel.ViewLookup
import PyramidModel.Lemmas.TopoSorter
/-!
# C08 — application behaviour is independent of configuration statement order / nesting

Model: `ConfigOrder.lean` (abstract registry store, footprints, programs of C04 actions, `commit` = C04's
`execute_actions` model + the semantics of the executed ids), hand-written footprint table
`ConfigFootprints.lean`, generated phase table `Gen/C08Phases.lean` (one row per `self.action(…)` call).

What is proved, for programs of ANY length:
* `swap_independent` — two footprint-respecting actions neither of which writes what the other reads or writes
  commute on every store;
* `perm_independent` — two permutations of a program give the same store after the phase-sorted run as soon as
  every pair of *same-phase* actions whose declaration order differs commutes (pairs of different phases are put
  in the same order by the sort, whatever the declaration order: that is why a statement may refer to something
  declared later);
* `phase_table_sound` — the generated table, joined with the hand-written footprints, is sound: wherever a kind
  writes a family another kind reads, the writer's phase is strictly lower than the phase at which the reader
  reads it (a non-deferred discriminator reads at declaration time, i.e. before everything), wherever two kinds
  write one family their phases differ, unless the pair is declared order-sensitive / keyed by distinct
  discriminators / carries one constant discriminator;
* `program_order_irrelevant` — the two combined: for a conflict-free program whose actions are instances of the
  generated rows, any permutation that keeps the relative order of the order-sensitive pairs that really share
  a slot and do not commute gives the same final store; `statements_order_irrelevant` lifts it to statement lists;
* `nesting_irrelevant`, `order_and_nesting_irrelevant` — through C04's `conflict_free_is_sorted`: include paths
  do not influence a conflict-free commit;
* `multiview_merge_commutes` — two views of one slot with different predicate order commute;
  `view_tie_order_dependent` / `view_tie_witness_c03` — with equal order they do not (finding F-C08a);
  `unconstrained_derivers_order_dependent` (F-C08b), `unconstrained_predicates_order_dependent` (F-C08c).

PARTIAL with respect to the property statement ("every ordering that keeps route declarations in order"): the
code cannot satisfy it for the three finding classes, which is why `program_order_irrelevant` has the `hkeep`
hypothesis for view/view, deriver/deriver and predicate/predicate pairs in addition to the documented
route/route, subscriber/subscriber, tween/tween ones.  The negations are the `decide`d witnesses above, replayed
on the real code by `harness/c08.py`.
-/
namespace Pyr.ConfigOrder
open Pyr.Actions

/-! ## commuting -/

/-- **`swap_independent`** — FULL.  Adjacent independent actions can be swapped: if both semantics stay inside
their declared footprints and neither writes a slot the other reads or writes, executing them in either order
yields the same store (for every store). -/
theorem swap_independent (f g : Footprint) (hf : Respects f) (hg : Respects g) (hi : Indep f g) (s : Store) :
    f.sem (g.sem s) = g.sem (f.sem s) :=
  commutes_of_indep hf hg hi s

/-- **`perm_independent`** — FULL (any program length; bubble-sort argument `foldl_perm_commute` + stability of
`phaseSort`).  `P` and `Q` are two declaration orders of the same actions.  If every two actions *of the same
phase* that are declared in opposite order in `P` and `Q` commute, the phase-sorted executions of `P` and `Q`
end in the same store.  Nothing is asked of pairs in different phases. -/
theorem perm_independent (env : Env) (P Q : List Act) (hn : IdsNodup P) (hperm : Q.Perm P)
    (hswap : ∀ a b, a ∈ P → b ∈ P → a.order = b.order → [a, b].Sublist P → [b, a].Sublist Q →
      Commutes (env a.id) (env b.id)) :
    ∀ s, runActs env (phaseSort P) s = runActs env (phaseSort Q) s := by
  intro s
  have hL : (phaseSort P).Nodup := (phaseSort_perm P).nodup_iff.mpr (nodup_of_idsNodup hn)
  have hLM : (phaseSort P).Perm (phaseSort Q) :=
    (phaseSort_perm P).trans (hperm.symm.trans (phaseSort_perm Q).symm)
  apply foldl_perm_commute (fun s (a : Act) => (env a.id).sem s) _ _ hL hLM
  intro a b hab hba s
  obtain ⟨he, hP, hQ⟩ := inverted_in_sorted hab hba
  have ha : a ∈ P := hP.subset (by simp)
  have hb : b ∈ P := hP.subset (by simp)
  exact (hswap a b ha hb he hP hQ s).symm

/-! ## the commit and the include tree -/

/-- C04's `conflict_free_is_sorted` for `commit`: a conflict-free program runs completely, stably sorted by
phase. -/
theorem commit_is_phase_sorted (env : Env) (P : List Act) (hn : IdsNodup P) (hp : Plain P) (hd : DistinctKeys P)
    (s : Store) : commit env P s = some (runActs env (phaseSort P) s) := by
  simp only [commit, conflict_free_is_sorted P hn hp hd (P.length + 1) (Nat.lt_succ_self _), runIds_map]

/-- **`nesting_irrelevant`** — FULL.  For a conflict-free program the include tree only changes include paths
(`repath p`: any assignment of include paths to the actions), and the commit ignores them: same actions, same
order, same store. -/
theorem nesting_irrelevant (env : Env) (P : List Act) (hn : IdsNodup P) (hp : Plain P) (hd : DistinctKeys P)
    (p : Nat → List Nat) (s : Store) : commit env (P.map (repath p)) s = commit env P s := by
  have hn' : IdsNodup (P.map (repath p)) := by
    simpa [IdsNodup, List.map_map, Function.comp_def, repath] using hn
  have hp' : Plain (P.map (repath p)) := by
    intro a ha
    obtain ⟨b, hb, rfl⟩ := List.mem_map.mp ha
    exact hp b hb
  have hd' : DistinctKeys (P.map (repath p)) := by
    intro a ha b hb
    obtain ⟨a', ha', rfl⟩ := List.mem_map.mp ha
    obtain ⟨b', hb', rfl⟩ := List.mem_map.mp hb
    exact hd a' ha' b' hb'
  rw [commit_is_phase_sorted env _ hn' hp' hd' s, commit_is_phase_sorted env P hn hp hd s,
    phaseSort_map (repath p) (fun _ => rfl), runActs_map_id env (repath p) (fun _ => rfl)]

/-- **`order_and_nesting_irrelevant`** — FULL.  Declaration order and include tree together: `Q` is any
permutation of the conflict-free program `P`, issued from any include tree `p`; if the same-phase pairs declared
in opposite order commute, both commits succeed with the same store. -/
theorem order_and_nesting_irrelevant (env : Env) (P Q : List Act) (hn : IdsNodup P) (hp : Plain P)
    (hd : DistinctKeys P) (hperm : Q.Perm P)
    (hswap : ∀ a b, a ∈ P → b ∈ P → a.order = b.order → [a, b].Sublist P → [b, a].Sublist Q →
      Commutes (env a.id) (env b.id))
    (p : Nat → List Nat) (s : Store) :
    commit env (Q.map (repath p)) s = commit env P s ∧ (commit env P s).isSome = true := by
  have hnQ : IdsNodup Q := by
    unfold IdsNodup at hn ⊢
    exact (hperm.map _).nodup_iff.mpr hn
  have hpQ : Plain Q := fun a ha => hp a (hperm.subset ha)
  have hdQ : DistinctKeys Q := fun a ha b hb => hd a (hperm.subset ha) b (hperm.subset hb)
  rw [nesting_irrelevant env Q hnQ hpQ hdQ p s, commit_is_phase_sorted env Q hnQ hpQ hdQ s,
    commit_is_phase_sorted env P hn hp hd s, perm_independent env P Q hn hperm hswap s]
  exact ⟨rfl, rfl⟩

/-! ## the generated table -/

/-- **`phase_table_sound`** — FULL over the whole generated table (`decide +kernel`): every row is understood
(known call site, resolved `order=`, recognised discriminator shape); for EVERY pair of rows `pairOK` holds (see
`ConfigFootprints.lean`: writer strictly before reader / distinct phases for two writers / declared
order-sensitive / keyed by distinct discriminators / one constant discriminator); slots keyed by the
discriminator belong to kinds that have one; every known call site occurs exactly once. -/
theorem phase_table_sound : tableOK Gen.rows = true := by decide +kernel

theorem pairOK_of_tableOK {rows : List Row} (h : tableOK rows = true) {r1 r2 : Row} (h1 : r1 ∈ rows)
    (h2 : r2 ∈ rows) : pairOK r1 r2 = true := by
  simp only [tableOK, Bool.and_eq_true, List.all_eq_true] at h
  exact h.1.1.1.2 r1 h1 r2 h2

/-- the phase of a kind in the generated table -/
def phaseOf (k : Kind) : Option Int := (Gen.rows.find? (fun r => r.kind == k)).bind (·.phase)

/-- `a` runs in a strictly earlier phase than `b` (both phases understood) -/
def runsBefore (a b : Kind) : Bool :=
  match phaseOf a, phaseOf b with
  | some p, some q => decide (p < q)
  | _, _ => false

/-- the consequences of `phase_table_sound` the property's "in particular" clause rests on, read off the generated
table in plain words: view/route/subscriber predicates, view derivers, renderers, the default permission, the CSRF
defaults, the accept order, the view mapper, the security policy and the route request interfaces are all registered
in a phase strictly before the phase in which views are registered; predicates also strictly before routes are
connected and subscribers registered; the PHASEn constants increase and views run in PHASE3 (= the default). -/
theorem phases_as_documented :
    ([Kind.addPredicate, .addViewDeriver, .addRenderer, .setDefaultPermission, .setDefaultCSRFOptions,
      .addAcceptViewOrder, .setViewMapper, .setSecurityPolicy, .routeIface].all (fun k => runsBefore k .addView)) = true ∧
    runsBefore .addPredicate .routeConnect = true ∧ runsBefore .addPredicate .addSubscriber = true ∧
    phaseOf .addView = Gen.phase3 ∧ Gen.phase3 = Gen.defaultOrder ∧
    (match Gen.phase1, Gen.phase2, Gen.phase3 with
     | some p1, some p2, some p3 => decide (p1 < p2 ∧ p2 < p3)
     | _, _, _ => false) = true := by decide +kernel

/-- the discriminator of `add_view` is a `Deferred` (and nothing else is) -/
theorem view_discriminator_deferred :
    ∀ r ∈ Gen.rows, (r.disc = .deferred ↔ r.kind = .addView) := by decide +kernel

/-- replace the phase / discriminator shape of one kind in a table -/
def patch (rows : List Row) (k : Kind) (phase : Option Int) (disc : Option DiscShape) : List Row :=
  rows.map fun r => if r.kind == k then { r with phase := phase, disc := disc.getD r.disc } else r

/-- `phase_table_sound` is not vacuous: each of these one-line changes of the source would be refused —
view/route/subscriber predicates in the default phase; view derivers, renderers, the default permission, CSRF
defaults in the default phase; the security policy in PHASE3; the route request interfaces in the default phase;
the `add_view` discriminator computed eagerly; views moved to PHASE1. -/
theorem phase_table_rejects_mutations :
    tableOK (patch Gen.rows .addPredicate (some 0) none) = false ∧
    tableOK (patch Gen.rows .addViewDeriver (some 0) none) = false ∧
    tableOK (patch Gen.rows .addRenderer (some 0) none) = false ∧
    tableOK (patch Gen.rows .setDefaultPermission (some 0) none) = false ∧
    tableOK (patch Gen.rows .setDefaultCSRFOptions (some 0) none) = false ∧
    tableOK (patch Gen.rows .setSecurityPolicy (some 0) none) = false ∧
    tableOK (patch Gen.rows .routeIface (some 0) none) = false ∧
    tableOK (patch Gen.rows .addView (some 0) (some .tuple)) = false ∧
    tableOK (patch Gen.rows .addView (some (-20)) none) = false ∧
    tableOK (patch Gen.rows .setViewMapper none none) = false := by decide +kernel

/-! ## table + commuting = order independence of programs -/

/-- **`table_perm_independent`** — FULL, for any sound table.  `P` is a conflict-free program whose actions are
instances (`InstOf`: phase of the row, slots inside the row's hand-written footprint, semantics inside its
slots) of rows of the table; `Q` is a permutation of it.  If every same-phase pair of *declared order-sensitive*
kinds that is declared in opposite order in `P` and `Q` is nevertheless independent (touches no common slot: two
views of different slots, …) or commutes (two views of one slot with different predicate order,
`multiview_merge_commutes`), the phase-sorted runs agree on every store. -/
theorem table_perm_independent (rows : List Row) (hT : tableOK rows = true)
    (env : Env) (rowOf : Nat → Row) (P Q : List Act)
    (hn : IdsNodup P) (hd : DistinctKeys P) (hperm : Q.Perm P)
    (hinst : ∀ a ∈ P, rowOf a.id ∈ rows ∧ InstOf (rowOf a.id) a (env a.id))
    (hkeep : ∀ a ∈ P, ∀ b ∈ P, a.order = b.order → [a, b].Sublist P → [b, a].Sublist Q →
      sensitive (rowOf a.id).kind (rowOf b.id).kind = true →
      Indep (env a.id) (env b.id) ∨ Commutes (env a.id) (env b.id)) :
    ∀ s, runActs env (phaseSort P) s = runActs env (phaseSort Q) s := by
  apply perm_independent env P Q hn hperm
  intro a b ha hb he hP hQ
  obtain ⟨hra, ia⟩ := hinst a ha
  obtain ⟨hrb, ib⟩ := hinst b hb
  cases hs : sensitive (rowOf a.id).kind (rowOf b.id).kind with
  | true =>
    rcases hkeep a ha b hb he hP hQ hs with h | h
    · exact commutes_of_indep ia.respects ib.respects h
    · exact h
  | false =>
    have hne : a.id ≠ b.id := by
      have h1 : [a.id, b.id].Sublist (P.map (·.id)) := by simpa using hP.map (·.id)
      have h2 : [a.id, b.id].Nodup := List.Nodup.sublist h1 hn
      simpa using h2
    exact commutes_of_indep ia.respects ib.respects
      (indep_of_pairOK (pairOK_of_tableOK hT hra hrb) (pairOK_of_tableOK hT hrb hra) ia ib he hne
        (hd a ha b hb) hs)

/-- **`program_order_irrelevant`** — the property on the model, for the table generated from the source as it is
NOW, at the level of commits: conflict-free program `P` (instances of the generated rows), any permutation `Q`
of it that respects the order-sensitive pairs as far as they share a slot and do not commute, any include tree
`p`: both commits succeed and produce the same registry.  PARTIAL w.r.t. the statement only in that `sensitive`
contains view/view (F-C08a), deriver/deriver (F-C08b), predicate/predicate (F-C08c) besides the documented
pairs. -/
theorem program_order_irrelevant (env : Env) (rowOf : Nat → Row) (P Q : List Act)
    (hn : IdsNodup P) (hp : Plain P) (hd : DistinctKeys P) (hperm : Q.Perm P)
    (hinst : ∀ a ∈ P, rowOf a.id ∈ Gen.rows ∧ InstOf (rowOf a.id) a (env a.id))
    (hkeep : ∀ a ∈ P, ∀ b ∈ P, a.order = b.order → [a, b].Sublist P → [b, a].Sublist Q →
      sensitive (rowOf a.id).kind (rowOf b.id).kind = true →
      Indep (env a.id) (env b.id) ∨ Commutes (env a.id) (env b.id))
    (p : Nat → List Nat) (s : Store) :
    commit env (Q.map (repath p)) s = commit env P s ∧ (commit env P s).isSome = true := by
  have hnQ : IdsNodup Q := by
    unfold IdsNodup at hn ⊢
    exact (hperm.map _).nodup_iff.mpr hn
  have hpQ : Plain Q := fun a ha => hp a (hperm.subset ha)
  have hdQ : DistinctKeys Q := fun a ha b hb => hd a (hperm.subset ha) b (hperm.subset hb)
  rw [nesting_irrelevant env Q hnQ hpQ hdQ p s, commit_is_phase_sorted env Q hnQ hpQ hdQ s,
    commit_is_phase_sorted env P hn hp hd s,
    table_perm_independent Gen.rows phase_table_sound env rowOf P Q hn hd hperm hinst hkeep s]
  exact ⟨rfl, rfl⟩

/-- **`statements_order_irrelevant`** — the same for statement lists: permuting the *statements* permutes the
declared actions (a statement's own actions stay together and in order). -/
theorem statements_order_irrelevant (env : Env) (rowOf : Nat → Row) (ps qs : List Stmt)
    (hperm : qs.Perm ps)
    (hn : IdsNodup (expand ps)) (hp : Plain (expand ps)) (hd : DistinctKeys (expand ps))
    (hinst : ∀ a ∈ expand ps, rowOf a.id ∈ Gen.rows ∧ InstOf (rowOf a.id) a (env a.id))
    (hkeep : ∀ a ∈ expand ps, ∀ b ∈ expand ps, a.order = b.order → [a, b].Sublist (expand ps) →
      [b, a].Sublist (expand qs) → sensitive (rowOf a.id).kind (rowOf b.id).kind = true →
      Indep (env a.id) (env b.id) ∨ Commutes (env a.id) (env b.id))
    (p : Nat → List Nat) (s : Store) :
    commit env ((expand qs).map (repath p)) s = commit env (expand ps) s ∧
    (commit env (expand ps) s).isSome = true :=
  program_order_irrelevant env rowOf (expand ps) (expand qs) hn hp hd
    (by simpa [expand] using hperm.flatMap_right (·.acts)) hinst hkeep p s

/-- **`package_travels_with_statement`** — programs spread over several packages.  A statement records the package of
the configurator that issued it (`Stmt.pkg`); its meaning (its actions, their discriminators, footprints and
semantics) was fixed from (arguments, package, route prefix) when it was issued.  The declared action list of a
program depends on the statements' packages only through those actions, so every theorem above about `expand ps`
— in particular `statements_order_irrelevant`: any permutation of the statements, hence any order of the includes of
different packages, any nesting — holds verbatim for multi-package programs; no action's meaning may depend on which
OTHER statement was issued first (the seeded change C08-6, one renderer helper per renderer name carrying the package
of the first statement that named it, breaks exactly this on the real code and is caught by the harness). -/
theorem package_travels_with_statement (ps : List Stmt) (f : Stmt → Nat) :
    expand (ps.map fun s => { s with pkg := f s }) = expand ps := by
  simp [expand, List.flatMap_map]

/-- the footprints the driver computes (`instReads` / `instWrites` with the free semantics) are instances of
their rows, so the theorems above speak about exactly what `drv_c08` prints -/
theorem inst_herbrand (r : Row) (a : Act) (args : List Slot) (hph : r.phase = some a.order)
    (hif : r.disc = .iface → a.key = some r.kind.index) :
    InstOf r a (herbrand a.id (instReads r.kind a.key args) (instWrites r.kind a.key args)) where
  phase := hph
  reads := slotOf_instSlots a args _
  writes := slotOf_instSlots a args _
  iface := hif
  respects := herbrand_respects _ _ _

/-! ## multiview merge: commutes, except for ties (F-C08a) -/

/-- **`multiview_merge_commutes`** — FULL.  Registering two views into one slot in either order leaves the same
multiview list when their predicate orders differ (`MultiView.add` = append + stable sort by order), and views of
different slots are independent. -/
theorem multiview_merge_commutes (x y : Slot) (o1 t1 o2 t2 : Nat) :
    (o1 ≠ o2 → Commutes (viewReg x o1 t1) (viewReg x o2 t2)) ∧
    (x ≠ y → Indep (viewReg x o1 t1) (viewReg y o2 t2)) ∧
    Respects (viewReg x o1 t1) :=
  ⟨viewReg_commutes x o1 t1 o2 t2, viewReg_indep x y o1 t1 o2 t2, viewReg_respects x o1 t1⟩

/-- **`view_registrations_commute`** — FULL: the semantics `drv_c08` gives view registrations (`viewFp`: merge into
every slot of the registration + a free term of everything else that was read).  Two registrations with different
predicate order commute on every store as soon as neither writes what the other reads *besides* the shared
slots; and `viewFp` respects its footprint.  This is the entry of the "proven commuting" list the driver's `hyp`
uses for swapped view/view pairs. -/
theorem view_registrations_commute (i j oi oj : Nat) (ri wi rj wj : List Slot) (ho : oi ≠ oj) (hij : i ≠ j)
    (hai : auxSlot i ∉ wj) (haj : auxSlot j ∉ wi)
    (hri : ∀ y ∈ otherReads ri wi, y ≠ auxSlot j ∧ y ∉ wj)
    (hrj : ∀ y ∈ otherReads rj wj, y ≠ auxSlot i ∧ y ∉ wi)
    (hwi : ∀ x ∈ wi, x ∈ ri) :
    Commutes (viewFp i oi ri wi) (viewFp j oj rj wj) ∧ Respects (viewFp i oi ri wi) :=
  ⟨viewFp_commutes i j oi oj ri wi rj wj ho hij hai haj hri hrj, viewFp_respects i oi ri wi hwi⟩

/-- non-vacuity: two views of one slot (key 7) reading the same route interface and policy -/
example :
    let r : List Slot := [⟨.routeRequest, 3⟩, ⟨.securityPolicy, 0⟩, ⟨.viewSlot, 7⟩]
    let w : List Slot := [⟨.viewSlot, 7⟩]
    Commutes (viewFp 1 10 r w) (viewFp 2 20 r w) ∧ Respects (viewFp 1 10 r w) :=
  view_registrations_commute 1 2 10 20 _ _ _ _ (by decide) (by decide) (by decide) (by decide)
    (by decide) (by decide) (by decide)

/-- **`view_tie_order_dependent`** — the negation of the full statement at a concrete witness (finding F-C08a).
Two views of one slot with EQUAL predicate order (`header='X-A'` vs `header='X-B'`: one predicate each, same
weight class), a request on which both hold: declared `a, b` the answer is `a`'s, declared `b, a` it is `b`'s. -/
theorem view_tie_order_dependent :
    let x : Slot := ⟨.viewSlot, 0⟩
    let s0 : Store := fun _ => []
    let ab := (viewReg x 7 2).sem ((viewReg x 7 1).sem s0)
    let ba := (viewReg x 7 1).sem ((viewReg x 7 2).sem s0)
    mvFirst (fun _ => true) (ab x) = some 1 ∧ mvFirst (fun _ => true) (ba x) = some 2 ∧
    ¬ Commutes (viewReg x 7 1) (viewReg x 7 2) := by
  refine ⟨by decide, by decide, ?_⟩
  intro h
  have := congrFun (h (fun _ => [])) ⟨.viewSlot, 0⟩
  revert this
  decide

private def reqAB : ViewLookup.Request where
  method := "GET"
  getParams := []
  postParams := []
  environ := [("HTTP_X_A", "1"), ("HTTP_X_B", "1")]
  pathInfo := "/"
  matchdict := none
  authenticated := false
  customTrue := []
  reTable := []
  accQ := []
  lineage := [[10]]
  physPath := some [""]
  permitted := true
  reqSro := [0, 50]
  ctxSro := [10, 0]
  viewName := ""

/-- the same witness on C03's line-by-line model of `register_view` / `MultiView` / `_call_view`
(`PyramidModel.ViewLookup`): `add_view(A, header='X-A'); add_view(B, header='X-B')` answers the request carrying
both headers with `A`, the opposite declaration order with `B`; both views have the same `order`. -/
theorem view_tie_witness_c03 :
    let a : ViewLookup.ViewReg := ⟨0, 0, 0, "", [⟨"header", false, .headers ["X-A"]⟩], none, false, 1⟩
    let b : ViewLookup.ViewReg := ⟨0, 0, 0, "", [⟨"header", false, .headers ["X-B"]⟩], none, false, 2⟩
    (ViewLookup.derive a).order = (ViewLookup.derive b).order ∧
    (ViewLookup.derive a).holds reqAB = true ∧ (ViewLookup.derive b).holds reqAB = true ∧
    ViewLookup.callView (ViewLookup.registerAll [a, b]) 0 reqAB = .response 1 ∧
    ViewLookup.callView (ViewLookup.registerAll [b, a]) 0 reqAB = .response 2 := by decide +kernel

/-! ## unconstrained derivers / predicates (F-C08b, F-C08c), on C18's model of `TopologicalSorter` -/

/-- **F-C08b**: `add_view_deriver(a); add_view_deriver(b)` with the default `under='decorated_view'`,
`over='rendered_view'` (names: 10 = decorated_view, 11 = rendered_view, 2 = a, 3 = b; INGRESS = 0, VIEW = 1;
`TopologicalSorter(default_after=INGRESS, first=INGRESS, last=VIEW)`, views.py:1401-1409): the sorted deriver
list (outermost first; `_apply_view_derivers` wraps in reverse) follows the order of the two statements. -/
theorem unconstrained_derivers_order_dependent :
    let base := (Topo.Sorter.empty 0 1 none (some [0])).addAll
      [⟨10, some [0], some [1]⟩, ⟨11, some [10], some [1]⟩]
    (base.addAll [⟨2, some [10], some [11]⟩, ⟨3, some [10], some [11]⟩]).sorted = .ok [10, 3, 2, 11] ∧
    (base.addAll [⟨3, some [10], some [11]⟩, ⟨2, some [10], some [11]⟩]).sorted = .ok [10, 2, 3, 11] := by
  decide

/-- **F-C08c**: `add_view_predicate(p); add_view_predicate(q)` without `weighs_more_than/less_than`
(`PredicateList.sorter = TopologicalSorter()`, predicates.py:108-121): the predicate order — hence the weight
`1 << n+1` that `PredicateList.make` gives each of them, hence which of two same-slot views using one of them
each is tried first — follows the order of the two statements. -/
theorem unconstrained_predicates_order_dependent :
    ((Topo.Sorter.empty 0 1 none none).addAll [⟨2, none, none⟩, ⟨3, none, none⟩]).sorted = .ok [2, 3] ∧
    ((Topo.Sorter.empty 0 1 none none).addAll [⟨3, none, none⟩, ⟨2, none, none⟩]).sorted = .ok [3, 2] := by
  decide

/-! ## non-vacuity -/

section Examples

/-- `add_view(route_name=r, renderer=n)` · `add_route(r)` (two actions) · `add_renderer(n)` · `set_security_policy`:
ids 0..4, phases read from the generated table; keys: 100 view discriminator, 101 route-connect, 102 ('route', r) = IRouteRequest[r], 103
(IRendererFactory, n) = IRendererFactory[n], policy = its constant key -/
private def exOrd (k : Kind) : Int := (phaseOf k).getD 0

private def exActs : List Act :=
  [⟨0, .val 100, exOrd .addView, []⟩, ⟨1, .val 101, exOrd .routeConnect, []⟩, ⟨2, .val 102, exOrd .routeIface, []⟩,
   ⟨3, .val 103, exOrd .addRenderer, []⟩, ⟨4, .val Kind.setSecurityPolicy.index, exOrd .setSecurityPolicy, []⟩]

private def exKind : Nat → Kind
  | 0 => .addView | 1 => .routeConnect | 2 => .routeIface | 3 => .addRenderer | _ => .setSecurityPolicy

private def exRow (i : Nat) : Row := (Gen.rows.find? (fun r => r.kind == exKind i)).getD default

private def exArgs : Nat → List Slot
  | 0 => [⟨.routeRequest, 102⟩, ⟨.rendererFactory, 103⟩, ⟨.viewSlot, 7⟩]
  | _ => []

private def exKey (i : Nat) : Option Nat := ((exActs.find? (fun a => a.id == i)).map (·.key)).getD none

private def exEnv : Env := fun i =>
  herbrand i (instReads (exKind i) (exKey i) (exArgs i)) (instWrites (exKind i) (exKey i) (exArgs i))

/-- the view is declared FIRST, everything it refers to later — and in the reversed program last -/
private def exP : List Act := exActs
private def exQ : List Act := exActs.reverse

example : IdsNodup exP ∧ Plain exP ∧ DistinctKeys exP := by decide
example : exQ.Perm exP := List.reverse_perm _

/-- all hypotheses of `program_order_irrelevant` are satisfiable by a program in which a view refers to a route,
a renderer and a policy declared later (every action is an instance of its generated row; no two same-phase
actions of order-sensitive kinds, so `hkeep` holds trivially); the theorem then says the reversed program, issued
from any include tree, commits to the same registry -/
example (p : Nat → List Nat) (s : Store) :
    commit exEnv (exQ.map (repath p)) s = commit exEnv exP s ∧ (commit exEnv exP s).isSome = true := by
  refine program_order_irrelevant exEnv exRow exP exQ (by decide) (by decide) (by decide) (List.reverse_perm _)
    ?_ ?_ p s
  · intro a ha
    simp only [exP, exActs, List.mem_cons, List.not_mem_nil, or_false] at ha
    rcases ha with rfl | rfl | rfl | rfl | rfl
    all_goals
      refine ⟨by decide +kernel, ?_⟩
      exact inst_herbrand _ _ _ (by decide +kernel) (by decide +kernel)
  · intro a ha b hb he hP _ hs
    exfalso
    simp only [exP, exActs, List.mem_cons, List.not_mem_nil, or_false] at ha hb
    rcases ha with rfl | rfl | rfl | rfl | rfl <;> rcases hb with rfl | rfl | rfl | rfl | rfl <;>
      revert hs <;> revert he <;> revert hP <;> decide +kernel

/-- and the view (id 0), declared first in `exP`, really executes after the route interface (2), the renderer (3)
and the policy (4) in both -/
example :
    ([2, 3, 4].all fun i => decide ([i, 0].Sublist ((phaseSort exP).map (·.id))) &&
      decide ([i, 0].Sublist ((phaseSort exQ).map (·.id)))) = true ∧
    [0, 2].Sublist (exP.map (·.id)) ∧ [0, 3].Sublist (exP.map (·.id)) ∧ [0, 4].Sublist (exP.map (·.id)) := by
  decide +kernel

/-- `swap_independent` / `Respects` / `Indep` are satisfiable and not trivial: the renderer registration and the
policy registration -/
example : Respects (exEnv 3) ∧ Respects (exEnv 4) ∧ Indep (exEnv 3) (exEnv 4) ∧ (exEnv 3).writes ≠ [] :=
  ⟨herbrand_respects _ _ _, herbrand_respects _ _ _, indep_of_indepB (by decide), by decide⟩

/-- …while the view is NOT independent of the renderer registration it reads (only the phases order them) -/
example : indepB (exEnv 0) (exEnv 3) = false := by decide

/-- cache busters (`add_cache_buster`, no discriminator): an entry keyed by the statement's (spec, explicit).  Two
busters on different keys — a general spec and a more specific one, or the same spec explicit / path-based — have
independent footprints, so by `swap_independent` their statements may be declared in either order; what an asset gets
is the most specific matching entry, a function of the resulting SET.  (Seeded change C08-9 made the real insertion
order-dependent for nested path-based specs; the harness shows `static_url` of assets under each spec.) -/
example :
    indepB (herbrand 1 (instReads .cacheBuster none [⟨.cacheBusters, 1⟩]) (instWrites .cacheBuster none [⟨.cacheBusters, 1⟩]))
           (herbrand 2 (instReads .cacheBuster none [⟨.cacheBusters, 2⟩]) (instWrites .cacheBuster none [⟨.cacheBusters, 2⟩])) = true ∧
    indepB (herbrand 1 (instReads .cacheBuster none [⟨.cacheBusters, 1⟩]) (instWrites .cacheBuster none [⟨.cacheBusters, 1⟩]))
           (herbrand 2 (instReads .cacheBuster none [⟨.cacheBusters, 1⟩]) (instWrites .cacheBuster none [⟨.cacheBusters, 1⟩])) = false := by
  decide

end Examples

end Pyr.ConfigOrder
