/-
X03 — built-in renderers and the rendering pipeline: property theorems (statement: notes/X03.md).

`tables` is GENERATED from src/pyramid/renderers.py / viewderivers.py by extract/x03.py on every check, so every
theorem below that mentions it is re-proved against what the source says now.
-/
import PyramidModel.Lemmas.RenderersRx
import PyramidModel.Lemmas.RenderersJson
import PyramidModel.Lemmas.Renderers
import PyramidModel.Gen.X03

namespace Pyr.Render
open Pyr.Rx Pyr.Gen.X03

/-! ## 0. what the translator read -/

/-- every construct of the two source files had the shape the translator translates -/
theorem translator_understood : problems = [] ∧ tables.pattern.understood = true := by decide

/-- the check is `if not PATTERN.match(callback): raise HTTPBadRequest` under `callback is not None`, nothing uses the
callback before or outside it, and the callback is `request.GET.get(self.param_name)` (default name `callback`) -/
theorem callback_check_in_place :
    tables.checkRaises400 = true ∧ tables.paramSource = .get ∧ tables.pattern.method = .match ∧
    tables.paramDefault = "callback".toList := by decide

/-- the f-string is `/**/` callback `(` json `);` -/
theorem jsonp_body_pieces (cb js : Text) :
    jsonpBodyText tables cb js = jsonpText cb js := by
  simp [jsonpBodyText, tables, Piece.render, jsonpText]

/-- content types: every assignment is guarded by `== response.default_content_type` -/
theorem content_type_rules :
    tables.jsonCt = ⟨true, HttpExc.mimeJson⟩ ∧ tables.jsonpCt = ⟨true, HttpExc.mimeJson⟩ ∧
    tables.jsonpCallbackCt = mimeJavascript ∧ tables.stringCt = ⟨true, HttpExc.mimePlain⟩ := by decide

/-- the three rules, applied: keep what is there unless it is the default -/
theorem content_type_rule_applied (cur dflt : Text) :
    tables.jsonCt.apply cur dflt = (if cur = dflt then HttpExc.mimeJson else cur) ∧
    tables.jsonpCt.apply cur dflt = (if cur = dflt then HttpExc.mimeJson else cur) ∧
    (CtRule.mk tables.jsonpCt.guarded tables.jsonpCallbackCt).apply cur dflt = (if cur = dflt then mimeJavascript else cur) ∧
    tables.stringCt.apply cur dflt = (if cur = dflt then HttpExc.mimePlain else cur) := by
  rw [content_type_rules.1, content_type_rules.2.1, content_type_rules.2.2.1, content_type_rules.2.2.2]
  simp [CtRule.apply]

/-- `_make_response`: str → `.text`, bytes → `.body`, other iterables → `.app_iter`, anything else → `.body`; `None`
leaves the body alone -/
theorem make_response_ladder :
    tables.makeResponse = [("str", .text), ("bytes", .body), ("__iter__", .appIter), ("else", .body)] ∧
    tables.noneLeavesBody = true := by decide

/-- `rendered_view`: exact `Response` passes, otherwise `queryAdapterOrSelf`, `override_renderer` is popped and names
the renderer; the system values offered to `BeforeRender` subscribers -/
theorem rendered_view_shape :
    tables.passthroughExact = true ∧ tables.adaptOrSelf = true ∧ tables.overridePopped = true ∧
    tables.systemKeys = ["view", "renderer_name", "renderer_info", "context", "request", "req", "get_csrf_token"] := by decide

/-! ## 1. the JSONP callback -/

theorem head_class (c : Char) : SetHas Ucd.ascii (headItems tables.pattern.body) c ↔ safeHead c = true := by
  simp [tables, headItems, SetHas, CItem.test, char_eq_iff_toNat, safeHead, letterI]
  omega

theorem mid_class (c : Char) : SetHas Ucd.ascii (midItems tables.pattern.body) c ↔ safeMid c = true := by
  simp [tables, midItems, SetHas, CItem.test, char_eq_iff_toNat, safeMid, safeHead, letterI]
  omega

theorem last_class (c : Char) :
    LastOk Ucd.ascii (lastNeg tables.pattern.body) (lastItems tables.pattern.body) c ↔ safeLast c = true := by
  simp [tables, lastItems, lastNeg, LastOk, SetHas, CItem.test, char_eq_iff_toNat, safeLast, safeHead, letterI]
  omega

/-- **Which callbacks are accepted**: exactly the texts of the grammar — a letter / `$` / `_`, then one or more of
letters, digits, `$ _ . [ ]`, then one of letters, digits, `$ _ ]`; nothing after it (`\Z`).  For texts of every
length; `run_sound` / `run_complete` of C01 connect the backtracking matcher with the language. -/
theorem accepts_iff_grammar (cb : Text) : accepts tables.pattern cb = true ↔ CbGrammar cb := by
  rw [accepts_of_shape tables.pattern (by decide) (by decide) cb]
  simp only [CbGrammar, head_class, mid_class, last_class]
  have he : tables.pattern.endAnchor = .endOfString := by decide
  simp only [he, EndAnchor.ok, beq_iff_eq]
  constructor
  · rintro ⟨h, mid, l, tail, rfl, h1, h2, h3, h4, rfl⟩
    exact ⟨h, mid, l, rfl, h1, h2, h3, h4⟩
  · rintro ⟨h, mid, l, rfl, h1, h2, h3, h4⟩
    exact ⟨h, mid, l, [], rfl, h1, h2, h3, h4, rfl⟩

theorem safeLast_safeMid (c : Char) (h : safeLast c = true) : safeMid c = true ∧ c ≠ '.' ∧ c ≠ '[' := by
  refine ⟨?_, ?_, ?_⟩
  · simp only [safeLast, safeMid, Bool.or_eq_true, Bool.and_eq_true, decide_eq_true_eq, beq_iff_eq] at h ⊢
    rcases h with (h | h) | h
    · exact Or.inl (Or.inl (Or.inl (Or.inl h)))
    · exact Or.inl (Or.inl (Or.inl (Or.inr h)))
    · exact Or.inr h
  · rintro rfl; simp [safeLast, safeHead, letterI] at h
  · rintro rfl; simp [safeLast, safeHead, letterI] at h

/-- **(1) the safety statement, FULL since a7b5ff8**: every callback the check lets through — of any length — consists
ONLY of identifier / member / index characters (`safeMid`: letters, digits, `$ _ . [ ]`), starts with a letter, `$` or
`_`, has at least three characters and does not end in `.` or `[`.  In particular no line feed, bracket, quote,
semicolon, operator or white space can reach the script. -/
theorem accepted_callback_safe (cb : Text) (h : accepts tables.pattern cb = true) :
    AllSafe cb ∧ (∀ c, cb.head? = some c → safeHead c = true) ∧ 3 ≤ cb.length ∧
      (∀ c, cb.getLast? = some c → safeLast c = true) := by
  obtain ⟨hd, mid, l, rfl, hh, hne, hall, hl⟩ := (accepts_iff_grammar cb).mp h
  refine ⟨?_, ?_, ?_, ?_⟩
  · intro c hc
    simp only [List.mem_cons, List.mem_append, List.not_mem_nil, or_false] at hc
    rcases hc with rfl | hc | rfl
    · simp [safeMid, hh]
    · exact hall c hc
    · exact (safeLast_safeMid c hl).1
  · intro c hc
    simp only [List.head?_cons, Option.some.injEq] at hc
    subst hc; exact hh
  · cases mid with
    | nil => exact absurd rfl hne
    | cons _ _ => simp
  · intro c hc
    have : (hd :: (mid ++ [l])).getLast? = some l := by
      rw [show hd :: (mid ++ [l]) = (hd :: mid) ++ [l] by simp, List.getLast?_concat]
    rw [this] at hc
    cases hc; exact hl

/-- A callback made of safe characters only is accepted iff it has at least three characters, starts with a letter,
`$` or `_`, and ends in a letter, digit, `$`, `_` or `]` -/
theorem safe_callback_accepted_iff (cb : Text) (hs : AllSafe cb) :
    accepts tables.pattern cb = true ↔
      ∃ h mid l, cb = h :: (mid ++ [l]) ∧ safeHead h = true ∧ mid ≠ [] ∧ safeLast l = true := by
  rw [accepts_iff_grammar]
  constructor
  · rintro ⟨h, mid, l, rfl, hh, hne, hall, hl⟩
    exact ⟨h, mid, l, rfl, hh, hne, hl⟩
  · rintro ⟨h, mid, l, rfl, hh, hne, hl⟩
    refine ⟨h, mid, l, rfl, hh, hne, ?_, hl⟩
    intro c hc
    exact hs c (by simp [hc])

/-- the witnesses of F-X03a are refused now (and the functional corners are as before) -/
theorem last_character_constrained :
    accepts tables.pattern "ab(".toList = false ∧ accepts tables.pattern "ab;\n".toList = false ∧
    accepts tables.pattern "a.b\"".toList = false ∧ accepts tables.pattern "abc\n".toList = false ∧
    accepts tables.pattern "ab.".toList = false ∧ accepts tables.pattern "ab[".toList = false ∧
    accepts tables.pattern "cb".toList = false ∧ accepts tables.pattern "a(b".toList = false ∧
    accepts tables.pattern "a.b[0]".toList = true ∧ accepts tables.pattern "$_1".toList = true := by
  decide

/-- REGRESSION fact about the pattern BEFORE a7b5ff8 (`…[^.]$`, F-X03a): its last character was unconstrained — `ab(`,
`ab;` + LF, `a.b"` were accepted although `(`, `;`, LF, `"` are not safe -/
theorem last_character_unconstrained_old :
    accepts oldPattern "ab(".toList = true ∧ accepts oldPattern "ab;\n".toList = true ∧
    accepts oldPattern "a.b\"".toList = true ∧
    safeMid '(' = false ∧ safeMid ';' = false ∧ safeMid '\n' = false ∧ safeMid '"' = false ∧
    ¬ AllSafe "ab(".toList := by
  refine ⟨by decide, by decide, by decide, by decide, by decide, by decide, by decide, ?_⟩
  intro h
  have := h '(' (by decide)
  revert this; decide

/-- … and what the old pattern accepted, exactly: the old grammar (for every length) -/
theorem old_pattern_accepts_iff (cb : Text) : accepts oldPattern cb = true ↔ CbGrammarOld cb := by
  rw [accepts_of_shape oldPattern (by decide) (by decide) cb]
  have hH : ∀ c, SetHas Ucd.ascii (headItems oldPattern.body) c ↔ safeHead c = true := by
    intro c
    simp [oldPattern, headItems, SetHas, CItem.test, char_eq_iff_toNat, safeHead, letterI]
    omega
  have hM : ∀ c, SetHas Ucd.ascii (midItems oldPattern.body) c ↔ safeMid c = true := by
    intro c
    simp [oldPattern, midItems, SetHas, CItem.test, char_eq_iff_toNat, safeMid, safeHead, letterI]
    omega
  have hL : ∀ c, LastOk Ucd.ascii (lastNeg oldPattern.body) (lastItems oldPattern.body) c ↔ c ≠ '.' := by
    intro c
    simp [oldPattern, lastItems, lastNeg, LastOk, SetHas, CItem.test]
  have he : oldPattern.endAnchor = .dollar := rfl
  simp only [CbGrammarOld, hH, hM, hL, he, EndAnchor.ok, dollarOk, Bool.or_eq_true, beq_iff_eq]

/-- **(1)** For EVERY query string the JSONP renderer either raises (`TypeError` for an unserializable value, 400 for a
refused callback) or answers; without the parameter the answer is the plain JSON text; with it (the LAST value counts)
the answer is `/**/` cb `(` json `);` and `cb` is in the grammar (hence, by `accepted_callback_safe`, all safe). -/
theorem jsonp_answer (regs : Regs) (pn : Text) (params : List (Text × Text)) (v : Val) (cur dflt : Text) :
    (serialize regs v = none ∧ renderJsonp tables regs pn params v cur dflt = .error .typeError) ∨
    ∃ js, serialize regs v = some js ∧
      ((getLast params pn = none ∧
          renderJsonp tables regs pn params v cur dflt = .ok (.text js, if cur = dflt then HttpExc.mimeJson else cur)) ∨
       (∃ cb, getLast params pn = some cb ∧ ¬ CbGrammar cb ∧ renderJsonp tables regs pn params v cur dflt = .error .badRequest) ∨
       (∃ cb, getLast params pn = some cb ∧ CbGrammar cb ∧
          renderJsonp tables regs pn params v cur dflt =
            .ok (.text (jsonpText cb js),
                 if cur = dflt then mimeJavascript else cur))) := by
  unfold renderJsonp
  cases hs : serialize regs v with
  | none => exact Or.inl ⟨rfl, rfl⟩
  | some js =>
    refine Or.inr ⟨js, rfl, ?_⟩
    cases hg : getLast params pn with
    | none =>
      refine Or.inl ⟨rfl, ?_⟩
      simp [(content_type_rule_applied cur dflt).2.1]
    | some cb =>
      by_cases ha : accepts tables.pattern cb = true
      · refine Or.inr (Or.inr ⟨cb, rfl, (accepts_iff_grammar cb).mp ha, ?_⟩)
        simp only [ha, if_true, jsonp_body_pieces]
        simp [(content_type_rule_applied cur dflt).2.2.1]
      · refine Or.inr (Or.inl ⟨cb, rfl, fun hgr => ha ((accepts_iff_grammar cb).mpr hgr), ?_⟩)
        simp [ha]

/-- `MultiDict.get`: the last value of the parameter decides -/
theorem last_value_counts (params : List (Text × Text)) (k v : Text) : getLast (params ++ [(k, v)]) k = some v := by
  simp [getLast]

/-! ## 2. the JSON renderer -/

/-- **(2a)** `json.loads(json.dumps(v)) = v` for every JSON-normal value (None, bool, int, str, list, dict with str
keys; any nesting, any length, any code points) -/
theorem loads_dumps (v : Val) (hv : v.plain = true) : loads (dumps v) = some v := loads_dumps_plain v hv

/-- **(2b)** what the JSON renderer emits decodes back to the value with every object replaced by what `__json__` /
its adapter answered; for JSON-normal values that is the value itself -/
theorem json_output_decodes (regs : Regs) (v : Val) (t : Text) (h : serialize regs v = some t) :
    ∃ w, resolve regs v = some w ∧ w.plain = true ∧ loads t = some w ∧ (v.plain = true → w = v) := by
  simp only [serialize, Option.map_eq_some_iff] at h
  obtain ⟨w, hw, rfl⟩ := h
  have hp := resolve_plain regs v w hw
  refine ⟨w, hw, hp, loads_dumps_plain w hp, ?_⟩
  intro hv
  rw [resolve_of_plain regs v hv] at hw
  exact (Option.some.inj hw).symm

/-- the renderer never fails on a JSON-normal value -/
theorem json_normal_always_serializes (tb : Tables) (regs : Regs) (v : Val) (hv : v.plain = true) (cur dflt : Text) :
    renderJson tb regs v cur dflt = .ok (.text (dumps v), tb.jsonCt.apply cur dflt) := by
  simp [renderJson, serialize, resolve_of_plain regs v hv]

/-- **(2c)** adapter dispatch: the adapter used is the one registered for the NEAREST specification of the object's
resolution order that has one — not only an exact-class registration -/
theorem adapter_is_nearest (regs : Regs) (sro : List Nat) (a : Nat) :
    lookupAdapter regs sro = some a ↔ Nearest regs sro a := lookup_some_iff regs sro a

/-- `TypeError` exactly when no specification of the resolution order has an adapter (and there is no `__json__`) -/
theorem no_adapter_iff (regs : Regs) (sro : List Nat) :
    lookupAdapter regs sro = none ↔ ∀ s ∈ sro, regFor regs s = none := lookup_none_iff regs sro

theorem object_resolution (regs : Regs) (sro : List Nat) (p : Val) :
    resolve regs (.custom sro true p) = (resolve regs p).map (tagged (.str tagJson)) ∧
    (∀ a, Nearest regs sro a → resolve regs (.custom sro false p) = (resolve regs p).map (tagged (.int a))) ∧
    ((∀ s ∈ sro, regFor regs s = none) → resolve regs (.custom sro false p) = none) := by
  refine ⟨by simp [resolve], ?_, ?_⟩
  · intro a ha
    have := (lookup_some_iff regs sro a).mpr ha
    simp [resolve, this]
  · intro h
    have := (lookup_none_iff regs sro).mpr h
    simp [resolve, this]

/-- re-registering replaces, other specifications are untouched -/
theorem later_registration_wins (regs : Regs) (s t a : Nat) :
    regFor (regs ++ [(s, a)]) s = some a ∧ (t ≠ s → regFor (regs ++ [(t, a)]) s = regFor regs s) :=
  ⟨regFor_append_same regs s a, regFor_append_other regs s t a⟩

/-! ## 3. `rendered_view` and the content type -/

/-- **(3a)** a view result that is a Response (or adapts to one) is returned untouched: no renderer, no override, no
query string, no content-type rule can change it or turn it into an error; `override_renderer` is not consumed -/
theorem response_passthrough (tb : Tables) (c : Case) (r : Resp) (h : c.result = .response r ∨ c.result = .iresponse r) :
    renderedView tb c = .ok ⟨r, c.override.isSome⟩ := by
  rcases h with h | h <;> simp [renderedView, h]

/-- **(3b)** anything else without a renderer is an error -/
theorem no_renderer_no_response (tb : Tables) (c : Case) (hr : c.renderer = none)
    (h : ∀ r, c.result ≠ .response r ∧ c.result ≠ .iresponse r) : renderedView tb c = .error .valueError := by
  unfold renderedView
  cases hres : c.result with
  | response r => exact absurd hres (h r).1
  | iresponse r => exact absurd hres (h r).2
  | bytes b s => simp [hr]
  | value v => simp [hr]

/-- **(3c)** `request.override_renderer` replaces the configured renderer (whatever that was) and is consumed -/
theorem override_replaces_configured (tb : Tables) (c : Case) (x o : RName) (hr : c.renderer = some x)
    (ho : c.override = some o) (h : ∀ r, c.result ≠ .response r ∧ c.result ≠ .iresponse r) :
    renderedView tb c = renderedView tb { c with renderer := some o, override := none } ∧
    ∀ out, renderedView tb c = .ok out → out.overrideLeft = false := by
  unfold renderedView
  cases hres : c.result with
  | response r => exact absurd hres (h r).1
  | iresponse r => exact absurd hres (h r).2
  | bytes b s =>
    simp only [hr, ho]
    refine ⟨by simp only [runRenderer, hres], ?_⟩
    intro out
    split <;> try (intro h; cases h)
    split <;> intro h <;> cases h
    rfl
  | value v =>
    simp only [hr, ho]
    refine ⟨by simp only [runRenderer, hres], ?_⟩
    intro out
    split <;> try (intro h; cases h)
    split <;> intro h <;> cases h
    rfl

/-- the content type a built-in renderer leaves on the response -/
theorem renderer_content_type (regs : Regs) (pn : Text) (params : List (Text × Text)) (v : Val) (cur dflt : Text)
    (out : Rendered) (ct : Text) :
    (renderJson tables regs v cur dflt = .ok (out, ct) → ct = if cur = dflt then HttpExc.mimeJson else cur) ∧
    (renderString tables v cur dflt = .ok (out, ct) → ct = if cur = dflt then HttpExc.mimePlain else cur) ∧
    (renderJsonp tables regs pn params v cur dflt = .ok (out, ct) →
      ct = if cur = dflt then (if getLast params pn = none then HttpExc.mimeJson else mimeJavascript) else cur) := by
  refine ⟨?_, ?_, ?_⟩
  · unfold renderJson
    split <;> intro h <;> cases h
    simp [(content_type_rule_applied cur dflt).1]
  · unfold renderString
    split <;> intro h <;> cases h
    simp [(content_type_rule_applied cur dflt).2.2.2]
  · unfold renderJsonp
    split
    · intro h; cases h
    · split
      · rename_i hg
        intro h; cases h
        simp [(content_type_rule_applied cur dflt).2.1, hg]
      · rename_i cb hg
        split <;> intro h <;> cases h
        simp [(content_type_rule_applied cur dflt).2.2.1, hg]

theorem makeResponse_keeps (tb : Tables) (st : Nat) (ct : Text) (rendered : Rendered) (r : Resp)
    (h : makeResponse tb st ct rendered = .ok r) : r.ct = ct ∧ r.status = st := by
  unfold makeResponse at h
  split at h <;> (split at h <;> cases h) <;> exact ⟨rfl, rfl⟩

theorem runRenderer_keeps_content_type (c : Case) (name : RName) (rendered : Rendered) (ct : Text)
    (hrun : runRenderer tables c name = .ok (rendered, ct)) (hct : c.respCt ≠ c.dflt) : ct = c.respCt := by
  have key := fun v => renderer_content_type c.regs c.paramName c.params v c.respCt c.dflt rendered ct
  simp only [hct, if_false] at key
  cases hres : c.result <;> cases name <;> (try simp only [runRenderer, hres] at hrun) <;>
    first
      | (cases hrun; done)
      | exact (key _).1 hrun
      | exact (key _).2.2 hrun
      | exact (key _).2.1 hrun
      | (simp only [renderRaw] at hrun; first | (cases hrun; rfl) | (split at hrun <;> cases hrun <;> rfl))

/-- **(3d)** the content type is only DEFAULTED: when the response's content type differs from the default when the
renderer runs (the view set it), the rendered response keeps it — for every renderer, override, value, query; and the
status the view set on `request.response` is carried over -/
theorem content_type_never_overwritten (c : Case) (out : Out) (h : renderedView tables c = .ok out)
    (hv : ∀ r, c.result ≠ .response r ∧ c.result ≠ .iresponse r) (hct : c.respCt ≠ c.dflt) :
    out.resp.ct = c.respCt ∧ out.resp.status = c.respStatus := by
  have main : ∀ name, (match runRenderer tables c name with
      | .error e => (.error e : Except Err Out)
      | .ok (rendered, ct) =>
        match makeResponse tables c.respStatus ct rendered with
        | .error e => .error e
        | .ok r => .ok ⟨r, false⟩) = .ok out → out.resp.ct = c.respCt ∧ out.resp.status = c.respStatus := by
    intro name hm
    cases hrun : runRenderer tables c name with
    | error e => rw [hrun] at hm; cases hm
    | ok p =>
      obtain ⟨rendered, ct⟩ := p
      rw [hrun] at hm
      simp only [] at hm
      have hc := runRenderer_keeps_content_type c name rendered ct hrun hct
      cases hmk : makeResponse tables c.respStatus ct rendered with
      | error e => rw [hmk] at hm; cases hm
      | ok r =>
        rw [hmk] at hm
        cases hm
        have := makeResponse_keeps _ _ _ _ _ hmk
        exact ⟨this.1.trans hc, this.2⟩
  unfold renderedView at h
  cases hres : c.result with
  | response r => exact absurd hres (hv r).1
  | iresponse r => exact absurd hres (hv r).2
  | bytes b s =>
    simp only [hres] at h
    cases hr : c.renderer with
    | none => simp [hr] at h
    | some x => simp only [hr] at h; exact main _ h
  | value v =>
    simp only [hres] at h
    cases hr : c.renderer with
    | none => simp [hr] at h
    | some x => simp only [hr] at h; exact main _ h

/-- … and when it IS the default, the renderer's own type is set -/
theorem content_type_defaulted (regs : Regs) (pn : Text) (params : List (Text × Text)) (v : Val) (dflt : Text)
    (out : Rendered) (ct : Text) :
    (renderJson tables regs v dflt dflt = .ok (out, ct) → ct = HttpExc.mimeJson) ∧
    (renderString tables v dflt dflt = .ok (out, ct) → ct = HttpExc.mimePlain) := by
  have := renderer_content_type regs pn params v dflt dflt out ct
  simp only [if_true] at this
  exact ⟨this.1, this.2.1⟩

/-! ## non-vacuity -/

-- hypotheses of `accepted_callback_safe_partial`, `safe_callback_accepted_iff`
example : accepts tables.pattern "jQuery1234.cb[0]".toList = true := by decide
example : AllSafe "a.b[0]".toList := by unfold AllSafe; decide +kernel
-- `loads_dumps`, `json_output_decodes`
example : (Val.obj (.cons "k\n".toList (.arr (.cons (.int (-20)) (.cons (.str "é\"".toList) (.cons .null .nil)))) .nil)).plain = true := by decide
example : serialize [(3, 7)] (.arr (.cons (.custom [5, 3, 0] false (.str "x".toList)) .nil)) = some "[[7, \"x\"]]".toList := by decide +kernel
-- `adapter_is_nearest`: an instance of a subclass (order [5, 3, 0]) gets the adapter of its base 3; nothing for 5 itself
example : Nearest [(3, 7), (0, 9)] [5, 3, 0] 7 := ⟨[5], 3, [0], rfl, by decide, by decide⟩
example : lookupAdapter [(3, 7), (0, 9)] [5, 3, 0] = some 7 ∧ lookupAdapter [(3, 7)] [4, 0] = none := by decide
-- `content_type_never_overwritten`, `override_replaces_configured`: a case that renders and answers
example : renderedView tables
    { renderer := some .string, override := some .jsonp, paramName := "callback".toList, regs := [],
      params := [("callback".toList, "f.g1".toList)], respCt := "text/x-foo".toList, dflt := "text/html".toList,
      respStatus := 201, result := .value (.arr .nil) } =
    .ok ⟨⟨201, "text/x-foo".toList, .text "/**/f.g1([]);".toList⟩, false⟩ := by decide +kernel

end Pyr.Render
