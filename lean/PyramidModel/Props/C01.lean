import PyramidModel.Lemmas.Route
import PyramidModel.Lemmas.RouteParse
import PyramidModel.Lemmas.RouteParseOld
import PyramidModel.Lemmas.RouteProbe
import PyramidModel.Lemmas.RouteAdd
import PyramidModel.Props.C04
import PyramidModel.Gen.C01
/-!
# C01 — URL dispatch picks the first declared route whose pattern and predicates match

Property theorems only (models: `Rx.lean`, `Route.lean`; specs and helper lemmas: `Lemmas/Rx.lean`,
`Lemmas/Route.lean`; generated facts about the source: `Gen/C01.lean`).  Every statement quantifies over all
regexes of the fragment, all token lists, all paths, all route lists of any length, all predicate outcomes.

Reading guide
* §0 the source still has the shape the model assumes (generated term, decided).
* §1 the backtracking matcher `Rx.run` against the declarative language `Rx.Lang`: sound for every regex,
  complete (and hence exact) for the fragment `Rx.ok`; the default placeholder `[^/]+` tries longer captures first.
* §2 a compiled pattern against the declarative spec `Splits`: whatever `route.match` returns is a reading of the
  *whole* path in which literals stand for themselves, every placeholder holds a text of its regex's language and a
  `*rest` holds whatever is left (`match_sound`); the set of all readings `re` can backtrack through is exactly
  `Splits` (`match_all_exact`); so a pattern matches iff the path has a reading (`match_complete`, full since the
  remainder group became `(?s:.*?)` in fc43a19 — the old `.*?` is kept as a regression fact,
  `old_remainder_template_excluded_newline`); for default placeholders the reading chosen is the leftmost-longest
  one (`match_priority_default`).
* §3 the mapper: the route returned is the least index whose pattern matches and whose predicates hold
  (`mapper_first`, any list length), `none` iff no route qualifies, invalid UTF-8 is refused before any route is
  looked at, an empty or missing path is `/`, re-declaring a name replaces the old route and moves it to the end,
  static routes are never consulted.
* §4 the pattern parser: on the text of any pattern written according to the documented grammar (new style, or
  without `:name` markers) `_compile_route`'s parsing gives back exactly the prefix, placeholders (name, regex text),
  literals and remainder name it was written from (`parse_render`), hence the expected token list (`compile_render`);
  the same for old-style `:name` patterns (`parse_render_old`).
* §5 the `add_route` layer: the prefix in force inside nested `include(route_prefix=…)` calls is the documented
  `/`-join of the non-empty stripped prefixes (`route_prefix_join`), the pattern connected is that join, one slash,
  and the pattern without its leading slashes (`route_prefix_pattern`); under a literal prefix the route matches
  exactly `/P` followed by what the un-prefixed route matches, with the same dictionary (`route_prefix_language`);
  `path=` is `pattern=`, the two refusals; `GET` implies `HEAD`; the order of a route's predicates does not influence
  selection; and — citing C04's `conflict_free_is_sorted` / `phaseSort_stable` — the default-phase actions of a
  conflict-free configuration (the `route-connect` actions among them) execute in declaration order whatever the
  include nesting (`connect_order_is_declaration_order`).
-/
namespace Pyr.Route

open Pyr.Rx (Rx Ucd Lang)
open Pyr.Trav (splitPathInfo utf8Dec)

/-! ## 0. the generated facts (obtained by probing the running code, see `extract/c01.py`) -/

/-- the probe ran on the tree under test without anything unexpected -/
theorem probe_is_clean : Pyr.Gen.C01.probeProblems = [] := by decide

/-- `_compile_route` and `RoutesMapper` of the tree under test *behave* as this model was written for: `\Z`
anchor, `[^/]+` default, `(?s:.*?)` remainder group, literals escaped as `re.escape` does, old-style / star / brace
grammar, `split(':', 1)`, in-order loop with `continue`, static routes kept out, remainder through
`split_path_info` — each read off discriminating probes.  Fails (by `decide`) as soon as a probe answers otherwise. -/
theorem source_is_what_the_model_assumes : Pyr.Gen.C01.cfg = Cfg.std := by decide

/-- the default placeholder tree prints to the very text the running code expands `{x}` to -/
theorem default_regex_text : Rx.print Rx.notSlashPlus = Pyr.Gen.C01.phDefaultText.toList := by decide

/-- the remainder group and the anchor the model prints are those of the running code -/
theorem rest_and_anchor_text :
    regexText [.rest ['r']] = "(?P<r>(?s:.*?))".toList ++ Pyr.Gen.C01.anchorText.toList ∧
    Pyr.Gen.C01.restTplText = "(?P<%s>(?s:.*?))" := by decide

/-- the regex trees of the cube print to the texts used in its patterns, and lie in the fragment -/
theorem probe_library_prints :
    Pyr.Gen.C01.probeLib.map Rx.print = Pyr.Gen.C01.probeLibTexts.map String.toList ∧
      Pyr.Gen.C01.probeLib.all Rx.ok = true := by decide

/-- **The model compiles the pattern cube as the running code does**: for every probed pattern the regex text handed
to `re.compile` is `regexText (compileRoute pattern)` (or both refuse the pattern), the generator template is
`genTemplate`, and the matcher's answer on every probed path is `matchToks`. -/
theorem compile_probes_agree :
    Pyr.Gen.C01.compileProbes.all (CProbe.check (mkLib Pyr.Gen.C01.probeLib)) = true := by decide +kernel

/-- **… and dispatches the probed scenarios as the running `RoutesMapper` does** (order, `continue`, predicates that
read the match, static, re-connect, empty / missing / undecodable path). -/
theorem mapper_probes_agree :
    Pyr.Gen.C01.mapperProbes.all (MProbe.check (mkLib Pyr.Gen.C01.probeLib)) = true := by decide +kernel

/-- **A route predicate is attached for every built-in keyword whose value is not `None`** — also for the falsy but
meaningful values (`xhr=False`, `request_method=()`, `header=''`, `accept=()`, `is_authenticated=False`, …): the
running `add_route` connected as many predicates as the model's `addRoute` does, for every probed (keyword, value). -/
theorem route_predicates_attached_as_model : Pyr.Gen.C01.predicateAttached.all AProbe.check = true := by decide

/-- the tables are not empty; in particular at least 25 probed values that are not `None` (falsy ones among them) -/
theorem probe_sizes : 50 ≤ Pyr.Gen.C01.compileProbes.length ∧ 20 ≤ Pyr.Gen.C01.mapperProbes.length ∧
    25 ≤ (Pyr.Gen.C01.predicateAttached.filter fun p => !p.unset && p.npreds == 1).length ∧
    (Pyr.Gen.C01.predicateAttached.any fun p => p.kw == "xhr" && p.value == "False" && p.npreds == 1) = true := by decide

/-! ## 1. the regex matcher -/

/-- Everything the backtracking matcher reports is a prefix of the input that belongs to the regex's language —
for every regex tree, in or outside the fragment. -/
theorem rx_run_sound (u : Ucd) (r : Rx) (s c rest : Text) (h : (c, rest) ∈ Rx.run u r s) :
    s = c ++ rest ∧ Lang u r c :=
  Rx.run_sound u r s c rest h

/-- For the fragment, every prefix in the language is among the alternatives the matcher backtracks through. -/
theorem rx_run_complete (u : Ucd) (r : Rx) (hok : Rx.ok r = true) (c rest : Text) (h : Lang u r c) :
    (c, rest) ∈ Rx.run u r (c ++ rest) :=
  Rx.run_complete u r hok c rest h

/-- Hence, on the fragment, the list of successes is exactly the set of language prefixes. -/
theorem rx_run_exact (u : Ucd) (r : Rx) (hok : Rx.ok r = true) (s c rest : Text) :
    (c, rest) ∈ Rx.run u r s ↔ s = c ++ rest ∧ Lang u r c := by
  constructor
  · exact Rx.run_sound u r s c rest
  · rintro ⟨rfl, h⟩; exact Rx.run_complete u r hok c rest h

example : Rx.ok (.rep false 2 (some 4) (.alt (.chr 'a') (.esc .d true))) = true := by decide
example : Rx.ok Rx.notSlashPlus = true ∧ Rx.ok Rx.lazyDotStar = true := by decide
/-- outside the fragment: a repeat whose body can be empty -/
example : Rx.ok (.rep true 0 none (.rep true 0 (some 1) (.chr 'a'))) = false := by decide

/-- The default placeholder `[^/]+` offers its captures longest first (greedy), strictly. -/
theorem rx_default_longest_first (u : Ucd) (s : Text) :
    (Rx.run u Rx.notSlashPlus s).Pairwise fun a b => a.1.length > b.1.length :=
  Rx.run_notSlashPlus_sorted u s

example : Rx.run Ucd.ascii Rx.notSlashPlus "ab/c".toList = [("ab".toList, "/c".toList), ("a".toList, "b/c".toList)] := by
  decide

/-! ## 2. a compiled pattern against the spec -/

/-- **Soundness.**  If `route.match(path)` returns a dictionary then `path`, *all of it*, reads as the pattern:
each literal verbatim (no regex metacharacter of a literal means anything), each placeholder a text in the
language of its regex, the remainder any text; and the dictionary holds exactly those texts (the remainder as
`split_path_info` of its text). -/
theorem match_sound (u : Ucd) (ts : List Tok) (p : Text) (e : Env) (h : matchToks u ts p = some e) :
    Splits u (fun _ => True) ts p e :=
  matchAll_sound u ts p e (List.mem_of_head? h)

example : matchToks Ucd.ascii [.lit "/a.b/".toList, .ph "x".toList Rx.notSlashPlus, .rest "r".toList] "/a.b/v/s/./t".toList
    = some [("x".toList, .str "v".toList), ("r".toList, .segs ["s".toList, "t".toList])] := by decide

/-- The alternatives `re` can backtrack through are exactly the readings of the path. -/
theorem match_all_exact (u : Ucd) (ts : List Tok) (hok : toksOk ts = true) (p : Text) (e : Env) :
    e ∈ matchAll u .endOfString ts p ↔ Splits u (fun _ => True) ts p e :=
  ⟨matchAll_sound u ts p e, matchAll_complete u hok⟩

/-- **Completeness.**  A path that has a reading — literals verbatim, placeholder texts in their regex's language,
the remainder *any* text, line feeds included — is matched. -/
theorem match_complete (u : Ucd) (ts : List Tok) (hok : toksOk ts = true) (p : Text) (e : Env)
    (h : Splits u (fun _ => True) ts p e) : (matchToks u ts p).isSome = true := by
  have := matchAll_complete u hok h
  unfold matchToks
  cases hm : matchAll u .endOfString ts p with
  | nil => rw [hm] at this; simp at this
  | cons _ _ => simp

example : toksOk [.lit "/a/".toList, .ph "x".toList Rx.notSlashPlus, .rest "r".toList] = true := by decide
example : Splits Ucd.ascii (fun _ => True) [.lit "/a/".toList, .rest "r".toList] ("/a/".toList ++ ("b\nc".toList ++ []))
    [("r".toList, .segs (splitPathInfo "b\nc".toList))] :=
  .lit (.rest trivial .nil)

/-- The repaired defect F-C01b as a regression fact: a remainder may now span a line feed; the old template `.*?`
offered no alternative that consumes `b⏎c` entirely. -/
theorem old_remainder_template_excluded_newline :
    matchToks Ucd.ascii [.lit "/a/".toList, .rest "rest".toList] "/a/b\nc".toList =
        some [("rest".toList, .segs ["b\nc".toList])] ∧
      (Rx.run Ucd.ascii Rx.lazyDotStar "b\nc".toList).all (fun x => x.2 != []) = true ∧
      (Rx.run Ucd.ascii Rx.lazyAllStar "b\nc".toList).any (fun x => x.2 == []) = true := by decide

/-- A literal matches itself and nothing else (whatever characters it contains). -/
theorem literal_matches_only_itself (u : Ucd) (l p : Text) : (matchToks u [.lit l] p).isSome = true ↔ p = l := by
  constructor
  · intro h
    obtain ⟨e, he⟩ := Option.isSome_iff_exists.mp h
    have hs := matchAll_sound u _ p e (List.mem_of_head? he)
    cases hs with
    | lit h2 => cases h2; simp
  · rintro rfl
    have : Splits u (fun _ => True) [.lit p] (p ++ []) [] := .lit .nil
    simpa using match_complete u [.lit p] rfl (p ++ []) [] this

example : matchToks Ucd.ascii [.lit "/a.b".toList] "/aXb".toList = none := by decide

/-- Why the anchor matters: with `$` instead of `\Z` (the repaired defect F-C01a) a path with a trailing line feed
is matched by a pattern it is not a reading of. -/
theorem dollar_anchor_unsound :
    matchAll Ucd.ascii .dollar [.lit "/foo".toList] "/foo\n".toList = [[]] ∧
      matchAll Ucd.ascii .endOfString [.lit "/foo".toList] "/foo\n".toList = [] := by decide

/-- **Priority.**  With default placeholders the dictionary returned is the leftmost-longest reading: its vector of
capture lengths is lexicographically at least that of any other reading of the path. -/
theorem match_priority_default (u : Ucd) (ts : List Tok) (hd : defaultOnly ts = true) (p : Text) (e e' : Env)
    (h : matchToks u ts p = some e) (h' : Splits u (fun _ => True) ts p e') : lexGE (phLens e) (phLens e') := by
  have hs := matchAll_sorted u .endOfString ts p hd
  have hm := matchAll_complete u (defaultOnly_toksOk ts hd) h'
  unfold matchToks at h
  obtain ⟨rest, hr⟩ := List.head?_eq_some_iff.mp h
  rw [hr] at hs hm
  rcases List.mem_cons.mp hm with rfl | hmem
  · exact lexGE_refl _
  · exact (List.pairwise_cons.mp hs).1 e' hmem

example : defaultOnly [.lit "/".toList, .ph "a".toList Rx.notSlashPlus, .ph "b".toList Rx.notSlashPlus, .rest "r".toList] = true := by
  decide
example : matchToks Ucd.ascii [.lit "/".toList, .ph "a".toList Rx.notSlashPlus, .lit "-".toList, .ph "b".toList Rx.notSlashPlus]
    "/x-y-z".toList = some [("a".toList, .str "x-y".toList), ("b".toList, .str "z".toList)] := by decide

/-- **Remainder normalisation.**  Every `*rest` value of a returned dictionary is `split_path_info` of a piece of
the path: its segments are never empty, `.` or `..` and contain no slash. -/
theorem remainder_normalised (u : Ucd) (ts : List Tok) (p : Text) (e : Env) (h : matchToks u ts p = some e)
    (n : Text) (segs : List Text) (hm : (n, Val.segs segs) ∈ e) :
    (∃ c, segs = splitPathInfo c) ∧ ∀ s ∈ segs, s ≠ [] ∧ s ≠ ['.'] ∧ s ≠ ['.', '.'] ∧ '/' ∉ s := by
  obtain ⟨c, rfl⟩ := (match_sound u ts p e h).segs_mem n segs hm
  exact ⟨⟨c, rfl⟩, fun s hs => split_clean c s hs⟩

/-- Every placeholder value of a returned dictionary belongs to the language of that placeholder's regex. -/
theorem captures_in_language (u : Ucd) (ts : List Tok) (p : Text) (e : Env) (h : matchToks u ts p = some e)
    (n c : Text) (hm : (n, Val.str c) ∈ e) : ∃ rx, Tok.ph n rx ∈ ts ∧ Lang u rx c :=
  (match_sound u ts p e h).str_mem n c hm

/-- What `_compile_route` accepts has ASCII identifier group names, pairwise distinct (so the dictionary is a
function of the names). -/
theorem compile_ok_names (u : Ucd) (lib : Lib) (route : Text) (toks : List Tok) (h : compileRoute u lib route = .ok toks) :
    (tokNames toks).all isIdentA = true ∧ dupFree (tokNames toks) = true := by
  unfold compileRoute at h
  split at h
  · cases h
  · unfold checkNames at h
    split at h
    · cases h
    · split at h
      · cases h
      · rename_i hn
        injection h with h
        subst h
        simpa using hn

example : compileRoute Ucd.ascii [] "a/:x/{y}*r".toList =
    .ok [.lit "/a/:x/".toList, .ph "y".toList Rx.notSlashPlus, .rest "r".toList] := by decide
example : compileRoute Ucd.ascii [] "/a/:x-:y".toList =
    .ok [.lit "/a/".toList, .ph "x".toList Rx.notSlashPlus, .lit "-".toList, .ph "y".toList Rx.notSlashPlus] := by decide
example : compileRoute Ucd.ascii (mkLib [.rep true 4 (some 4) (.esc .d false)]) "/{y:\\d{4}}/{x}{x}".toList = .error .reError := by
  decide

/-! ## 3. the mapper -/

/-- **First declared match.**  `RoutesMapper.__call__` returns index `i` with dictionary `e` iff the path decodes,
route `i`'s pattern matches with `e`, its predicates all hold on `e`, and every earlier route either does not match
or fails a predicate — for route lists of any length. -/
theorem mapper_first (u : Ucd) (rs : List Route) (raw : Option Pyr.Trav.Bytes) (i : Nat) (e : Env) :
    mapperCall u rs raw = .hit i e ↔
      ∃ p r, requestPath raw = some p ∧ rs[i]? = some r ∧
        matchToks u r.toks p = some e ∧ predsHold e r.preds = true ∧
        ∀ j r', j < i → rs[j]? = some r' →
          ∀ e', matchToks u r'.toks p = some e' → predsHold e' r'.preds = false := by
  have qsome : ∀ p (r : Route) e, qualifies u p r = some e ↔ matchToks u r.toks p = some e ∧ predsHold e r.preds = true := by
    intro p r e
    unfold qualifies
    cases hm : matchToks u r.toks p with
    | none => simp
    | some e0 =>
      by_cases hp : predsHold e0 r.preds = true
      · simp only [hp, ite_true, Option.some.injEq]
        constructor
        · rintro rfl; exact ⟨rfl, hp⟩
        · rintro ⟨h, _⟩; exact h
      · simp only [hp, Option.some.injEq]
        constructor
        · intro h; cases h
        · rintro ⟨rfl, h⟩; exact absurd h hp
  have qnone : ∀ p (r : Route), qualifies u p r = none ↔ ∀ e', matchToks u r.toks p = some e' → predsHold e' r.preds = false := by
    intro p r
    unfold qualifies
    cases hm : matchToks u r.toks p with
    | none => simp
    | some e0 =>
      by_cases hp : predsHold e0 r.preds = true <;> simp [hp]
  unfold mapperCall
  cases hp : requestPath raw with
  | none => simp
  | some p =>
    cases hf : firstRoute u p rs 0 with
    | none =>
      simp only [hf, reduceCtorEq, false_iff, not_exists, not_and]
      intro p' r hp' hr hm hh
      cases hp'
      have := (firstRoute_eq_none u p rs 0).mp hf r (List.mem_of_getElem? hr)
      rw [(qnone p r)] at this
      have := this e hm
      rw [hh] at this; cases this
    | some je =>
      obtain ⟨j, e0⟩ := je
      have hspec := (firstRoute_eq_some u p rs 0 j e0).mp hf
      obtain ⟨k, r, hk, hr, hq, hmin⟩ := hspec
      have hk : j = k := by omega
      subst hk
      simp only [hf, Outcome.hit.injEq, Option.some.injEq]
      constructor
      · rintro ⟨rfl, rfl⟩
        refine ⟨p, r, rfl, hr, ((qsome p r e0).mp hq).1, ((qsome p r e0).mp hq).2, ?_⟩
        intro j' r' hj hr'
        exact (qnone p r').mp (hmin j' r' hj hr')
      · rintro ⟨p', r2, hp', hr2, hm2, hh2, hmin2⟩
        cases hp'
        -- both `j` and `i` are least qualifying indices
        have hq2 : qualifies u p r2 = some e := (qsome p r2 e).mpr ⟨hm2, hh2⟩
        rcases Nat.lt_trichotomy j i with hlt | heq | hgt
        · have := hmin2 j r hlt hr e0 ((qsome p r e0).mp hq).1
          rw [((qsome p r e0).mp hq).2] at this; cases this
        · subst heq
          rw [hr] at hr2; cases hr2
          rw [hq] at hq2
          exact ⟨rfl, Option.some.inj hq2⟩
        · have := hmin i r2 hgt hr2
          rw [hq2] at this; cases this

/-- **Fall-through.**  No route is selected iff the path decodes and no listed route qualifies. -/
theorem mapper_none (u : Ucd) (rs : List Route) (raw : Option Pyr.Trav.Bytes) :
    mapperCall u rs raw = .noMatch ↔
      ∃ p, requestPath raw = some p ∧ ∀ r ∈ rs, ∀ e, matchToks u r.toks p = some e → predsHold e r.preds = false := by
  unfold mapperCall
  cases hp : requestPath raw with
  | none => simp
  | some p =>
    have hq : ∀ r : Route, qualifies u p r = none ↔ ∀ e, matchToks u r.toks p = some e → predsHold e r.preds = false := by
      intro r
      unfold qualifies
      cases hm : matchToks u r.toks p with
      | none => simp
      | some e0 => by_cases hp : predsHold e0 r.preds = true <;> simp [hp]
    cases hf : firstRoute u p rs 0 with
    | none =>
      simp only [hf, Option.some.injEq, exists_eq_left', true_iff]
      intro r hr
      exact (hq r).mp ((firstRoute_eq_none u p rs 0).mp hf r hr)
    | some je =>
      simp only [hf, reduceCtorEq, Option.some.injEq, exists_eq_left', false_iff]
      intro hall
      have : firstRoute u p rs 0 = none := (firstRoute_eq_none u p rs 0).mpr fun r hr => (hq r).mpr (hall r hr)
      rw [hf] at this; cases this

/-- The selected route's dictionary is a reading of the whole path in the sense of the spec. -/
theorem mapper_hit_reads_path (u : Ucd) (rs : List Route) (raw : Option Pyr.Trav.Bytes) (i : Nat) (e : Env)
    (h : mapperCall u rs raw = .hit i e) :
    ∃ p r, requestPath raw = some p ∧ rs[i]? = some r ∧ Splits u (fun _ => True) r.toks p e := by
  obtain ⟨p, r, hp, hr, hm, _, _⟩ := (mapper_first u rs raw i e).mp h
  exact ⟨p, r, hp, hr, match_sound u r.toks p e hm⟩

/-- **The selected route's match dictionary is its own.**  It is what that route's pattern reads off the path and
nothing else: it does not depend on which other routes are declared, on their patterns (identical to this one's or not),
on their predicates or on the order in which anything was evaluated.  Two dispatches — different route lists, different
positions — that select routes with the same tokens for the same path return the same dictionary. -/
theorem selected_dict_is_own_match (u : Ucd) (rs rs' : List Route) (raw : Option Pyr.Trav.Bytes) (i j : Nat) (e e' : Env)
    (h : mapperCall u rs raw = .hit i e) (h' : mapperCall u rs' raw = .hit j e') :
    (∃ p r, requestPath raw = some p ∧ rs[i]? = some r ∧ matchToks u r.toks p = some e) ∧
    (∀ r r', rs[i]? = some r → rs'[j]? = some r' → r.toks = r'.toks → e = e') := by
  obtain ⟨p, r, hp, hr, hm, _, _⟩ := (mapper_first u rs raw i e).mp h
  obtain ⟨p', r', hp', hr', hm', _, _⟩ := (mapper_first u rs' raw j e').mp h'
  refine ⟨⟨p, r, hp, hr, hm⟩, ?_⟩
  intro r0 r0' h0 h0' ht
  rw [hr] at h0; rw [hr'] at h0'
  cases h0; cases h0'
  rw [hp] at hp'; cases hp'
  rw [ht, hm'] at hm
  exact (Option.some.inj hm).symm

/-- **Invalid UTF-8 is refused**, whatever routes are declared. -/
theorem invalid_utf8_refused (u : Ucd) (rs : List Route) (raw : Pyr.Trav.Bytes) (h : utf8Dec raw = none) :
    mapperCall u rs (some raw) = .urlDecode := by
  simp [mapperCall, requestPath, h]

example : utf8Dec [47, 0xff] = none := by decide
example : utf8Dec [47, 0xc0, 0xaf] = none := by decide

/-- … and only then: a decodable path is never answered with a decode error. -/
theorem urldecode_only_if_invalid (u : Ucd) (rs : List Route) (raw : Option Pyr.Trav.Bytes)
    (h : mapperCall u rs raw = .urlDecode) : ∃ b, raw = some b ∧ utf8Dec b = none := by
  unfold mapperCall at h
  cases raw with
  | none => simp [requestPath] at h; split at h <;> simp at h
  | some b =>
    cases hd : utf8Dec b with
    | none => exact ⟨b, rfl, hd⟩
    | some t => simp [requestPath, hd] at h; split at h <;> simp at h

/-- An empty or missing `PATH_INFO` is dispatched as `/`. -/
theorem empty_path_is_root (u : Ucd) (rs : List Route) :
    mapperCall u rs (some []) = mapperCall u rs (some [47]) ∧ mapperCall u rs none = mapperCall u rs (some [47]) := by
  have h1 : requestPath (some []) = some ['/'] := by decide
  have h2 : requestPath (some [47]) = some ['/'] := by decide
  have h3 : requestPath none = some ['/'] := rfl
  simp only [mapperCall, h1, h2, h3, and_self]

/-- **Re-declaring a name replaces.**  After `connect(name, …)` succeeds for a non-static route, the routes of other
names keep their order, the earlier route of that name (if any) is gone, the new one is last. -/
theorem reconnect_replaces (ds : List Decl) (name : Text) (toks : List Tok) (preds : List Pred) :
    let m := runDecls Mapper.empty ds
    (connect m name (.ok toks) preds false).1.routelist =
      m.routelist.filter (fun r => r.name != name) ++ [⟨m.next, name, toks, preds, false⟩] :=
  connect_routelist _ (inv_runDecls ds _ inv_empty) name toks preds

/-- **Declaration order.**  When all declared names differ, the list dispatch walks is exactly the non-static
declarations whose pattern compiled, in the order they were declared (so `mapper_first`'s "least index" is "first
declared"). -/
theorem routelist_is_declaration_order (ds : List Decl) (h : ds.Pairwise fun a b => a.name ≠ b.name) :
    (runDecls Mapper.empty ds).routelist = declRoutes ds 0 := by
  have := runDecls_fresh_names ds Mapper.empty inv_empty (by simp [Mapper.empty]) h
  simpa [Mapper.empty] using this

example : ([⟨"a".toList, .ok [], [], false⟩, ⟨"b".toList, .ok [], [], true⟩, ⟨"c".toList, .error .reError, [], false⟩,
    ⟨"d".toList, .ok [.lit ['/']], [], false⟩] : List Decl).Pairwise (fun a b => a.name ≠ b.name) := by decide
example : (declRoutes [⟨"a".toList, .ok [], [], false⟩, ⟨"b".toList, .ok [], [], true⟩, ⟨"c".toList, .error .reError, [], false⟩,
    ⟨"d".toList, .ok [.lit ['/']], [], false⟩] 0).map (·.id) = [0, 3] := by decide

/-- … also when the new pattern does not compile (or is static): the old route has already left the list. -/
theorem reconnect_failed_still_removes (ds : List Decl) (name : Text) (err : CErr) (preds : List Pred) (st : Bool) :
    let m := runDecls Mapper.empty ds
    (connect m name (.error err) preds st).1.routelist = m.routelist.filter (fun r => r.name != name) :=
  connect_routelist_error _ (inv_runDecls ds _ inv_empty) name err preds st

/-- After any sequence of declarations the list consulted by dispatch holds at most one route per name, and only
non-static ones. -/
theorem mapper_invariant (ds : List Decl) :
    let m := runDecls Mapper.empty ds
    (m.routelist.Pairwise fun a b => a.name ≠ b.name) ∧ ∀ r ∈ m.routelist, r.static = false :=
  let hi := inv_runDecls ds _ inv_empty
  ⟨hi.distinct, hi.nonstatic⟩

/-- **Static routes are never matched**: whatever is declared and whatever is requested, a selected route is not
static. -/
theorem static_not_matched (u : Ucd) (ds : List Decl) (raw : Option Pyr.Trav.Bytes) (i : Nat) (e : Env)
    (h : mapperCall u (runDecls Mapper.empty ds).routelist raw = .hit i e) :
    ∃ r, (runDecls Mapper.empty ds).routelist[i]? = some r ∧ r.static = false := by
  obtain ⟨_, r, _, hr, _⟩ := (mapper_first u _ raw i e).mp h
  exact ⟨r, hr, (inv_runDecls ds _ inv_empty).nonstatic r (List.mem_of_getElem? hr)⟩

/-- non-vacuity: a declaration sequence with a static route, a re-declaration and a failing predicate, dispatched -/
example :
    let ds : List Decl := [
      ⟨"a".toList, compileRoute Ucd.ascii [] "/x/{id}".toList, [.const false], false⟩,
      ⟨"s".toList, compileRoute Ucd.ascii [] "/x/{id}".toList, [], true⟩,
      ⟨"b".toList, compileRoute Ucd.ascii [] "/x/*rest".toList, [], false⟩,
      ⟨"a".toList, compileRoute Ucd.ascii [] "/{p}/7".toList, [.eq "p".toList "x".toList], false⟩]
    let m := runDecls Mapper.empty ds
    m.routelist.map (·.id) = [2, 3] ∧
      mapperCall Ucd.ascii m.routelist (some [47, 120, 47, 55]) = .hit 0 [("rest".toList, .segs ["7".toList])] := by
  decide

/-! ## 4. the pattern parser -/

/-- **Parser round trip.**  Take any `/`-led prefix without `{`, any list of placeholders (identifier-like name,
optional regex text whose braces are balanced one level deep) each followed by `{`-free literal text, and an optional
`*name` of word characters (or, without one, a text that does not end in `*word`).  If the pattern has at least one
`{…}` placeholder or no old-style `:name` marker, then parsing its text (old-style test, `*name` detection,
`route_re.split`, `name.split(':', 1)`) returns exactly those parts. -/
theorem parse_render (u : Ucd) (pfx : Text) (pieces : List (RawPh × Text)) (rem : Option Text)
    (h : RawWf u pfx pieces rem) :
    parseRoute u (renderRaw pfx pieces rem) = { pfx := pfx, pieces := pieces, remainder := rem } :=
  parse_render_raw u pfx pieces rem h

/-- … and `_compile_route` accepts it with the expected tokens, provided every regex text is one the library resolves
and the group names are distinct ASCII identifiers. -/
theorem compile_render (u : Ucd) (lib : Lib) (pfx : Text) (pieces : List (RawPh × Text)) (rem : Option Text)
    (h : RawWf u pfx pieces rem) (ts : List Tok) (hres : piecesToks lib pieces = some ts)
    (hnames : (tokNames (.lit pfx :: ts ++ restToks rem)).all isIdentA = true ∧
      dupFree (tokNames (.lit pfx :: ts ++ restToks rem)) = true) :
    compileRoute u lib (renderRaw pfx pieces rem) = .ok (.lit pfx :: ts ++ restToks rem) :=
  compile_render_raw u lib pfx pieces rem h ts hres hnames

/-- non-vacuity: `/a.b/{x}-{y:\d{4}}/c*rest` -/
example : RawWf Ucd.ascii "/a.b/".toList
    [(⟨"x".toList, none⟩, "-".toList), (⟨"y".toList, some "\\d{4}".toList⟩, "/c".toList)] (some "rest".toList) :=
  ⟨by decide, by decide, by decide, Or.inl (by simp), by decide⟩
example : String.ofList (renderRaw "/a.b/".toList
    [(⟨"x".toList, none⟩, "-".toList), (⟨"y".toList, some "\\d{4}".toList⟩, "/c".toList)] (some "rest".toList))
    = "/a.b/{x}-{y:\\d{4}}/c*rest" := by decide
/-- non-vacuity without placeholders and without remainder: a literal with a `*` in the middle and a `:` not followed
by a name start -/
example : RawWf Ucd.ascii "/a*b/c:/9".toList [] none :=
  ⟨by decide, by decide, by decide, Or.inr (by decide), by decide⟩
/-- **Old-style parser round trip.**  A pattern written with `:name` markers only — `/`-led prefix, each marker a
name `[_a-zA-Z]\\w*` followed by a literal that has no `{`, does not start with a word character (the name would swallow
it) and contains no `:` + name-start, optional `*name` — is read as exactly those placeholders with the default regex:
`old_route_re.sub` rewrites every `:name` to `{name}` and nothing else, and the new-style parser takes over. -/
theorem parse_render_old (u : Ucd) (pfx : Text) (ps : List (Text × Text)) (rem : Option Text) (h : OldWf u pfx ps rem) :
    parseRoute u (renderOldRaw pfx ps rem) = { pfx := pfx, pieces := oldPieces ps, remainder := rem } :=
  parse_render_old_raw u pfx ps rem h

/-- non-vacuity: `/a/:x-:y2/b:*rest` -/
example : OldWf Ucd.ascii "/a/".toList [("x".toList, "-".toList), ("y2".toList, "/b:".toList)] (some "rest".toList) :=
  ⟨by decide, by decide, by decide, by simp, by decide, by decide⟩
example : String.ofList (renderOldRaw "/a/".toList [("x".toList, "-".toList), ("y2".toList, "/b:".toList)] (some "rest".toList))
    = "/a/:x-:y2/b:*rest" := by decide
/-- outside the hypothesis: a literal starting with a word character is swallowed by the name before it -/
example : oldPieceWf Ucd.ascii ("x".toList, "y/".toList) = false := by decide

/-- outside the hypothesis: a literal that ends in `*word` is (by design of the grammar) a remainder marker -/
example : restWf Ucd.ascii "/a*b".toList none = false := by decide

/-! ## 5. `Configurator.add_route` and `route_prefix` -/

/-- **`route_prefix_join`.**  Inside `include(…, route_prefix=p₁)` … `include(…, route_prefix=p_k)` (outermost first, no
prefix on the root configurator) the prefix in force is the documented join: every `pᵢ` stripped of slashes at both
ends, the empty ones dropped, the rest joined by single slashes — or no prefix at all when nothing is left. -/
theorem route_prefix_join (incs : List (Option Text)) : prefixAt none incs = joinSpec incs :=
  prefixAt_none incs

/-- … and the pattern `add_route` connects at that depth is the join, one slash, and the pattern without its leading
slashes (the pattern itself when there is no prefix). -/
theorem route_prefix_pattern (incs : List (Option Text)) (pattern : Text) :
    routePattern (prefixAt none incs) pattern false =
      match joinSpec incs with
      | none => pattern
      | some P => P ++ '/' :: lstripSlash pattern := by
  rw [route_prefix_join]
  cases h : joinSpec incs with
  | none => rfl
  | some P =>
    obtain ⟨hne, _, hl⟩ := joinSpec_clean incs P h
    simp [routePattern, hne, rstrip_of_last P hl]

example : joinSpec [some "/api/".toList, none, some "//".toList, some "v1/users".toList] = some "api/v1/users".toList := by
  decide
example : routePattern (prefixAt none [some "/api/".toList, some "v1".toList]) "/{id}".toList false = "api/v1/{id}".toList := by
  decide
/-- an empty pattern under a prefix: `prefix/`, or the bare prefix with `inherit_slash` -/
example : routePattern (some "api".toList) [] false = "api/".toList ∧ routePattern (some "api".toList) [] true = "api".toList := by
  decide

/-- **A literal prefix prepends exactly its text.**  Let the route's own pattern be written per the grammar as
(`/pfx0`, placeholders, remainder) and let `P` be a clean prefix such that the joined text is again well-formed (`P`
has no `{`, no `:name` marker, no `*word` ending).  Then the pattern connected under `P` compiles to the route's own
tokens with `/P` in front of the first literal, and it matches a path iff the path is `/P` followed by a path the
un-prefixed route matches — with the same alternatives, hence the same match dictionary. -/
theorem route_prefix_language (u : Ucd) (lib : Lib) (P pfx0 : Text) (pieces : List (RawPh × Text)) (rem : Option Text)
    (hP : Clean P) (hbody : (pfx0 ++ renderPieces pieces ++ renderRest rem).head? ≠ some '/')
    (hwf : RawWf u ('/' :: P ++ '/' :: pfx0) pieces rem) (ts : List Tok) (hres : piecesToks lib pieces = some ts)
    (hnames : (tokNames (.lit ('/' :: P ++ '/' :: pfx0) :: ts ++ restToks rem)).all isIdentA = true ∧
      dupFree (tokNames (.lit ('/' :: P ++ '/' :: pfx0) :: ts ++ restToks rem)) = true) :
    compileRoute u lib (routePattern (some P) (renderRaw ('/' :: pfx0) pieces rem) false) =
        .ok (.lit ('/' :: P ++ '/' :: pfx0) :: ts ++ restToks rem) ∧
      ∀ (a : Anchor) (p : Text),
        matchAll u a (.lit ('/' :: P ++ '/' :: pfx0) :: ts ++ restToks rem) p =
          match dropPrefix? ('/' :: P) p with
          | some r => matchAll u a (.lit ('/' :: pfx0) :: ts ++ restToks rem) r
          | none => [] := by
  refine ⟨compile_prefixed u lib P pfx0 pieces rem hP hbody hwf ts hres hnames, ?_⟩
  intro a p
  have : ('/' :: P ++ '/' :: pfx0) = ('/' :: P) ++ ('/' :: pfx0) := by simp
  rw [this]
  exact matchAll_lit_append u a ('/' :: P) ('/' :: pfx0) (ts ++ restToks rem) p

/-- non-vacuity: prefix `api/v1`, pattern `/users/{id}*rest` -/
example : Clean "api/v1".toList ∧
    RawWf Ucd.ascii ('/' :: "api/v1".toList ++ '/' :: "users/".toList) [(⟨"id".toList, none⟩, [])] (some "rest".toList) :=
  ⟨by decide, ⟨by decide, by decide, by decide, Or.inl (by simp), by decide⟩⟩
example : matchToks Ucd.ascii [.lit "/api/v1/users/".toList, .ph "id".toList Rx.notSlashPlus, .rest "rest".toList] "/api/v1/users/7/a".toList
    = some [("id".toList, .str "7".toList), ("rest".toList, .segs ["a".toList])] := by decide

/-- `path=` is the old spelling of `pattern=`; without either, and with `inherit_slash` on a non-empty pattern, `add_route`
refuses. -/
theorem add_route_args (pfx : Option Text) (a : RouteArgs) :
    (a.pattern = none → a.path = none → addRoute pfx a = .error .patternNone) ∧
    (∀ p, a.pattern = none → a.path = some p → addRoute pfx a = addRoute pfx { a with pattern := some p }) ∧
    (∀ p, a.pattern = some p → a.inheritSlash = true → p ≠ [] → addRoute pfx a = .error .inheritSlash) ∧
    (∀ p, a.pattern = some p → a.inheritSlash = false →
      addRoute pfx a = .ok (routePattern pfx p false, builtinPreds a.builtins ++ a.preds, a.static)) := by
  refine ⟨?_, ?_, ?_, ?_⟩
  · intro h1 h2; simp [addRoute, h1, h2]
  · intro p h1 h2; simp [addRoute, h1, h2]
  · intro p h1 h2 h3; simp [addRoute, h1, h2, h3]
  · intro p h1 h2; simp [addRoute, h1, h2]

/-- **`predicate_attached_iff_given`.**  The route `add_route` connects carries a predicate for a built-in keyword iff a
value was given for it (`none` = `None`): every given value contributes its predicate, an unset keyword contributes
nothing, and nothing else is added to the custom predicates.  (A falsy value is a value: `xhr=False` restricts the
route to non-XHR requests.) -/
theorem predicate_attached_iff_given (pfx : Option Text) (a : RouteArgs) (pat : Text) (ps : List Pred) (st : Bool)
    (h : addRoute pfx a = .ok (pat, ps, st)) :
    (∀ k p, (k, some p) ∈ a.builtins → p ∈ ps) ∧
    (∀ p, p ∈ ps → p ∈ a.preds ∨ ∃ k, (k, some p) ∈ a.builtins) ∧
    ps.length = (a.builtins.filter fun x => x.2.isSome).length + a.preds.length := by
  have hps : ps = builtinPreds a.builtins ++ a.preds := by
    unfold addRoute at h
    split at h
    · cases h
    · split at h
      · cases h
      · injection h with h; injection h with _ h; injection h with h _; exact h.symm
  subst hps
  refine ⟨?_, ?_, ?_⟩
  · intro k p hm
    apply List.mem_append_left
    simp only [builtinPreds, List.mem_filterMap]
    exact ⟨(k, some p), hm, rfl⟩
  · intro p hm
    rcases List.mem_append.mp hm with hm | hm
    · simp only [builtinPreds, List.mem_filterMap] at hm
      obtain ⟨⟨k, q⟩, hq, he⟩ := hm
      simp only at he
      subst he
      exact Or.inr ⟨k, hq⟩
    · exact Or.inl hm
  · simp only [List.length_append, builtinPreds]
    congr 1
    induction a.builtins with
    | nil => rfl
    | cons x xs ih =>
      obtain ⟨k, q⟩ := x
      cases q <;> simp [ih]

/-- the scenario of seed C01-4, in the model: `plain` declared with `xhr=False`, then `ajax` without predicates, same
pattern; an XHR request skips `plain` and selects `ajax`, a plain request selects `plain`. -/
example :
    let mk (isXhr : Bool) : List Decl :=
      [(⟨"plain".toList, some "/data/{id}".toList, none, false, false, [], [(.xhr, some (.const (xhrHolds false isXhr)))]⟩ : RouteArgs),
       ⟨"ajax".toList, some "/data/{id}".toList, none, false, false, [], [(.xhr, none)]⟩].filterMap fun a =>
        match addRoute none a with
        | .ok (pat, ps, st) => some ⟨a.name, compileRoute Ucd.ascii [] pat, ps, st⟩
        | .error _ => none
    mapperCall Ucd.ascii (runDecls Mapper.empty (mk true)).routelist (some [47, 100, 97, 116, 97, 47, 55])
        = .hit 1 [("id".toList, .str "7".toList)] ∧
      mapperCall Ucd.ascii (runDecls Mapper.empty (mk false)).routelist (some [47, 100, 97, 116, 97, 47, 55])
        = .hit 0 [("id".toList, .str "7".toList)] := by decide

/-- `request_method='GET'` also lets `HEAD` through; other methods are exactly those listed. -/
theorem get_implies_head (val : List Text) (h : val.contains "GET".toList = true) :
    requestMethodHolds val "HEAD".toList = true := by
  unfold requestMethodHolds
  split <;> simp_all

example : requestMethodHolds ["POST".toList] "HEAD".toList = false ∧ requestMethodHolds ["GET".toList] "POST".toList = false := by
  decide

/-- The order in which a route's predicates are listed (the predicate list sorts them) cannot change which route is
selected: only their conjunction matters. -/
theorem predicate_order_irrelevant (e : Env) (ps qs : List Pred) (h : ps.Perm qs) : predsHold e ps = predsHold e qs :=
  h.all_eq

/-- **Connect order = declaration order, across includes** (cites C04).  In a conflict-free configuration without
re-entrancy the commit executes all actions, and those of any one phase — in particular the default phase `0`, where
`add_route` registers `('route-connect', name)` — run in the order they were declared, whatever include path each
carries.  (`mapper.connect` is therefore called in declaration order, which `routelist_is_declaration_order` turns into
"first declared = least index".) -/
theorem connect_order_is_declaration_order (top : List Pyr.Actions.Act) (hn : Pyr.Actions.IdsNodup top)
    (hp : Pyr.Actions.Plain top) (hd : Pyr.Actions.DistinctKeys top) (fuel : Nat) (hf : top.length < fuel) (o : Int) :
    ∃ E : List Pyr.Actions.Act, Pyr.Actions.run Pyr.Actions.noKids fuel top = (.ok, E.map (·.id)) ∧
      Pyr.Actions.atOrd o E = Pyr.Actions.atOrd o top :=
  ⟨Pyr.Actions.phaseSort top, Pyr.Actions.conflict_free_is_sorted top hn hp hd fuel hf, Pyr.Actions.phaseSort_stable top o⟩

end Pyr.Route
