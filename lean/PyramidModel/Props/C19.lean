/-
C19 — HTTP error responses never embed request-derived text unescaped.

Property theorems only.  Model: PyramidModel/HttpExc.lean (escape, `string.Template`, `prepare`, JSON encoder,
negotiation).  Specs: Lemmas/HttpExcSpec.lean (character-reference reader, token reading of templates, tagged
pieces, JSON reader, arg-max of the q-values).  Generated facts: Gen/C19.lean (class table with the template
texts, the structure of `prepare`).
-/
import PyramidModel.HttpExc
import PyramidModel.Gen.C19
import PyramidModel.Gen.C19ProbesA
import PyramidModel.Gen.C19ProbesB
import PyramidModel.Gen.C19ProbesC
import PyramidModel.Gen.C19ProbesD
import PyramidModel.Gen.C19ProbesE
import PyramidModel.Gen.C19ProbesF
import PyramidModel.Lemmas.HttpExcSpec
import PyramidModel.Lemmas.HttpExc
import PyramidModel.Lemmas.HttpExcTemplate
import PyramidModel.Lemmas.HttpExcRender
import PyramidModel.Lemmas.HttpExcJson
import PyramidModel.Lemmas.HttpExcNegotiate

namespace Pyr.HttpExc

open Pyr.Gen.C19 (classes)

/-! ## 1. the escape function -/

/-- For EVERY text: what `html_escape` returns is ASCII, contains none of `<`, `>`, `"`, `'`, and every `&` in it
begins one of the references `&amp; &lt; &gt; &quot; &#x27; &#N;`. -/
theorem escape_no_meta (t : Text) :
    (∀ c ∈ htmlEscape t, c.toNat < 128 ∧ isMeta c = false) ∧ entitiesOk (htmlEscape t) = true := by
  refine ⟨htmlEscape_clean t, ?_⟩
  have := entitiesOk_htmlEscape_append t []
  simpa [entitiesOk] using this

/-- Reading the character references back gives the original text: escaping loses nothing and adds nothing. -/
theorem unescape_escape (t : Text) : htmlUnescape (htmlEscape t) = t := by
  have := htmlUnescape_htmlEscape_append t []
  simpa [htmlUnescape] using this

/-- hence two different texts are never rendered alike -/
theorem escape_injective (s t : Text) (h : htmlEscape s = htmlEscape t) : s = t := by
  rw [← unescape_escape s, ← unescape_escape t, h]

/-! ## 2. `string.Template` is single pass -/

/-- `Template(t).substitute(env)` (the model scans like `pattern.sub`) is: read the template ONCE into tokens —
which depend on the template alone and spell exactly the template (`detok`) — then replace each placeholder by
its whole value.  Values are never scanned: whatever `$`-syntax they contain stays as it is. -/
theorem substitute_single_pass (env : Text → Option Text) (t : Text) :
    substitute env t = fill env (tokenize t) ∧ detok (tokenize t) = t :=
  ⟨substitute_eq_fill env t, detok_tokenize t⟩

/-- the value of a placeholder is inserted verbatim between the renderings of what precedes and what follows it -/
theorem placeholder_value_inserted_verbatim (env : Text → Option Text) (pre post : List Tok) (k v a b : Text)
    (hk : env k = some v) (ha : fill env pre = .ok a) (hb : fill env post = .ok b) :
    fill env (pre ++ .braced k :: post) = .ok (a ++ v ++ b) ∧ fill env (pre ++ .named k :: post) = .ok (a ++ v ++ b) := by
  induction pre generalizing a with
  | nil =>
    simp only [fill, Except.ok.injEq] at ha
    subst ha
    simp [fill, hk, hb, Except.map]
  | cons tk ts ih =>
    cases tk with
    | lit c =>
      simp only [fill] at ha
      cases hr : fill env ts with
      | error e => rw [hr] at ha; simp [Except.map] at ha
      | ok x =>
        rw [hr] at ha; simp only [Except.map, Except.ok.injEq] at ha; subst ha
        have := ih x hr
        simp [fill, this.1, this.2, Except.map]
    | esc =>
      simp only [fill] at ha
      cases hr : fill env ts with
      | error e => rw [hr] at ha; simp [Except.map] at ha
      | ok x =>
        rw [hr] at ha; simp only [Except.map, Except.ok.injEq] at ha; subst ha
        have := ih x hr
        simp [fill, this.1, this.2, Except.map]
    | named n =>
      simp only [fill] at ha
      cases hv : env n with
      | none => rw [hv] at ha; simp at ha
      | some w =>
        rw [hv] at ha
        cases hr : fill env ts with
        | error e => rw [hr] at ha; simp [Except.map] at ha
        | ok x =>
          rw [hr] at ha; simp only [Except.map, Except.ok.injEq] at ha; subst ha
          have := ih x hr
          simp [fill, hv, this.1, this.2, Except.map]
    | braced n =>
      simp only [fill] at ha
      cases hv : env n with
      | none => rw [hv] at ha; simp at ha
      | some w =>
        rw [hv] at ha
        cases hr : fill env ts with
        | error e => rw [hr] at ha; simp [Except.map] at ha
        | ok x =>
          rw [hr] at ha; simp only [Except.map, Except.ok.injEq] at ha; subst ha
          have := ih x hr
          simp [fill, hv, this.1, this.2, Except.map]
    | invalid r => simp [fill] at ha

/-- non-vacuity / the point of the theorem at a concrete input: a value that itself looks like a placeholder,
an escape and an ill-formed placeholder comes out unchanged -/
example : substitute (fun k => if k = ['d'] then some ['$', '{', 'd', '}', '$', '$', '$'] else none)
    ['<', '$', '{', 'd', '}', '>', '$', '$'] = .ok ['<', '$', '{', 'd', '}', '$', '$', '$', '>', '$'] := by decide

/-! ## 3. `prepare` -/

/-- REFINEMENT (central theorem): for every exception object, environ, offered list and q-values, `prepare` is the
piece-wise rendering `specRender` with the tags forgotten — including which error is raised. -/
theorem prepare_refines_spec (off : List Text) (e : Exc) (environ : List (Text × Text)) (q : Text → Nat) :
    prepare off e environ q =
      if e.hasBody || e.emptyBody then .ok none
      else
        let f := formOf (chooseMatch q off)
        (specRender f (e.withContentType f) environ).map fun ps =>
          some (respOf f (e.withContentType f) (bodyOfPieces f (e.withContentType f) ps)) :=
  prepare_eq_spec off e environ q

/-- what `prepare_refines_spec` gives for a response that was rendered; `e.withContentType f` is the exception after
the branch for `f` has assigned `self.content_type` (same status, title, templates, texts) -/
theorem rendered_has_pieces {off : List Text} {e : Exc} {environ : List (Text × Text)} {q : Text → Nat} {r : Resp}
    (h : prepare off e environ q = .ok (some r)) :
    r.form = formOf (chooseMatch q off) ∧ r.contentType = contentTypeOf r.form ∧
    r.contentTypeHeader = contentTypeHeaderOf r.form ∧
    ∃ ps, specRender r.form (e.withContentType r.form) environ = .ok ps ∧ r.body = bodyOfPieces r.form e ps := by
  rw [prepare_eq_spec] at h
  split at h
  · cases h
  · simp only [] at h
    cases hs : specRender (formOf (chooseMatch q off)) (e.withContentType (formOf (chooseMatch q off))) environ with
    | error err => rw [hs] at h; simp [Except.map] at h
    | ok ps =>
      rw [hs] at h
      simp only [Except.map, Except.ok.injEq, Option.some.injEq] at h
      subst h
      refine ⟨rfl, ?_, ?_, ps, hs, ?_⟩
      · simp only [respOf, contentTypeHeader_withContentType, mimeOfHeader_contentTypeHeaderOf]
      · simp only [respOf, contentTypeHeader_withContentType]
      · simp only [respOf, bodyOfPieces, Exc.withContentType]

/-- HTML: the body is a concatenation of pieces; every piece that renders a supplied text (explanation, detail,
comment, environ value, header value — ANY text) is exactly `htmlEscape` of it, hence contains no markup
character; so every `<`, `>`, `"`, `'` of the body lies in a piece that is a template literal, the status, the
`<br/>` or the comment delimiters — for every body template (default or custom) and page template.

Hypothesis `hplain`: none of detail / comment / explanation is a MARKUP OBJECT (a value with `__html__`).  WebOb's
`html_escape` returns `value.__html__()` verbatim by design, so for such a value nothing can be promised (see
`markup_object_is_inserted_verbatim`); that pyramid itself never puts one into the exceptions it raises on the router's
paths is the probed obligation `router_values_are_plain_str`. -/
theorem html_markup_is_template_only {off : List Text} {e : Exc} {environ : List (Text × Text)} {q : Text → Nat}
    {r : Resp} (h : prepare off e environ q = .ok (some r)) (hf : r.form = .html)
    (hplain : e.detailHtml = none ∧ e.commentHtml = none ∧ e.explanationHtml = none) :
    ∃ ps, r.body = flattenPieces ps ∧
      (∀ p ∈ ps, PieceOk .html e p) ∧
      (∀ p ∈ ps, ∀ raw, p.origin ≠ .markup raw) ∧
      (∀ p ∈ ps, ∀ raw, p.origin = .user raw →
          p.text = htmlEscape raw ∧ (∀ c ∈ p.text, isMeta c = false ∧ c.toNat < 128) ∧ entitiesOk p.text = true) ∧
      (∀ p ∈ ps, ∀ c ∈ p.text, isMeta c = true → ∀ raw, p.origin ≠ .user raw) := by
  obtain ⟨_, _, _, ps, hs, hb⟩ := rendered_has_pieces h
  rw [hf] at hs hb
  have hok := specRender_ok hs
  have huser : ∀ p ∈ ps, ∀ raw, p.origin = .user raw → p.text = htmlEscape raw := by
    intro p hp raw ho
    have := hok p hp
    simp only [PieceOk, ho] at this
    exact this
  have hnomark : ∀ p ∈ ps, ∀ raw, p.origin ≠ .markup raw := by
    obtain ⟨h1, h2, h3⟩ := hplain
    refine specRender_all (fun p => ∀ raw, p.origin ≠ .markup raw) hs ?_ ?_ ?_ ?_
    · intro o ho c raw; rcases ho with rfl | rfl <;> simp
    · intro raw; simp
    · intro kv hkv p hp raw
      simp only [specBase, Exc.withContentType, h1, h2, h3, orHtml, ite_self, valPiece, htmlCommentP, List.mem_cons,
        List.mem_nil_iff, or_false] at hkv
      rcases hkv with rfl | rfl | rfl | rfl | rfl
      · simp only [List.mem_singleton] at hp; subst hp; simp
      · simp only [List.mem_singleton] at hp; subst hp; simp [userPiece]
      · simp only [List.mem_singleton] at hp; subst hp; simp [userPiece]
      · simp only [List.mem_singleton] at hp; subst hp; simp [userPiece]
      · split at hp
        · simp at hp
        · simp only [List.mem_cons, List.mem_nil_iff, or_false] at hp
          rcases hp with rfl | rfl | rfl <;> simp [userPiece]
    · intro raw raw'; simp [userPiece]
  refine ⟨ps, by simpa [bodyOfPieces] using hb, hok, hnomark, ?_, ?_⟩
  · intro p hp raw ho
    have e1 := huser p hp raw ho
    refine ⟨e1, ?_, ?_⟩
    · intro c hc
      rw [e1] at hc
      have := (escape_no_meta raw).1 c hc
      exact ⟨this.2, this.1⟩
    · rw [e1]; exact (escape_no_meta raw).2
  · intro p hp c hc hm raw ho
    have e1 := huser p hp raw ho
    rw [e1] at hc
    have := ((escape_no_meta raw).1 c hc).2
    rw [this] at hm
    cases hm

/-- why `hplain` is needed: a detail that is a markup object (text `x`, `__html__()` = `<b>`) puts `<b>` into the HTML
body unescaped — WebOb's `html_escape` honours `__html__` by design; JSON and plain text show `str(value)` -/
theorem markup_object_is_inserted_verbatim :
    let e : Exc := { status := ['4', '0', '4'], title := ['N'], explanation := [], detail := some ['x'], comment := none,
                     bodyTmpl := ['$', '{', 'd', 'e', 't', 'a', 'i', 'l', '}'], custom := true,
                     htmlTmpl := ['$', '{', 'b', 'o', 'd', 'y', '}'], plainTmpl := ['$', '{', 'b', 'o', 'd', 'y', '}'],
                     emptyBody := false, hasBody := false, headers := [], detailHtml := some ['<', 'b', '>'] }
    (prepare offeredForms e [] (fun m => if m = mimeHtml then 1000 else 0)).toOption.join.map (·.body) = some ['<', 'b', '>'] ∧
    (prepare offeredForms e [] (fun m => if m = mimePlain then 1000 else 0)).toOption.join.map (·.body) = some ['x'] := by
  decide +kernel

/-- JSON: the body is read by the JSON reader as an object with exactly the members message, code, title; the
message is the body template with every supplied text inserted VERBATIM (no escaping, no expansion). -/
theorem json_valid_and_verbatim {off : List Text} {e : Exc} {environ : List (Text × Text)} {q : Text → Nat}
    {r : Resp} (h : prepare off e environ q = .ok (some r)) (hf : r.form = .json) :
    ∃ ps, readJsonObject r.body = some [(keyMessage, flattenPieces ps), (keyCode, e.status), (keyTitle, e.title)] ∧
      (∀ p ∈ ps, PieceOk .json e p) ∧ (∀ p ∈ ps, ∀ raw, p.origin = .user raw → p.text = raw) := by
  obtain ⟨_, _, _, ps, hs, hb⟩ := rendered_has_pieces h
  rw [hf] at hs hb
  have hok := specRender_ok hs
  refine ⟨ps, ?_, hok, ?_⟩
  · rw [hb]; simp only [bodyOfPieces]; exact readJsonObject_jsonBody _ _ _
  · intro p hp raw ho
    have := hok p hp
    simp only [PieceOk, ho] at this
    exact this

/-- the JSON string codec on its own: the reader inverts the encoder for every text -/
theorem json_string_round_trip (t rest : Text) : readJsonString (jsonStr t ++ rest) = some (t, rest) :=
  readJsonString_jsonStr t rest

/-- plain text: supplied texts verbatim, `br` is a newline, the comment has no delimiters -/
theorem plain_verbatim {off : List Text} {e : Exc} {environ : List (Text × Text)} {q : Text → Nat}
    {r : Resp} (h : prepare off e environ q = .ok (some r)) (hf : r.form = .plain) :
    ∃ ps, r.body = flattenPieces ps ∧ (∀ p ∈ ps, PieceOk .plain e p) ∧
      (∀ p ∈ ps, ∀ raw, p.origin = .user raw → p.text = raw) ∧
      (∀ p ∈ ps, p.origin ≠ .commentOpen ∧ p.origin ≠ .commentClose) := by
  obtain ⟨_, _, _, ps, hs, hb⟩ := rendered_has_pieces h
  rw [hf] at hs hb
  have hok := specRender_ok hs
  refine ⟨ps, by simpa [bodyOfPieces] using hb, hok, ?_, ?_⟩
  · intro p hp raw ho
    have := hok p hp
    simp only [PieceOk, ho] at this
    exact this
  · -- comment delimiters only exist in the HTML form
    refine specRender_all (fun p => p.origin ≠ .commentOpen ∧ p.origin ≠ .commentClose) hs ?_ ?_ ?_ ?_
    · intro o ho c; rcases ho with rfl | rfl <;> simp
    · simp
    · intro kv hkv p hp
      simp only [specBase, valPiece, htmlCommentP, List.mem_cons, List.mem_nil_iff, or_false] at hkv
      rcases hkv with rfl | rfl | rfl | rfl | rfl
      · simp only [List.mem_singleton] at hp; subst hp; simp
      · simp only [List.mem_singleton] at hp; subst hp; simp [userPiece]
      · simp only [List.mem_singleton] at hp; subst hp; simp [userPiece]
      · simp only [List.mem_singleton] at hp; subst hp; simp [userPiece]
      · split at hp
        · simp at hp
        · simp only [List.mem_singleton] at hp; subst hp; simp [userPiece]
    · intro raw; simp [userPiece]

/-- The content type names the form the body has, and the form is the one negotiated — WHATEVER Content-Type the
caller had put on the exception before (`e.headers` is arbitrary: `content_type=` / `charset=` keyword, a Content-Type
entry in `headers=`, `exc.content_type = …`, several entries, none): the branch that renders a form assigns that
form's content type, and the header read back afterwards is exactly `text/html; charset=UTF-8`, `application/json` or
`text/plain; charset=UTF-8`. -/
theorem content_type_matches_form {off : List Text} {e : Exc} {environ : List (Text × Text)} {q : Text → Nat}
    {r : Resp} (h : prepare off e environ q = .ok (some r)) :
    r.form = formOf (chooseMatch q off) ∧ r.contentType = contentTypeOf r.form ∧
    r.contentTypeHeader = contentTypeHeaderOf r.form ∧
    (r.contentType = mimeHtml ↔ r.form = .html) ∧ (r.contentType = mimeJson ↔ r.form = .json) ∧
    (r.contentType = mimePlain ↔ r.form = .plain) := by
  obtain ⟨h1, h2, h3, _⟩ := rendered_has_pieces h
  refine ⟨h1, h2, h3, ?_, ?_, ?_⟩ <;> rw [h2] <;> cases r.form <;> simp [contentTypeOf] <;> decide

/-- the same, spelled out for a caller-chosen initial content type: prepend / append any Content-Type entry (any
spelling of the header name, any value) to the exception's headers — the rendered response's content type does not
depend on it -/
theorem content_type_overrides_callers {off : List Text} {e : Exc} {environ : List (Text × Text)} {q : Text → Nat}
    (name initial : Text) {r : Resp}
    (h : prepare off { e with headers := (name, initial) :: e.headers ++ [(name, initial)] } environ q = .ok (some r)) :
    r.contentType = contentTypeOf (formOf (chooseMatch q off)) ∧
    r.contentTypeHeader = contentTypeHeaderOf (formOf (chooseMatch q off)) := by
  obtain ⟨h1, h2, h3, _⟩ := content_type_matches_form h
  rw [h2, h3, h1]
  exact ⟨rfl, rfl⟩

/-- a response that already has a body, or whose class has `empty_body`, is left alone; every other is rendered
or raises -/
theorem untouched_iff (off : List Text) (e : Exc) (environ : List (Text × Text)) (q : Text → Nat) :
    prepare off e environ q = .ok none ↔ (e.hasBody = true ∨ e.emptyBody = true) := by
  rw [prepare_eq_spec]
  constructor
  · intro h
    split at h
    · rename_i hc; simpa using hc
    · simp only [] at h
      cases hs : specRender (formOf (chooseMatch q off)) (e.withContentType (formOf (chooseMatch q off))) environ <;>
        rw [hs] at h <;> simp [Except.map] at h
  · intro h
    have : (e.hasBody || e.emptyBody) = true := by simpa using h
    simp [this]

/-! ## 4. negotiation -/

/-- With all three forms offered to `acceptable_offers` (`offeredForms`; that the code behaves so is the probed
obligation `probes_match_model_D`: 286 Accept headers), the chosen form is the best acceptable of HTML, JSON and
plain text: a form of maximal q (ties: html before json before plain), plain text when none is acceptable.
False for the pre-fix source, which did not offer text/plain (F-C19a). -/
theorem best_acceptable {e : Exc} {environ : List (Text × Text)} {q : Text → Nat} {r : Resp}
    (h : prepare offeredForms e environ q = .ok (some r)) :
    r.form = bestForm q ∧
    (q mimeHtml = 0 ∧ q mimeJson = 0 ∧ q mimePlain = 0 → r.form = .plain) ∧
    (¬ (q mimeHtml = 0 ∧ q mimeJson = 0 ∧ q mimePlain = 0) →
      q r.contentType ≠ 0 ∧ ∀ f, q (contentTypeOf f) ≤ q r.contentType) := by
  obtain ⟨h1, h2, _, _⟩ := rendered_has_pieces h
  have ho : offeredForms = [mimeHtml, mimeJson, mimePlain] := by decide
  rw [ho, chooseMatch_three] at h1
  have hm := bestForm_max q
  rw [h2, h1]
  exact ⟨rfl, hm.1, hm.2⟩

/-- the pre-fix offer list at the recorded witness `Accept: text/plain, text/html;q=0.5`: HTML is chosen although
plain text has the larger q -/
theorem best_acceptable_needs_plain_offered :
    let q : Text → Nat := fun m => if m = mimePlain then 1000 else if m = mimeHtml then 500 else 0
    formOf (chooseMatch q [mimeHtml, mimeJson]) = .html ∧ bestForm q = .plain := by decide

/-! ## 5. obligations on the generated tables (decided over the whole table)

The tables are obtained by RUNNING the code of the tree under test (extract/c19.py), not by reading its syntax. -/

/-- every probe could be carried out and every class attribute has the expected type -/
theorem translator_recognised_source : Pyr.Gen.C19.translatorOk = true ∧ Pyr.Gen.C19.problems = [] := by decide

/-- there is one `prepare` / `__call__` for all classes (so probing it through some classes speaks for all) -/
theorem prepare_is_shared : Pyr.Gen.C19.prepareShared = true := by decide

/-- the model run on the input of a probe, in the vocabulary of the observations -/
def runProbe (p : Pyr.Gen.C19.RenderProbe) : Pyr.Gen.C19.Observed :=
  let e0 := p.cls.toExc p.detail p.comment p.headers
  let e1 : Exc := { e0 with hasBody := p.hasBody, explanation := p.explanation.getD e0.explanation,
                            detailHtml := p.detailHtml, commentHtml := p.commentHtml, explanationHtml := p.explanationHtml }
  let e : Exc := match p.bodyTemplate with
    | some t => { e1 with bodyTmpl := t, custom := true }
    | none => e1
  let q : Text → Nat := fun m =>
    if m = mimeHtml then p.qh else if m = mimeJson then p.qj else if m = mimePlain then p.qp else 0
  match prepare offeredForms e p.environ q with
  | .ok none => .untouched
  | .ok (some r) => .ok r.contentType r.contentTypeHeader r.body
  | .error (.key n) => .errKey n
  | .error .invalid => .errInvalid

def probeAgrees (p : Pyr.Gen.C19.RenderProbe) : Bool := decide (runProbe p = p.observed)

/-- every module class x {html, json, plain} with hostile sentinels in detail, comment, Location and REQUEST_METHOD:
the real rendering is the model's (content type, every character of the body) — html form -/
theorem probes_match_model_A : Pyr.Gen.C19.probesA.all (·.all probeAgrees) = true := by decide +kernel

/-- the same for the JSON and plain-text forms -/
theorem probes_match_model_B : Pyr.Gen.C19.probesB.all (·.all probeAgrees) = true := by decide +kernel

/-- the escape each substitution variable receives (explanation, detail, comment, html_comment, br, an environ value,
a header value; one per render) in each form, over all 128 ASCII characters, every metacharacter alone, `$`-syntax,
character references and non-ASCII texts: what the real code wrote is `escapeOf` / `htmlCommentOf` / `brOf` of the
model -/
theorem probes_match_model_C : Pyr.Gen.C19.probesC.all (·.all probeAgrees) = true := by decide +kernel

/-- negotiation (286 Accept headers: q(html), q(json), q(plain) ∈ {absent, 0, 0.3, 0.5, 1}³ in both orders, wildcards,
single ranges with parameters, malformed, absent), the `has_body` / `empty_body` guard, custom templates (override
order base < environ < headers, header names lower-cased, default template ignores the extras, page template per
form, `$`-syntax in values at both levels, KeyError / ValueError), the WSGI call, the Router's own 404 -/
theorem probes_match_model_D : Pyr.Gen.C19.probesD.all (·.all probeAgrees) = true := by decide +kernel

/-- the caller-visible constructor surface that survives into `prepare` (152 probes: `content_type=` each of the three
forms' types / image/png / application/xml / with a charset / upper case, `charset=`, a Content-Type entry in
`headers=` (also two of them), `exc.content_type = …`, `exc.charset = …`, `del exc.content_type`, `body=` / `text=` /
`app_iter=` / `json_body=` given (then nothing may be touched), `exception_response(code, content_type=…)`, detail and
comment assigned after construction; × Accept html / json / plain / `*/*`; HTTPBadRequest, HTTPNotFound, HTTPFound):
content type, the whole Content-Type header and the body are the model's -/
theorem probes_match_model_E : Pyr.Gen.C19.probesE.all (·.all probeAgrees) = true := by decide +kernel

/-- the router's own paths (not found, forbidden through a refusing policy, predicate mismatch of a view and of a
multiview, a matched route without view, CSRF origin failure, append-slash redirect) with all debug settings off and all
on, benign and hostile requests (markup, `&`, quotes, non-ASCII, `$`-syntax in path, query string, Host, Origin; a context
whose `repr` shows the path segment), in all three forms: the page is what the model renders from the exception pyramid
built (its detail / comment / headers as found on the response object before it was called) -/
theorem probes_match_model_F : Pyr.Gen.C19.probesF.all (·.all probeAgrees) = true := by decide +kernel

/-- THE VALUES PYRAMID ITSELF PUTS INTO EXCEPTIONS ARE PLAIN `str`: on every router path above, for every combination of
`debug_notfound`, `debug_authorization`, `debug_routematch` and the append-slash not-found view, for benign and hostile
requests, `detail`, `comment`, `message`, `explanation` and every header value of the exception are `None` or exactly
`str` and have no `__html__` — so `hplain` of `html_markup_is_template_only` holds for them; and the table covers the
whole cube. -/
theorem router_values_are_plain_str :
    (Pyr.Gen.C19.routerValues.all fun v => v.plainStr && !v.hasHtml) = true ∧
    ([false, true].all fun dn => [false, true].all fun da => [false, true].all fun dr => [false, true].all fun sl =>
      (List.range Pyr.Gen.C19.routerKinds.length).all fun k => [0, 1].all fun var => [0, 1, 2, 3].all fun a =>
        (k == 6 && !sl) ||
        Pyr.Gen.C19.routerValues.any fun v => v.debugNotfound == dn && v.debugAuthorization == da && v.debugRoutematch == dr &&
          v.appendSlash == sl && v.kind == k && v.variant == var && v.attr == a) = true ∧
    Pyr.Gen.C19.routerKinds.length = 7 := by decide +kernel

/-- the probe domain is the intended one: nothing was dropped, every class is probed in every form, every variable
in every form over the whole of ASCII -/
theorem probe_domain_covered :
    Pyr.Gen.C19.probesACount + Pyr.Gen.C19.probesBCount + Pyr.Gen.C19.probesCCount + Pyr.Gen.C19.probesDCount
      + Pyr.Gen.C19.probesECount + Pyr.Gen.C19.probesFCount = Pyr.Gen.C19.probeCount ∧
    (Pyr.Gen.C19.probesF.map List.length).sum = Pyr.Gen.C19.probesFCount ∧ Pyr.Gen.C19.probesFCount ≥ 100 ∧
    (Pyr.Gen.C19.probesE.map List.length).sum = Pyr.Gen.C19.probesECount ∧ Pyr.Gen.C19.probesECount ≥ 100 ∧
    (Pyr.Gen.C19.probesE.any (·.any fun p => p.hasBody)) = true ∧
    (Pyr.Gen.C19.probesA.map List.length).sum = Pyr.Gen.C19.probesACount ∧
    (Pyr.Gen.C19.probesB.map List.length).sum = Pyr.Gen.C19.probesBCount ∧
    (Pyr.Gen.C19.probesC.map List.length).sum = Pyr.Gen.C19.probesCCount ∧
    (Pyr.Gen.C19.probesD.map List.length).sum = Pyr.Gen.C19.probesDCount ∧
    (classes.all fun c =>
      (Pyr.Gen.C19.probesA.any (·.any fun p => p.cls == c && p.qh != 0)) &&
      (Pyr.Gen.C19.probesB.any (·.any fun p => p.cls == c && p.qj != 0)) &&
      (Pyr.Gen.C19.probesB.any (·.any fun p => p.cls == c && p.qp != 0))) = true ∧
    ((["ascii:explanation", "ascii:detail", "ascii:comment", "ascii:html_comment", "ascii:br", "ascii:env", "ascii:hdr"].all fun k =>
      (Pyr.Gen.C19.probesC.any (·.any fun p => p.kind == k && p.qh != 0)) &&
      (Pyr.Gen.C19.probesC.any (·.any fun p => p.kind == k && p.qj != 0)) &&
      (Pyr.Gen.C19.probesC.any (·.any fun p => p.kind == k && p.qp != 0))) = true) ∧
    (Pyr.Gen.C19.probesD.any (·.any fun p => p.kind == "neg")) = true ∧
    (Pyr.Gen.C19.probesE.any (·.any fun p => p.detailHtml.isSome)) = true ∧
    (Pyr.Gen.C19.probesD.any (·.any fun p => p.kind == "wsgi")) = true := by decide +kernel

/-- which environ values the real code stringifies while it builds the args of a custom template is the model's
filter (`envKeySkipped`), in every form; with the default template none is looked at -/
theorem env_filter_matches_model :
    (Pyr.Gen.C19.envFilterProbes.all fun (k, _, included) => included == !envKeySkipped k) = true ∧
    Pyr.Gen.C19.envFilterProbes.length ≥ 50 ∧ Pyr.Gen.C19.defaultTemplateReadsEnviron = false := by decide +kernel

/-- a class's templates: well-formed; a non-custom body template is the default one and only uses the five
standard keys; page templates only use `status` and `body` -/
def classTemplatesOk (c : ClassInfo) : Bool :=
  let stdKeys : List Text := [['b', 'r'], ['e', 'x', 'p', 'l', 'a', 'n', 'a', 't', 'i', 'o', 'n'], ['d', 'e', 't', 'a', 'i', 'l'],
    ['c', 'o', 'm', 'm', 'e', 'n', 't'], ['h', 't', 'm', 'l', '_', 'c', 'o', 'm', 'm', 'e', 'n', 't']]
  let pageKeys : List Text := [['s', 't', 'a', 't', 'u', 's'], ['b', 'o', 'd', 'y']]
  tokValid (tokenize c.bodyTmpl) &&
  (c.custom || (c.bodyTmpl == Pyr.Gen.C19.defaultBodyTmpl && (tokVars (tokenize c.bodyTmpl)).all (stdKeys.contains ·))) &&
  tokValid (tokenize c.htmlTmpl) && (tokVars (tokenize c.htmlTmpl)).all (pageKeys.contains ·) &&
  tokValid (tokenize c.plainTmpl) && (tokVars (tokenize c.plainTmpl)).all (pageKeys.contains ·)

theorem class_templates_wellformed : classes.all classTemplatesOk = true := by decide +kernel

/-- Every class of the module that uses the default body template renders for EVERY detail, comment, header list,
environ and Accept outcome: no input makes the default error pages fail with KeyError / ValueError. -/
theorem default_classes_always_render :
    ∀ c ∈ classes, c.custom = false →
      ∀ (detail comment : Option Text) (headers environ : List (Text × Text)) (q : Text → Nat),
        ∃ r, prepare offeredForms (c.toExc detail comment headers) environ q = .ok r := by
  intro c hc hcust detail comment headers environ q
  have hall := class_templates_wellformed
  rw [List.all_eq_true] at hall
  have hok := hall c hc
  simp only [classTemplatesOk, hcust, Bool.false_or, Bool.and_eq_true, List.all_eq_true, beq_iff_eq] at hok
  obtain ⟨⟨⟨⟨⟨hb1, _, hb2⟩, hh1⟩, hh2⟩, hp1⟩, hp2⟩ := hok
  rw [prepare_eq_spec]
  split
  · exact ⟨_, rfl⟩
  · simp only []
    generalize formOf (chooseMatch q offeredForms) = f
    obtain ⟨e, he⟩ : ∃ e, e = (c.toExc detail comment headers).withContentType f := ⟨_, rfl⟩
    rw [← he]
    have hbody : ∃ body, specBody f e environ = .ok body := by
      apply fillP_succeeds
      · simpa [he, ClassInfo.toExc, Exc.withContentType] using hb1
      · intro n hn
        have hn' : n ∈ tokVars (tokenize c.bodyTmpl) := by simpa [he, ClassInfo.toExc, Exc.withContentType] using hn
        have hmem := hb2 n hn'
        have hcu : e.custom = false := by simp [he, ClassInfo.toExc, Exc.withContentType, hcust]
        simp only [List.contains_eq_mem, List.mem_cons, List.mem_nil_iff, or_false, decide_eq_true_eq] at hmem
        rcases hmem with rfl | rfl | rfl | rfl | rfl <;> simp [specArgs, specBase, hcu, lookupLastP]
    obtain ⟨body, hbd⟩ := hbody
    have hpage : ∀ tmpl, tokValid (tokenize tmpl) = true →
        (∀ x ∈ tokVars (tokenize tmpl), ([['s', 't', 'a', 't', 'u', 's'], ['b', 'o', 'd', 'y']] : List Text).contains x = true) →
        ∃ ps, fillP .pageLit (pageEnvP e.status body) (tokenize tmpl) = .ok ps := by
      intro tmpl h1 h2
      apply fillP_succeeds _ _ _ h1
      intro n hn
      have := h2 n hn
      simp only [List.contains_eq_mem, List.mem_cons, List.mem_nil_iff, or_false, decide_eq_true_eq] at this
      rcases this with rfl | rfl <;> simp [pageEnvP]
    unfold specRender
    rw [hbd]
    cases f with
    | json => exact ⟨_, rfl⟩
    | html =>
      obtain ⟨ps, hps⟩ := hpage e.htmlTmpl (by simpa [he, ClassInfo.toExc, Exc.withContentType] using hh1) (by simpa [he, ClassInfo.toExc, Exc.withContentType] using hh2)
      simp only [hps, Except.map]; exact ⟨_, rfl⟩
    | plain =>
      obtain ⟨ps, hps⟩ := hpage e.plainTmpl (by simpa [he, ClassInfo.toExc, Exc.withContentType] using hp1) (by simpa [he, ClassInfo.toExc, Exc.withContentType] using hp2)
      simp only [hps, Except.map]; exact ⟨_, rfl⟩

/-! ## 6. the router's 404 page -/

/-- The 404 the router raises for an unknown path (`HTTPNotFound(request.path_info)`): for EVERY request path
and Accept outcome the page renders; in the HTML form it shows the path, as `htmlEscape path` and in no other
way — so it contains no markup character chosen by the requester: all its markup comes from the templates. -/
theorem notfound_echo_escaped :
    ∀ c ∈ classes, c.name = "HTTPNotFound" →
      ∀ (path : Text) (headers environ : List (Text × Text)) (q : Text → Nat),
        ∃ r, prepare offeredForms (c.toExc (some path) none headers) environ q = .ok (some r) ∧
          (r.form = .html →
            ∃ ps, r.body = flattenPieces ps ∧ (⟨.user path, htmlEscape path⟩ : Piece) ∈ ps ∧
              (∀ p ∈ ps, ∀ ch ∈ p.text, isMeta ch = true → ∀ raw, p.origin ≠ .user raw)) := by
  intro c hc hname path headers environ q
  have hfacts : ∀ c ∈ classes, c.name = "HTTPNotFound" →
      c.custom = false ∧ c.emptyBody = false ∧
      (['d', 'e', 't', 'a', 'i', 'l'] : Text) ∈ tokVars (tokenize c.bodyTmpl) ∧
      (['b', 'o', 'd', 'y'] : Text) ∈ tokVars (tokenize c.htmlTmpl) := by decide +kernel
  obtain ⟨hcust, hempty, hdet, hbody⟩ := hfacts c hc hname
  obtain ⟨r0, hr0⟩ := default_classes_always_render c hc hcust (some path) none headers environ q
  have hnone : r0 ≠ none := by
    intro h0
    rw [h0] at hr0
    have := (untouched_iff _ _ _ _).1 hr0
    simp [ClassInfo.toExc, hempty] at this
  cases r0 with
  | none => exact absurd rfl hnone
  | some r =>
    refine ⟨r, hr0, fun hf => ?_⟩
    obtain ⟨ps, hb, _, _, _, hmeta⟩ := html_markup_is_template_only hr0 hf ⟨rfl, rfl, rfl⟩
    obtain ⟨_, _, _, ps', hs, hb'⟩ := rendered_has_pieces hr0
    rw [hf] at hs hb'
    refine ⟨ps', by simpa [bodyOfPieces] using hb', ?_, ?_⟩
    · -- the detail piece is in the body pieces, the body pieces are in the page pieces
      unfold specRender at hs
      cases hbd : specBody .html ((c.toExc (some path) none headers).withContentType .html) environ with
      | error err => rw [hbd] at hs; simp at hs
      | ok body =>
        rw [hbd] at hs
        simp only [] at hs
        have hcu : (c.toExc (some path) none headers).custom = false := by simp [ClassInfo.toExc, hcust]
        have h1 : (⟨.user path, htmlEscape path⟩ : Piece) ∈ body := by
          refine fillP_contains .bodyLit _ _ body hbd ['d', 'e', 't', 'a', 'i', 'l'] (by simpa [ClassInfo.toExc, Exc.withContentType] using hdet)
            [userPiece .html path] ?_ _ (by simp [userPiece, escapeOf])
          simp [specArgs, specBase, valPiece, orHtml, hcust, lookupLastP, ClassInfo.toExc, Exc.withContentType, orEmpty]
        exact fillP_contains .pageLit _ _ ps' hs ['b', 'o', 'd', 'y'] (by simpa [ClassInfo.toExc, Exc.withContentType] using hbody) body
          (by simp [pageEnvP]) _ h1
    · -- the pieces are determined by the rendering
      intro p hp ch hch hme raw ho
      have hok := specRender_ok hs p hp
      simp only [PieceOk, ho] at hok
      rw [hok] at hch
      have := ((escape_no_meta raw).1 ch hch).2
      rw [this] at hme
      cases hme

/-! ## 7. non-vacuity: concrete exceptions for which the hypotheses hold -/

/-- a small exception object with the default templates of the source -/
def demoExc (detail comment : Option Text) : Exc :=
  { status := ['4', '0', '4', ' ', 'N', 'F'], title := ['N', 'F'], explanation := ['g', 'o', 'n', 'e', '&'],
    detail := detail, comment := comment, bodyTmpl := Pyr.Gen.C19.defaultBodyTmpl, custom := false,
    htmlTmpl := Pyr.Gen.C19.defaultHtmlTmpl, plainTmpl := Pyr.Gen.C19.defaultPlainTmpl, emptyBody := false,
    hasBody := false, headers := [] }

def qOnly (m : Text) : Text → Nat := fun x => if x = m then 1000 else 0

def formReached (r : Except Err (Option Resp)) : Option Form := r.toOption.join.map (·.form)

/-- HTML form is reached, with a hostile detail and comment -/
example : formReached (prepare offeredForms (demoExc (some ['<', 'b', '>', '$', '{', 'b', 'r', '}']) (some ['-', '-', '>'])) []
    (qOnly mimeHtml)) = some .html := by decide +kernel

/-- JSON form is reached -/
example : formReached (prepare offeredForms (demoExc (some ['"', '\\', '<']) none) [] (qOnly mimeJson)) = some .json := by
  decide +kernel

/-- plain form is reached: when only text/plain is acceptable, and when nothing is -/
example : formReached (prepare offeredForms (demoExc (some ['<']) none) [] (qOnly mimePlain)) = some .plain ∧
    formReached (prepare offeredForms (demoExc (some ['<']) none) [] (fun _ => 0)) = some .plain := by decide +kernel

/-- both substitution levels at a concrete input: custom body template `${detail}|$$|$detail`, page template
`<p>${body}</p>`, detail `<$$${x}`: the detail is escaped, its `$$` and `${x}` are not touched by either pass -/
example : (prepare offeredForms
      { demoExc (some ['<', '$', '$', '$', '{', 'x', '}']) none with
        bodyTmpl := ['$', '{', 'd', 'e', 't', 'a', 'i', 'l', '}', '|', '$', '$', '|', '$', 'd', 'e', 't', 'a', 'i', 'l'],
        custom := true, htmlTmpl := ['<', 'p', '>', '$', '{', 'b', 'o', 'd', 'y', '}', '<', '/', 'p', '>'] }
      [] (qOnly mimeHtml)).toOption.join.map (·.body) =
    some ['<', 'p', '>', '&', 'l', 't', ';', '$', '$', '$', '{', 'x', '}', '|', '$', '|',
          '&', 'l', 't', ';', '$', '$', '$', '{', 'x', '}', '<', '/', 'p', '>'] := by decide +kernel

/-- the class table contains HTTPNotFound and classes with default and with custom templates -/
example : (classes.any fun c => c.name == "HTTPNotFound") = true ∧ (classes.any fun c => c.custom) = true ∧
    (classes.any fun c => !c.custom) = true ∧ classes.length ≥ 50 := by decide +kernel

end Pyr.HttpExc
