import PyramidModel.Lemmas.Traversal
/-!
# C02 — traversal resolves context, view name, subpath and `traversed` as documented

Property theorems only (model: `Traversal.lean`; spec and helper lemmas: `Lemmas/Traversal.lean`).
All statements quantify over every tree, every path text, every virtual-root text, every match dictionary.

Reading guide
* §1 path normalisation: `split_path_info` = "drop `''` and `'.'`, let `'..'` drop the previous segment, never
  climb above the root", stated as the four rewrite laws that determine the function (`norm_unique`).
* §2 what the spec means: `specOutcome` is "context = deepest resource reached, view name = first segment
  that could not be looked up, subpath = the rest, traversed = the consumed segments, virtual root = the resource
  at the virtual-root path" — each clause proved from the definition of `Walkable`, not from the loop.
* §3 the traverser against the spec: equal without a virtual root (`traverser_no_vroot`); with one, equal in
  context / view name / subpath / virtual root whenever the two paths normalise independently, and equal in
  `traversed` exactly when the walk exhausts the path or the virtual root is `/` (`…_partial`); the three
  recorded defects are proved to be real at concrete points (`by decide`).
-/
namespace Pyr.Trav

/-! ## 1. normalisation -/

/-- Output segments are never `''`, `'.'`, `'..'` and never contain a slash. -/
theorem split_clean (p : Text) (s : Seg) (h : s ∈ splitPathInfo p) :
    s ≠ [] ∧ s ≠ ['.'] ∧ s ≠ ['.', '.'] ∧ '/' ∉ s := by
  rw [splitPathInfo_eq] at h
  obtain ⟨⟨h1, h2, h3⟩, h4⟩ := normSegs_clean_out _ s h
  exact ⟨h1, h2, h3, mem_splitOn_no_sep '/' p s h4⟩

/-- `split_path_info` is the segment-level normalisation of `path.split('/')`; the `strip('/')` of the code is
immaterial. -/
theorem split_is_norm_of_segments (p : Text) : splitPathInfo p = normSegs (splitOn '/' p) :=
  splitPathInfo_eq p

/-- Law 1: empty and `'.'` segments are dropped, wherever they stand. -/
theorem norm_drops_empty_and_dot (xs ys : List Seg) (s : Seg) (h : s = [] ∨ s = ['.']) :
    normSegs (xs ++ s :: ys) = normSegs (xs ++ ys) := by
  simp only [normSegs, List.foldl_append, List.foldl_cons, normStep_skip _ s h]

/-- Law 2: `'..'` drops the previous (proper) segment. -/
theorem norm_dotdot_drops_previous (xs ys : List Seg) (s : Seg) (h : Clean s) :
    normSegs (xs ++ s :: dd :: ys) = normSegs (xs ++ ys) := by
  simp only [normSegs, List.foldl_append, List.foldl_cons, normStep_clean _ s h, normStep_dd, List.tail_cons]

/-- Law 3: `'..'` never climbs above the root: where nothing is left to drop it is ignored. -/
theorem norm_dotdot_never_above_root (xs ys : List Seg) (h : normSegs xs = []) :
    normSegs (xs ++ dd :: ys) = normSegs ys := by
  have h' : xs.foldl normStep [] = [] := by simpa [normSegs] using h
  simp only [normSegs, List.foldl_append, List.foldl_cons, h', normStep_dd, List.tail_nil]

/-- Law 4: a list of proper segments is left alone. -/
theorem norm_keeps_proper_segments (segs : List Seg) (h : ∀ s ∈ segs, Clean s) : normSegs segs = segs :=
  normSegs_of_clean segs h

/-- The four laws determine the function: anything that satisfies them *is* `normSegs`.  (So the stack machine
of `split_path_info` is the only implementation of the documented normalisation.) -/
theorem norm_unique (f : List Seg → List Seg)
    (law1 : ∀ xs ys s, (s = [] ∨ s = ['.']) → f (xs ++ s :: ys) = f (xs ++ ys))
    (law2 : ∀ xs ys s, Clean s → f (xs ++ s :: dd :: ys) = f (xs ++ ys))
    (law3 : ∀ ys, f (dd :: ys) = f ys)
    (law4 : ∀ segs, (∀ s ∈ segs, Clean s) → f segs = segs) :
    ∀ segs, f segs = normSegs segs := by
  -- induction on the length, peeling the first segment that is not proper
  suffices H : ∀ n (pre segs : List Seg), segs.length ≤ n → (∀ s ∈ pre, Clean s) →
      f (pre ++ segs) = normSegs (pre ++ segs) from fun segs => by simpa using H segs.length [] segs (Nat.le_refl _) (by simp)
  intro n
  induction n with
  | zero =>
    intro pre segs hl hpre
    have : segs = [] := List.length_eq_zero_iff.mp (by omega)
    subst this
    simp only [List.append_nil]
    rw [law4 pre hpre, normSegs_of_clean pre hpre]
  | succ n ih =>
    -- inner induction over `segs`, moving proper segments into `pre`
    intro pre segs
    induction segs generalizing pre with
    | nil =>
      intro _ hpre
      simp only [List.append_nil]
      rw [law4 pre hpre, normSegs_of_clean pre hpre]
    | cons s rest ihs =>
      intro hl hpre
      by_cases h1 : s = [] ∨ s = ['.']
      · rw [law1 pre rest s h1, norm_drops_empty_and_dot pre rest s h1]
        exact ih pre rest (by simp at hl; omega) hpre
      · by_cases h2 : s = dd
        · subst h2
          -- `pre` is empty or ends in a proper segment
          rcases List.eq_nil_or_concat pre with hp | ⟨pre', x, hp⟩
          · subst hp
            simp only [List.nil_append]
            have h3 := norm_dotdot_never_above_root [] rest (by simp [normSegs])
            simp only [List.nil_append] at h3
            rw [law3, h3]
            simpa using ih [] rest (by simp at hl; omega) (by simp)
          · subst hp
            rw [List.concat_eq_append] at hpre ⊢
            have hx : Clean x := hpre x (by simp)
            have e : pre' ++ [x] ++ dd :: rest = pre' ++ x :: dd :: rest := by simp
            rw [e, law2 pre' rest x hx, norm_dotdot_drops_previous pre' rest x hx]
            exact ih pre' rest (by simp at hl; omega) (fun s hs => hpre s (by simp [hs]))
        · have hc : Clean s := ⟨fun e => h1 (.inl e), fun e => h1 (.inr e), h2⟩
          have e : pre ++ s :: rest = (pre ++ [s]) ++ rest := by simp
          rw [e]
          exact ihs (pre ++ [s]) (by simp at hl ⊢; omega)
            (fun t ht => by
              rcases List.mem_append.mp ht with m | m
              · exact hpre t m
              · simp at m; exact m ▸ hc)

/-- `normSegs` itself satisfies law 3 in the form used by `norm_unique` (non-vacuity of its hypotheses). -/
example : ∀ ys, normSegs (dd :: ys) = normSegs ys :=
  fun ys => by simpa using norm_dotdot_never_above_root [] ys (by simp [normSegs])

/-- Joining proper, slash-free segments and splitting again gives them back — with or without the leading
slash, with or without a trailing one. -/
theorem split_join_roundtrip (segs : List Seg) (h : ∀ s ∈ segs, Clean s ∧ '/' ∉ s) :
    splitPathInfo ('/' :: joinWith '/' segs) = segs ∧ splitPathInfo (joinWith '/' segs) = segs ∧
      splitPathInfo ('/' :: joinWith '/' segs ++ ['/']) = segs := by
  have hc : ∀ s ∈ segs, Clean s := fun s hs => (h s hs).1
  cases segs with
  | nil => simp only [joinWith]; decide
  | cons x xs =>
    have hs := splitOn_joinWith '/' (x :: xs) (by simp) (fun s hs => (h s hs).2)
    refine ⟨?_, ?_, ?_⟩
    · rw [splitPathInfo_eq, splitOn_cons_sep, hs]
      have := norm_drops_empty_and_dot [] (x :: xs) [] (.inl rfl)
      simp only [List.nil_append] at this
      rw [this, normSegs_of_clean _ hc]
    · rw [splitPathInfo_eq, hs, normSegs_of_clean _ hc]
    · rw [splitPathInfo_eq, List.cons_append, splitOn_cons_sep]
      have e : joinWith '/' (x :: xs) ++ ['/'] = joinWith '/' (x :: xs) ++ '/' :: [] := rfl
      rw [e, splitOn_append_sep, hs]
      have h1 := norm_drops_empty_and_dot [] (x :: xs ++ splitOn '/' []) [] (.inl rfl)
      simp only [List.nil_append] at h1
      rw [h1]
      have h2 := norm_drops_empty_and_dot (x :: xs) [] [] (.inl rfl)
      simp only [splitOn]
      rw [h2, List.append_nil, normSegs_of_clean _ hc]

/-- Normalisation is idempotent at the level of path strings. -/
theorem split_idempotent (p : Text) : splitPathInfo ('/' :: joinWith '/' (splitPathInfo p)) = splitPathInfo p :=
  (split_join_roundtrip (splitPathInfo p) (fun s hs => by
    obtain ⟨h1, h2, h3, h4⟩ := split_clean p s hs
    exact ⟨⟨h1, h2, h3⟩, h4⟩)).1

/-- Sufficient condition for "prepending the virtual root's path" to mean what it says: when the request path
starts with a slash and its `..` segments never climb out of it, the combined string normalises to the virtual
root's segments followed by the request's segments. -/
theorem split_vroot_append (v p : Text) (hclimb : noClimbFrom 0 (splitOn '/' p) = true) :
    splitPathInfo (v ++ '/' :: p) = splitPathInfo v ++ splitPathInfo ('/' :: p) := by
  rw [splitPathInfo_eq, splitPathInfo_eq, splitPathInfo_eq, splitOn_append_sep, splitOn_cons_sep]
  rw [normSegs_append_noClimb _ _ hclimb]
  have := norm_drops_empty_and_dot [] (splitOn '/' p) [] (.inl rfl)
  simp only [List.nil_append] at this
  rw [this]

example : noClimbFrom 0 (splitOn '/' "b/../c/./x".toList) = true := by decide

/-! ## 2. what the spec says, clause by clause -/

/-- The context is the deepest resource reached: its position is a walkable prefix of the normalised path,
it names a resource of the tree, and no longer prefix can be walked by item lookup. -/
theorem spec_context_is_deepest (root : Tree) (vt pt sub0 : List Seg) :
    let r := specOutcome root vt pt sub0
    r.context <+: vt ++ pt ∧ Walkable root r.context = true ∧ (root.resolve r.context).isSome = true ∧
      ∀ p, p <+: vt ++ pt → Walkable root p = true → p.length ≤ r.context.length := by
  have hk := deepest_le root (vt ++ pt)
  have hw := walkable_take_deepest root (vt ++ pt)
  have hctx : (specOutcome root vt pt sub0).context = (vt ++ pt).take (deepest root (vt ++ pt)) := by
    simp only [specOutcome]
    split
    · rename_i h
      have : (vt ++ pt).length ≤ deepest root (vt ++ pt) := by simpa using h
      simp [List.take_of_length_le this]
    · rfl
  simp only [hctx]
  refine ⟨List.take_prefix _ _, hw, resolve_of_walkable _ _ hw, ?_⟩
  intro p hp hwp
  obtain ⟨q, hq⟩ := hp
  have hpl : p.length ≤ (vt ++ pt).length := by rw [← hq]; simp
  have : (vt ++ pt).take p.length = p := by rw [← hq]; simp
  have := deepest_max root (vt ++ pt) p.length hpl (by rw [this]; exact hwp)
  rw [List.length_take]; omega

/-- View name, subpath and `traversed` partition the path: either everything was consumed (empty view name, the
match dictionary's subpath), or `traversed ++ [segment] ++ subpath` is the path, the view name is that segment
(without `@@` for a selector) and the segment really could not be looked up from the context. -/
theorem spec_partition (root : Tree) (vt pt sub0 : List Seg) :
    let r := specOutcome root vt pt sub0
    r.traversed = r.context ∧
      ((r.viewName = [] ∧ r.traversed = vt ++ pt ∧ r.subpath = sub0) ∨
       (∃ s, r.traversed ++ s :: r.subpath = vt ++ pt ∧ r.viewName = viewNameOf s ∧
          Walkable root (r.traversed ++ [s]) = false)) := by
  simp only [specOutcome]
  split
  · exact ⟨rfl, .inl ⟨rfl, rfl, rfl⟩⟩
  · rename_i s rest h
    refine ⟨rfl, .inr ⟨s, ?_, rfl, ?_⟩⟩
    · have := List.take_append_drop (deepest root (vt ++ pt)) (vt ++ pt)
      simpa [h] using this
    · -- a longer walkable prefix would contradict maximality
      cases hw : Walkable root (List.take (deepest root (vt ++ pt)) (vt ++ pt) ++ [s]) with
      | false => rfl
      | true =>
        exfalso
        have hlt : deepest root (vt ++ pt) < (vt ++ pt).length := by
          have := congrArg List.length h
          rw [List.length_drop, List.length_cons] at this; omega
        have e : (vt ++ pt).take (deepest root (vt ++ pt) + 1) = (vt ++ pt).take (deepest root (vt ++ pt)) ++ [s] := by
          have h0 : (vt ++ pt)[deepest root (vt ++ pt)]'hlt = s := by
            have := List.getElem_cons_drop hlt
            rw [h] at this
            exact (List.cons.inj this).1
          rw [List.take_succ_eq_append_getElem hlt, h0]
        have := deepest_max root (vt ++ pt) (deepest root (vt ++ pt) + 1) (by omega) (by rw [e]; exact hw)
        omega

/-- The virtual root path is the normalised header; the virtual root is the resource at that path when the walk
gets that far, and the root otherwise. -/
theorem spec_virtual_root (root : Tree) (vt pt sub0 : List Seg) :
    let r := specOutcome root vt pt sub0
    r.virtualRootPath = vt ∧ (Walkable root vt = true → r.virtualRoot = vt) ∧
      (Walkable root vt = false → r.virtualRoot = []) := by
  have hw := walkable_take_deepest root (vt ++ pt)
  have key : vt.length ≤ deepest root (vt ++ pt) ↔ Walkable root vt = true := by
    constructor
    · intro h
      have e : (vt ++ pt).take (deepest root (vt ++ pt)) = vt ++ pt.take (deepest root (vt ++ pt) - vt.length) := by
        rw [List.take_append]; simp [List.take_of_length_le h]
      rw [e] at hw
      exact walkable_prefix root vt _ hw
    · intro h
      exact deepest_max root (vt ++ pt) vt.length (by simp) (by simpa using h)
  simp only [specOutcome]
  split
  · exact ⟨rfl, fun _ => rfl, fun h => by
      rename_i hd
      have : (vt ++ pt).length ≤ deepest root (vt ++ pt) := by simpa using hd
      have : vt.length ≤ deepest root (vt ++ pt) := by simp at this; omega
      rw [key.mp this] at h; cases h⟩
  · refine ⟨rfl, fun h => by simp [key.mpr h], fun h => ?_⟩
    have : ¬ vt.length ≤ deepest root (vt ++ pt) := fun hh => by rw [key.mp hh] at h; cases h
    simp [this]

/-! ## 3. the traverser against the spec -/

/-- Without a virtual-root header the traverser's result is exactly the spec's — context, view name, subpath,
traversed, virtual root (= root) — for every tree, path and match dictionary.  FULL. -/
theorem traverseText_no_vroot (root : Tree) (path : Text) (sub0 : List Seg) :
    traverseText root none path sub0 = specText root none path sub0 := by
  simp only [traverseText, specText, vpath_shortcut, walk_outcome, specOutcome, List.nil_append]
  have hk := deepest_le root (splitPathInfo path)
  cases h : (splitPathInfo path).drop (deepest root (splitPathInfo path)) with
  | nil =>
    have : (splitPathInfo path).length ≤ deepest root (splitPathInfo path) := by simpa using h
    simp [List.take_of_length_le this]
  | cons s rest =>
    have e : (splitPathInfo path).drop (deepest root (splitPathInfo path) + 1) = rest := by
      rw [← List.drop_drop, h]; rfl
    simp [e]

theorem traverser_no_vroot (root : Tree) (rq : Req) (h : rq.vroot = none) :
    traverser root rq = specTraverser root rq := by
  simp only [traverser, specTraverser, h]
  cases requestPath rq with
  | error e => rfl
  | ok ps => simp [traverseText_no_vroot]

/-- With a virtual-root header, provided the combined string normalises to "virtual-root segments, then request
segments" (`split_vroot_append` gives a sufficient condition), the traverser's result is the spec's in every
field but `traversed`, and `traversed` is the spec's consumed prefix *plus* `len(virtual_root_path)` further
segments when the walk stops early.  PARTIAL: the full statement (`traversed` = the consumed segments) fails for
an early stop under a non-empty virtual root (F-C02a, `traversed_vroot_counterexample`), and the hypothesis
fails when `..` climbs into the virtual root (F-C02b) or the two strings are glued (F-C02c). -/
theorem traverseText_vroot_partial (root : Tree) (v path : Text) (sub0 : List Seg)
    (hsplit : splitPathInfo (v ++ path) = splitPathInfo v ++ splitPathInfo path) :
    let e := specText root (some v) path sub0
    let segs := splitPathInfo v ++ splitPathInfo path
    traverseText root (some v) path sub0 =
      { e with traversed :=
          if deepest root segs = segs.length then e.traversed
          else segs.take ((splitPathInfo v).length + deepest root segs) } := by
  simp only [traverseText, vpath_shortcut]
  simp only [specText, walk_outcome, specOutcome, hsplit]
  generalize hvt : splitPathInfo v = vt
  generalize hpt : splitPathInfo path = pt
  have hk := deepest_le root (vt ++ pt)
  have key : vt.length ≤ deepest root (vt ++ pt) → (vt ++ pt).take vt.length = vt := by intro _; simp
  cases h : (vt ++ pt).drop (deepest root (vt ++ pt)) with
  | nil =>
    have h1 : (vt ++ pt).length ≤ deepest root (vt ++ pt) := by simpa using h
    have h2 : deepest root (vt ++ pt) = (vt ++ pt).length := by omega
    have h3 : vt.length ≤ deepest root (vt ++ pt) := by simp at h1; omega
    simp only [h2, if_true, List.take_of_length_le (Nat.le_refl _)]
    by_cases hv : 0 < vt.length
    · have : 0 < vt.length ∧ vt.length ≤ (vt ++ pt).length := ⟨hv, by simp⟩
      simp [this]
    · have : vt = [] := List.length_eq_zero_iff.mp (by omega)
      subst this; simp
  | cons s rest =>
    have hlt : deepest root (vt ++ pt) < (vt ++ pt).length := by
      have := congrArg List.length h
      rw [List.length_drop, List.length_cons] at this; omega
    have e : (vt ++ pt).drop (deepest root (vt ++ pt) + 1) = rest := by
      rw [← List.drop_drop, h]; rfl
    have hne : ¬ deepest root (vt ++ pt) = (vt ++ pt).length := by omega
    simp only [e, hne, if_false]
    by_cases hv : vt.length ≤ deepest root (vt ++ pt)
    · by_cases h0 : 0 < vt.length
      · simp [hv, h0]
      · have : vt = [] := List.length_eq_zero_iff.mp (by omega)
        subst this; simp
    · have : ¬ (0 < vt.length ∧ vt.length ≤ deepest root (vt ++ pt)) := fun hh => hv hh.2
      simp [hv]

/-- Consequently `traversed` is exactly the consumed segments whenever the walk exhausts the path or the
virtual root is the root itself (`/`, empty header). -/
theorem traversed_vroot_exact_when_exhausted_or_root (root : Tree) (v path : Text) (sub0 : List Seg)
    (hsplit : splitPathInfo (v ++ path) = splitPathInfo v ++ splitPathInfo path)
    (h : deepest root (splitPathInfo v ++ splitPathInfo path) = (splitPathInfo v ++ splitPathInfo path).length ∨
         splitPathInfo v = []) :
    traverseText root (some v) path sub0 = specText root (some v) path sub0 := by
  rw [traverseText_vroot_partial root v path sub0 hsplit]
  rcases h with h | h
  · simp [h]
  · simp only [h, List.length_nil, Nat.zero_add, List.nil_append]
    split
    · rfl
    · simp only [specText, specOutcome, h, List.nil_append]
      split
      · rename_i hd
        have : (splitPathInfo path).length ≤ deepest root (splitPathInfo path) := by simpa using hd
        simp [List.take_of_length_le this]
      · rfl

/-- F-C02a is real: virtual root `/abc`, path `/foo/bar`, tree `{abc: {}}` — the walk consumes `abc` and stops
at `foo`, yet `traversed` is `('abc', 'foo')` (the repository's `test_withroute_and_traverse_and_vroot` pins
this value). -/
theorem traversed_vroot_counterexample :
    let root : Tree := .mk true [("abc".toList, .mk true [])]
    let r := traverseText root (some "/abc".toList) "/foo/bar".toList []
    r.context = ["abc".toList] ∧ r.viewName = "foo".toList ∧ r.subpath = ["bar".toList] ∧
      r.traversed = ["abc".toList, "foo".toList] ∧
      (specText root (some "/abc".toList) "/foo/bar".toList []).traversed = ["abc".toList] := by decide

/-- F-C02b is real: virtual root `/a/b`, path `/../c` — the walk leaves the virtual root; the context and the
reported virtual root are `/a/c` while `virtual_root_path` says `('a','b')`. -/
theorem dotdot_escapes_vroot_counterexample :
    let leaf : Tree := .mk true []
    let root : Tree := .mk true [("a".toList, .mk true [("b".toList, leaf), ("c".toList, leaf)])]
    let r := traverseText root (some "/a/b".toList) "/../c".toList []
    r.context = ["a".toList, "c".toList] ∧ r.virtualRoot = ["a".toList, "c".toList] ∧
      r.virtualRootPath = ["a".toList, "b".toList] ∧
      (specText root (some "/a/b".toList) "/../c".toList []).virtualRoot = ["a".toList, "b".toList] ∧
      splitPathInfo ("/a/b".toList ++ "/../c".toList) ≠ splitPathInfo "/a/b".toList ++ splitPathInfo "/../c".toList := by
  decide

/-- F-C02c is real: virtual root `/a`, `traverse = 'x'` from a `{traverse}` placeholder — the strings are glued
to `/ax`; the walk looks for `ax` and the virtual root stays the root although `/a` exists. -/
theorem vroot_glued_counterexample :
    let root : Tree := .mk true [("a".toList, .mk true [("x".toList, .mk true [])])]
    let rq : Req := { pathInfo := none, vroot := none, matchdict := some { traverse := some (.str "x".toList), subpath := none } }
    (requestPath rq).toOption = some ("x".toList, []) ∧
    (traverseText root (some "/a".toList) "x".toList []).viewName = "ax".toList ∧
      (traverseText root (some "/a".toList) "x".toList []).virtualRoot = [] ∧
      (specText root (some "/a".toList) "x".toList []).context = ["a".toList, "x".toList] := by decide

/-! ### the two ways a path reaches the traverser, and decoding failures -/

/-- A `*traverse` tuple of proper segments is walked as it is. -/
theorem matchdict_tuple_is_walked (rq : Req) (md : MatchDict) (xs : List Seg) (h : rq.matchdict = some md)
    (ht : md.traverse = some (.tup xs)) (hx : ∀ s ∈ xs, Clean s ∧ '/' ∉ s) :
    ∃ path sub, requestPath rq = .ok (path, sub) ∧ splitPathInfo path = xs := by
  simp only [requestPath, h, ht]
  refine ⟨_, _, rfl, ?_⟩
  split
  · rename_i h0; subst h0; decide
  · exact (split_join_roundtrip xs hx).1

/-- The subpath handed back when the path is exhausted is the match dictionary's: a tuple as it is, a string
normalised, nothing when absent; without a match dictionary it is empty. -/
theorem matchdict_subpath (rq : Req) (path : Text) (sub : List Seg) (h : requestPath rq = .ok (path, sub)) :
    (rq.matchdict = none → sub = []) ∧
    (∀ md, rq.matchdict = some md →
      (md.subpath = none → sub = []) ∧ (∀ xs, md.subpath = some (.tup xs) → sub = xs) ∧
      (∀ s, md.subpath = some (.str s) → sub = splitPathInfo s)) := by
  simp only [requestPath] at h
  constructor
  · intro hm
    simp only [hm] at h
    split at h
    · cases h
    · simp only [Except.ok.injEq, Prod.mk.injEq] at h
      exact h.2.symm
  · intro md hm
    simp only [hm, Except.ok.injEq, Prod.mk.injEq] at h
    refine ⟨fun h0 => ?_, fun xs h0 => ?_, fun s h0 => ?_⟩ <;> simp only [h0] at h <;> exact h.2.symm

/-- A `PATH_INFO` that is not UTF-8 is refused with `URLDecodeError` (no match dictionary), and is not even
looked at when a route matched. -/
theorem undecodable_path_info (root : Tree) (rq : Req) (raw : Bytes) (h : rq.pathInfo = some raw)
    (hbad : utf8Dec raw = none) :
    (rq.matchdict = none → traverser root rq = .error .urlDecode) ∧
    (rq.matchdict ≠ none → ∀ raw', traverser root rq = traverser root { rq with pathInfo := raw' }) := by
  constructor
  · intro hm
    simp [traverser, requestPath, hm, h, decodePathInfo, hbad]
  · intro hm raw'
    cases hmd : rq.matchdict with
    | none => exact absurd hmd hm
    | some md => simp [traverser, requestPath, hmd]

/-! ### non-vacuity -/

/-- a three-level tree with a leaf; the hypotheses of the theorems above hold on it and the outcome is the
expected one (vroot `/a`, path `/b/leaf/x/y`: walk `a`,`b`,`leaf`, stop at `x` because the leaf has no item
lookup). -/
example :
    let leaf : Tree := .mk false []
    let root : Tree := .mk true [("a".toList, .mk true [("b".toList, .mk true [("leaf".toList, leaf)])])]
    let v := "/a".toList
    let p := "/b/leaf/x/y".toList
    splitPathInfo (v ++ p) = splitPathInfo v ++ splitPathInfo p ∧
      specText root (some v) p [] =
        { context := ["a".toList, "b".toList, "leaf".toList], viewName := "x".toList, subpath := ["y".toList],
          traversed := ["a".toList, "b".toList, "leaf".toList], virtualRoot := ["a".toList],
          virtualRootPath := ["a".toList] } ∧
      Walkable root ["a".toList, "b".toList, "leaf".toList] = true ∧
      Walkable root ["a".toList, "b".toList, "leaf".toList, "x".toList] = false := by decide

example : (∀ s ∈ ["a b".toList, "@@v".toList, "...".toList], Clean s ∧ '/' ∉ s) := by decide

example :
    let root : Tree := .mk true [("a".toList, .mk true [])]
    deepest root (splitPathInfo "/".toList ++ splitPathInfo "/a".toList) =
      (splitPathInfo "/".toList ++ splitPathInfo "/a".toList).length := by decide

end Pyr.Trav
