import PyramidModel.Lemmas.Traversal
/-!
# C02 — traversal resolves context, view name, subpath and `traversed` as documented

Property theorems only (model: `Traversal.lean`; spec and helper lemmas: `Lemmas/Traversal.lean`).
All statements quantify over every tree, every path text, every virtual-root text, every match dictionary.

Reading guide
* §1 path normalisation: `split_path_info` = "drop `''` and `'.'`, let `'..'` drop the previous segment, never
  climb above the root", stated as the four rewrite laws that determine the function (`norm_unique`).
* §2 what the spec means: `specOutcome` is "context = deepest resource reached, view name = first segment
  that could not be looked up, subpath = the rest, traversed = the consumed segments, virtual root = the resource
  at the virtual-root path" — each clause proved from the definition of `Walkable`, not from the loop.
* §3 the traverser against the spec: equal without a virtual root (`traverser_no_vroot`); with one — for every
  header text and request path, since 939e5de normalises them separately — equal in context / view name / subpath /
  virtual root / virtual_root_path (`vroot_context_viewname_subpath`, `vroot_is_resource_at_vroot_path`,
  `traverser_agrees_with_spec`: FULL), and in `traversed` if and only if the walk exhausts the path or the virtual
  root is `/` (`traversed_vroot_partial`: the exact value the code returns otherwise — F-C02a, proved real at a
  concrete point by `decide`).  The former F-C02b / F-C02c witnesses are `decide`d regression facts.
-/
namespace Pyr.Trav

/-! ## 1. normalisation -/

/-- Output segments are never `''`, `'.'`, `'..'` and never contain a slash. -/
theorem split_clean (p : Text) (s : Seg) (h : s ∈ splitPathInfo p) :
    s ≠ [] ∧ s ≠ ['.'] ∧ s ≠ ['.', '.'] ∧ '/' ∉ s := by
  rw [splitPathInfo_eq] at h
  obtain ⟨⟨h1, h2, h3⟩, h4⟩ := normSegs_clean_out _ s h
  exact ⟨h1, h2, h3, mem_splitOn_no_sep '/' p s h4⟩

/-- `split_path_info` is the segment-level normalisation of `path.split('/')`; the `strip('/')` of the code is
immaterial. -/
theorem split_is_norm_of_segments (p : Text) : splitPathInfo p = normSegs (splitOn '/' p) :=
  splitPathInfo_eq p

/-- Law 1: empty and `'.'` segments are dropped, wherever they stand. -/
theorem norm_drops_empty_and_dot (xs ys : List Seg) (s : Seg) (h : s = [] ∨ s = ['.']) :
    normSegs (xs ++ s :: ys) = normSegs (xs ++ ys) := by
  simp only [normSegs, List.foldl_append, List.foldl_cons, normStep_skip _ s h]

/-- Law 2: `'..'` drops the previous (proper) segment. -/
theorem norm_dotdot_drops_previous (xs ys : List Seg) (s : Seg) (h : Clean s) :
    normSegs (xs ++ s :: dd :: ys) = normSegs (xs ++ ys) := by
  simp only [normSegs, List.foldl_append, List.foldl_cons, normStep_clean _ s h, normStep_dd, List.tail_cons]

/-- Law 3: `'..'` never climbs above the root: where nothing is left to drop it is ignored. -/
theorem norm_dotdot_never_above_root (xs ys : List Seg) (h : normSegs xs = []) :
    normSegs (xs ++ dd :: ys) = normSegs ys := by
  have h' : xs.foldl normStep [] = [] := by simpa [normSegs] using h
  simp only [normSegs, List.foldl_append, List.foldl_cons, h', normStep_dd, List.tail_nil]

/-- Law 4: a list of proper segments is left alone. -/
theorem norm_keeps_proper_segments (segs : List Seg) (h : ∀ s ∈ segs, Clean s) : normSegs segs = segs :=
  normSegs_of_clean segs h

/-- The four laws determine the function: anything that satisfies them *is* `normSegs`.  (So the stack machine
of `split_path_info` is the only implementation of the documented normalisation.) -/
theorem norm_unique (f : List Seg → List Seg)
    (law1 : ∀ xs ys s, (s = [] ∨ s = ['.']) → f (xs ++ s :: ys) = f (xs ++ ys))
    (law2 : ∀ xs ys s, Clean s → f (xs ++ s :: dd :: ys) = f (xs ++ ys))
    (law3 : ∀ ys, f (dd :: ys) = f ys)
    (law4 : ∀ segs, (∀ s ∈ segs, Clean s) → f segs = segs) :
    ∀ segs, f segs = normSegs segs := by
  -- induction on the length, peeling the first segment that is not proper
  suffices H : ∀ n (pre segs : List Seg), segs.length ≤ n → (∀ s ∈ pre, Clean s) →
      f (pre ++ segs) = normSegs (pre ++ segs) from fun segs => by simpa using H segs.length [] segs (Nat.le_refl _) (by simp)
  intro n
  induction n with
  | zero =>
    intro pre segs hl hpre
    have : segs = [] := List.length_eq_zero_iff.mp (by omega)
    subst this
    simp only [List.append_nil]
    rw [law4 pre hpre, normSegs_of_clean pre hpre]
  | succ n ih =>
    -- inner induction over `segs`, moving proper segments into `pre`
    intro pre segs
    induction segs generalizing pre with
    | nil =>
      intro _ hpre
      simp only [List.append_nil]
      rw [law4 pre hpre, normSegs_of_clean pre hpre]
    | cons s rest ihs =>
      intro hl hpre
      by_cases h1 : s = [] ∨ s = ['.']
      · rw [law1 pre rest s h1, norm_drops_empty_and_dot pre rest s h1]
        exact ih pre rest (by simp at hl; omega) hpre
      · by_cases h2 : s = dd
        · subst h2
          -- `pre` is empty or ends in a proper segment
          rcases List.eq_nil_or_concat pre with hp | ⟨pre', x, hp⟩
          · subst hp
            simp only [List.nil_append]
            have h3 := norm_dotdot_never_above_root [] rest (by simp [normSegs])
            simp only [List.nil_append] at h3
            rw [law3, h3]
            simpa using ih [] rest (by simp at hl; omega) (by simp)
          · subst hp
            rw [List.concat_eq_append] at hpre ⊢
            have hx : Clean x := hpre x (by simp)
            have e : pre' ++ [x] ++ dd :: rest = pre' ++ x :: dd :: rest := by simp
            rw [e, law2 pre' rest x hx, norm_dotdot_drops_previous pre' rest x hx]
            exact ih pre' rest (by simp at hl; omega) (fun s hs => hpre s (by simp [hs]))
        · have hc : Clean s := ⟨fun e => h1 (.inl e), fun e => h1 (.inr e), h2⟩
          have e : pre ++ s :: rest = (pre ++ [s]) ++ rest := by simp
          rw [e]
          exact ihs (pre ++ [s]) (by simp at hl ⊢; omega)
            (fun t ht => by
              rcases List.mem_append.mp ht with m | m
              · exact hpre t m
              · simp at m; exact m ▸ hc)

/-- `normSegs` itself satisfies law 3 in the form used by `norm_unique` (non-vacuity of its hypotheses). -/
example : ∀ ys, normSegs (dd :: ys) = normSegs ys :=
  fun ys => by simpa using norm_dotdot_never_above_root [] ys (by simp [normSegs])

/-- Joining proper, slash-free segments and splitting again gives them back — with or without the leading
slash, with or without a trailing one. -/
theorem split_join_roundtrip (segs : List Seg) (h : ∀ s ∈ segs, Clean s ∧ '/' ∉ s) :
    splitPathInfo ('/' :: joinWith '/' segs) = segs ∧ splitPathInfo (joinWith '/' segs) = segs ∧
      splitPathInfo ('/' :: joinWith '/' segs ++ ['/']) = segs := by
  have hc : ∀ s ∈ segs, Clean s := fun s hs => (h s hs).1
  cases segs with
  | nil => simp only [joinWith]; decide
  | cons x xs =>
    have hs := splitOn_joinWith '/' (x :: xs) (by simp) (fun s hs => (h s hs).2)
    refine ⟨?_, ?_, ?_⟩
    · rw [splitPathInfo_eq, splitOn_cons_sep, hs]
      have := norm_drops_empty_and_dot [] (x :: xs) [] (.inl rfl)
      simp only [List.nil_append] at this
      rw [this, normSegs_of_clean _ hc]
    · rw [splitPathInfo_eq, hs, normSegs_of_clean _ hc]
    · rw [splitPathInfo_eq, List.cons_append, splitOn_cons_sep]
      have e : joinWith '/' (x :: xs) ++ ['/'] = joinWith '/' (x :: xs) ++ '/' :: [] := rfl
      rw [e, splitOn_append_sep, hs]
      have h1 := norm_drops_empty_and_dot [] (x :: xs ++ splitOn '/' []) [] (.inl rfl)
      simp only [List.nil_append] at h1
      rw [h1]
      have h2 := norm_drops_empty_and_dot (x :: xs) [] [] (.inl rfl)
      simp only [splitOn]
      rw [h2, List.append_nil, normSegs_of_clean _ hc]

/-- Normalisation is idempotent at the level of path strings. -/
theorem split_idempotent (p : Text) : splitPathInfo ('/' :: joinWith '/' (splitPathInfo p)) = splitPathInfo p :=
  (split_join_roundtrip (splitPathInfo p) (fun s hs => by
    obtain ⟨h1, h2, h3, h4⟩ := split_clean p s hs
    exact ⟨⟨h1, h2, h3⟩, h4⟩)).1

/-- What 939e5de did NOT change: when the request path starts with a slash and its `..` segments never climb out
of it, normalising the concatenated string (the code before the fix) and concatenating the separately normalised
tuples (the code now) give the same segments — the fix is observable only where `..` reaches into the header or
the leading slash is missing. -/
theorem split_vroot_append (v p : Text) (hclimb : noClimbFrom 0 (splitOn '/' p) = true) :
    splitPathInfo (v ++ '/' :: p) = splitPathInfo v ++ splitPathInfo ('/' :: p) := by
  rw [splitPathInfo_eq, splitPathInfo_eq, splitPathInfo_eq, splitOn_append_sep, splitOn_cons_sep]
  rw [normSegs_append_noClimb _ _ hclimb]
  have := norm_drops_empty_and_dot [] (splitOn '/' p) [] (.inl rfl)
  simp only [List.nil_append] at this
  rw [this]

example : noClimbFrom 0 (splitOn '/' "b/../c/./x".toList) = true := by decide

/-! ## 2. what the spec says, clause by clause -/

/-- The context is the deepest resource reached: its position is a walkable prefix of the normalised path,
it names a resource of the tree, and no longer prefix can be walked by item lookup. -/
theorem spec_context_is_deepest (root : Tree) (vt pt sub0 : List Seg) :
    let r := specOutcome root vt pt sub0
    r.context <+: vt ++ pt ∧ Walkable root r.context = true ∧ (root.resolve r.context).isSome = true ∧
      ∀ p, p <+: vt ++ pt → Walkable root p = true → p.length ≤ r.context.length := by
  have hk := deepest_le root (vt ++ pt)
  have hw := walkable_take_deepest root (vt ++ pt)
  have hctx : (specOutcome root vt pt sub0).context = (vt ++ pt).take (deepest root (vt ++ pt)) := by
    simp only [specOutcome]
    split
    · rename_i h
      have : (vt ++ pt).length ≤ deepest root (vt ++ pt) := by simpa using h
      simp [List.take_of_length_le this]
    · rfl
  simp only [hctx]
  refine ⟨List.take_prefix _ _, hw, resolve_of_walkable _ _ hw, ?_⟩
  intro p hp hwp
  obtain ⟨q, hq⟩ := hp
  have hpl : p.length ≤ (vt ++ pt).length := by rw [← hq]; simp
  have : (vt ++ pt).take p.length = p := by rw [← hq]; simp
  have := deepest_max root (vt ++ pt) p.length hpl (by rw [this]; exact hwp)
  rw [List.length_take]; omega

/-- View name, subpath and `traversed` partition the path: either everything was consumed (empty view name, the
match dictionary's subpath), or `traversed ++ [segment] ++ subpath` is the path, the view name is that segment
(without `@@` for a selector) and the segment really could not be looked up from the context. -/
theorem spec_partition (root : Tree) (vt pt sub0 : List Seg) :
    let r := specOutcome root vt pt sub0
    r.traversed = r.context ∧
      ((r.viewName = [] ∧ r.traversed = vt ++ pt ∧ r.subpath = sub0) ∨
       (∃ s, r.traversed ++ s :: r.subpath = vt ++ pt ∧ r.viewName = viewNameOf s ∧
          Walkable root (r.traversed ++ [s]) = false)) := by
  simp only [specOutcome]
  split
  · exact ⟨rfl, .inl ⟨rfl, rfl, rfl⟩⟩
  · rename_i s rest h
    refine ⟨rfl, .inr ⟨s, ?_, rfl, ?_⟩⟩
    · have := List.take_append_drop (deepest root (vt ++ pt)) (vt ++ pt)
      simpa [h] using this
    · -- a longer walkable prefix would contradict maximality
      cases hw : Walkable root (List.take (deepest root (vt ++ pt)) (vt ++ pt) ++ [s]) with
      | false => rfl
      | true =>
        exfalso
        have hlt : deepest root (vt ++ pt) < (vt ++ pt).length := by
          have := congrArg List.length h
          rw [List.length_drop, List.length_cons] at this; omega
        have e : (vt ++ pt).take (deepest root (vt ++ pt) + 1) = (vt ++ pt).take (deepest root (vt ++ pt)) ++ [s] := by
          have h0 : (vt ++ pt)[deepest root (vt ++ pt)]'hlt = s := by
            have := List.getElem_cons_drop hlt
            rw [h] at this
            exact (List.cons.inj this).1
          rw [List.take_succ_eq_append_getElem hlt, h0]
        have := deepest_max root (vt ++ pt) (deepest root (vt ++ pt) + 1) (by omega) (by rw [e]; exact hw)
        omega

/-- The virtual root path is the normalised header; the virtual root is the resource at that path when the walk
gets that far, and the root otherwise. -/
theorem spec_virtual_root (root : Tree) (vt pt sub0 : List Seg) :
    let r := specOutcome root vt pt sub0
    r.virtualRootPath = vt ∧ (Walkable root vt = true → r.virtualRoot = vt) ∧
      (Walkable root vt = false → r.virtualRoot = []) := by
  have hw := walkable_take_deepest root (vt ++ pt)
  have key : vt.length ≤ deepest root (vt ++ pt) ↔ Walkable root vt = true := by
    constructor
    · intro h
      have e : (vt ++ pt).take (deepest root (vt ++ pt)) = vt ++ pt.take (deepest root (vt ++ pt) - vt.length) := by
        rw [List.take_append]; simp [List.take_of_length_le h]
      rw [e] at hw
      exact walkable_prefix root vt _ hw
    · intro h
      exact deepest_max root (vt ++ pt) vt.length (by simp) (by simpa using h)
  simp only [specOutcome]
  split
  · exact ⟨rfl, fun _ => rfl, fun h => by
      rename_i hd
      have : (vt ++ pt).length ≤ deepest root (vt ++ pt) := by simpa using hd
      have : vt.length ≤ deepest root (vt ++ pt) := by simp at this; omega
      rw [key.mp this] at h; cases h⟩
  · refine ⟨rfl, fun h => by simp [key.mpr h], fun h => ?_⟩
    have : ¬ vt.length ≤ deepest root (vt ++ pt) := fun hh => by rw [key.mp hh] at h; cases h
    simp [this]

/-! ## 3. the traverser against the spec -/

/-- Without a virtual-root header the traverser's result is exactly the spec's — context, view name, subpath,
traversed, virtual root (= root) — for every tree, path and match dictionary.  FULL. -/
theorem traverseText_no_vroot (root : Tree) (path : Text) (sub0 : List Seg) :
    traverseText root none path sub0 = specText root none path sub0 := by
  simp only [traverseText_none, specText, walk_outcome, specOutcome, List.nil_append]
  have hk := deepest_le root (splitPathInfo path)
  cases h : (splitPathInfo path).drop (deepest root (splitPathInfo path)) with
  | nil =>
    have : (splitPathInfo path).length ≤ deepest root (splitPathInfo path) := by simpa using h
    simp [List.take_of_length_le this]
  | cons s rest =>
    have e : (splitPathInfo path).drop (deepest root (splitPathInfo path) + 1) = rest := by
      rw [← List.drop_drop, h]; rfl
    simp [e]

theorem traverser_no_vroot (root : Tree) (rq : Req) (h : rq.vroot = none) :
    traverser root rq = specTraverser root rq := by
  simp only [traverser, specTraverser, h]
  cases requestPath rq with
  | error e => rfl
  | ok ps => simp [traverseText_no_vroot]

/-- Closed form of the traverser under a virtual-root header, for EVERY header text and request path (no
hypothesis on how the two strings relate — since 939e5de they are normalised separately): the spec's result
in every field but `traversed`, and `traversed` is the spec's when the walk exhausts the path, otherwise the first
`len(virtual_root_path) + consumed` segments of the combined tuple (`vpath_tuple[: vroot_idx + i + 1]`). -/
theorem traverseText_vroot (root : Tree) (v path : Text) (sub0 : List Seg) :
    let e := specText root (some v) path sub0
    let segs := splitPathInfo v ++ splitPathInfo path
    traverseText root (some v) path sub0 =
      { e with traversed :=
          if deepest root segs = segs.length then e.traversed
          else segs.take ((splitPathInfo v).length + deepest root segs) } := by
  simp only [traverseText_some]
  simp only [specText, walk_outcome, specOutcome]
  generalize splitPathInfo v = vt
  generalize splitPathInfo path = pt
  have hk := deepest_le root (vt ++ pt)
  cases h : (vt ++ pt).drop (deepest root (vt ++ pt)) with
  | nil =>
    have h1 : (vt ++ pt).length ≤ deepest root (vt ++ pt) := by simpa using h
    have h2 : deepest root (vt ++ pt) = (vt ++ pt).length := by omega
    simp only [h2, if_true, List.take_of_length_le (Nat.le_refl _)]
    by_cases hv : 0 < vt.length
    · have : 0 < vt.length ∧ vt.length ≤ (vt ++ pt).length := ⟨hv, by simp⟩
      simp [this]
    · have : vt = [] := List.length_eq_zero_iff.mp (by omega)
      subst this; simp
  | cons s rest =>
    have hlt : deepest root (vt ++ pt) < (vt ++ pt).length := by
      have := congrArg List.length h
      rw [List.length_drop, List.length_cons] at this; omega
    have e : (vt ++ pt).drop (deepest root (vt ++ pt) + 1) = rest := by
      rw [← List.drop_drop, h]; rfl
    have hne : ¬ deepest root (vt ++ pt) = (vt ++ pt).length := by omega
    simp only [e, hne, if_false]
    by_cases hv : vt.length ≤ deepest root (vt ++ pt)
    · by_cases h0 : 0 < vt.length
      · simp [hv, h0]
      · have : vt = [] := List.length_eq_zero_iff.mp (by omega)
        subst this; simp
    · have : ¬ (0 < vt.length ∧ vt.length ≤ deepest root (vt ++ pt)) := fun hh => hv hh.2
      simp [hv]

/-- With a virtual-root header — ANY header text, ANY request path (with `..`, without a leading slash, …) —
context, view name, subpath, virtual root and `virtual_root_path` are exactly the spec's: the header's segments
are prepended to the request's own normalised segments and the result is walked.  FULL (was `_partial` under the
hypothesis `split(v ++ path) = split v ++ split path` until F-C02b/c were repaired in 939e5de). -/
theorem vroot_context_viewname_subpath (root : Tree) (v path : Text) (sub0 : List Seg) :
    let r := traverseText root (some v) path sub0
    let e := specText root (some v) path sub0
    r.context = e.context ∧ r.viewName = e.viewName ∧ r.subpath = e.subpath ∧
      r.virtualRoot = e.virtualRoot ∧ r.virtualRootPath = e.virtualRootPath := by
  simp only [traverseText_vroot, and_self]

/-- "The virtual root is the resource found at that path", and the request path is resolved beneath it: for every
header `v` and path, `virtual_root_path` is the normalised header; if that position can be walked, the virtual
root IS the resource at it (it exists in the tree) and the context lies at or below it, reached through a prefix
of the request's OWN normalised segments (no `..` of the request path leads out of the virtual root, nothing is
glued to the header's last segment); if it cannot be walked the virtual root is the root and the walk stopped
inside the header's segments.  FULL (was `_partial` until 939e5de). -/
theorem vroot_is_resource_at_vroot_path (root : Tree) (v path : Text) (sub0 : List Seg) :
    let r := traverseText root (some v) path sub0
    let vt := splitPathInfo v
    r.virtualRootPath = vt ∧
      (Walkable root vt = true →
        r.virtualRoot = vt ∧ (root.resolve r.virtualRoot).isSome = true ∧
          ∃ q, q <+: splitPathInfo path ∧ r.context = vt ++ q) ∧
      (Walkable root vt = false →
        r.virtualRoot = [] ∧ r.context <+: vt ∧ r.context.length < vt.length) := by
  obtain ⟨hc, _, _, hvr, hvp⟩ := vroot_context_viewname_subpath root v path sub0
  dsimp only
  rw [hc, hvr, hvp]
  simp only [specText]
  generalize splitPathInfo v = vt
  generalize splitPathInfo path = pt
  obtain ⟨s1, s2, s3⟩ := spec_virtual_root root vt pt sub0
  have hctx := (specOutcome_context root vt pt sub0).1
  have hk := deepest_le root (vt ++ pt)
  refine ⟨s1, fun hw => ?_, fun hw => ?_⟩
  · have hge := (prefix_le_deepest_iff root vt pt).mpr hw
    refine ⟨s2 hw, by rw [s2 hw]; exact resolve_of_walkable root vt hw,
      pt.take (deepest root (vt ++ pt) - vt.length), List.take_prefix _ _, ?_⟩
    rw [hctx, List.take_append, List.take_of_length_le hge]
  · have hlt : ¬ vt.length ≤ deepest root (vt ++ pt) := fun hh => by
      rw [(prefix_le_deepest_iff root vt pt).mp hh] at hw; cases hw
    have e : (vt ++ pt).take (deepest root (vt ++ pt)) = vt.take (deepest root (vt ++ pt)) := by
      rw [List.take_append]
      have : deepest root (vt ++ pt) - vt.length = 0 := by omega
      simp [this]
    refine ⟨s3 hw, ?_, ?_⟩
    · rw [hctx, e]; exact List.take_prefix _ _
    · rw [hctx, e, List.length_take]; omega

/-- `traversed` under a virtual-root header, exactly as the code computes it.  PARTIAL with respect to the
property ("'traversed' is exactly the segments consumed"): it IS the consumed segments if and only if the virtual
root is empty (`/`, empty header) or the walk exhausts the path; in every other case it is the consumed segments
followed by the next `len(virtual_root_path)` segments of the path (view name / subpath segments) — F-C02a, pinned
by `test_withroute_and_traverse_and_vroot`, real at `traversed_vroot_counterexample`.  The characterisation
itself holds for every tree, header and path. -/
theorem traversed_vroot_partial (root : Tree) (v path : Text) (sub0 : List Seg) :
    let r := traverseText root (some v) path sub0
    let e := specText root (some v) path sub0
    let vt := splitPathInfo v
    let segs := vt ++ splitPathInfo path
    let k := deepest root segs
    e.traversed = segs.take k ∧ e.traversed = e.context ∧
      (r.traversed = e.traversed ↔ vt = [] ∨ k = segs.length) ∧
      (k ≠ segs.length → r.traversed = e.traversed ++ (segs.drop k).take vt.length) := by
  simp only [traverseText_vroot]
  simp only [specText]
  generalize splitPathInfo v = vt
  generalize splitPathInfo path = pt
  obtain ⟨hc, ht⟩ := specOutcome_context root vt pt sub0
  have hk := deepest_le root (vt ++ pt)
  rw [ht, hc]
  refine ⟨rfl, rfl, ?_, ?_⟩
  · constructor
    · intro h
      by_cases hx : deepest root (vt ++ pt) = (vt ++ pt).length
      · exact .inr hx
      · simp only [hx, if_false] at h
        have := congrArg List.length h
        simp only [List.length_take] at this
        exact .inl (List.length_eq_zero_iff.mp (by omega))
    · rintro (h | h)
      · subst h; simp
      · simp [h]
  · intro hx
    simp only [hx, if_false]
    rw [Nat.add_comm, List.take_add]

/-- Consequently the traverser equals the spec in EVERY field whenever the walk exhausts the path or the virtual
root is the root itself (`/`, empty header) — for every header text and request path. -/
theorem traversed_vroot_exact_when_exhausted_or_root (root : Tree) (v path : Text) (sub0 : List Seg)
    (h : deepest root (splitPathInfo v ++ splitPathInfo path) = (splitPathInfo v ++ splitPathInfo path).length ∨
         splitPathInfo v = []) :
    traverseText root (some v) path sub0 = specText root (some v) path sub0 := by
  rw [traverseText_vroot root v path sub0]
  rcases h with h | h
  · simp [h]
  · simp only [h, List.length_nil, Nat.zero_add, List.nil_append]
    split
    · rfl
    · simp only [specText, specOutcome, h, List.nil_append]
      split
      · rename_i hd
        have : (splitPathInfo path).length ≤ deepest root (splitPathInfo path) := by simpa using hd
        simp [List.take_of_length_le this]
      · rfl

/-- The whole traverser against the whole spec, for EVERY request (PATH_INFO or match dictionary, with or without
a virtual-root header, decodable or not): the same error, or the same context, view name, subpath, virtual root
and `virtual_root_path`; and the same `traversed` when there is no header.  FULL. -/
theorem traverser_agrees_with_spec (root : Tree) (rq : Req) :
    match traverser root rq, specTraverser root rq with
    | .ok r, .ok e =>
      r.context = e.context ∧ r.viewName = e.viewName ∧ r.subpath = e.subpath ∧
        r.virtualRoot = e.virtualRoot ∧ r.virtualRootPath = e.virtualRootPath ∧
        (rq.vroot = none → r.traversed = e.traversed)
    | .error a, .error b => a = b
    | _, _ => False := by
  simp only [traverser, specTraverser]
  cases requestPath rq with
  | error e => simp
  | ok ps =>
    obtain ⟨path, sub0⟩ := ps
    cases hv : rq.vroot with
    | none => simp [traverseText_no_vroot]
    | some raw =>
      simp only []
      cases decodePathInfo raw with
      | none => simp
      | some v =>
        obtain ⟨h1, h2, h3, h4, h5⟩ := vroot_context_viewname_subpath root v path sub0
        simp [h1, h2, h3, h4, h5]

/-- F-C02a is real: virtual root `/abc`, path `/foo/bar`, tree `{abc: {}}` — the walk consumes `abc` and stops
at `foo`, yet `traversed` is `('abc', 'foo')` (the repository's `test_withroute_and_traverse_and_vroot` pins
this value). -/
theorem traversed_vroot_counterexample :
    let root : Tree := .mk true [("abc".toList, .mk true [])]
    let r := traverseText root (some "/abc".toList) "/foo/bar".toList []
    r.context = ["abc".toList] ∧ r.viewName = "foo".toList ∧ r.subpath = ["bar".toList] ∧
      r.traversed = ["abc".toList, "foo".toList] ∧
      (specText root (some "/abc".toList) "/foo/bar".toList []).traversed = ["abc".toList] := by decide

/-- Regression fact for the former F-C02b (repaired in 939e5de): virtual root `/a/b`, path `/../c`.  The `..` is
resolved inside the request path, so the walk stays below `/a/b`: context and virtual root are `/a/b`, the view
name is `c` (the old code answered context = virtual root = `/a/c`).  With a `c` below `/a/b` the context is
`/a/b/c` — not the sibling `/a/c` — and the whole result is the spec's. -/
theorem dotdot_stays_below_vroot_regression :
    let leaf : Tree := .mk true []
    let root : Tree := .mk true [("a".toList, .mk true [("b".toList, leaf), ("c".toList, leaf)])]
    let root2 : Tree := .mk true [("a".toList, .mk true [("b".toList, .mk true [("c".toList, leaf)]), ("c".toList, leaf)])]
    let r := traverseText root (some "/a/b".toList) "/../c".toList []
    let r2 := traverseText root2 (some "/a/b".toList) "/../c".toList []
    r.context = ["a".toList, "b".toList] ∧ r.viewName = "c".toList ∧ r.virtualRoot = ["a".toList, "b".toList] ∧
      r.virtualRootPath = ["a".toList, "b".toList] ∧
      r2 = specText root2 (some "/a/b".toList) "/../c".toList [] ∧
      r2.context = ["a".toList, "b".toList, "c".toList] ∧ r2.virtualRoot = ["a".toList, "b".toList] ∧
      r2.traversed = ["a".toList, "b".toList, "c".toList] := by
  decide

/-- Regression fact for the former F-C02c (repaired in 939e5de): virtual root `/a`, `traverse = 'x'` from a
`{traverse}` placeholder (no leading slash).  The tuples are concatenated, not the strings: the walk goes `a`,
`x`, the virtual root is `/a`, and the result is the spec's in every field (the old code looked for `ax`). -/
theorem vroot_not_glued_regression :
    let root : Tree := .mk true [("a".toList, .mk true [("x".toList, .mk true [])])]
    let rq : Req := { pathInfo := none, vroot := none, matchdict := some { traverse := some (.str "x".toList), subpath := none } }
    let r := traverseText root (some "/a".toList) "x".toList []
    (requestPath rq).toOption = some ("x".toList, []) ∧
      r = specText root (some "/a".toList) "x".toList [] ∧
      r.context = ["a".toList, "x".toList] ∧ r.viewName = [] ∧ r.virtualRoot = ["a".toList] ∧
      r.traversed = ["a".toList, "x".toList] := by decide

/-! ### the two ways a path reaches the traverser, and decoding failures -/

/-- A `*traverse` tuple of proper segments is walked as it is. -/
theorem matchdict_tuple_is_walked (rq : Req) (md : MatchDict) (xs : List Seg) (h : rq.matchdict = some md)
    (ht : md.traverse = some (.tup xs)) (hx : ∀ s ∈ xs, Clean s ∧ '/' ∉ s) :
    ∃ path sub, requestPath rq = .ok (path, sub) ∧ splitPathInfo path = xs := by
  simp only [requestPath, h, ht]
  refine ⟨_, _, rfl, ?_⟩
  split
  · rename_i h0; subst h0; decide
  · exact (split_join_roundtrip xs hx).1

/-- The subpath handed back when the path is exhausted is the match dictionary's: a tuple as it is, a string
normalised, nothing when absent; without a match dictionary it is empty. -/
theorem matchdict_subpath (rq : Req) (path : Text) (sub : List Seg) (h : requestPath rq = .ok (path, sub)) :
    (rq.matchdict = none → sub = []) ∧
    (∀ md, rq.matchdict = some md →
      (md.subpath = none → sub = []) ∧ (∀ xs, md.subpath = some (.tup xs) → sub = xs) ∧
      (∀ s, md.subpath = some (.str s) → sub = splitPathInfo s)) := by
  simp only [requestPath] at h
  constructor
  · intro hm
    simp only [hm] at h
    split at h
    · cases h
    · simp only [Except.ok.injEq, Prod.mk.injEq] at h
      exact h.2.symm
  · intro md hm
    simp only [hm, Except.ok.injEq, Prod.mk.injEq] at h
    refine ⟨fun h0 => ?_, fun xs h0 => ?_, fun s h0 => ?_⟩ <;> simp only [h0] at h <;> exact h.2.symm

/-- A `PATH_INFO` that is not UTF-8 is refused with `URLDecodeError` (no match dictionary), and is not even
looked at when a route matched. -/
theorem undecodable_path_info (root : Tree) (rq : Req) (raw : Bytes) (h : rq.pathInfo = some raw)
    (hbad : utf8Dec raw = none) :
    (rq.matchdict = none → traverser root rq = .error .urlDecode) ∧
    (rq.matchdict ≠ none → ∀ raw', traverser root rq = traverser root { rq with pathInfo := raw' }) := by
  constructor
  · intro hm
    simp [traverser, requestPath, hm, h, decodePathInfo, hbad]
  · intro hm raw'
    cases hmd : rq.matchdict with
    | none => exact absurd hmd hm
    | some md => simp [traverser, requestPath, hmd]

/-! ### non-vacuity -/

/-- a three-level tree with a leaf; the hypotheses of the theorems above hold on it and the outcome is the
expected one (vroot `/a`, path `/b/leaf/x/y`: walk `a`,`b`,`leaf`, stop at `x` because the leaf has no item
lookup): `Walkable root (split v)` holds, the walk does not exhaust the path (`k ≠ segs.length`), the virtual
root is not empty — the F-C02a case of `traversed_vroot_partial` (one extra segment, `x`). -/
example :
    let leaf : Tree := .mk false []
    let root : Tree := .mk true [("a".toList, .mk true [("b".toList, .mk true [("leaf".toList, leaf)])])]
    let v := "/a".toList
    let p := "/b/leaf/x/y".toList
    Walkable root (splitPathInfo v) = true ∧
      deepest root (splitPathInfo v ++ splitPathInfo p) ≠ (splitPathInfo v ++ splitPathInfo p).length ∧
      splitPathInfo v ≠ [] ∧
      specText root (some v) p [] =
        { context := ["a".toList, "b".toList, "leaf".toList], viewName := "x".toList, subpath := ["y".toList],
          traversed := ["a".toList, "b".toList, "leaf".toList], virtualRoot := ["a".toList],
          virtualRootPath := ["a".toList] } ∧
      (traverseText root (some v) p []).traversed = ["a".toList, "b".toList, "leaf".toList, "x".toList] ∧
      Walkable root ["a".toList, "b".toList, "leaf".toList] = true ∧
      Walkable root ["a".toList, "b".toList, "leaf".toList, "x".toList] = false := by decide

/-- a virtual root that cannot be walked (`/zz` does not exist): `Walkable root (split v) = false` -/
example :
    let root : Tree := .mk true [("a".toList, .mk true [])]
    Walkable root (splitPathInfo "/zz/".toList) = false ∧
      (traverseText root (some "/zz/".toList) "/a".toList []).virtualRoot = [] ∧
      (traverseText root (some "/zz/".toList) "/a".toList []).viewName = "zz".toList := by decide

example : (∀ s ∈ ["a b".toList, "@@v".toList, "...".toList], Clean s ∧ '/' ∉ s) := by decide

example :
    let root : Tree := .mk true [("a".toList, .mk true [])]
    deepest root (splitPathInfo "/".toList ++ splitPathInfo "/a".toList) =
      (splitPathInfo "/".toList ++ splitPathInfo "/a".toList).length := by decide

end Pyr.Trav
