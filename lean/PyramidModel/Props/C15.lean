import PyramidModel.Lemmas.CacheWindow
import PyramidModel.Gen.C15
/-!
# C15 — view lookup does not depend on lookup history, caching or thread interleaving

Property theorems only.  Model: `Cache.lean` (a small-step machine: any number of lookup threads — one per
`_find_views` call — and one registrar, over shared adapter registrations and a heap of cache dicts);
spec: `scan r (cfg.slots q)` — the registered views of the query's slots in scan order, no cache, no history;
helper lemmas: `Lemmas/Cache.lean` (invariant), `Lemmas/CacheRun.lean` (frames, registrar, fresh threads),
`Lemmas/CacheEpoch.lean` (progress, two-epoch invariant), `Lemmas/CacheWindow.lean` (lookups overlapping a
non-atomic registration: monotone mixes); generated facts: `Gen/C15.lean` (`extract/c15.py`).

All statements hold for EVERY schedule (`List Lbl`, any length, any number of threads, any interleaving of
lookup steps, registrar steps and spawns), every application (`cfg`: scan orders of any length) and every
initial registration state.  The protocol the theorems are about is `sourceProto`, assembled from the facts the
translator extracts from the tree under test on every run (by probing its code); `source_protocol` (by `decide`) says it is the designed one.

What is NOT covered (level "partial" in the manifest): CPython's memory model, the GIL and zope's registry
locking are trusted — each modelled step is assumed atomic; one registrar at a time.
-/
namespace Pyr.Cache

/-! ## the protocol found in the source -/

/-- the protocol as `extract/c15.py` finds it in the working tree -/
def sourceProto : Proto :=
  ⟨Gen.C15.clears, Gen.C15.swapLast, Gen.C15.freshDict, Gen.C15.singleRead, Gen.C15.cacheEmpty⟩

/-- GENERATED OBLIGATION.  The tree under test behaves as the model assumes (facts extracted by `extract/c15.py` by
RUNNING its code on a finite probe domain — `_find_views` against a recording registry, a real `Registry`, a real
`Configurator` over seven kinds of view registration — so they survive behaviour-preserving refactorings): every
registration calls the cache clear, and as the last thing it does, after every adapter mutation (modify BEFORE
swap); the clear installs a NEW empty dict object, also when it is called the way a registration calls it (sentinel
entries under unrelated keys are gone after every kind of registration: no partial invalidation — seeded change
C15-5); `_find_views` reads `registry._view_lookup_cache` exactly once
per call and probes and writes that dict with the same key; a lookup that finds nothing writes nothing; the write
happens with `registry._lock` held; the probe precedes the adapter lookups, which are the SRO product × view types
read one by one; the list returned is the one cached; a list once returned or cached is never changed by a later
lookup of another key (probed over a chain of three request interfaces in all orders).  REMARK on aliasing: in the
model a cache entry is a VALUE (`List View` inside `Dict`), so two entries can never share structure and a write to
one key cannot change another — the model cannot express the aliasing defect of seeded change C15-3 (a cached list
spliced into while it is also stored under another key); that the implementation's entries behave like values is
this probed obligation plus the harness's at-rest check (every cached entry = cold scan, after every operation). -/
theorem source_protocol :
    Gen.C15.recognised = true ∧ sourceProto = Proto.good ∧ Gen.C15.writeUnderLock = true ∧
    Gen.C15.probeBeforeScan = true ∧ Gen.C15.scanInLoop = true ∧ Gen.C15.returnsLocal = true ∧
    Gen.C15.fallbackFreshDict = true ∧ Gen.C15.lockIsLock = true ∧ 0 < Gen.C15.registerViewCalls ∧
    Gen.C15.cachedValuesImmutable = true ∧ Gen.C15.clearDropsEverything = true ∧
    Gen.C15.scanReadsCurrentSRO = true := by decide

/-- GENERATED OBLIGATION.  The cache key determines the scan: every input of `_find_views` whose change alone changes
the adapter lookups (probed: classifier, view types, request interface, context interface, view name) is
distinguished by the cache key (probed: a second lookup differing only in it is not answered from the first one's
entry).  This is what makes `Cfg.KeyFaithful` — the hypothesis of every theorem below — true of the source.  (Until
commit fc67717 the key was `(request_iface, context_iface, view_name)` and this obligation was false: fixed finding
F-C15a, see `key_collision_witness`.)  Second conjunct (probed): the key is made of the RESOLUTION ORDERS of the two
specifications, not of the specification objects, which zope.interface updates in place — an entry cached before
what a class/object provides changed does not answer afterwards (until commit c18a9ea it did: fixed finding F-C15c,
see `interface_change_witness`). -/
theorem source_key_covers_scan : Gen.C15.keyCoversScan = true ∧ Gen.C15.keyTracksSRO = true := by decide

/-- GENERATED OBLIGATION.  `register_view` turns a single view into a multiview by registering the multiview under
`IMultiView` BEFORE it unregisters `IView` / `ISecuredView` (commit 7ef5d71; the old order is finding F-C15b,
`old_order_window_witness`), and `_find_views` scans `IMultiView` last within a triad. -/
theorem source_registers_multiview_first :
    Gen.C15.multiviewFirst = true ∧ Gen.C15.multiViewScannedLast = true := by decide

/-- GENERATED OBLIGATION (probed).  PROTOCOL FACT the whole model rests on: *what a lookup hands to the caller, and what
the caller's views answer, is a function of (registrations in force, request)* — in the model a view is an opaque
identity and `scan` reads nothing but `Regs`.  A `MultiView` is such a view with internals (its member lists,
content negotiation): those are C03's model, not this one.  What C15 needs of them is that they keep no state derived
from earlier REQUESTS: probed here (the same Accept header string before and after a member is added without accept /
with accept / replaced with the same phash, GET and POST, against a freshly built application; 20 vs 120 distinct
unmatched Accept headers leave the multiview's containers unchanged) and checked on the implementation by the harness
(responses vs a fresh application over multiview histories; a container census of everything reachable from the view
machinery after 50 vs 300 distinct odd requests must not grow).  Seeded change C15-4 (a per-multiview memo keyed on the
raw Accept header, not reset on every `add`) falsifies it. -/
theorem source_multiview_stateless : Gen.C15.multiviewStateless = true := by decide

/-! ### interfaces that change between two requests

REMARK.  `Cfg.slots q` — the scan order of a query — is what the request's and the context's interfaces give AT THE
MOMENT of the lookup; the model has no other access to interfaces, so *the view found depends on the registrations in
force and the interfaces provided at that moment only* is built in (`scan s.regs (cfg.slots q)`).  When an application
changes what a context class or instance provides between two requests (`classImplements`, `classImplementsOnly`,
`alsoProvides`, `noLongerProvides`, `directlyProvides`) the same `_find_views` arguments get another resolution order:
in the model the later lookup is ANOTHER query `q'` with `cfg.slots q' ≠ cfg.slots q`.  Since commit c18a9ea the cache
key consists of the two resolution orders (plus name, classifier, view types), i.e. of everything `cfg.slots` is
computed from, so `q'` has ANOTHER key and `Cfg.KeyFaithful` holds by construction for interface changes
(`source_key_covers_scan`, second conjunct; `scanReadsCurrentSRO` in `source_protocol` for the scan itself): every
theorem above applies to `q'` — warm or cold it returns `scan regs (cfg.slots q')` (`warm_eq_cold`,
`no_stale_entry_at_rest`).  Before c18a9ea the key was the pair of specification OBJECTS, `q` and `q'` shared it, and a
warm entry of `q` answered `q'` (finding F-C15c, fixed; second half of the witness below). -/

/-- REGRESSION THEOREM for F-C15c.  Queries 0 and 1: the same `_find_views` arguments before / after
`classImplements(Ctx, IFoo)`; the later scan order has the `IFoo` slot 7 in front.  With the key as it is NOW (the
resolution orders: `ck q = q`, `KeyFaithful`) query 1 returns its current scan `[70, 30]` also when query 0 was a warm
hit just before, and after a miss `[70]`.  With the key as it WAS (the specification objects: `ck _ = 0`) the warm case
was answered `[30]` from query 0's entry although the current scan is `[70, 30]`; after a miss or a clearing
registration it was right. -/
theorem interface_change_witness :
    let slots : Query → List Slot := fun q => if q = 0 then [3] else [7, 3]
    let now : Cfg := { ck := fun q => q, slots := slots }
    let was : Cfg := { ck := fun _ => 0, slots := slots }
    let miss : Regs := fun s => if s = 7 then some 70 else none
    let hit : Regs := fun s => if s = 7 then some 70 else if s = 3 then some 30 else none
    let two := [Lbl.spawn 0] ++ List.replicate 9 (.thread 0) ++ [.spawn 1] ++ List.replicate 9 (.thread 1)
    now.KeyFaithful ∧
    (let s := run Proto.good now (init hit) two
     result? s 0 = some [30] ∧ result? s 1 = some [70, 30] ∧ scan s.regs (now.slots 1) = [70, 30]) ∧
    (let s := run Proto.good now (init miss) two
     result? s 0 = some [] ∧ result? s 1 = some [70]) ∧
    (let s := run Proto.good was (init hit) two
     result? s 0 = some [30] ∧ result? s 1 = some [30] ∧ scan s.regs (was.slots 1) = [70, 30]) ∧
    (let s := run Proto.good was (init miss) two
     result? s 1 = some [70]) ∧
    (let s := run Proto.good was (init hit)
       ([.spawn 0] ++ List.replicate 9 (.thread 0) ++ atomicReg [] ++ [.spawn 1] ++ List.replicate 9 (.thread 1))
     result? s 1 = some [70, 30]) := by
  refine ⟨?_, by decide, by decide, by decide, by decide, by decide⟩
  intro q q' h
  simp only at h
  rw [h]

/-- the adapter mutations of a multiview conversion in the order the translator finds them in the source -/
def sourceConversionMods (sM sV sS : Slot) (mv : View) : Mods :=
  if Gen.C15.multiviewFirst then conversionMods sM sV sS mv else oldConversionMods sM sV sS mv

/-- states the machine can reach from an application start (any registrations, empty cache, no threads) under
the protocol found in the source -/
def Reachable (cfg : Cfg) (s : St) : Prop := ∃ r sched, s = run sourceProto cfg (init r) sched

theorem reachable_inv {cfg : Cfg} (hkf : cfg.KeyFaithful) {s : St} (hs : Reachable cfg s) : Inv cfg s := by
  obtain ⟨r, sched, rfl⟩ := hs
  rw [source_protocol.2.1]
  exact inv_run hkf sched (inv_init cfg r)

/-! ## coherence: nothing stale survives in the current dict once the registrar has finished -/

/-- **No stale entry at rest** (the heart of the property).  In every reachable state in which no registration
is pending, every entry of the CURRENT cache dict is exactly the spec scan of the CURRENT registrations — for
every schedule: lookups pre-empted anywhere, registrations made of any number of adapter mutations, any number
of earlier registrations and swaps. -/
theorem no_stale_entry_at_rest (cfg : Cfg) (hkf : cfg.KeyFaithful) (s : St) (hs : Reachable cfg s)
    (hb : s.busy = false) (q : Query) (v : List View) (h : (s.heap s.cur).get (cfg.ck q) = some v) :
    v = scan s.regs (cfg.slots q) :=
  (reachable_inv hkf hs).dictOk hb q v h

/-- **In-flight lookups are prefix-consistent.**  When no registration is pending, a lookup that holds a
reference to the current dict has scanned a prefix of its slots consistently with the current registrations;
a finished scan waiting for / holding the lock, and a returned result, are the spec scan. -/
theorem inflight_lookups_prefix_consistent (cfg : Cfg) (hkf : cfg.KeyFaithful) (s : St) (hs : Reachable cfg s)
    (hb : s.busy = false) (t : Thread) (ht : t ∈ s.threads) (hr : t.pc.ref? = some s.cur) :
    (∀ c i acc, t.pc = .scan c i acc → acc = scan s.regs ((cfg.slots t.q).take i)) ∧
    (∀ c acc, t.pc = .holding c acc ∨ t.pc = .written c acc ∨ t.pc = .done c acc →
        acc = scan s.regs (cfg.slots t.q)) := by
  have hp := (reachable_inv hkf hs).pcOk hb t ht hr
  constructor
  · intro c i acc hpc; simpa only [PcOk, hpc] using hp
  · intro c acc hpc
    rcases hpc with hpc | hpc | hpc <;> simpa only [PcOk, hpc] using hp

/-- a thread never holds a reference to a dict that does not exist yet (so a fresh dict starts unshared) -/
theorem references_are_allocated (cfg : Cfg) (hkf : cfg.KeyFaithful) (s : St) (hs : Reachable cfg s)
    (t : Thread) (ht : t ∈ s.threads) (c : Nat) (hr : t.pc.ref? = some c) : c ≤ s.cur :=
  (reachable_inv hkf hs).refs t ht c hr

/-! ## registrations take effect, and every lookup that starts afterwards sees them -/

/-- **The registrar's effect does not depend on what is interleaved with it**: from an idle state, `begin mods`
followed by ANY schedule without a finishing step (lookup steps of any threads, spawns, modify steps, spurious
labels) keeps the registrar busy, keeps the current dict, and the modifications still pending always lead to
the same target registrations `applyMods regs mods`. -/
theorem registration_takes_effect (cfg : Cfg) (s0 : St) (hb : s0.busy = false) (mods : Mods) (sched : List Lbl)
    (hnf : ∀ l ∈ sched, l.isFinish = false) :
    let s1 := run sourceProto cfg (step sourceProto cfg s0 (.begin mods)) sched
    s1.busy = true ∧ applyMods s1.regs s1.pending = applyMods s0.regs mods ∧ s1.cur = s0.cur := by
  rw [source_protocol.2.1]
  have hbeg : step Proto.good cfg s0 (.begin mods) = { s0 with busy := true, pending := mods } := by
    simp [step, hb, Proto.good]
  have := run_busy cfg sched (step Proto.good cfg s0 (.begin mods)) (by rw [hbeg]) hnf
  rw [hbeg] at this ⊢
  exact this

/-- **A lookup that starts after a registration has finished sees it.**  Take any reachable idle state `s0`, a
registration `mods` interleaved arbitrarily with lookups (`sched1`), its finishing step, and then any schedule
`sched2` in which no further registration begins.  A thread that had not yet read the cache reference when the
registration finished (`start`, or not even spawned) and has returned by the end returns exactly the spec scan
of the registrations that include the registration — whatever was cached before, whatever other threads do. -/
theorem lookup_after_registration_sees_it (cfg : Cfg) (hkf : cfg.KeyFaithful) (s0 : St) (hs : Reachable cfg s0)
    (hb : s0.busy = false) (mods : Mods) (sched1 sched2 : List Lbl)
    (hnf : ∀ l ∈ sched1, l.isFinish = false) (hnb : ∀ l ∈ sched2, l.isBegin = false) (tid : Nat)
    (s1 s2 s3 : St)
    (e1 : s1 = run sourceProto cfg (step sourceProto cfg s0 (.begin mods)) sched1)
    (e2 : s2 = step sourceProto cfg s1 .finish)
    (e3 : s3 = run sourceProto cfg s2 sched2)
    (hp : s1.pending = [])
    (hstart : ∀ t, s2.threads[tid]? = some t → t.pc = .start)
    (t : Thread) (c : Nat) (v : List View) (hget : s3.threads[tid]? = some t) (hpc : t.pc = .done c v) :
    v = scan (applyMods s0.regs mods) (cfg.slots t.q) ∧ s3.regs = applyMods s0.regs mods := by
  have hinv0 := reachable_inv hkf hs
  have h1 := registration_takes_effect cfg s0 hb mods sched1 hnf
  simp only at h1
  rw [← e1] at h1
  rw [source_protocol.2.1] at e1 e2 e3
  have hinv1 : Inv cfg s1 := by rw [e1]; exact inv_run hkf sched1 (inv_step hkf hinv0 _)
  have hregs1 : s1.regs = applyMods s0.regs mods := by
    have := h1.2.1; rw [hp] at this; simpa [applyMods] using this
  have hf := step_finish cfg s1 h1.1 hp
  rw [← e2] at hf
  have hinv2 : Inv cfg s2 := by rw [e2]; exact inv_step hkf hinv1 _
  have hq := run_quiet Proto.good cfg sched2 s2 hf.1 hnb
  have hfresh : FreshOk s2 tid s2.cur := fun t ht => Or.inl (hstart t ht)
  have hfr := freshOk_run Proto.good cfg tid sched2 s2 hf.1 hnb hfresh
  have hinv3 : Inv cfg s3 := by rw [e3]; exact inv_run hkf sched2 hinv2
  rw [← e3] at hq hfr
  have hc : t.pc.ref? = some s2.cur := by
    rcases hfr t hget with h | h
    · rw [hpc] at h; cases h
    · exact h
  have hp3 := hinv3.pcOk hq.2.2 t (List.mem_of_getElem? hget) (by rw [hq.2.1]; exact hc)
  simp only [PcOk, hpc] at hp3
  rw [hq.1, hf.2.1, hregs1] at hp3
  exact ⟨hp3, by rw [hq.1, hf.2.1, hregs1]⟩

/-! ## warm = cold, identical or different lookups before -/

/-- **Warm equals cold.**  From ANY reachable idle state — any lookup history, any cache contents, any number of
earlier registrations and swaps, other lookups parked anywhere — a lookup that runs without pre-emption
terminates and returns exactly the spec scan of the current registrations: what a lookup on a freshly built
application with the same registrations returns.  (`s.lock = none`: nobody is parked inside the critical
section; otherwise the lookup would wait for the lock.) -/
theorem warm_eq_cold (cfg : Cfg) (hkf : cfg.KeyFaithful) (s : St) (hs : Reachable cfg s) (hb : s.busy = false)
    (hl : s.lock = none) (q : Query) :
    result? (run sourceProto cfg s (soloLookup cfg s.threads.length q)) s.threads.length
      = some (scan s.regs (cfg.slots q)) := by
  have hinv := reachable_inv hkf hs
  rw [source_protocol.2.1]
  have hget : (step Proto.good cfg s (.spawn q)).threads[s.threads.length]? = some ⟨q, .start⟩ := by
    simp only [step]
    rw [List.getElem?_append_right (Nat.le_refl _)]; simp
  have hb' : (step Proto.good cfg s (.spawn q)).busy = false := hb
  have hl' : (step Proto.good cfg s (.spawn q)).lock = none := hl
  have hregs' : (step Proto.good cfg s (.spawn q)).regs = s.regs := rfl
  have hinv1 : Inv cfg (step Proto.good cfg s (.spawn q)) := inv_step hkf hinv _
  have hrun : run Proto.good cfg s (soloLookup cfg s.threads.length q)
      = run Proto.good cfg (step Proto.good cfg s (.spawn q))
          (List.replicate ((cfg.slots q).length + 5) (.thread s.threads.length)) := by
    simp [soloLookup, run]
  rw [hrun]
  generalize step Proto.good cfg s (.spawn q) = s' at *
  generalize s.threads.length = tid at *
  obtain ⟨t', ht', hfuel, hq'⟩ :=
    solo_run cfg tid ((cfg.slots q).length + 5) s' ⟨q, .start⟩ hget (fun _ => hl') (by simp [fuelOf])
  have hnb : ∀ l ∈ List.replicate ((cfg.slots q).length + 5) (Lbl.thread tid), l.isBegin = false := by
    intro l hl''; rw [(List.mem_replicate.mp hl'').2]; rfl
  have hquiet := run_quiet Proto.good cfg _ s' hb' hnb
  have hfresh : FreshOk s' tid s'.cur := by
    intro t ht; rw [hget] at ht; cases ht; exact Or.inl rfl
  have hfr := freshOk_run Proto.good cfg tid _ s' hb' hnb hfresh
  have hinv' := inv_run hkf (List.replicate ((cfg.slots q).length + 5) (Lbl.thread tid)) hinv1
  generalize run Proto.good cfg s' (List.replicate ((cfg.slots q).length + 5) (Lbl.thread tid)) = sf at *
  obtain ⟨c, v, hpc⟩ := done_of_fuel_zero cfg t' hfuel
  have hc : t'.pc.ref? = some s'.cur := by
    rcases hfr t' ht' with h | h
    · rw [hpc] at h; cases h
    · exact h
  have hp := hinv'.pcOk hquiet.2.2 t' (List.mem_of_getElem? ht') (by rw [hquiet.2.1]; exact hc)
  simp only [PcOk, hpc] at hp
  rw [hquiet.1, hregs'] at hp
  obtain ⟨tq, tpc⟩ := t'
  simp only at hpc hq' hp
  subst hpc
  subst hq'
  simp only [result?, ht']
  rw [hp]

/-! ## failed lookups never grow the cache -/

/-- **Misses are never cached.**  In every reachable state (busy or not): no dict holds an empty list.  When no
registration is pending: every key of the current dict is the cache key of a query whose spec scan is non-empty
(a key that HITS under the current registrations), keys are distinct, so the size of the current dict is at most
the number of distinct cache keys that hit — for any enumeration `hitKeys` of them — however many distinct
missing URLs were looked up before. -/
theorem misses_never_cached (cfg : Cfg) (hkf : cfg.KeyFaithful) (s : St) (hs : Reachable cfg s) :
    (∀ c k v, (s.heap c).get k = some v → v ≠ []) ∧
    (s.busy = false → ∀ k ∈ (s.heap s.cur).keys, ∃ q, cfg.ck q = k ∧ scan s.regs (cfg.slots q) ≠ []) ∧
    (s.busy = false → ∀ hitKeys : List Key, (∀ q, scan s.regs (cfg.slots q) ≠ [] → cfg.ck q ∈ hitKeys) →
        (s.heap s.cur).length ≤ hitKeys.length) := by
  have hinv := reachable_inv hkf hs
  have hkeys : s.busy = false → ∀ k ∈ (s.heap s.cur).keys, ∃ q, cfg.ck q = k ∧ scan s.regs (cfg.slots q) ≠ [] := by
    intro hb k hk
    obtain ⟨q, hq⟩ := hinv.keyOf s.cur k hk
    obtain ⟨v, hv⟩ := Dict.get_of_mem_keys hk
    refine ⟨q, hq, ?_⟩
    rw [← hq] at hv
    rw [← hinv.dictOk hb q v hv]
    exact hinv.nonempty _ _ _ hv
  refine ⟨hinv.nonempty, hkeys, ?_⟩
  intro hb hitKeys hhit
  rw [← Dict.length_keys]
  apply nodup_subset_length_le _ _ (hinv.nodup s.cur)
  intro k hk
  obtain ⟨q, hq, hne⟩ := hkeys hb k hk
  rw [← hq]; exact hhit q hne

/-- **A failed lookup never writes into the current dict**: when no registration is pending, no step of a thread
whose query misses under the current registrations changes the current dict — so miss-only traffic over any
number of distinct URLs leaves `len(registry._view_lookup_cache)` constant. -/
theorem miss_lookup_never_writes_current (cfg : Cfg) (hkf : cfg.KeyFaithful) (s : St) (hs : Reachable cfg s)
    (hb : s.busy = false) (tid : Nat) (t : Thread) (hget : s.threads[tid]? = some t)
    (hmiss : scan s.regs (cfg.slots t.q) = []) :
    (step sourceProto cfg s (.thread tid)).heap s.cur = s.heap s.cur := by
  rw [source_protocol.2.1]
  exact miss_step_keeps_current (reachable_inv hkf hs) hb tid t hget hmiss

/-! ## a whole registration injected at any internal step of in-progress lookups -/

/-- **Atomic injection.**  Take any reachable idle state `s0` (lookups in flight at arbitrary internal steps),
inject a WHOLE registration without pre-emption, then let any lookups run (`sched`: no further registration).
Then for every returned lookup:
* if it holds the NEW current dict (it read the reference after the injection) its result is the spec scan of the
  after-state;
* if it holds the dict that was current BEFORE the injection (it was in flight, or had finished earlier) its
  result is `scan before (take j slots) ++ scan after (drop j slots)` for some `j` — a prefix scanned before the
  injection, the rest after it (`j = |slots|`: the before-spec, `j = 0`: the after-spec; it may also have been
  probed from the old dict, into which only such lists were ever written);
* the current dict contains only after-state spec scans: a mixed list can be RETURNED to the in-flight request but
  is never CACHED where a later request can find it. -/
theorem atomic_injection_prefix_mix (cfg : Cfg) (hkf : cfg.KeyFaithful) (s0 : St) (hs : Reachable cfg s0)
    (hb : s0.busy = false) (mods : Mods) (sched : List Lbl) (hnb : ∀ l ∈ sched, l.isBegin = false)
    (s2 : St) (e2 : s2 = run sourceProto cfg (run sourceProto cfg s0 (atomicReg mods)) sched) :
    s2.regs = applyMods s0.regs mods ∧ s2.cur = s0.cur + 1 ∧ s2.busy = false ∧
    (∀ t ∈ s2.threads, ∀ c v, t.pc = .done c v →
      (c = s2.cur → v = scan s2.regs (cfg.slots t.q)) ∧
      (c = s0.cur → ∃ j, v = scan s0.regs ((cfg.slots t.q).take j) ++ scan s2.regs ((cfg.slots t.q).drop j))) ∧
    (∀ q v, (s2.heap s2.cur).get (cfg.ck q) = some v → v = scan s2.regs (cfg.slots q)) := by
  have hinv0 := reachable_inv hkf hs
  rw [source_protocol.2.1] at e2
  have ha := run_atomicReg cfg s0 mods hb
  have hi2 := inv2_after_atomicReg hinv0 hb mods
  have hinv1 : Inv cfg (run Proto.good cfg s0 (atomicReg mods)) := inv_run hkf _ hinv0
  simp only at ha
  generalize run Proto.good cfg s0 (atomicReg mods) = s1 at *
  obtain ⟨hb1, hr1, hc1, _, _, _, _⟩ := ha
  have hq := run_quiet Proto.good cfg sched s1 hb1 hnb
  have hinv2 : Inv cfg (run Proto.good cfg s1 sched) := inv_run hkf sched hinv1
  have hi2' := inv2_run hkf sched hi2 hb1 hnb
  rw [← e2] at hq hinv2 hi2'
  refine ⟨by rw [hq.1, hr1], by rw [hq.2.1, hc1], hq.2.2, ?_, ?_⟩
  · intro t ht c v hpc
    constructor
    · intro hc
      have hp := hinv2.pcOk hq.2.2 t ht (by rw [hpc]; simp [PC.ref?, hc])
      simpa only [PcOk, hpc] using hp
    · intro hc
      have hm := hi2'.thr t ht (by rw [hpc]; simp [PC.ref?, hc])
      simp only [MixOk, hpc] at hm
      obtain ⟨j, hj⟩ := hm
      exact ⟨j, by rw [hq.1, hr1]; exact hj⟩
  · intro q v hg
    exact hinv2.dictOk hq.2.2 q v hg

/-- **Linearisation, partial.**  In the situation of `atomic_injection_prefix_mix` (`s2` = the state after the injection and any further lookups): if the registration changes the
registrations at no more than one POSITION `p` of the lookup's scan order (a new view, a replacement of a view by
one of the same kind, any registration for another context/name), every returned lookup that holds the old or the
new dict returns the spec scan of the before-state or of the after-state — the lookup linearises before or after
the registration.

PARTIAL: this theorem is about ARBITRARY `mods` injected atomically; for those the one-position hypothesis cannot be
dropped (`mixed_result_witness`).  For the two shapes of registration `register_view` really performs the hypothesis
"atomic" IS dropped — the registrar may be pre-empted between any two adapter mutations:
`single_mutation_registration_linearises` (first registration, replacement: before- or after-scan, full) and
`multiview_conversion_window_partial` (conversion, register-first order: before-scan, after-scan or
`[…, old view, multiview, …]`; the last list is answered like before or after by `_call_view`, which is C03's model
and is checked here only on the implementation).  With the OLD order of the conversion a lookup inside the
registration saw a state no single-threaded run has (`old_order_window_witness`, F-C15b, fixed by 7ef5d71). -/
theorem concurrent_lookup_linearises_partial (cfg : Cfg) (hkf : cfg.KeyFaithful) (s0 : St) (hs : Reachable cfg s0)
    (hb : s0.busy = false) (mods : Mods) (sched : List Lbl) (hnb : ∀ l ∈ sched, l.isBegin = false)
    (s2 : St) (e2 : s2 = run sourceProto cfg (run sourceProto cfg s0 (atomicReg mods)) sched)
    (t : Thread) (c : Nat) (v : List View) (p : Nat)
    (ht : t ∈ s2.threads) (hpc : t.pc = .done c v) (hc : c = s0.cur ∨ c = s2.cur)
    (hagree : ∀ i x, (cfg.slots t.q)[i]? = some x → i ≠ p → s0.regs x = applyMods s0.regs mods x) :
    v = scan s0.regs (cfg.slots t.q) ∨ v = scan (applyMods s0.regs mods) (cfg.slots t.q) := by
  obtain ⟨hr, _, _, hthr, _⟩ := atomic_injection_prefix_mix cfg hkf s0 hs hb mods sched hnb s2 e2
  have h := hthr t ht c v hpc
  rcases hc with hc | hc
  · obtain ⟨j, hj⟩ := h.2 hc
    rw [hr] at hj
    exact mix_linearises s0.regs (applyMods s0.regs mods) (cfg.slots t.q) p hagree v ⟨j, hj⟩
  · right
    have := h.1 hc
    rw [hr] at this
    exact this

/-! ## lookups that overlap a registration which is NOT atomic (the registrar pre-empted anywhere) -/

/-- **Monotone mix.**  From any reachable idle state let a registration `mods` begin and let ANYTHING be
interleaved (lookup steps, spawns, the registrar's own modify steps one at a time, its finish, more lookups — no
second registration).  Every returned lookup that holds the dict that was current when the registration began read
slot `j` of its scan order from the registrations after the first `kⱼ` adapter mutations, with `k₁ ≤ k₂ ≤ …`
(`MM`, Lemmas/CacheWindow.lean): it never sees a later mutation without all earlier ones at later slots. -/
theorem registrar_window_monotone_mix (cfg : Cfg) (hkf : cfg.KeyFaithful) (s0 : St) (hs : Reachable cfg s0)
    (hb : s0.busy = false) (mods : Mods) (sched : List Lbl) (hnb : ∀ l ∈ sched, l.isBegin = false)
    (s : St) (e : s = run sourceProto cfg (step sourceProto cfg s0 (.begin mods)) sched)
    (t : Thread) (ht : t ∈ s.threads) (c : Nat) (v : List View) (hpc : t.pc = .done c v) (hc : c = s0.cur) :
    ∃ k, MM s0.regs mods (cfg.slots t.q) k v := by
  have hinv0 := reachable_inv hkf hs
  rw [source_protocol.2.1] at e
  obtain ⟨k, _, h3⟩ := inv3_run hkf sched (inv3_after_begin hinv0 hb mods) hnb
  rw [← e] at h3
  have := h3.thr t ht (by rw [hpc]; simp [PC.ref?, hc])
  simp only [MMOk, hpc] at this
  obtain ⟨k', _, hmm⟩ := this
  exact ⟨k', hmm⟩

/-- **A registration of ONE adapter mutation linearises** (the first registration of a view and the replacement of
a view — the `not want_multiview` branch of `register_view`): under any interleaving, every lookup holding the
window's dict returns the before-scan or the after-scan.  (`Nodup`: a scan order never repeats a slot — it is a
product of resolution orders.) -/
theorem single_mutation_registration_linearises (cfg : Cfg) (hkf : cfg.KeyFaithful) (s0 : St) (hs : Reachable cfg s0)
    (hb : s0.busy = false) (sl : Slot) (w : Option View) (sched : List Lbl) (hnb : ∀ l ∈ sched, l.isBegin = false)
    (s : St) (e : s = run sourceProto cfg (step sourceProto cfg s0 (.begin [(sl, w)])) sched)
    (t : Thread) (ht : t ∈ s.threads) (c : Nat) (v : List View) (hpc : t.pc = .done c v) (hc : c = s0.cur)
    (hnd : (cfg.slots t.q).Nodup) :
    v = scan s0.regs (cfg.slots t.q) ∨ v = scan (applyMods s0.regs [(sl, w)]) (cfg.slots t.q) := by
  obtain ⟨k, hmm⟩ := registrar_window_monotone_mix cfg hkf s0 hs hb _ sched hnb s e t ht c v hpc hc
  exact (MM_single s0.regs sl w hmm hnd).2

/-- **The multiview conversion never exposes an empty triad — partial.**  `sM`, `sV`, `sS` = the `IMultiView`, `IView`,
`ISecuredView` slots of one (classifier, request type, context type, name) triad; at most one single view is
registered before; the scan order does not repeat slots and scans no single slot after `sM`
(`source_registers_multiview_first`).  With the conversion's adapter mutations in the order found in the source,
under ANY interleaving (the registrar pre-empted between any two mutations, lookups starting, pausing and finishing
anywhere), every lookup holding the window's dict returns
* the before-scan, or
* the after-scan, or
* the scan of the state in which BOTH are registered: the before-list with the multiview inserted at the `IMultiView`
  slot, i.e. right after the old view (`both_scan_is_before_plus_multiview`) — `[…, old view, multiview, …]`.
In particular the triad is never seen empty: no less specific view and no 404 can answer in its place.

PARTIAL: the third list is not the list of a single-threaded run.  Its first callable for the triad is the
before-state's old view, so a request the old view answers gets the before-state response; if the old view's
predicates do not match, `_call_view` moves on to the multiview, which is the after-state's answer for that triad.
That last step is C03's model (view calling), not proved here; the harness checks the response against
before/after on every pre-empted case. -/
theorem multiview_conversion_window_partial (cfg : Cfg) (hkf : cfg.KeyFaithful) (s0 : St) (hs : Reachable cfg s0)
    (hb : s0.busy = false) (sM sV sS : Slot) (mv : View) (hMV : sM ≠ sV) (hMS : sM ≠ sS)
    (hone : s0.regs sV = none ∨ s0.regs sS = none)
    (sched : List Lbl) (hnb : ∀ l ∈ sched, l.isBegin = false)
    (s : St) (e : s = run sourceProto cfg (step sourceProto cfg s0 (.begin (sourceConversionMods sM sV sS mv))) sched)
    (t : Thread) (ht : t ∈ s.threads) (c : Nat) (v : List View) (hpc : t.pc = .done c v) (hc : c = s0.cur)
    (hnd : (cfg.slots t.q).Nodup)
    (hord : (cfg.slots t.q).Pairwise (fun a b => a = sM → b ≠ sV ∧ b ≠ sS)) :
    v = scan s0.regs (cfg.slots t.q) ∨ v = scan (bothRegs s0.regs sM mv) (cfg.slots t.q) ∨
      v = scan (applyMods s0.regs (sourceConversionMods sM sV sS mv)) (cfg.slots t.q) := by
  have hsrc : sourceConversionMods sM sV sS mv = conversionMods sM sV sS mv := by
    simp [sourceConversionMods, source_registers_multiview_first.1]
  rw [hsrc] at e ⊢
  obtain ⟨k, hmm⟩ := registrar_window_monotone_mix cfg hkf s0 hs hb _ sched hnb s e t ht c v hpc hc
  exact MM_conv_three s0.regs sM sV sS mv hMV hMS hone hmm hnd hord

/-- what the "both registered" list is: the before-list with the multiview inserted at the place of the
`IMultiView` slot — everything the before-state finds earlier in the scan order (the old single view of the triad
included) keeps its place in front of it. -/
theorem both_scan_is_before_plus_multiview (r0 : Regs) (sM : Slot) (mv : View) (pre post : List Slot)
    (h0 : r0 sM = none) (h1 : sM ∉ pre) (h2 : sM ∉ post) :
    scan (bothRegs r0 sM mv) (pre ++ sM :: post) = scan r0 pre ++ mv :: scan r0 post ∧
    scan r0 (pre ++ sM :: post) = scan r0 pre ++ scan r0 post := by
  have hpre : scan (bothRegs r0 sM mv) pre = scan r0 pre :=
    scan_congr _ _ _ (fun y hy => setReg_ne r0 sM y _ (fun e => h1 (e ▸ hy)))
  have hpost : scan (bothRegs r0 sM mv) post = scan r0 post :=
    scan_congr _ _ _ (fun y hy => setReg_ne r0 sM y _ (fun e => h2 (e ▸ hy)))
  constructor
  · rw [scan_append, hpre]
    simp only [scan, List.filterMap_cons, bothRegs, setReg_self]
    simp only [scan, bothRegs] at hpost
    rw [hpost]
  · rw [scan_append]
    simp only [scan, List.filterMap_cons, h0]

/-! ## concrete witnesses (`decide`): non-vacuity, necessity of every generated fact, the findings -/

/-- an application with one query scanning slots 0,1,2,3; slot 0 ↦ view 10 and slot 3 ↦ view 13 registered -/
def wCfg : Cfg := { ck := fun q => q, slots := fun _ => [0, 1, 2, 3] }
def wRegs : Regs := fun s => if s = 0 then some 10 else if s = 3 then some 13 else none

example : wCfg.KeyFaithful := by intro q q' h; rfl

/-- a complete lookup of thread `tid` without pre-emption (4 slots: at most 9 steps) -/
def wLookup (tid : Nat) : List Lbl := List.replicate 9 (.thread tid)

/-- a schedule with a registration landing in the middle of a lookup, a warm hit and a cold scan afterwards -/
def wSched : List Lbl :=
  [.spawn 0, .thread 0, .thread 0, .thread 0] ++ atomicReg [(0, some 20)] ++ wLookup 0 ++
  [.spawn 0] ++ wLookup 1 ++ [.spawn 0] ++ wLookup 2

/-- non-vacuity: the reachable idle state after `wSched` has a non-empty current dict, a stale-looking mixed
history, and the theorems' conclusions are visibly non-trivial there: the in-flight lookup returned the BEFORE
scan `[10, 13]` into the old dict, the two later lookups return the AFTER scan `[20, 13]` (cold, then warm). -/
example :
    let s := run Proto.good wCfg (init wRegs) wSched
    s.busy = false ∧ s.cur = 1 ∧ result? s 0 = some [10, 13] ∧ result? s 1 = some [20, 13] ∧
    result? s 2 = some [20, 13] ∧ (s.heap 1).get 0 = some [20, 13] ∧ (s.heap 0).get 0 = some [10, 13] ∧
    scan s.regs (wCfg.slots 0) = [20, 13] := by decide

/-- **Mixed result** (what `concurrent_lookup_linearises_partial` excludes).  Slot 0 = the context's IView, slot 2 =
its IMultiView.  A multiview conversion `[unregister 0, register 2 ↦ 25]` injected after the lookup scanned slot 0
makes it return `[10, 25, 13]` — neither the before-scan `[10, 13]` nor the after-scan `[25, 13]`.  The list goes
into the OLD dict (address 0); the current dict (address 1) stays empty, and the next lookup returns the
after-scan. -/
theorem mixed_result_witness :
    let mods : Mods := [(0, none), (2, some 25)]
    let s := run Proto.good wCfg (init wRegs)
      ([.spawn 0, .thread 0, .thread 0, .thread 0] ++ atomicReg mods ++ wLookup 0 ++ [.spawn 0] ++ wLookup 1)
    result? s 0 = some [10, 25, 13] ∧ scan wRegs (wCfg.slots 0) = [10, 13] ∧
    scan (applyMods wRegs mods) (wCfg.slots 0) = [25, 13] ∧
    (s.heap 0).get 0 = some [10, 25, 13] ∧ s.cur = 1 ∧ result? s 1 = some [25, 13] ∧
    (s.heap s.cur).get 0 = some [25, 13] := by decide

/-- **Regression fact about the OLD step order** (finding F-C15b, FIXED by 7ef5d71; the witness is replayed on the
implementation, where it now passes).  Slots 0,1,2 = IView/ISecuredView/IMultiView of context class B, slot 3 =
IView of its base class A.  With the conversion in the old order `[unregister 0, unregister 1, register 2 ↦ 25]` a
lookup that runs entirely between the first and the last adapter mutation returns `[13]` — the base class's view
alone: neither the before-scan `[10, 13]` nor the after-scan `[25, 13]`; the view that answers is the wrong one.
This is why `source_registers_multiview_first` is needed. -/
theorem old_order_window_witness :
    let mods : Mods := oldConversionMods 2 0 1 25
    let s := run Proto.good wCfg (init wRegs)
      ([.begin mods, .modify, .spawn 0] ++ wLookup 0 ++ [.modify, .modify, .finish, .spawn 0] ++ wLookup 1)
    result? s 0 = some [13] ∧ scan wRegs (wCfg.slots 0) = [10, 13] ∧
    scan (applyMods wRegs mods) (wCfg.slots 0) = [25, 13] ∧
    (s.heap 0).get 0 = some [13] ∧ s.busy = false ∧ s.cur = 1 ∧ result? s 1 = some [25, 13] := by decide

/-- … and with the order as it is now the same schedule, and the schedules pre-empting the registrar after each of its
mutations, return `[10, 25, 13]` (old view first, then the multiview) or the after-scan — non-vacuity of
`multiview_conversion_window_partial` (distinct slots, one single view registered, `IMultiView` scanned last). -/
example :
    let mods : Mods := conversionMods 2 0 1 25
    (let s := run Proto.good wCfg (init wRegs) ([.begin mods, .modify, .spawn 0] ++ wLookup 0 ++ [.modify, .modify, .finish])
     result? s 0 = some [10, 25, 13] ∧ scan (bothRegs wRegs 2 25) (wCfg.slots 0) = [10, 25, 13]) ∧
    (let s := run Proto.good wCfg (init wRegs) ([.begin mods, .modify, .modify, .spawn 0] ++ wLookup 0 ++ [.modify, .finish])
     result? s 0 = some [25, 13]) ∧
    (let s := run Proto.good wCfg (init wRegs) ([.begin mods, .spawn 0] ++ wLookup 0 ++ [.modify, .modify, .modify, .finish])
     result? s 0 = some [10, 13]) ∧
    wRegs 1 = none ∧ (wCfg.slots 0).Nodup ∧
    (wCfg.slots 0).Pairwise (fun a b => a = 2 → b ≠ 0 ∧ b ≠ 1) := by decide

/-- an application whose cache key forgets part of the query: queries 0 (an ordinary view lookup) and 1 (an
exception view lookup for the same request/context interfaces and name) share cache key 0 but scan different
slots (classifier `IViewClassifier` vs `IExceptionViewClassifier`) — `_find_views` before commit fc67717 -/
def cCfg : Cfg := { ck := fun _ => 0, slots := fun q => if q = 0 then [0] else [1] }
def cRegs : Regs := fun s => if s = 0 then some 10 else if s = 1 then some 11 else none

/-- **The key must cover the scan inputs** (necessity of `source_key_covers_scan` / `Cfg.KeyFaithful`; this was
finding F-C15a, FIXED by fc67717, kept as a regression witness and replayed on the implementation): with a cache
key that omits the classifier, lookup 1 after lookup 0 returns `[10]` from the warm cache although the spec scan
of its own slots is `[11]` — the result depends on which lookup happened before.  Cold, it returns `[11]`. -/
theorem key_collision_witness :
    ¬ cCfg.KeyFaithful ∧
    (let s := run Proto.good cCfg (init cRegs) ([.spawn 0] ++ wLookup 0 ++ [.spawn 1] ++ wLookup 1)
     result? s 1 = some [10] ∧ scan s.regs (cCfg.slots 1) = [11] ∧ s.busy = false) ∧
    (let s := run Proto.good cCfg (init cRegs) ([.spawn 1] ++ wLookup 0)
     result? s 0 = some [11]) := by
  refine ⟨?_, by decide, by decide⟩
  intro h
  have := h 0 1 rfl
  simp [cCfg] at this

/-! ### every generated fact is necessary: with any one of them changed a stale entry survives / a miss is cached -/

/-- swap BEFORE modify (`_clear_view_lookup_cache()` moved before `register_view`): a lookup between the swap and
the modification fills the NEW dict with the old registrations; at rest the current dict is stale. -/
theorem needs_modify_before_swap :
    let s := run { Proto.good with swapLast := false } wCfg (init wRegs)
      ([.begin [(0, some 20)], .spawn 0] ++ wLookup 0 ++ [.modify, .finish])
    s.busy = false ∧ (s.heap s.cur).get 0 = some [10, 13] ∧ scan s.regs (wCfg.slots 0) = [20, 13] := by decide

/-- no clear at all: a warm entry survives the registration. -/
theorem needs_clear :
    let s := run { Proto.good with clears := false } wCfg (init wRegs)
      ([.spawn 0] ++ wLookup 0 ++ atomicReg [(0, some 20)])
    s.busy = false ∧ (s.heap s.cur).get 0 = some [10, 13] ∧ scan s.regs (wCfg.slots 0) = [20, 13] := by decide

/-- clearing the dict in place instead of swapping in a new one: an in-flight lookup writes its stale list into
the (same, emptied) current dict. -/
theorem needs_fresh_dict :
    let s := run { Proto.good with freshDict := false } wCfg (init wRegs)
      ([.spawn 0, .thread 0, .thread 0, .thread 0] ++ atomicReg [(0, some 20)] ++ wLookup 0)
    s.busy = false ∧ (s.heap s.cur).get 0 = some [10, 13] ∧ scan s.regs (wCfg.slots 0) = [20, 13] := by decide

/-- re-reading `registry._view_lookup_cache` at write time: an in-flight lookup writes its stale list into the NEW
current dict. -/
theorem needs_single_read :
    let s := run { Proto.good with singleRead := false } wCfg (init wRegs)
      ([.spawn 0, .thread 0, .thread 0, .thread 0] ++ atomicReg [(0, some 20)] ++ wLookup 0)
    s.busy = false ∧ (s.heap s.cur).get 0 = some [10, 13] ∧ scan s.regs (wCfg.slots 0) = [20, 13] := by decide

/-- writing without the `if views:` guard: a miss is cached (the dict grows with every distinct missing URL). -/
theorem needs_hit_guard :
    let s := run { Proto.good with cacheEmpty := true } wCfg (init (fun _ => none)) ([.spawn 0] ++ wLookup 0)
    (s.heap s.cur).get 0 = some [] ∧ (s.heap s.cur).length = 1 := by decide

/-- … and with the protocol as designed the same schedules leave a coherent cache (so the five witnesses above are
about the changed fact, not about the schedule). -/
example :
    (let s := run Proto.good wCfg (init wRegs) ([.begin [(0, some 20)], .spawn 0] ++ wLookup 0 ++ [.modify, .finish])
     (s.heap s.cur).get 0 = none) ∧
    (let s := run Proto.good wCfg (init wRegs) ([.spawn 0] ++ wLookup 0 ++ atomicReg [(0, some 20)])
     (s.heap s.cur).get 0 = none) ∧
    (let s := run Proto.good wCfg (init wRegs)
       ([.spawn 0, .thread 0, .thread 0, .thread 0] ++ atomicReg [(0, some 20)] ++ wLookup 0)
     (s.heap s.cur).get 0 = none ∧ (s.heap 0).get 0 = some [10, 13]) ∧
    (let s := run Proto.good wCfg (init (fun _ => none)) ([.spawn 0] ++ wLookup 0)
     (s.heap s.cur).length = 0 ∧ result? s 0 = some []) := by decide

end Pyr.Cache
