import PyramidModel.Lemmas.ExcViewRefine
import PyramidModel.Gen.C14Probe
/-!
# C14 — an exception in request handling is rendered by the most specific exception view

Property theorems only.  Model: `ExcView.lean` (statements → registrations under the two classifiers, `handler`,
`excview_tween` / `_error_handler`, `invoke_exception_view` with `hide_attrs`) on top of C03's `ViewLookup.lean`;
declarative reading: `Lemmas/ExcViewSpec.lean` (`specHandler`, `excWinner`, `specRender`, `expected`) on top of C03's
`candidates` / `expectedView`; helper lemmas: `Lemmas/ExcViewDict.lean`, `Lemmas/ExcViewRefine.lean`; C03's property
theorem `lookup_eq_spec` is used through `Props/C03.lean`.

All statements quantify over statement lists of any length in any order, any exception (its resolution order is data:
single / multiple inheritance, HTTP exceptions, `PredicateMismatch` all included), any raising site, any request record,
any prior attribute dictionary.  Hypotheses: `Coherent` (C03's: statements of one slot with the same predicates agree on
order / accept / protectedness) and `World.ok` (`HTTPNotFound` and `PredicateMismatch` instances are `HTTPNotFound`s,
`HTTPForbidden` is not).  Outside the model (see notes/C14.md): view bodies that raise `PredicateMismatch` instances
(finding F-C14c); the lookup cache is C15's subject (its key once omitted the classifier: F-C14b, repaired by fc67717).
-/
namespace Pyr.ExcView
open Pyr.ViewLookup
set_option linter.unusedSimpArgs false

/-! ## the central refinement -/

/-- **The excview tween does exactly what the declarative reading says**, for every statement list, site, request,
exception and prior attributes: the outcome (which response, or which exception object propagates), what the exception
view saw, and how every request attribute reads afterwards. -/
theorem excview_eq_spec (w : World) (stmts : List Stmt) (site : Site) (r : Request) (comb : List Nat) (ctxObj : Nat)
    (d : Dict) (hc : Coherent (allRegs w.sec stmts)) (hw : w.ok = true) :
    (excviewTween w stmts site r comb ctxObj d).outcome = (expected w stmts site r comb ctxObj d).outcome ∧
    (excviewTween w stmts site r comb ctxObj d).seen = (expected w stmts site r comb ctxObj d).seen ∧
    ∀ k, dget (excviewTween w stmts site r comb ctxObj d).attrs k = (expected w stmts site r comb ctxObj d).attr k := by
  simp only [excviewTween, expected, handler_eq_spec w stmts site r ctxObj hc]
  cases specHandler w stmts site r ctxObj with
  | ok resp => exact ⟨rfl, rfl, fun _ => rfl⟩
  | error e => exact errorHandler_spec w stmts r e comb d hc hw

/-- what the tween catches is what the handler raised (read off C03's spec of the main lookup): the exception of an early
site, or `HTTPNotFound` / `PredicateMismatch` / `HTTPForbidden` / the exception the chosen view's body raised -/
theorem caught_is_what_the_handler_raised (w : World) (stmts : List Stmt) (site : Site) (r : Request) (comb : List Nat)
    (ctxObj : Nat) (d : Dict) (hc : Coherent (allRegs w.sec stmts)) :
    (excviewTween w stmts site r comb ctxObj d).caught =
      match specHandler w stmts site r ctxObj with
      | .ok _ => none
      | .error e => some e := by
  simp only [excviewTween, handler_eq_spec w stmts site r ctxObj hc]
  cases specHandler w stmts site r ctxObj <;> rfl

/-- rendering of a caught exception, stated on the tween: if the tween caught `e`, its result is the declarative
rendering of `e` -/
theorem tween_renders_caught (w : World) (stmts : List Stmt) (site : Site) (r : Request) (comb : List Nat) (ctxObj : Nat)
    (d : Dict) (e : Exc) (hc : Coherent (allRegs w.sec stmts)) (hw : w.ok = true)
    (hcaught : (excviewTween w stmts site r comb ctxObj d).caught = some e) :
    (excviewTween w stmts site r comb ctxObj d).outcome = (specRender w stmts r e comb d).outcome ∧
    (excviewTween w stmts site r comb ctxObj d).seen = (specRender w stmts r e comb d).seen ∧
    ∀ k, dget (excviewTween w stmts site r comb ctxObj d).attrs k = (specRender w stmts r e comb d).attr k := by
  have h := excview_eq_spec w stmts site r comb ctxObj d hc hw
  rw [caught_is_what_the_handler_raised w stmts site r comb ctxObj d hc] at hcaught
  simp only [expected] at h
  cases hs : specHandler w stmts site r ctxObj with
  | ok resp => rw [hs] at hcaught; simp at hcaught
  | error e' =>
    rw [hs] at hcaught h
    simp only [Option.some.injEq] at hcaught
    subst hcaught
    exact h

/-! ## which exception view answers -/

/-- **The first qualifying candidate answers** (`_partial`: unless it is protected and refused, see
`protected_exception_view_refusal_propagates`): when the tween caught `e`, and `v` is the first — in the order
(request-interface order of `request_iface.combined`: route-bound before global; the exception's resolution order:
nearest class first; C03's order inside a slot) — exception view in force whose predicates all hold, and its body answers,
the response is the one produced by `v`'s body. -/
theorem excview_most_specific_partial (w : World) (stmts : List Stmt) (site : Site) (r : Request) (comb : List Nat)
    (ctxObj : Nat) (d : Dict) (e : Exc) (v : DView) (hc : Coherent (allRegs w.sec stmts)) (hw : w.ok = true)
    (hcaught : (excviewTween w stmts site r comb ctxObj d).caught = some e)
    (hwin : excWinner w stmts r e comb = some v) (hperm : (v.secured && !r.permitted) = false)
    (hbody : bodyOf stmts v.tag = .respond) :
    (excviewTween w stmts site r comb ctxObj d).outcome = .ok (.view v.tag) := by
  rw [(tween_renders_caught w stmts site r comb ctxObj d e hc hw hcaught).1]
  simp [specRender, hwin, hperm, hbody]

/-- the winner is a registered exception view: registered under the exception classifier with the empty view name, for a
request interface on the combined order and a class / interface on the exception's resolution order, predicates true -/
theorem winner_is_a_registered_exception_view (w : World) (stmts : List Stmt) (r : Request) (e : Exc) (comb : List Nat)
    (v : DView) (hwin : excWinner w stmts r e comb = some v) :
    ∃ reg ∈ allRegs w.sec stmts, v = derive reg ∧ reg.classifier = clsExc ∧ reg.name = "" ∧
      reg.reqIface ∈ comb ∧ reg.ctxIface ∈ e.sro ∧ v.holds (excRequest r e comb) = true := by
  have hwin' : (candidates (allRegs w.sec stmts) clsExc (excRequest r e comb)).find?
      (fun x => x.holds (excRequest r e comb)) = some v := hwin
  have hmem := List.mem_of_find?_eq_some hwin'
  have hh := List.find?_some hwin'
  obtain ⟨reg, hreg, hv, h1, h2, h3, h4⟩ := mem_candidates _ _ _ _ hmem
  exact ⟨reg, hreg, hv, h1, h2, h3, h4, hh⟩

/-- **Route-bound before global**: with `request_iface.combined`'s order `A ++ B`, every competing exception view of the
interfaces in `A` (the route's) stands before every one of the interfaces in `B` (`IRequest`: the global ones). -/
theorem exception_candidates_route_bound_first (regs : List ViewReg) (r : Request) (e : Exc) (A B : List Nat) :
    candidates regs clsExc (excRequest r e (A ++ B)) =
      candidatesOn regs clsExc (excRequest r e (A ++ B)) A e.sro ++
      candidatesOn regs clsExc (excRequest r e (A ++ B)) B e.sro :=
  candidates_request_order regs clsExc (excRequest r e (A ++ B)) A B rfl

/-- **Nearest class first**: for one request interface the competing exception views follow the exception's class
resolution order. -/
theorem exception_candidates_nearest_class_first (regs : List ViewReg) (r' : Request) (q : Nat) (C D : List Nat) :
    candidatesOn regs clsExc r' [q] (C ++ D) = candidatesOn regs clsExc r' [q] C ++ candidatesOn regs clsExc r' [q] D :=
  candidates_context_order regs clsExc r' q C D

/-- **Most specific wins.**  If an exception view in force for the slot (request interface `q`, class `c`) qualifies,
where the combined request-interface order is `A ++ q :: B` and the exception's resolution order is `C ++ c :: D`, then an
exception view answers and it is one registered for an interface of `A` (earlier: route-bound before global), or for `q`
and a class of `C` (nearer in the resolution order), or for the very slot `(q, c)` — never a less specific one. -/
theorem most_specific_exception_view_wins (w : World) (stmts : List Stmt) (r : Request) (e : Exc) (comb : List Nat)
    (A B C D : List Nat) (q c : Nat) (hq : comb = A ++ q :: B) (hs : e.sro = C ++ c :: D) (reg : ViewReg)
    (hin : derive reg ∈ inForce (slotRegs (allRegs w.sec stmts) ⟨clsExc, q, c, ""⟩))
    (hh : (derive reg).holds (excRequest r e comb) = true) :
    ∃ v, excWinner w stmts r e comb = some v ∧
      ((∃ q' ∈ A, ∃ c' ∈ e.sro, v ∈ slotCands (allRegs w.sec stmts) clsExc (excRequest r e comb) q' c') ∨
       (∃ c' ∈ C, v ∈ slotCands (allRegs w.sec stmts) clsExc (excRequest r e comb) q c') ∨
       v ∈ slotCands (allRegs w.sec stmts) clsExc (excRequest r e comb) q c) := by
  have hsplit := candidates_split (allRegs w.sec stmts) clsExc (excRequest r e comb) A B C D q c hq hs
  have hslot : derive reg ∈ slotCands (allRegs w.sec stmts) clsExc (excRequest r e comb) q c := by
    simp only [slotCands]
    rw [mem_slotCandidates_iff]
    refine ⟨hin, ?_⟩
    cases ha : (derive reg).accept with
    | none => exact Or.inr (Or.inl rfl)
    | some o => exact Or.inr (Or.inr ⟨o, rfl, derive_accept_coherent reg _ o ha hh⟩)
  obtain ⟨v, hv, hvmem⟩ := find?_in_prefix (fun x => x.holds (excRequest r e comb)) _
    (candidatesOn (allRegs w.sec stmts) clsExc (excRequest r e comb) [q] D ++
      candidatesOn (allRegs w.sec stmts) clsExc (excRequest r e comb) B (excRequest r e comb).ctxSro)
    (derive reg) (List.mem_append_right _ hslot) hh
  refine ⟨v, ?_, ?_⟩
  · simp only [excWinner]; rw [hsplit]; exact hv
  · rcases List.mem_append.mp hvmem with h | h
    · rcases List.mem_append.mp h with h | h
      · obtain ⟨q', hq', c', hc', hx⟩ := mem_candidatesOn _ _ _ _ _ _ h
        exact Or.inl ⟨q', hq', c', hc', hx⟩
      · obtain ⟨q', hq', c', hc', hx⟩ := mem_candidatesOn _ _ _ _ _ _ h
        simp only [List.mem_singleton] at hq'
        subst hq'
        exact Or.inr (Or.inl ⟨c', hc', hx⟩)
    · exact Or.inr (Or.inr h)

/-- **Predicates honoured**: no exception view applies exactly when every competing exception view fails a predicate. -/
theorem no_winner_iff_no_candidate_qualifies (w : World) (stmts : List Stmt) (r : Request) (e : Exc) (comb : List Nat) :
    excWinner w stmts r e comb = none ↔
      ∀ v ∈ candidates (allRegs w.sec stmts) clsExc (excRequest r e comb), v.holds (excRequest r e comb) = false := by
  simp only [excWinner, List.find?_eq_none]
  constructor
  · intro h v hv; simpa using h v hv
  · intro h v hv; simp [h v hv]

/-! ## what the view sees, what stays on the request -/

/-- **The exception view sees the exception** as its context, as `request.exception` and in `request.exc_info`; the
`response` attribute is hidden from it (a fresh one is made on demand). -/
theorem view_sees_exception (w : World) (stmts : List Stmt) (site : Site) (r : Request) (comb : List Nat) (ctxObj : Nat)
    (d : Dict) (s : Seen) (hc : Coherent (allRegs w.sec stmts)) (hw : w.ok = true)
    (hseen : (excviewTween w stmts site r comb ctxObj d).seen = some s) :
    ∃ e, (excviewTween w stmts site r comb ctxObj d).caught = some e ∧
      s.context = e.id ∧ s.exception = some e.id ∧ s.excInfo = some e.id ∧ s.response = none := by
  have hcaught := caught_is_what_the_handler_raised w stmts site r comb ctxObj d hc
  have h := (excview_eq_spec w stmts site r comb ctxObj d hc hw).2.1
  rw [hseen] at h
  simp only [expected] at h
  cases hs : specHandler w stmts site r ctxObj with
  | ok resp => rw [hs] at h; simp at h
  | error e =>
    rw [hs] at h hcaught
    refine ⟨e, hcaught, ?_⟩
    simp only [specRender] at h
    cases hwin : excWinner w stmts r e comb with
    | none => rw [hwin] at h; simp at h
    | some v =>
      rw [hwin] at h
      simp only at h
      split at h
      · simp at h
      · split at h <;> (simp only [Option.some.injEq] at h; subst h; simp [seenOf])

/-- **`request.exception` stays set afterwards**: when the tween caught `e` and returns a response, `request.exception`
and `request.exc_info` are `e`, and every other attribute (in particular `request.response`) reads as before. -/
theorem exception_attr_persists (w : World) (stmts : List Stmt) (site : Site) (r : Request) (comb : List Nat)
    (ctxObj : Nat) (d : Dict) (e : Exc) (resp : Resp) (hc : Coherent (allRegs w.sec stmts)) (hw : w.ok = true)
    (hcaught : (excviewTween w stmts site r comb ctxObj d).caught = some e)
    (hout : (excviewTween w stmts site r comb ctxObj d).outcome = .ok resp) :
    dget (excviewTween w stmts site r comb ctxObj d).attrs "exception" = some e.id ∧
    dget (excviewTween w stmts site r comb ctxObj d).attrs "exc_info" = some e.id ∧
    ∀ k, k ≠ "exception" → k ≠ "exc_info" → dget (excviewTween w stmts site r comb ctxObj d).attrs k = dget d k := by
  obtain ⟨h1, _, h3⟩ := tween_renders_caught w stmts site r comb ctxObj d e hc hw hcaught
  rw [hout] at h1
  have hattr : (specRender w stmts r e comb d).attr = attrsAfterAnswer d e := by
    simp only [specRender] at h1 ⊢
    cases hwin : excWinner w stmts r e comb with
    | none => rw [hwin] at h1; simp at h1
    | some v =>
      rw [hwin] at h1
      simp only at h1 ⊢
      by_cases hperm : (v.secured && !r.permitted) = true
      · simp [hperm] at h1
      · cases hb : bodyOf stmts v.tag with
        | respond => simp [hperm, hb]
        | returnContext => simp [hperm, hb]
        | raise e2 => simp [hperm, hb] at h1
  refine ⟨?_, ?_, ?_⟩
  · rw [h3, hattr]; simp [attrsAfterAnswer]
  · rw [h3, hattr]; simp [attrsAfterAnswer]
  · intro k hk1 hk2; rw [h3, hattr]; simp [attrsAfterAnswer, hk1, hk2]

/-- **No exception view applies ⇒ the original exception object propagates**: the very `e` the tween caught (same
identity, same everything) leaves it, and no exception view body ran. -/
theorem no_view_propagates_same_object (w : World) (stmts : List Stmt) (site : Site) (r : Request) (comb : List Nat)
    (ctxObj : Nat) (d : Dict) (e : Exc) (hc : Coherent (allRegs w.sec stmts)) (hw : w.ok = true)
    (hcaught : (excviewTween w stmts site r comb ctxObj d).caught = some e)
    (hnone : excWinner w stmts r e comb = none) :
    (excviewTween w stmts site r comb ctxObj d).outcome = .error e ∧
    (excviewTween w stmts site r comb ctxObj d).seen = none := by
  obtain ⟨h1, h2, _⟩ := tween_renders_caught w stmts site r comb ctxObj d e hc hw hcaught
  rw [h1, h2]
  simp [specRender, hnone]

/-- **… and the request's attributes are as before** — in fact whenever an exception leaves the tween (no view applied, a
refusal, or an exception view that raised): every attribute reads as it did when the handler raised; `hide_attrs` took
back what `invoke_exception_view` had set. -/
theorem attrs_restored_on_no_match (w : World) (stmts : List Stmt) (site : Site) (r : Request) (comb : List Nat)
    (ctxObj : Nat) (d : Dict) (x : Exc) (hc : Coherent (allRegs w.sec stmts)) (hw : w.ok = true)
    (hout : (excviewTween w stmts site r comb ctxObj d).outcome = .error x) :
    ∀ k, dget (excviewTween w stmts site r comb ctxObj d).attrs k = dget d k := by
  obtain ⟨h1, _, h3⟩ := excview_eq_spec w stmts site r comb ctxObj d hc hw
  intro k
  rw [h3 k]
  rw [hout] at h1
  simp only [expected] at h1 ⊢
  cases hs : specHandler w stmts site r ctxObj with
  | ok resp => rw [hs] at h1; first | done | simp at h1
  | error e =>
    rw [hs] at h1
    simp only [specRender] at h1 ⊢
    cases hwin : excWinner w stmts r e comb with
    | none => rfl
    | some v =>
      rw [hwin] at h1
      simp only at h1 ⊢
      by_cases hperm : (v.secured && !r.permitted) = true
      · simp [hperm]
      · cases hb : bodyOf stmts v.tag with
        | respond => simp [hperm, hb] at h1
        | returnContext => simp [hperm, hb] at h1
        | raise e2 => simp [hperm, hb]

/-! ## HTTP exceptions are their own responses -/

/-- **The exception-response view returns the exception itself**: when the first qualifying exception view is (a
registration of) `default_exceptionresponse_view`, the response is the caught exception object, with its own status. -/
theorem http_exception_is_own_response (w : World) (stmts : List Stmt) (site : Site) (r : Request) (comb : List Nat)
    (ctxObj : Nat) (d : Dict) (e : Exc) (v : DView) (hc : Coherent (allRegs w.sec stmts)) (hw : w.ok = true)
    (hcaught : (excviewTween w stmts site r comb ctxObj d).caught = some e)
    (hwin : excWinner w stmts r e comb = some v) (hperm : (v.secured && !r.permitted) = false)
    (hbody : bodyOf stmts v.tag = .returnContext) :
    (excviewTween w stmts site r comb ctxObj d).outcome = .ok (.self e.id e.status) := by
  rw [(tween_renders_caught w stmts site r comb ctxObj d e hc hw hcaught).1]
  simp [specRender, hwin, hperm, hbody]

/-- the statement `add_view(default_exceptionresponse_view, context=IExceptionResponse)` of `setup_registry`; `x` is the id
of `IExceptionResponse` -/
def defaultStmt (x tag : Nat) : Stmt := ⟨0, x, "", [], none, .unset, true, false, tag, .returnContext, false, .fnCR⟩

/-- its registration under the exception classifier: never protected (whatever policy / default permission) -/
def defaultExcReg (x tag : Nat) : ViewReg := ⟨clsExc, 0, x, "", [], none, false, tag⟩

theorem defaultStmt_regs (sec : Security) (x tag : Nat) :
    defaultExcReg x tag ∈ (defaultStmt x tag).regs sec := by
  simp [Stmt.regs, defaultStmt, defaultExcReg, securedOf]

/-- **Without a custom view an HTTP exception is returned as the response itself.**  Hypotheses: the default statement is
among the statements and still in force in its slot, tags identify statements, the exception provides
`IExceptionResponse` (`x ∈ e.sro`), `IRequest` (id 0) is on the combined request-interface order, and no *other*
exception view qualifies for this exception and request. -/
theorem default_view_renders_http_exception (w : World) (stmts : List Stmt) (site : Site) (r : Request) (comb : List Nat)
    (ctxObj : Nat) (d : Dict) (e : Exc) (x tag : Nat) (hc : Coherent (allRegs w.sec stmts)) (hw : w.ok = true)
    (hcaught : (excviewTween w stmts site r comb ctxObj d).caught = some e)
    (hmem : defaultStmt x tag ∈ stmts) (hu : (stmts.map (·.tag)).Nodup)
    (hforce : derive (defaultExcReg x tag) ∈ inForce (slotRegs (allRegs w.sec stmts) ⟨clsExc, 0, x, ""⟩))
    (hx : x ∈ e.sro) (h0 : 0 ∈ comb)
    (honly : ∀ v ∈ candidates (allRegs w.sec stmts) clsExc (excRequest r e comb),
        v.holds (excRequest r e comb) = true → v = derive (defaultExcReg x tag)) :
    (excviewTween w stmts site r comb ctxObj d).outcome = .ok (.self e.id e.status) := by
  have hholds : (derive (defaultExcReg x tag)).holds (excRequest r e comb) = true := by
    simp [derive, defaultExcReg, ViewReg.raw, mkPreds, DView.holds, mkPredsFrom_nil]
  have hcand := qualifying_view_in_force_is_candidate (allRegs w.sec stmts) clsExc (excRequest r e comb)
    (defaultExcReg x tag) 0 x h0 hx hforce hholds
  cases hwin : excWinner w stmts r e comb with
  | none =>
    have := (no_winner_iff_no_candidate_qualifies w stmts r e comb).mp hwin _ hcand
    rw [hholds] at this; exact absurd this (by simp)
  | some v =>
    have hwin' : (candidates (allRegs w.sec stmts) clsExc (excRequest r e comb)).find?
        (fun x => x.holds (excRequest r e comb)) = some v := hwin
    have hh := List.find?_some hwin'
    have hv := honly v (List.mem_of_find?_eq_some hwin') hh
    apply http_exception_is_own_response w stmts site r comb ctxObj d e v hc hw hcaught hwin
    · rw [hv]; rfl
    · rw [hv]
      have := bodyOf_of_mem stmts (defaultStmt x tag) hmem hu
      simpa [derive, defaultExcReg, defaultStmt] using this

/-- **An unmatched URL yields 404**: the request reaches view lookup, no view qualifies (C03's reading gives "not found":
nothing registered, or every candidate fails a predicate), so the router's `HTTPNotFound` (or the lookup's
`PredicateMismatch`) is caught, and — under the hypotheses of `default_view_renders_http_exception` for that exception —
the response is that very exception object with its status. -/
theorem unmatched_url_yields_404 (w : World) (stmts : List Stmt) (r : Request) (comb : List Nat) (ctxObj : Nat) (d : Dict)
    (x tag : Nat) (hc : Coherent (allRegs w.sec stmts)) (hw : w.ok = true)
    (hnf : expectedView (allRegs w.sec stmts) clsView r = .none)
    (hstatus : w.notFound.status = some 404)
    (hmem : defaultStmt x tag ∈ stmts) (hu : (stmts.map (·.tag)).Nodup)
    (hforce : derive (defaultExcReg x tag) ∈ inForce (slotRegs (allRegs w.sec stmts) ⟨clsExc, 0, x, ""⟩))
    (hx : x ∈ w.notFound.sro) (h0 : 0 ∈ comb)
    (honly : ∀ v ∈ candidates (allRegs w.sec stmts) clsExc (excRequest r w.notFound comb),
        v.holds (excRequest r w.notFound comb) = true → v = derive (defaultExcReg x tag)) :
    (excviewTween w stmts .lookup r comb ctxObj d).outcome = .ok (.self w.notFound.id (some 404)) := by
  have hcaught : (excviewTween w stmts .lookup r comb ctxObj d).caught = some w.notFound := by
    rw [caught_is_what_the_handler_raised w stmts .lookup r comb ctxObj d hc]
    simp [specHandler, hnf]
  rw [← hstatus]
  exact default_view_renders_http_exception w stmts .lookup r comb ctxObj d w.notFound x tag hc hw hcaught hmem hu hforce hx h0 honly

/-- **A refused permission yields 403**: the view C03's reading chooses is protected and the policy refuses, so its
`HTTPForbidden` is caught, and — under the hypotheses of `default_view_renders_http_exception` for it — the response is
that very `HTTPForbidden` with its status. -/
theorem refused_permission_yields_403 (w : World) (stmts : List Stmt) (r : Request) (comb : List Nat) (ctxObj : Nat)
    (d : Dict) (x tag t : Nat) (hc : Coherent (allRegs w.sec stmts)) (hw : w.ok = true)
    (hfb : expectedView (allRegs w.sec stmts) clsView r = .forbidden t)
    (hstatus : w.forbidden.status = some 403)
    (hmem : defaultStmt x tag ∈ stmts) (hu : (stmts.map (·.tag)).Nodup)
    (hforce : derive (defaultExcReg x tag) ∈ inForce (slotRegs (allRegs w.sec stmts) ⟨clsExc, 0, x, ""⟩))
    (hx : x ∈ w.forbidden.sro) (h0 : 0 ∈ comb)
    (honly : ∀ v ∈ candidates (allRegs w.sec stmts) clsExc (excRequest r w.forbidden comb),
        v.holds (excRequest r w.forbidden comb) = true → v = derive (defaultExcReg x tag)) :
    (excviewTween w stmts .lookup r comb ctxObj d).outcome = .ok (.self w.forbidden.id (some 403)) := by
  have hcaught : (excviewTween w stmts .lookup r comb ctxObj d).caught = some w.forbidden := by
    rw [caught_is_what_the_handler_raised w stmts .lookup r comb ctxObj d hc]
    simp [specHandler, hfb]
  rw [← hstatus]
  exact default_view_renders_http_exception w stmts .lookup r comb ctxObj d w.forbidden x tag hc hw hcaught hmem hu hforce hx h0 honly

/-! ## `Request.invoke_exception_view` with all its arguments, sites above the tween, the execution policy -/

/-- **`invoke_exception_view(exc_info, request, secure, reraise)` does what its declarative reading says**, for every
argument combination, statement list, request and prior attributes (`d` = the attribute dictionary of the request given
as `request=`, or of the request the method is called on). -/
theorem invoke_full_eq_spec (w : World) (stmts : List Stmt) (r : Request) (comb : List Nat) (args : InvokeArgs)
    (current : Exc) (d : Dict) (prior : String → Option Nat) (hp : ∀ k, dget d k = prior k)
    (hc : Coherent (allRegs w.sec stmts)) :
    (invokeFull w (registerAll (allRegs w.sec stmts)) stmts r comb args current d).2.2
        = (specInvoke w stmts r comb args current prior).outcome ∧
    (invokeFull w (registerAll (allRegs w.sec stmts)) stmts r comb args current d).2.1
        = (specInvoke w stmts r comb args current prior).seen ∧
    ∀ k, dget (invokeFull w (registerAll (allRegs w.sec stmts)) stmts r comb args current d).1 k
        = (specInvoke w stmts r comb args current prior).attr k :=
  invokeCore_spec w stmts (effectiveRequest args r) (effectiveExc args current) comb d args.reraise prior hp hc

/-- **No `exc_info` given ⇒ `sys.exc_info()`**: the call renders the exception being handled where it is made. -/
theorem invoke_without_exc_info_uses_current (w : World) (reg : Registry) (stmts : List Stmt) (r : Request)
    (comb : List Nat) (secure reraise : Bool) (current other : Exc) (d : Dict) :
    invokeFull w reg stmts r comb ⟨none, secure, reraise⟩ current d
      = invokeFull w reg stmts r comb ⟨some current, secure, reraise⟩ other d := rfl

/-- **`secure=False` skips the permission check**: the first qualifying exception view answers even when it is protected
and the policy refuses (the `__call_permissive__` path). -/
theorem insecure_invocation_never_refused (w : World) (stmts : List Stmt) (r : Request) (comb : List Nat)
    (reraise : Bool) (e : Exc) (d : Dict) (v : DView) (hc : Coherent (allRegs w.sec stmts))
    (hwin : excWinner w stmts { r with permitted := true } e comb = some v) (hbody : bodyOf stmts v.tag = .respond) :
    (invokeFull w (registerAll (allRegs w.sec stmts)) stmts r comb ⟨some e, false, reraise⟩ e d).2.2
      = .ok (.view v.tag) := by
  rw [(invoke_full_eq_spec w stmts r comb ⟨some e, false, reraise⟩ e d (dget d) (fun _ => rfl) hc).1]
  simp [specInvoke, specCore, effectiveRequest, effectiveExc, hwin, hbody]

/-- **`reraise=True` ⇒ whenever no response results the ORIGINAL exception is raised** (no view, a refusal, an
exception view that raises), and the attributes read as before. -/
theorem reraise_gives_original (w : World) (stmts : List Stmt) (r : Request) (comb : List Nat) (secure : Bool)
    (e x : Exc) (d : Dict) (hc : Coherent (allRegs w.sec stmts))
    (hout : (invokeFull w (registerAll (allRegs w.sec stmts)) stmts r comb ⟨some e, secure, true⟩ e d).2.2 = .error x) :
    x = e ∧ ∀ k, dget (invokeFull w (registerAll (allRegs w.sec stmts)) stmts r comb ⟨some e, secure, true⟩ e d).1 k
      = dget d k := by
  obtain ⟨h1, _, h3⟩ := invoke_full_eq_spec w stmts r comb ⟨some e, secure, true⟩ e d (dget d) (fun _ => rfl) hc
  rw [hout] at h1
  simp only [specInvoke, specCore, effectiveExc] at h1 h3
  cases hwin : excWinner w stmts (effectiveRequest ⟨some e, secure, true⟩ r) e comb with
  | none =>
    rw [hwin] at h1 h3
    simp at h1
    exact ⟨h1, fun k => by rw [h3 k]⟩
  | some v =>
    rw [hwin] at h1 h3
    by_cases hs : (v.secured && !(effectiveRequest ⟨some e, secure, true⟩ r).permitted) = true
    · simp [hs] at h1 h3
      exact ⟨h1, fun k => by rw [h3 k]⟩
    · cases hb : bodyOf stmts v.tag with
      | respond => simp [hs, hb] at h1
      | returnContext => simp [hs, hb] at h1
      | raise e2 =>
        simp [hs, hb] at h1 h3
        exact ⟨h1, fun k => by rw [h3 k]⟩

/-- **Explicit invocation gives what the tween gives** (`invoke_exception_view(exc_info, reraise=True)`, the pattern for
execution policies and tweens placed over the excview tween, against `_error_handler`), in the cases where both apply:
an exception view answers, or no exception view qualifies.  (They differ, by design, when a protected view refuses or an
exception view raises something that is not an `HTTPNotFound`: the tween lets that exception out, `reraise=True` the
original.) -/
theorem explicit_invocation_eq_tween (w : World) (stmts : List Stmt) (r : Request) (comb : List Nat) (e : Exc) (d : Dict)
    (hc : Coherent (allRegs w.sec stmts)) (hw : w.ok = true)
    (happly : (∃ resp, (specRender w stmts r e comb d).outcome = .ok resp) ∨ excWinner w stmts r e comb = none) :
    (invokeFull w (registerAll (allRegs w.sec stmts)) stmts r comb ⟨some e, true, true⟩ e d).2.2
        = (errorHandler w (registerAll (allRegs w.sec stmts)) stmts (excRequest r e comb) e d).2.2 ∧
    (invokeFull w (registerAll (allRegs w.sec stmts)) stmts r comb ⟨some e, true, true⟩ e d).2.1
        = (errorHandler w (registerAll (allRegs w.sec stmts)) stmts (excRequest r e comb) e d).2.1 ∧
    ∀ k, dget (invokeFull w (registerAll (allRegs w.sec stmts)) stmts r comb ⟨some e, true, true⟩ e d).1 k
        = dget (errorHandler w (registerAll (allRegs w.sec stmts)) stmts (excRequest r e comb) e d).1 k := by
  obtain ⟨h1, h2, h3⟩ := invoke_full_eq_spec w stmts r comb ⟨some e, true, true⟩ e d (dget d) (fun _ => rfl) hc
  obtain ⟨g1, g2, g3⟩ := errorHandler_spec w stmts r e comb d hc hw
  rw [h1, h2, g1, g2]
  have key : (specInvoke w stmts r comb ⟨some e, true, true⟩ e (dget d)).outcome = (specRender w stmts r e comb d).outcome ∧
      (specInvoke w stmts r comb ⟨some e, true, true⟩ e (dget d)).seen = (specRender w stmts r e comb d).seen ∧
      (specInvoke w stmts r comb ⟨some e, true, true⟩ e (dget d)).attr = (specRender w stmts r e comb d).attr := by
    simp only [specInvoke, specCore, specRender, effectiveExc, effectiveRequest, if_true] at happly ⊢
    cases hwin : excWinner w stmts r e comb with
    | none => simp
    | some v =>
      rw [hwin] at happly
      rcases happly with ⟨resp, hr⟩ | hnone
      · by_cases hs : (v.secured && !r.permitted) = true
        · simp [hs] at hr
        · cases hb : bodyOf stmts v.tag with
          | respond => simp [hs, hb]; try rfl
          | returnContext => simp [hs, hb]; try rfl
          | raise e2 => simp [hs, hb] at hr
      · simp at hnone
  refine ⟨key.1, key.2.1, fun k => ?_⟩
  rw [h3 k, g3 k, key.2.2]

/-- `invoke_request` (tween chain, response callbacks, `NewResponse`) against its declarative reading -/
theorem invokeRequest_eq_spec (w : World) (stmts : List Stmt) (above : Above) (site : Site) (r : Request)
    (comb : List Nat) (ctxObj : Nat) (d : Dict) (hc : Coherent (allRegs w.sec stmts)) (hw : w.ok = true) :
    (invokeRequest w stmts above site r comb ctxObj d).outcome = (specInvokeRequest w stmts above site r comb ctxObj d).outcome ∧
    (invokeRequest w stmts above site r comb ctxObj d).seen = (specInvokeRequest w stmts above site r comb ctxObj d).seen ∧
    ∀ k, dget (invokeRequest w stmts above site r comb ctxObj d).attrs k
      = (specInvokeRequest w stmts above site r comb ctxObj d).attr k := by
  obtain ⟨h1, h2, h3⟩ := excview_eq_spec w stmts site r comb ctxObj d hc hw
  simp only [invokeRequest, specInvokeRequest]
  cases above.before with
  | some e => exact ⟨rfl, rfl, fun _ => rfl⟩
  | none =>
    simp only
    rw [← h1]
    cases ho : (excviewTween w stmts site r comb ctxObj d).outcome with
    | error x => simp only; exact ⟨h1, h2, h3⟩
    | ok resp =>
      cases above.after with
      | none => simp only; exact ⟨h1, h2, h3⟩
      | some e => exact ⟨rfl, h2, h3⟩

/-- **Sites above the excview tween**: under `default_execution_policy` an exception raised by a tween placed over the
excview tween, by a response callback or by a `NewResponse` subscriber propagates to the server as the same object; no
exception view is consulted for it; the request's attributes are as the tween left them (as before, when the tween
never ran). -/
theorem above_sites_propagate (w : World) (stmts : List Stmt) (site : Site) (r : Request) (comb : List Nat) (ctxObj : Nat)
    (d : Dict) (e : Exc) :
    (executionPolicy .default w stmts ⟨some e, none⟩ site r comb ctxObj d).outcome = .error e ∧
    (executionPolicy .default w stmts ⟨some e, none⟩ site r comb ctxObj d).attrs = d ∧
    (executionPolicy .default w stmts ⟨some e, none⟩ site r comb ctxObj d).seen = none ∧
    (∀ resp, (excviewTween w stmts site r comb ctxObj d).outcome = .ok resp →
      (executionPolicy .default w stmts ⟨none, some e⟩ site r comb ctxObj d).outcome = .error e ∧
      (executionPolicy .default w stmts ⟨none, some e⟩ site r comb ctxObj d).attrs
        = (excviewTween w stmts site r comb ctxObj d).attrs) := by
  refine ⟨rfl, rfl, rfl, ?_⟩
  intro resp hr
  simp [executionPolicy, invokeRequest, hr]

/-- **The execution policy as a whole** (default, or invoking the exception view itself) against its declarative
reading. -/
theorem policy_eq_spec (p : Policy) (w : World) (stmts : List Stmt) (above : Above) (site : Site) (r : Request)
    (comb : List Nat) (ctxObj : Nat) (d : Dict) (hc : Coherent (allRegs w.sec stmts)) (hw : w.ok = true) :
    (executionPolicy p w stmts above site r comb ctxObj d).outcome = (specPolicy p w stmts above site r comb ctxObj d).outcome ∧
    (executionPolicy p w stmts above site r comb ctxObj d).seen = (specPolicy p w stmts above site r comb ctxObj d).seen ∧
    ∀ k, dget (executionPolicy p w stmts above site r comb ctxObj d).attrs k
      = (specPolicy p w stmts above site r comb ctxObj d).attr k := by
  obtain ⟨h1, h2, h3⟩ := invokeRequest_eq_spec w stmts above site r comb ctxObj d hc hw
  simp only [executionPolicy, specPolicy]
  rw [← h1]
  cases p with
  | default => exact ⟨h1, h2, h3⟩
  | invoking args =>
    cases ho : (invokeRequest w stmts above site r comb ctxObj d).outcome with
    | ok resp => simp only; exact ⟨h1, h2, h3⟩
    | error x =>
      simp only
      exact invoke_full_eq_spec w stmts { r with lineage := [] } comb args x _ _ h3 hc

/-- **Sequential handling: a request that already carries exception attributes keeps them on a no-match.**  The tween
rendered `e1` (so `request.exception` / `exc_info` are `e1`), then something above the tween raised `e2` (a response
callback, say), the execution policy invoked the exception view for `e2` and no exception view qualified: whatever
propagates, `request.exception` and `request.exc_info` still are `e1` — restored, not removed — and every other
attribute is as the tween left it. -/
theorem attrs_restored_on_no_match_after_earlier_exception (w : World) (stmts : List Stmt) (site : Site) (r : Request)
    (comb : List Nat) (ctxObj : Nat) (d : Dict) (e1 e2 : Exc) (resp : Resp) (args : InvokeArgs)
    (hc : Coherent (allRegs w.sec stmts)) (hw : w.ok = true)
    (hcaught : (excviewTween w stmts site r comb ctxObj d).caught = some e1)
    (hresp : (excviewTween w stmts site r comb ctxObj d).outcome = .ok resp)
    (hnone : excWinner w stmts (effectiveRequest args { r with lineage := [] }) (effectiveExc args e2) comb = none) :
    let res := executionPolicy (.invoking args) w stmts ⟨none, some e2⟩ site r comb ctxObj d
    (∃ x, res.outcome = .error x) ∧ res.seen = none ∧
    dget res.attrs "exception" = some e1.id ∧ dget res.attrs "exc_info" = some e1.id ∧
    ∀ k, k ≠ "exception" → k ≠ "exc_info" → dget res.attrs k = dget d k := by
  obtain ⟨p1, p2, p3⟩ := policy_eq_spec (.invoking args) w stmts ⟨none, some e2⟩ site r comb ctxObj d hc hw
  obtain ⟨a1, a2, a3⟩ := exception_attr_persists w stmts site r comb ctxObj d e1 resp hc hw hcaught hresp
  obtain ⟨q1, _, q3⟩ := excview_eq_spec w stmts site r comb ctxObj d hc hw
  rw [hresp] at q1
  have hsp : specPolicy (.invoking args) w stmts ⟨none, some e2⟩ site r comb ctxObj d
      = specInvoke w stmts { r with lineage := [] } comb args e2 (expected w stmts site r comb ctxObj d).attr := by
    simp only [specPolicy, specInvokeRequest, ← q1]
  rw [hsp] at p1 p2 p3
  simp only [specInvoke, specCore, hnone] at p1 p2 p3
  refine ⟨⟨_, p1⟩, p2, ?_, ?_, ?_⟩
  · rw [p3, ← q3]; exact a1
  · rw [p3, ← q3]; exact a2
  · intro k hk1 hk2; rw [p3, ← q3]; exact a3 k hk1 hk2

/-- **Predicates of an exception view see the original request; `containment` the original context.**  The record the
exception-view lookup uses keeps everything of the request (method, parameters, headers, matchdict, route binding through
`combined`); `containment` is evaluated on `request.context` — the ORIGINAL context — when the request has one and on the
exception otherwise; `physical_path` is asked about the exception object, which has no `__name__`: it never holds. -/
theorem exception_view_predicates_context (r : Request) (e : Exc) (comb : List Nat) (i : Nat) (val : List String) :
    (r.lineage ≠ [] → (Cond.containment i).eval (excRequest r e comb) = (Cond.containment i).eval r) ∧
    (r.lineage = [] → (Cond.containment i).eval (excRequest r e comb) = e.sro.contains i) ∧
    (Cond.physicalPath val).eval (excRequest r e comb) = false ∧
    (∀ vals, (Cond.method vals).eval (excRequest r e comb) = (Cond.method vals).eval r) ∧
    (∀ reqs, (Cond.params reqs).eval (excRequest r e comb) = (Cond.params reqs).eval r) ∧
    (∀ vals, (Cond.headers vals).eval (excRequest r e comb) = (Cond.headers vals).eval r) ∧
    (∀ reqs, (Cond.matchParam reqs).eval (excRequest r e comb) = (Cond.matchParam reqs).eval r) := by
  refine ⟨?_, ?_, ?_, ?_, ?_, ?_, ?_⟩
  · intro h
    cases hl : r.lineage with
    | nil => exact absurd hl h
    | cons a rest => simp [Cond.eval, excRequest, hl]
  · intro h; simp [Cond.eval, excRequest, h]
  · simp [Cond.eval, excRequest]
  · intro vals; rfl
  · intro reqs; rfl
  · intro vals; rfl
  · intro reqs; rfl

/-! ## the view mapper's calling convention -/

/-- the kinds and the names the probe translator uses for them -/
def allKinds : List (ViewKind × String) :=
  [(.fnCR, "fn2"), (.fnR, "fn1"), (.clsCR, "cls2"), (.clsCRcall, "cls2c"), (.clsR, "cls1"), (.instCR, "inst2"), (.instR, "inst1")]

/-- what the model says a probe of the running mapper must report: the user's callable is handed the mapped view's
context argument (the resource for an ordinary view, the exception for an exception view) or nothing, whether or not an
ordinary view of the same class raised earlier in the request, and a class is instantiated for every call -/
def probeRow (k : ViewKind) (name : String) (exc before : Bool) : String × Bool × Bool × String × Bool :=
  (name, exc, before,
   (match k.userContext (if exc then 1 else 0) (if before then some 0 else none) with
    | some 1 => "exception"
    | some _ => "resource"
    | none => "none"),
   k.constructsPerCall)

/-- **The running view mapper follows the modelled calling convention** — the whole generated probe table (every kind ×
ordinary / exception view × "an ordinary view of the same class raised before in this request"), decided. -/
theorem probe_table_as_modelled :
    Gen.C14.probe = allKinds.flatMap fun (k, name) =>
      [probeRow k name false false, probeRow k name true false, probeRow k name true true] := by decide

/-- **The exception view's context IS the exception, for every kind of view callable**: whenever the body of an exception
view ran, the mapped view was called with the caught exception as context, and every kind of callable that is handed a
context at all (function `(context, request)`, class with `__init__(context, request)` — through `attr=` or `__call__` —,
instance) was handed exactly that exception — never the context an earlier instance of the same class was built with;
request-only kinds are handed none. -/
theorem exception_view_context_is_exception (w : World) (stmts : List Stmt) (site : Site) (r : Request) (comb : List Nat)
    (ctxObj : Nat) (d : Dict) (s : Seen) (hc : Coherent (allRegs w.sec stmts)) (hw : w.ok = true)
    (hseen : (excviewTween w stmts site r comb ctxObj d).seen = some s) :
    ∃ (e : Exc) (k : ViewKind), (excviewTween w stmts site r comb ctxObj d).caught = some e ∧ s.context = e.id ∧
      s.userContext = (if k.receivesContext then some e.id else none) ∧
      ∀ earlier, k.userContext e.id earlier = s.userContext := by
  have hcaught := caught_is_what_the_handler_raised w stmts site r comb ctxObj d hc
  have h := (excview_eq_spec w stmts site r comb ctxObj d hc hw).2.1
  rw [hseen] at h
  simp only [expected] at h
  cases hs : specHandler w stmts site r ctxObj with
  | ok resp => rw [hs] at h; simp at h
  | error e =>
    rw [hs] at h hcaught
    simp only [specRender] at h
    cases hwin : excWinner w stmts r e comb with
    | none => rw [hwin] at h; simp at h
    | some v =>
      rw [hwin] at h
      refine ⟨e, kindOf stmts v.tag, hcaught, ?_⟩
      simp only at h
      split at h
      · simp at h
      · split at h <;> (simp only [Option.some.injEq] at h; subst h; simp [seenOf, ViewKind.userContext])

/-- the convention, kind by kind (what `map_class_native`, `map_class_requestonly`, `map_nonclass_requestonly`,
`map_nonclass_attr` and the unwrapped case do) -/
theorem mapper_calling_convention (c : Nat) (earlier : Option Nat) :
    ViewKind.fnCR.userContext c earlier = some c ∧ ViewKind.clsCR.userContext c earlier = some c ∧
    ViewKind.clsCRcall.userContext c earlier = some c ∧ ViewKind.instCR.userContext c earlier = some c ∧
    ViewKind.fnR.userContext c earlier = none ∧ ViewKind.clsR.userContext c earlier = none ∧
    ViewKind.instR.userContext c earlier = none := by
  simp [ViewKind.userContext, ViewKind.receivesContext]

/-! ## registration: which classifier, which protection -/

/-- **`exception_only` views are not ordinary views; non-exception contexts give no exception view; otherwise both.** -/
theorem statement_classifiers (sec : Security) (s : Stmt) :
    ((∃ reg ∈ s.regs sec, reg.classifier = clsView) ↔ s.exceptionOnly = false) ∧
    ((∃ reg ∈ s.regs sec, reg.classifier = clsExc) ↔ s.isExc = true) ∧
    (∀ reg ∈ s.regs sec, reg.tag = s.tag ∧ reg.reqIface = s.reqIface ∧ reg.ctxIface = s.ctxIface ∧ reg.name = s.name ∧
      reg.preds = s.preds ∧ reg.accept = s.accept) := by
  refine ⟨?_, ?_, ?_⟩
  · cases h1 : s.exceptionOnly <;> cases h2 : s.isExc <;> simp [Stmt.regs, h1, h2, clsView, clsExc]
  · cases h1 : s.exceptionOnly <;> cases h2 : s.isExc <;> simp [Stmt.regs, h1, h2, clsView, clsExc]
  · intro reg hreg
    cases h1 : s.exceptionOnly <;> cases h2 : s.isExc <;> simp [Stmt.regs, h1, h2] at hreg
    all_goals (first | (rcases hreg with rfl | rfl <;> simp) | (subst hreg; simp))

/-- **Exception views do not inherit the default permission**; an explicit permission protects them only when a policy is
present; `NO_PERMISSION_REQUIRED` (what `add_exception_view` / `add_notfound_view` / `add_forbidden_view` force) never. -/
theorem exception_view_protection (sec : Security) :
    securedOf sec true .unset = false ∧ securedOf sec true .noPermissionRequired = false ∧
    securedOf sec true .named = sec.hasPolicy ∧
    securedOf sec false .unset = (sec.hasPolicy && sec.hasDefaultPermission) := by
  simp [securedOf]

/-! ## `hide_attrs` -/

/-- **`hide_attrs`**: after the block every hidden name reads as before the block — a name that was absent is absent
again even if the body created it — and every other attribute reads as the body left it. -/
theorem hide_attrs_restores (ns : List String) (hnd : ns.Nodup) (d d2 : Dict) (k : String) :
    dget (restore (popAll ns d).2 d2) k = if k ∈ ns then dget d k else dget d2 k :=
  dget_restore_popAll ns hnd d d2 k

/-! ## the full statement fails for a protected exception view that is refused (finding F-C14a) -/

private def reqW : Request where
  method := "GET"
  getParams := []
  postParams := []
  environ := []
  pathInfo := "/"
  matchdict := none
  authenticated := false
  customTrue := []
  reTable := []
  accQ := []
  lineage := []
  physPath := none
  permitted := false
  reqSro := [0, 50]
  ctxSro := [90, 0]
  viewName := ""

private def excOf (id : Nat) (sro : List Nat) (nf : Bool) (st : Option Nat) : Exc := ⟨id, sro, nf, st⟩

private def worldW : World where
  sec := ⟨true, false⟩
  notFound := excOf 1000 [46, 80, 0] true (some 404)
  mismatch := excOf 1001 [52, 46, 80, 0] true (some 404)
  forbidden := excOf 1002 [45, 80, 0] false (some 403)
  excNotFound := excOf 1003 [46, 80, 0] true (some 404)
  excMismatch := excOf 1004 [52, 46, 80, 0] true (some 404)
  excForbidden := excOf 1005 [45, 80, 0] false (some 403)
  viewResponse := 901

/-- `add_view(v1, context=X0, permission='p')`; a subscriber raises `X1(X0)`; the policy refuses.  The exception view
qualifies (it is the winner), yet what leaves the tween is a new `HTTPForbidden` — neither a response of `v1` nor the
original exception.  (The harness replays this witness on the real code: corpus `w01`.) -/
theorem protected_exception_view_refusal_propagates :
    let stmts : List Stmt := [⟨0, 100, "", [], none, .named, true, false, 1, .respond, false, .fnCR⟩]
    let e : Exc := excOf 500 [101, 100, 42, 0] false none
    let res := excviewTween worldW stmts (.early e) reqW [0, 50] 700 []
    coherentB (allRegs worldW.sec stmts) = true ∧ worldW.ok = true ∧
    (excWinner worldW stmts reqW e [0, 50]).map (·.tag) = some 1 ∧
    res.outcome = .error worldW.excForbidden ∧ res.outcome ≠ .error e ∧ res.seen = none ∧
    dget res.attrs "exception" = none := by decide

/-! ## non-vacuity -/

private def reqP : Request := { reqW with permitted := true, reqSro := [1, 50], environ := [("HTTP_X_A", "1")] }

/-- A population with a route-bound view for a base class, a global view for the exact class whose predicate fails, a
global view for a farther class, a multiply-inheriting exception (`X3(X1, X2)`, `X1(X0)`, `X2(HTTPNotFound)`) and the
default exception-response view: coherent, well-formed; for a routed request (`combined` order `[20, 1, 0, 50]`) the
route-bound base-class view 2 answers although view 1 is registered for the exact class; for an unrouted request view 3
(class `X0`, nearer than `HTTPNotFound`'s default view) answers since view 1's predicate fails; the view sees the
exception; attributes persist; a prior `request.exception` survives a no-match. -/
example :
    let stmts : List Stmt :=
      [defaultStmt 80 9000,
       ⟨0, 103, "", [⟨"request_method", false, .method ["POST"]⟩], none, .noPermissionRequired, true, true, 1, .respond, false, .fnCR⟩,
       ⟨1, 100, "", [], none, .noPermissionRequired, true, true, 2, .respond, false, .fnCR⟩,
       ⟨0, 100, "", [⟨"header", false, .headers ["X-A"]⟩], none, .unset, true, false, 3, .respond, false, .fnCR⟩,
       ⟨0, 0, "", [], none, .unset, false, false, 4, .raise (excOf 2004 [103, 101, 100, 102, 46, 80, 42, 0] true (some 404)), false, .fnCR⟩]
    let e : Exc := excOf 500 [103, 101, 100, 102, 46, 80, 42, 0] true (some 404)
    let routed := excviewTween worldW stmts (.early e) reqP [20, 1, 0, 50] 700 [("exception", 600), ("exc_info", 600)]
    let plain := excviewTween worldW stmts (.early e) reqP [0, 50] 700 []
    let viaView := excviewTween worldW stmts .lookup { reqP with reqSro := [0, 50] } [0, 50] 700 []
    let noview := excviewTween worldW stmts (.early (excOf 501 [47, 42, 0] false none)) reqP [0, 50] 700
                     [("exception", 600), ("exc_info", 600), ("response", 900)]
    coherentB (allRegs worldW.sec stmts) = true ∧ tagsUniqueB stmts = true ∧ stmtsOkB stmts = true ∧
    (candidates (allRegs worldW.sec stmts) clsExc (excRequest reqP e [20, 1, 0, 50])).map (·.tag) = [2, 1, 3, 9000] ∧
    routed.outcome = .ok (.view 2) ∧ routed.seen = some (seenOf e .fnCR) ∧ dget routed.attrs "exception" = some 500 ∧
    plain.outcome = .ok (.view 3) ∧
    viaView.outcome = .ok (.view 3) ∧ (viaView.caught.map (·.id)) = some 2004 ∧ dget viaView.attrs "exc_info" = some 2004 ∧
    noview.outcome = .error (excOf 501 [47, 42, 0] false none) ∧ dget noview.attrs "exception" = some 600 ∧
      dget noview.attrs "response" = some 900 := by
  decide +kernel

/-- hypotheses of `most_specific_exception_view_wins` are satisfiable: the global view 3 for class `X0` (id 100) is in force
in its slot and qualifies; the combined order is `[20, 1] ++ 0 :: [50]`, the exception's order `[103, 101] ++ 100 :: …`; the
winner (view 2) comes from the earlier, route-bound interface 1 -/
example :
    let stmts : List Stmt :=
      [⟨1, 100, "", [], none, .noPermissionRequired, true, true, 2, .respond, false, .fnCR⟩,
       ⟨0, 100, "", [⟨"header", false, .headers ["X-A"]⟩], none, .unset, true, false, 3, .respond, false, .fnCR⟩]
    let e : Exc := excOf 500 [103, 101, 100, 102, 46, 80, 42, 0] true (some 404)
    let reg : ViewReg := ⟨clsExc, 0, 100, "", [⟨"header", false, .headers ["X-A"]⟩], none, false, 3⟩
    derive reg ∈ inForce (slotRegs (allRegs worldW.sec stmts) ⟨clsExc, 0, 100, ""⟩) ∧
    (derive reg).holds (excRequest reqP e [20, 1, 0, 50]) = true ∧
    ([20, 1, 0, 50] : List Nat) = [20, 1] ++ 0 :: [50] ∧ e.sro = [103, 101] ++ 100 :: [102, 46, 80, 42, 0] ∧
    (excWinner worldW stmts reqP e [20, 1, 0, 50]).map (·.tag) = some 2 := by
  decide +kernel

/-- sequential handling (the shape of `attrs_restored_on_no_match_after_earlier_exception`): the tween renders `X1` with
view 1 (which also touches `request.response`), a response callback then raises a `KeyError`, the execution policy invokes
the exception view for it (`exc_info` not given, `reraise=True`), no view qualifies: the `KeyError` itself leaves, the
request still says `exception = exc_info = X1`, and `response` is the one from before; with `reraise=False` an
`HTTPNotFound` leaves instead; explicit invocation of a tween-over-excview exception equals what the tween gives. -/
example :
    let stmts : List Stmt := [⟨0, 100, "", [], none, .noPermissionRequired, true, true, 1, .respond, true, .fnCR⟩]
    let e1 : Exc := excOf 500 [101, 100, 42, 0] false none
    let e2 : Exc := excOf 550 [47, 42, 0] false none
    let d : Dict := [("response", 900)]
    let tw := excviewTween worldW stmts (.early e1) reqP [0, 50] 700 d
    let seq := executionPolicy (.invoking ⟨none, true, true⟩) worldW stmts ⟨none, some e2⟩ (.early e1) reqP [0, 50] 700 d
    let seq' := executionPolicy (.invoking ⟨none, true, false⟩) worldW stmts ⟨none, some e2⟩ (.early e1) reqP [0, 50] 700 d
    let over := executionPolicy (.invoking ⟨none, true, true⟩) worldW stmts ⟨some e1, none⟩ .lookup reqP [0, 50] 700 d
    let dflt := executionPolicy .default worldW stmts ⟨none, some e2⟩ (.early e1) reqP [0, 50] 700 d
    coherentB (allRegs worldW.sec stmts) = true ∧
    tw.outcome = .ok (.view 1) ∧ (tw.caught.map (·.id)) = some 500 ∧ dget tw.attrs "response" = some 900 ∧
    excWinner worldW stmts (effectiveRequest ⟨none, true, true⟩ { reqP with lineage := [] }) (effectiveExc ⟨none, true, true⟩ e2) [0, 50] = none ∧
    seq.outcome = .error e2 ∧ seq.seen = none ∧ dget seq.attrs "exception" = some 500 ∧ dget seq.attrs "exc_info" = some 500 ∧
      dget seq.attrs "response" = some 900 ∧
    seq'.outcome = .error worldW.excNotFound ∧ dget seq'.attrs "exception" = some 500 ∧
    over.outcome = tw.outcome ∧ over.seen = tw.seen ∧ dget over.attrs "exception" = some 500 ∧
    dflt.outcome = .error e2 ∧ dget dflt.attrs "exception" = some 500 := by
  decide +kernel

/-- hypotheses of `unmatched_url_yields_404` / `default_view_renders_http_exception` are satisfiable: only the default
statement and an ordinary view named `x`; the URL `/` matches nothing -/
example :
    let stmts : List Stmt := [defaultStmt 80 9000, ⟨0, 0, "x", [], none, .unset, false, false, 1, .respond, false, .fnCR⟩]
    coherentB (allRegs worldW.sec stmts) = true ∧ worldW.ok = true ∧
    expectedView (allRegs worldW.sec stmts) clsView reqW = .none ∧ worldW.notFound.status = some 404 ∧
    derive (defaultExcReg 80 9000) ∈ inForce (slotRegs (allRegs worldW.sec stmts) ⟨clsExc, 0, 80, ""⟩) ∧
    (80 ∈ worldW.notFound.sro) ∧
    (candidates (allRegs worldW.sec stmts) clsExc (excRequest reqW worldW.notFound [0, 50])) = [derive (defaultExcReg 80 9000)] ∧
    (excviewTween worldW stmts .lookup reqW [0, 50] 700 []).outcome = .ok (.self 1000 (some 404)) := by
  decide +kernel

end Pyr.ExcView
