import PyramidModel.Lemmas.RouterRefine
import PyramidModel.Props.C01
import PyramidModel.Gen.X01
/-!
# X01 — one request through the router: the composition of the verified components refines a declarative reading

Property theorems only.  Model: `RouterModel.lean` (`handle` = `tween ∘ handleRequest`: the glue of `Router.handle_request`
around C01's `mapperCall`, C02's `traverser`, C03's `callView`, C14's `handler` / `errorHandler`, with C05's mediation as a
policy *table*); declarative reading: `RouterSpec.lean` (`specHandle`, on C01's `qualifies`, C02's `specTraverser`, C03's
`candidates`); helper lemmas: `Lemmas/RouterLookup.lean`, `Lemmas/RouterRoute.lean`, `Lemmas/RouterRefine.lean`.
Component theorems used, not re-proved: C01 `firstRoute_cons`, `mapper_none`, `invalid_utf8_refused`; C02
`traverser_no_vroot`; C03 `lookup_eq_spec`, `earlier_request_iface_wins`, `candidates_request_order`,
`notfound_iff_no_candidate`; C14 `errorHandler_spec`.

All statements quantify over applications of any size (route lists, trees, statement lists, policy tables) and every
request.  Hypotheses: `Coherent app.regs` (C03's: statements of one slot with the same predicates agree on order / accept /
protectedness), `app.world.ok` (C14's: `HTTPNotFound` and `PredicateMismatch` are `HTTPNotFound`s, `HTTPForbidden` is
not), and — for the central refinement — `PATH_INFO` present (its absence is finding F-X01b).
-/
namespace Pyr.Router
open Pyr.ViewLookup
open Pyr.ExcView (Exc Resp clsView clsExc bodyOf)
open Pyr.Pipeline (Point)
set_option linter.unusedSimpArgs false

/-! ## the central refinement -/

/-- **The composed router does exactly what the declarative reading says** — which body answered (or which exception
leaves the router), which exception the excview tween caught, every request attribute the router sets (matched route,
match dictionary, request interface, root, context, view name, subpath, traversed) and the order of its events — for every
application and every request that carries a `PATH_INFO`.
`_partial`: without `PATH_INFO` (legal under PEP 3333) and with no view found the real router raises `KeyError` instead of
`HTTPNotFound` (`missing_path_info_yields_keyerror`, finding F-X01b); the reading's clause for a *protected and refused*
exception view is the as-built one (a new `HTTPForbidden` propagates: `protected_exception_view_refusal_leaks`, F-X01a =
F-C14a = F-C05a). -/
theorem handle_eq_spec_partial (app : App) (rq : Req) (hc : Coherent app.regs) (hw : app.world.ok = true)
    (hp : rq.pathInfo.isSome = true) : handle app rq = specHandle app rq := by
  unfold handle handleRequest specHandle
  rw [routeStage_eq_spec]
  cases specRoute app rq with
  | none => exact tween_early app rq _ _ _ hc hw
  | some hit =>
    cases hit with
    | none => exact afterRoute_eq_spec app rq _ _ hc hw hp
    | some x =>
      obtain ⟨i, d, e⟩ := x
      exact afterRoute_eq_spec app rq _ _ hc hw hp

/-! ### the two places where the full statement fails on the code as it is -/

private def ex0 : Exc := ⟨0, [0], false, none⟩
private def w0 : ExcView.World :=
  { sec := ⟨true, false⟩, notFound := ⟨45, [45, 0], true, some 404⟩, mismatch := ⟨48, [48, 45, 0], true, some 404⟩,
    forbidden := ⟨44, [44, 0], false, some 403⟩, excNotFound := ⟨45, [45, 0], true, some 404⟩,
    excMismatch := ⟨48, [48, 45, 0], true, some 404⟩, excForbidden := ⟨44, [44, 0], false, some 403⟩ }
private def base0 : Request :=
  { method := "GET", getParams := [], postParams := [], environ := [], pathInfo := "/", matchdict := none,
    authenticated := false, customTrue := [], reTable := [], accQ := [], lineage := [], physPath := none, permitted := true,
    reqSro := [], ctxSro := [], viewName := "" }
private def root0 : RootDecl := ⟨.mk true [("a".toList, .mk true [])], [([], [10, 0]), (["a".toList], [11, 0])], none⟩
/-- no routes, no views, one root -/
private def appEmpty : App :=
  { routes := [], roots := [root0], defaultRoot := 0, views := [], world := w0, urlDecode := ⟨54, [54, 0], false, none⟩,
    keyError := ⟨46, [46, 47, 0], false, none⟩, allowed := [] }

/-- **F-X01b** (replayed on the real router by the harness): `PATH_INFO` absent, nothing registered — the composed model
(like `router.py:167`, `msg = request.path_info`) lets a `KeyError` leave the router, the reading demands `HTTPNotFound`. -/
theorem missing_path_info_yields_keyerror :
    (handle appEmpty ⟨none, [], base0⟩).final = .propagates appEmpty.keyError ∧
    (specHandle appEmpty ⟨none, [], base0⟩).final = .propagates w0.notFound ∧
    (handle appEmpty ⟨some [47], [], base0⟩).final = .propagates w0.notFound := by decide

/-- a view that raises `ex1`, and a protected exception view for it -/
private def ex1 : Exc := ⟨100, [100, 40, 0], false, none⟩
private def appLeak : App :=
  { appEmpty with
    views := [⟨⟨0, 0, "", [], none, .unset, false, false, 1, .raise ex1⟩, 9⟩,
              ⟨⟨0, 100, "", [], none, .named, true, true, 2, .respond⟩, 1⟩] }

/-- **F-X01a** (= F-C14a = F-C05a through the composed model): the most specific exception view for the raised exception is
protected and the policy refuses — neither its response nor the original exception leaves the router but a new
`HTTPForbidden`; when the policy permits, the view answers. -/
theorem protected_exception_view_refusal_leaks :
    (handle appLeak ⟨some [47], [], base0⟩).final = .propagates w0.excForbidden ∧
    (handle appLeak ⟨some [47], [], base0⟩).caught = some ex1 ∧
    (handle { appLeak with allowed := [(.exc ex1.sro, 1)] } ⟨some [47], [], base0⟩).final = .response (.view 2) := by decide

/-- the hypotheses of the refinement hold at both witnesses (non-vacuity), so it is the code path, not an ill-formed
application, that makes them special -/
example : Coherent appLeak.regs ∧ appLeak.world.ok = true ∧ appLeak.wf = true ∧
    Coherent appEmpty.regs ∧ (⟨some [47], [], base0⟩ : Req).pathInfo.isSome = true :=
  ⟨(coherentB_iff _).mp (by decide), by decide, by decide, (coherentB_iff _).mp (by decide), rfl⟩

/-! ## what the router sets is what the body sees -/

/-- the excview tween never touches the attributes `handle_request` set -/
theorem tween_attrs (app : App) (rq : Req) (a : Attrs) (hooks : List Point) (early : Option Exc) :
    (tween app rq a hooks early).attrs = a ∧ (tween app rq a hooks early).hooks = hooks := by
  unfold tween
  simp only []
  split <;> exact ⟨rfl, rfl⟩

/-- **A route miss falls through to traversal** (C01's `mapper_none` in the router): when the path decodes and no declared
route qualifies, the request keeps the plain `IRequest` interface and has no match dictionary, the DEFAULT root factory is
called, and context / view name / subpath are C02's reading of `PATH_INFO` on that root's tree. -/
theorem route_miss_falls_through_to_traversal (app : App) (rq : Req) (p : Text) (root : RootDecl)
    (hpath : Route.requestPath rq.pathInfo = some p)
    (hmiss : ∀ r ∈ routeList app rq, ∀ e, Route.matchToks Rx.Ucd.ascii r.toks p = some e → Route.predsHold e r.preds = false)
    (hroot : app.roots[app.defaultRoot]? = some root) (hnr : root.raises = none) :
    (handle app rq).attrs.route = none ∧ (handle app rq).attrs.matchdict = none ∧
    (handle app rq).attrs.reqSro = [iRequest, iInterface] ∧
    ∀ t, Trav.specTraverser root.tree ⟨rq.pathInfo, none, none⟩ = .ok t →
      (handle app rq).attrs.root = some app.defaultRoot ∧ (handle app rq).attrs.trav = some t := by
  have hm : Route.mapperCall Rx.Ucd.ascii (routeList app rq) rq.pathInfo = .noMatch :=
    (Route.mapper_none _ _ _).mpr ⟨p, hpath, hmiss⟩
  have hstage : routeStage app rq = some (Attrs.none, none) := by
    unfold routeStage
    split
    · rfl
    · rw [hm]
  have hreq : handleRequest app rq =
      match Trav.specTraverser root.tree ⟨rq.pathInfo, none, none⟩ with
      | .error _ => ({ Attrs.none with root := some app.defaultRoot },
          [.newRequest, .beforeTraversal, .rootFactory, .traverser], some app.urlDecode)
      | .ok t => ({ Attrs.none with root := some app.defaultRoot, trav := some t },
          [.newRequest, .beforeTraversal, .rootFactory, .traverser, .contextFound], none) := by
    unfold handleRequest
    simp only [hstage, afterRoute, rootIndex, hroot, hnr]
    rw [Trav.traverser_no_vroot root.tree _ rfl]
    rfl
  unfold handle
  simp only [(tween_attrs app rq _ _ _).1, hreq]
  cases Trav.specTraverser root.tree ⟨rq.pathInfo, none, none⟩ with
  | error _ => exact ⟨rfl, rfl, rfl, fun t h => by cases h⟩
  | ok t0 => exact ⟨rfl, rfl, rfl, fun t h => by cases h; exact ⟨rfl, rfl⟩⟩

/-- **An undecodable path is refused before anything else** (C01's `invalid_utf8_refused` in the router): with at least
one route declared, the excview tween catches `URLDecodeError`, no attribute was set and only `NewRequest` was sent. -/
theorem undecodable_path_refused_first (app : App) (rq : Req) (raw : Trav.Bytes) (hr : app.routes.isEmpty = false)
    (hraw : rq.pathInfo = some raw) (hbad : Trav.utf8Dec raw = none) :
    (handle app rq).caught = some app.urlDecode ∧ (handle app rq).attrs = Attrs.none ∧
    (handle app rq).hooks = [.newRequest] := by
  have hstage : routeStage app rq = none := by
    unfold routeStage
    simp only [hr, Bool.false_eq_true, if_false, hraw, Route.invalid_utf8_refused _ _ raw hbad]
  have hreq : handleRequest app rq = (Attrs.none, [.newRequest], some app.urlDecode) := by
    unfold handleRequest; rw [hstage]
  unfold handle
  simp only [hreq, (tween_attrs app rq _ _ _).1, (tween_attrs app rq _ _ _).2, and_true]
  simp only [tween, ExcView.handler]

/-- **The events of `handle_request` come in the documented order**: `NewRequest`, then (after route matching)
`BeforeTraversal` BEFORE the root factory is called, then the traverser, then `ContextFound` — the list of hooks run is
a prefix of that sequence, for the route's own factory or the default one. -/
theorem hooks_in_order (app : App) (rq : Req) :
    ∃ hook, (hook = Point.routeFactory ∨ hook = Point.rootFactory) ∧
      (handle app rq).hooks <+: [.newRequest, .beforeTraversal, hook, .traverser, .contextFound] := by
  unfold handle
  simp only [(tween_attrs app rq _ _ _).2]
  unfold handleRequest
  cases routeStage app rq with
  | none => exact ⟨.rootFactory, Or.inr rfl, by simp [List.prefix_iff_eq_take]⟩
  | some ad =>
    obtain ⟨a, d⟩ := ad
    dsimp only
    have hk : (rootIndex app d).2 = Point.routeFactory ∨ (rootIndex app d).2 = Point.rootFactory := by
      unfold rootIndex
      cases d with
      | none => exact Or.inr rfl
      | some r =>
        dsimp only
        cases r.factory with
        | none => exact Or.inr rfl
        | some f => exact Or.inl rfl
    refine ⟨(rootIndex app d).2, hk, ?_⟩
    unfold afterRoute
    cases rootIndex app d with
    | mk ri hook =>
      dsimp only
      cases app.roots[ri]? with
      | none => simp [List.prefix_iff_eq_take]
      | some root =>
        dsimp only
        cases root.raises with
        | some e => simp [List.prefix_iff_eq_take]
        | none =>
          dsimp only
          cases Trav.traverser root.tree ⟨rq.pathInfo, none, a.matchdict.map travMatchdict⟩ with
          | error _ => simp [List.prefix_iff_eq_take]
          | ok t => simp

/-- **The view is looked up with what routing and traversal found**: the record C03's lookup sees carries the request
interface order of the matched route (`[route]` or `[route, IRequest]`, then `Interface`), the match dictionary of that
route, the resolution order of the CONTEXT traversal found (not of the root) and the view name traversal found. -/
theorem view_sees_route_matchdict_and_traversal_result (app : App) (rq : Req) (i : Nat) (d : RouteDecl) (e : Route.Env)
    (ri : Nat) (t : Trav.Result) :
    let a : Attrs := { Attrs.matched i d e with root := some ri, trav := some t }
    (record app rq a).reqSro = (if d.useGlobalViews then [d.iface, iRequest, iInterface] else [d.iface, iInterface]) ∧
    (record app rq a).matchdict = some (viewMatchdict e) ∧
    (record app rq a).ctxSro = app.ctxSro ri t.context ∧
    (record app rq a).viewName = String.ofList t.viewName ∧
    mainKey a = .res ri t.context ∧
    (record app rq a).method = rq.base.method ∧ (record app rq a).getParams = rq.base.getParams := by
  exact ⟨rfl, rfl, rfl, rfl, rfl, rfl, rfl⟩

/-- the traverser is handed the matched route's `traverse` / `subpath` entries and nothing else of the dictionary -/
theorem traversal_reads_traverse_and_subpath (e : Route.Env) :
    (travMatchdict e).traverse = (e.lookup "traverse".toList).map convVal ∧
    (travMatchdict e).subpath = (e.lookup "subpath".toList).map convVal := ⟨rfl, rfl⟩

/-! ## which view answers -/

/-- **The views bound to the matched route are tried before the global ones** (C03's `earlier_request_iface_wins` with the
request interface the router sets for a `use_global_views` route): a qualifying route-bound candidate makes the chosen
view a route-bound one, whatever is registered globally. -/
theorem matched_route_views_before_global (app : App) (rq : Req) (i : Nat) (d : RouteDecl) (e : Route.Env) (ri : Nat)
    (t : Trav.Result) (u : DView) (hg : d.useGlobalViews = true) :
    let r := record app rq { Attrs.matched i d e with root := some ri, trav := some t }
    u ∈ candidatesOn app.regs clsView r [d.iface] r.ctxSro → u.holds r = true →
    ∃ w ∈ candidatesOn app.regs clsView r [d.iface] r.ctxSro,
      specView app clsView (.res ri t.context) r =
        (if w.secured && !app.permits (.res ri t.context) w.tag then .forbidden w.tag else .response w.tag) := by
  intro r hu hh
  have hsro : r.reqSro = [d.iface] ++ [iRequest, iInterface] := by
    show (if d.useGlobalViews then [d.iface, iRequest, iInterface] else [d.iface, iInterface]) = _
    rw [hg]; rfl
  obtain ⟨w, hw, hf⟩ := earlier_request_iface_wins app.regs clsView r [d.iface] [iRequest, iInterface] hsro u hu hh
  exact ⟨w, hw, by simp only [specView, hf]⟩

/-- a route declared without `use_global_views` never sees a global view: its request interface order has no `IRequest` -/
theorem route_without_global_views_excludes_global (app : App) (rq : Req) (i : Nat) (d : RouteDecl) (e : Route.Env)
    (ri : Nat) (t : Trav.Result) (hg : d.useGlobalViews = false) :
    let r := record app rq { Attrs.matched i d e with root := some ri, trav := some t }
    candidates app.regs clsView r = candidatesOn app.regs clsView r [d.iface, iInterface] r.ctxSro := by
  intro r
  have hsro : r.reqSro = [d.iface, iInterface] ++ [] := by
    show (if d.useGlobalViews then [d.iface, iRequest, iInterface] else [d.iface, iInterface]) = _
    rw [hg]; rfl
  rw [candidates_request_order app.regs clsView r _ _ hsro]
  simp [candidatesOn]

/-- **Not found exactly when neither a route-bound nor a global view qualifies** (C03's `notfound_iff_no_candidate` split
along the request interface order the router sets): for a matched `use_global_views` route the lookup ends in
`HTTPNotFound` / `PredicateMismatch` iff no candidate bound to the route and no global candidate has all predicates true. -/
theorem notfound_iff_no_route_view_and_no_traversal_view (app : App) (rq : Req) (i : Nat) (d : RouteDecl) (e : Route.Env)
    (ri : Nat) (t : Trav.Result) (key : CtxKey) (hg : d.useGlobalViews = true) :
    let r := record app rq { Attrs.matched i d e with root := some ri, trav := some t }
    (specView app clsView key r = .none ∨ specView app clsView key r = .mismatch) ↔
      (∀ v ∈ candidatesOn app.regs clsView r [d.iface] r.ctxSro, v.holds r = false) ∧
      (∀ v ∈ candidatesOn app.regs clsView r [iRequest, iInterface] r.ctxSro, v.holds r = false) := by
  intro r
  have hsro : r.reqSro = [d.iface] ++ [iRequest, iInterface] := by
    show (if d.useGlobalViews then [d.iface, iRequest, iInterface] else [d.iface, iInterface]) = _
    rw [hg]; rfl
  have hsplit := candidates_request_order app.regs clsView r _ _ hsro
  have hnf : (specView app clsView key r = .none ∨ specView app clsView key r = .mismatch) ↔
      ∀ v ∈ candidates app.regs clsView r, v.holds r = false := by
    simp only [specView]
    cases hf : (candidates app.regs clsView r).find? (·.holds r) with
    | none =>
      have := List.find?_eq_none.mp hf
      constructor
      · intro _ v hv; simpa using this v hv
      · intro _; simp only; split
        · exact Or.inr rfl
        · exact Or.inl rfl
    | some v =>
      have hv := List.find?_some hf
      have hmem := List.mem_of_find?_eq_some hf
      constructor
      · intro h; simp only at h; split at h <;> simp at h
      · intro h; have := h v hmem; simp [hv] at this
  rw [hnf, hsplit]
  simp only [List.mem_append]
  constructor
  · intro h; exact ⟨fun v hv => h v (Or.inl hv), fun v hv => h v (Or.inr hv)⟩
  · rintro ⟨h1, h2⟩ v (hv | hv)
    · exact h1 v hv
    · exact h2 v hv

/-! ## C05 in the router: the chosen body runs only if the policy permits its permission on the context found -/

/-- **Mediation**: the declarative lookup answers "the body with tag `t` runs" only for the first qualifying candidate,
and only if that candidate is unprotected or the policy's table permits its permission on the key asked (the CONTEXT
traversal found, for the main lookup). -/
theorem body_runs_only_if_permitted (app : App) (cls : Nat) (key : CtxKey) (r : Request) (t : Nat)
    (h : specView app cls key r = .response t) :
    ∃ v, (candidates app.regs cls r).find? (·.holds r) = some v ∧ v.tag = t ∧
      (v.secured = true → app.permits key t = true) := by
  simp only [specView] at h
  cases hf : (candidates app.regs cls r).find? (·.holds r) with
  | none => rw [hf] at h; simp only at h; split at h <;> cases h
  | some v =>
    rw [hf] at h
    simp only at h
    by_cases hs : (v.secured && !app.permits key v.tag) = true
    · simp only [hs, if_true] at h; cases h
    · simp only [hs, Bool.false_eq_true, if_false, Outcome.response.injEq] at h
      refine ⟨v, rfl, h, fun hsec => ?_⟩
      subst h
      cases hperm : app.permits key v.tag with
      | true => rfl
      | false => simp [hsec, hperm] at hs

/-- **Refusal is a 403 and the body does not run**: when the first qualifying candidate is protected and the table does
not permit, the handler raises `HTTPForbidden` (which step 4 renders), never a response of that body. -/
theorem refused_yields_forbidden (app : App) (key : CtxKey) (r : Request) (v : DView)
    (hf : (candidates app.regs clsView r).find? (·.holds r) = some v) (hs : v.secured = true)
    (hp : app.permits key v.tag = false) :
    specMain app key r = .error app.world.forbidden := by
  simp only [specMain, specView, hf, hs, hp, Bool.not_false, Bool.and_self, if_true]

end Pyr.Router

/-! ## the order of the steps inside `handle_request`, regenerated from the source on every run -/
namespace Pyr.Router
open Pyr.Pipeline (Point)

/-- **`Router.handle_request` has the shape the composed model assumes** (`extract/x01.py` → `Gen/X01.lean`): the default
interface first, `NewRequest`, the route match with `matchdict` / `matched_route` / the route's request interface / the
route's factory (falling back to the default one), `BeforeTraversal` BEFORE the root factory is called, `root`, the
traverser on that root, `attrs.update`, `ContextFound`, `context_iface` of the CONTEXT, `_call_view` with the traversal's
`view_name`, `HTTPNotFound` on `None`.  A statement the translator does not know shows up as `"unknown: …"` and breaks this. -/
theorem steps_as_modelled :
    Pyr.Gen.X01.steps = [
      "iface=IRequest",
      "notify NewRequest",
      "factory=self.root_factory",
      "if routes_mapper",
      "info=routes_mapper(request)",
      "match,route=info['match'],info['route']",
      "if route",
      "attrs[matchdict]=match",
      "attrs[matched_route]=route",
      "iface=registry.queryUtility(IRouteRequest, name=route.name, default=IRequest)",
      "factory=route.factory or self.root_factory",
      "end",
      "end",
      "notify BeforeTraversal",
      "root=root_factory(request)",
      "attrs[root]=root",
      "traverser=queryAdapter(root, ITraverser) or ResourceTreeTraverser(root)",
      "tdict=traverser(request)",
      "unpack tdict",
      "attrs.update(tdict)",
      "notify ContextFound",
      "context_iface=providedBy(context)",
      "response=_call_view(registry, request, context, context_iface, view_name)",
      "if response is None: raise HTTPNotFound",
      "return response"] := by decide

/-- the hook a generated step stands for -/
def hookOfStep (s : String) : Option Point :=
  if s = "notify NewRequest" then some .newRequest
  else if s = "notify BeforeTraversal" then some .beforeTraversal
  else if s = "root=root_factory(request)" then some .rootFactory
  else if s = "tdict=traverser(request)" then some .traverser
  else if s = "notify ContextFound" then some .contextFound
  else none

/-- the hooks of the generated step list, in source order, are the model's hook sequence of a request that reaches the
view lookup (cf. `hooks_in_order`) -/
theorem generated_hook_order :
    Pyr.Gen.X01.steps.filterMap hookOfStep = [.newRequest, .beforeTraversal, .rootFactory, .traverser, .contextFound] := by
  decide

end Pyr.Router
