import PyramidModel.Lemmas.RouterRefine
import PyramidModel.Props.C01
import PyramidModel.Gen.X01
/-!
# X01 — one request through the router: the composition of the verified components refines a declarative reading

Property theorems only.  Model: `RouterModel.lean` (`handle` = `tween ∘ handleRequest`: the glue of `Router.handle_request`
around C01's `mapperCall`, C02's `traverser`, C03's `callView`, C14's `handler` / `errorHandler`, with C05's mediation as a
policy *table*); declarative reading: `RouterSpec.lean` (`specHandle`, on C01's `qualifies`, C02's `specTraverser`, C03's
`candidates`); helper lemmas: `Lemmas/RouterLookup.lean`, `Lemmas/RouterRoute.lean`, `Lemmas/RouterRefine.lean`.
Component theorems used, not re-proved: C01 `firstRoute_cons`, `mapper_none`, `invalid_utf8_refused`; C02
`traverser_no_vroot`; C03 `lookup_eq_spec`, `earlier_request_iface_wins`, `candidates_request_order`,
`notfound_iff_no_candidate`; C14 `errorHandler_spec`.

All statements quantify over applications of any size (route lists, trees, statement lists, policy tables) and every
request.  Hypotheses: `Coherent app.regs` (C03's: statements of one slot with the same predicates agree on order / accept /
protectedness), `app.world.ok` (C14's: `HTTPNotFound` and `PredicateMismatch` are `HTTPNotFound`s, `HTTPForbidden` is
not), and — for the central refinement — `PATH_INFO` present (its absence is finding F-X01b).
-/
namespace Pyr.Router
open Pyr.ViewLookup
open Pyr.ExcView (Exc Resp clsView clsExc bodyOf)
open Pyr.Pipeline (Point)
set_option linter.unusedSimpArgs false

/-! ## the central refinement -/

/-- **The composed router does exactly what the declarative reading says** — which body answered (or which exception
leaves the router), which exception the excview tween caught, what the exception view saw, every request attribute the
router sets (matched route, match dictionary, request interface, root, context, view name, subpath, traversed), and the
order of its events together with the attributes visible at each of them — for every application and every request
without a virtual-root header.  FULL with respect to the reading; the reading itself carries two as-built clauses, each
isolated in a `_partial` corollary with a `decide`d witness: a protected and refused exception view
(`exception_rendered_by_most_specific_view_partial`, F-X01a = F-C14a = F-C05a) and the `HTTPNotFound` message read from
an absent `PATH_INFO` (`nothing_registered_is_http_notfound_partial`, F-X01b). -/
theorem handle_eq_spec (app : App) (rq : Req) (hc : Coherent app.regs) (hw : app.world.ok = true)
    (hv : rq.vroot = none) : handle app rq = specHandle app rq := by
  unfold handle handleRequest specHandle
  rw [routeStage_eq_spec]
  cases specRoute app rq with
  | none => exact tween_early app rq _ _ _ hc hw
  | some hit =>
    cases hit with
    | none => exact afterRoute_eq_spec app rq _ _ hc hw hv
    | some x =>
      obtain ⟨i, d, e⟩ := x
      exact afterRoute_eq_spec app rq _ _ hc hw hv

/-- **… and with a virtual-root header** (C02's `traverseText` with the header): everything above still equals the
reading, except possibly the `traversed` attribute.  `_partial`: C02's finding F-C02a (`traversed` has `len(vroot)` segments
too many when the walk stops early) leaks through unchanged — `traversed_under_vroot_leaks`; nothing else in the router
reads `traversed`, so context, view name, subpath, the view chosen, permissions and exception rendering are the reading's. -/
theorem handle_eq_spec_vroot_partial (app : App) (rq : Req) (hc : Coherent app.regs) (hw : app.world.ok = true) :
    (handle app rq).eraseTraversed = (specHandle app rq).eraseTraversed := by
  unfold handle handleRequest specHandle
  rw [routeStage_eq_spec]
  cases specRoute app rq with
  | none => dsimp only [Option.map_none]; rw [tween_early app rq _ _ _ hc hw]
  | some hit =>
    cases hit with
    | none => exact afterRoute_eq_spec_erased app rq _ _ hc hw
    | some x =>
      obtain ⟨i, d, e⟩ := x
      exact afterRoute_eq_spec_erased app rq _ _ hc hw

/-! ### the two places where the full statement fails on the code as it is -/

private def ex0 : Exc := ⟨0, [0], false, none⟩
private def w0 : ExcView.World :=
  mkWorld ⟨true, false⟩ ⟨45, [45, 0], true, some 404⟩ ⟨48, [48, 45, 0], true, some 404⟩ ⟨44, [44, 0], false, some 403⟩
    ⟨45, [45, 0], true, some 404⟩ ⟨48, [48, 45, 0], true, some 404⟩ ⟨44, [44, 0], false, some 403⟩
private def base0 : Request :=
  { method := "GET", getParams := [], postParams := [], environ := [], pathInfo := "/", matchdict := none,
    authenticated := false, customTrue := [], reTable := [], accQ := [], lineage := [], physPath := none, permitted := true,
    reqSro := [], ctxSro := [], viewName := "" }
private def root0 : RootDecl := ⟨.mk true [("a".toList, .mk true [])], [([], [10, 0]), (["a".toList], [11, 0])], none⟩
/-- no routes, no views, one root -/
private def appEmpty : App :=
  { routes := [], roots := [root0], defaultRoot := 0, views := [], world := w0, urlDecode := ⟨54, [54, 0], false, none⟩,
    unicodeDecode := ⟨50, [50, 0], false, none⟩, keyError := ⟨46, [46, 47, 0], false, none⟩, allowed := [] }

/-- **F-X01b** (replayed on the real router by the harness): `PATH_INFO` absent, nothing registered — the composed model
(like `router.py:167`, `msg = request.path_info`) lets a `KeyError` leave the router where `HTTPNotFound` is due; with
`PATH_INFO = '/'` it is `HTTPNotFound`. -/
theorem missing_path_info_yields_keyerror :
    (handle appEmpty ⟨none, none, [], base0⟩).final = .propagates appEmpty.keyError ∧
    (handle appEmpty ⟨some [47], none, [], base0⟩).final = .propagates w0.notFound := by decide

/-- **Nothing registered for (request interface, context, view name) ⇒ `HTTPNotFound`** is what the handler raises.
`_partial`: needs `PATH_INFO` present (see `missing_path_info_yields_keyerror`). -/
theorem nothing_registered_is_http_notfound_partial (app : App) (rq : Req) (key : CtxKey) (r : Request)
    (hp : rq.pathInfo.isSome = true) (hn : specView app clsView key r = .none) :
    specMain app (specNotFound app rq) key r = .error app.world.notFound := by
  simp only [specMain, hn, specNotFound, hp, if_true]

/-- a view that raises `ex1`, and a protected exception view for it -/
private def ex1 : Exc := ⟨100, [100, 40, 0], false, none⟩
private def appLeak : App :=
  { appEmpty with
    views := [⟨mkStmt 0 0 "" [] .unset false false 1 (.raise ex1) , 9⟩,
              ⟨mkStmt 0 100 "" [] .named true true 2 (.respond) , 1⟩] }

/-- **F-X01a** (= F-C14a = F-C05a through the composed model): the most specific exception view for the raised exception is
protected and the policy refuses — neither its response nor the original exception leaves the router but a new
`HTTPForbidden`; when the policy permits, the view answers. -/
theorem protected_exception_view_refusal_leaks :
    (handle appLeak ⟨some [47], none, [], base0⟩).final = .propagates w0.excForbidden ∧
    (handle appLeak ⟨some [47], none, [], base0⟩).caught = some ex1 ∧
    (handle { appLeak with allowed := [(.exc ex1.sro, 1)] } ⟨some [47], none, [], base0⟩).final = .response (.view 2) := by decide

/-- the hypotheses of the refinement hold at both witnesses (non-vacuity), so it is the code path, not an ill-formed
application, that makes them special -/
example : Coherent appLeak.regs ∧ appLeak.world.ok = true ∧ appLeak.wf = true ∧
    Coherent appEmpty.regs ∧ (⟨some [47], none, [], base0⟩ : Req).pathInfo.isSome = true :=
  ⟨(coherentB_iff _).mp (by decide), by decide, by decide, (coherentB_iff _).mp (by decide), rfl⟩

/-- **An exception is rendered by the most specific exception view** (step 4): when the first qualifying candidate `v` of
the exception lookup (request-interface order of `request_iface.combined`: route-bound before global; the exception's
resolution order: nearest class first) has a body that responds, that response leaves the router and the body saw the
exception.  `_partial`: unless `v` is protected and refused (`protected_exception_view_refusal_leaks`). -/
theorem exception_rendered_by_most_specific_view_partial (app : App) (r0 : Request) (comb : List Nat) (e : Exc) (v : DView)
    (hf : (candidates app.regs clsExc (ExcView.excRequest r0 e comb)).find? (·.holds (ExcView.excRequest r0 e comb)) = some v)
    (hok : v.secured = false ∨ app.permits (.exc e.sro) v.tag = true) (hb : bodyOf app.stmts v.tag = .respond) :
    specRender app r0 comb e = .response (.view v.tag) ∧
    specSeen app r0 comb e = some (ExcView.seenOf e (ExcView.kindOf app.stmts v.tag)) := by
  have hs : (v.secured && !app.permits (.exc e.sro) v.tag) = false := by
    rcases hok with h | h <;> simp [h]
  simp only [specRender, specSeen, specView, hf, hs, Bool.false_eq_true, if_false, hb, and_self]

/-- no exception view qualifies ⇒ the very exception the tween caught leaves the router -/
theorem no_exception_view_propagates_same (app : App) (r0 : Request) (comb : List Nat) (e : Exc)
    (hf : (candidates app.regs clsExc (ExcView.excRequest r0 e comb)).find? (·.holds (ExcView.excRequest r0 e comb)) = none) :
    specRender app r0 comb e = .propagates e ∧ specSeen app r0 comb e = none := by
  simp only [specRender, specSeen, specView, hf]
  by_cases ha : anyRegistered app.regs clsExc (ExcView.excRequest r0 e comb) = true
  · simp only [ha, if_true, and_self]
  · simp only [ha, Bool.false_eq_true, if_false, and_self]

/-! ## what the router sets is what the body sees -/

/-- the excview tween never touches the attributes `handle_request` set -/
theorem tween_attrs (app : App) (rq : Req) (a : Attrs) (hooks : List Hook) (early : Option Exc) :
    (tween app rq a hooks early).attrs = a ∧ (tween app rq a hooks early).hooks = hooks := by
  unfold tween
  simp only []
  split <;> exact ⟨rfl, rfl⟩

/-- **A route miss falls through to traversal** (C01's `mapper_none` in the router): when the path decodes and no declared
route qualifies, the request keeps the plain `IRequest` interface and has no match dictionary, the DEFAULT root factory is
called, and context / view name / subpath are C02's reading of `PATH_INFO` on that root's tree. -/
theorem route_miss_falls_through_to_traversal (app : App) (rq : Req) (p : Text) (root : RootDecl)
    (hpath : Route.requestPath rq.pathInfo = some p)
    (hmiss : ∀ r ∈ routeList app rq, ∀ e, Route.matchToks Rx.Ucd.ascii r.toks p = some e → Route.predsHold e r.preds = false)
    (hroot : app.roots[app.defaultRoot]? = some root) (hnr : root.raises = none) (hv : rq.vroot = none) :
    (handle app rq).attrs.route = none ∧ (handle app rq).attrs.matchdict = none ∧
    (handle app rq).attrs.reqSro = [iRequest, iInterface] ∧
    ∀ t, Trav.specTraverser root.tree ⟨rq.pathInfo, none, none⟩ = .ok t →
      (handle app rq).attrs.root = some app.defaultRoot ∧ (handle app rq).attrs.trav = some t := by
  have hm : Route.mapperCall Rx.Ucd.ascii (routeList app rq) rq.pathInfo = .noMatch :=
    (Route.mapper_none _ _ _).mpr ⟨p, hpath, hmiss⟩
  have hstage : routeStage app rq = some (Attrs.none, none) := by
    unfold routeStage
    split
    · rfl
    · rw [hm]
  have hreq : (handleRequest app rq).1 =
      match Trav.specTraverser root.tree ⟨rq.pathInfo, none, none⟩ with
      | .error _ => { Attrs.none with root := some app.defaultRoot }
      | .ok t => { Attrs.none with root := some app.defaultRoot, trav := some t } := by
    unfold handleRequest
    simp only [hstage, afterRoute, rootIndex, hroot, hnr, hv]
    rw [Trav.traverser_no_vroot root.tree _ rfl]
    cases h : Trav.specTraverser root.tree ⟨rq.pathInfo, none, none⟩ with
    | error x =>
      have h' : Trav.specTraverser root.tree ⟨rq.pathInfo, none, Option.map travMatchdict Attrs.none.matchdict⟩ = .error x := h
      rw [h']
    | ok t =>
      have h' : Trav.specTraverser root.tree ⟨rq.pathInfo, none, Option.map travMatchdict Attrs.none.matchdict⟩ = .ok t := h
      rw [h']
  unfold handle
  simp only [(tween_attrs app rq _ _ _).1, hreq]
  cases Trav.specTraverser root.tree ⟨rq.pathInfo, none, none⟩ with
  | error _ => exact ⟨rfl, rfl, rfl, fun t h => by cases h⟩
  | ok t0 => exact ⟨rfl, rfl, rfl, fun t h => by cases h; exact ⟨rfl, rfl⟩⟩

/-- **An undecodable path is refused before anything else** (C01's `invalid_utf8_refused` in the router): with at least
one route declared, the excview tween catches `URLDecodeError`, no attribute was set and only `NewRequest` was sent. -/
theorem undecodable_path_refused_first (app : App) (rq : Req) (raw : Trav.Bytes) (hr : app.routes.isEmpty = false)
    (hraw : rq.pathInfo = some raw) (hbad : Trav.utf8Dec raw = none) :
    (handle app rq).caught = some app.urlDecode ∧ (handle app rq).attrs = Attrs.none ∧
    (handle app rq).hooks = [(.newRequest, Attrs.none)] := by
  have hstage : routeStage app rq = none := by
    unfold routeStage
    simp only [hr, Bool.false_eq_true, if_false, hraw, Route.invalid_utf8_refused _ _ raw hbad]
  have hreq : handleRequest app rq = (Attrs.none, [(.newRequest, Attrs.none)], some app.urlDecode) := by
    unfold handleRequest; rw [hstage]
  unfold handle
  simp only [hreq, (tween_attrs app rq _ _ _).1, (tween_attrs app rq _ _ _).2, and_true]
  simp only [tween, ExcView.handler]

/-- **The events of `handle_request` come in the documented order**: `NewRequest`, then (after route matching)
`BeforeTraversal` BEFORE the root factory is called, then the traverser, then `ContextFound` — the list of hooks run is
a prefix of that sequence, for the route's own factory or the default one. -/
theorem hooks_in_order (app : App) (rq : Req) :
    ∃ hook, (hook = Point.routeFactory ∨ hook = Point.rootFactory) ∧
      (handle app rq).hooks.map (·.1) <+: [.newRequest, .beforeTraversal, hook, .traverser, .contextFound] := by
  unfold handle
  simp only [(tween_attrs app rq _ _ _).2]
  unfold handleRequest
  cases routeStage app rq with
  | none => exact ⟨.rootFactory, Or.inr rfl, by simp [List.prefix_iff_eq_take]⟩
  | some ad =>
    obtain ⟨a, d⟩ := ad
    dsimp only
    have hk : (rootIndex app d).2 = Point.routeFactory ∨ (rootIndex app d).2 = Point.rootFactory := by
      unfold rootIndex
      cases d with
      | none => exact Or.inr rfl
      | some r =>
        dsimp only
        cases r.factory with
        | none => exact Or.inr rfl
        | some f => exact Or.inl rfl
    refine ⟨(rootIndex app d).2, hk, ?_⟩
    unfold afterRoute
    cases rootIndex app d with
    | mk ri hook =>
      dsimp only
      cases app.roots[ri]? with
      | none => simp [List.prefix_iff_eq_take]
      | some root =>
        dsimp only
        cases root.raises with
        | some e => simp [List.prefix_iff_eq_take]
        | none =>
          dsimp only
          cases Trav.traverser root.tree ⟨rq.pathInfo, rq.vroot, a.matchdict.map travMatchdict⟩ with
          | error _ => simp [List.prefix_iff_eq_take]
          | ok t => simp

/-- **What a subscriber sees at each event**: `NewRequest` — nothing set yet (plain `IRequest`); `BeforeTraversal` and the
factory — the route's attributes (`matched_route`, `matchdict`, the route's request interface) but no `root` / `context`;
the traverser — `root` too; `ContextFound` — everything.  (For a request that reaches the lookup.) -/
theorem attrs_visible_at_hooks (app : App) (rq : Req) (a : Attrs) (d : Option RouteDecl) (root : RootDecl) (t : Trav.Result)
    (hroot : app.roots[(rootIndex app d).1]? = some root) (hnr : root.raises = none)
    (ht : Trav.traverser root.tree ⟨rq.pathInfo, rq.vroot, a.matchdict.map travMatchdict⟩ = .ok t) :
    (afterRoute app rq a d).2.1 =
      [(.newRequest, Attrs.none), (.beforeTraversal, a), ((rootIndex app d).2, a),
       (.traverser, { a with root := some (rootIndex app d).1 }),
       (.contextFound, { a with root := some (rootIndex app d).1, trav := some t })] := by
  unfold afterRoute
  revert hroot ht
  cases rootIndex app d with
  | mk ri hook =>
    dsimp only
    intro hroot ht
    simp only [hroot, hnr, ht]
    rfl

/-- **The lookup classifies the context as it is when `ContextFound` has been sent** (`RootDecl.sro` is what every resource
provides once the last ContextFound subscriber has run — the harness snapshots it there through zope.interface and re-reads it in
the view body): the last hook of a request that reaches the lookup is `ContextFound`, and the resolution order, the lineage and
the policy key of the record handed to C03's lookup are those of the attributes visible at that hook — nothing is taken
earlier (seed C03-6 computes `context_iface` before the notification: caught by the probed table and by run-time marking). -/
theorem lookup_uses_classification_at_context_found (app : App) (rq : Req) (a : Attrs) (d : Option RouteDecl) (root : RootDecl)
    (t : Trav.Result) (hroot : app.roots[(rootIndex app d).1]? = some root) (hnr : root.raises = none)
    (ht : Trav.traverser root.tree ⟨rq.pathInfo, rq.vroot, a.matchdict.map travMatchdict⟩ = .ok t) :
    ∃ a2, (afterRoute app rq a d).2.1.getLast? = some (.contextFound, a2) ∧ (afterRoute app rq a d).1 = a2 ∧
      (afterRoute app rq a d).2.2 = none ∧
      (record app rq a2).ctxSro = app.ctxSro (rootIndex app d).1 t.context ∧
      (record app rq a2).lineage = lineageOf app (rootIndex app d).1 t.context ∧
      mainKey a2 = .res (rootIndex app d).1 t.context := by
  refine ⟨{ a with root := some (rootIndex app d).1, trav := some t }, ?_, ?_, ?_, rfl, rfl, rfl⟩
  · rw [attrs_visible_at_hooks app rq a d root t hroot hnr ht]; rfl
  all_goals
    unfold afterRoute
    revert hroot ht
    cases rootIndex app d with
    | mk ri hook =>
      dsimp only
      intro hroot ht
      simp only [hroot, hnr, ht]

/-- **The view is looked up with what routing and traversal found**: the record C03's lookup sees carries the request
interface order of the matched route (`[route]` or `[route, IRequest]`, then `Interface`), the match dictionary of that
route, the resolution order of the CONTEXT traversal found (not of the root) and the view name traversal found. -/
theorem view_sees_route_matchdict_and_traversal_result (app : App) (rq : Req) (i : Nat) (d : RouteDecl) (e : Route.Env)
    (ri : Nat) (t : Trav.Result) :
    let a : Attrs := { Attrs.matched i d e with root := some ri, trav := some t }
    (record app rq a).reqSro = (if d.useGlobalViews then [d.iface, iRequest, iInterface] else [d.iface, iInterface]) ∧
    (record app rq a).matchdict = some (viewMatchdict e) ∧
    (record app rq a).ctxSro = app.ctxSro ri t.context ∧
    (record app rq a).viewName = String.ofList t.viewName ∧
    mainKey a = .res ri t.context ∧
    (record app rq a).lineage = lineageOf app ri t.context ∧
    (record app rq a).physPath = some ("" :: t.context.map String.ofList) ∧
    (record app rq a).method = rq.base.method ∧ (record app rq a).getParams = rq.base.getParams ∧
    (record app rq a).pathInfo = rq.base.pathInfo := by
  exact ⟨rfl, rfl, rfl, rfl, rfl, rfl, rfl, rfl, rfl, rfl⟩

/-- the traverser is handed the matched route's `traverse` / `subpath` entries and nothing else of the dictionary -/
theorem traversal_reads_traverse_and_subpath (e : Route.Env) :
    (travMatchdict e).traverse = (e.lookup "traverse".toList).map convVal ∧
    (travMatchdict e).subpath = (e.lookup "subpath".toList).map convVal := ⟨rfl, rfl⟩

/-! ## which view answers -/

/-- **The views bound to the matched route are tried before the global ones** (C03's `earlier_request_iface_wins` with the
request interface the router sets for a `use_global_views` route): a qualifying route-bound candidate makes the chosen
view a route-bound one, whatever is registered globally. -/
theorem matched_route_views_before_global (app : App) (rq : Req) (i : Nat) (d : RouteDecl) (e : Route.Env) (ri : Nat)
    (t : Trav.Result) (u : DView) (hg : d.useGlobalViews = true) :
    let r := record app rq { Attrs.matched i d e with root := some ri, trav := some t }
    u ∈ candidatesOn app.regs clsView r [d.iface] r.ctxSro → u.holds r = true →
    ∃ w ∈ candidatesOn app.regs clsView r [d.iface] r.ctxSro,
      specView app clsView (.res ri t.context) r =
        (if w.secured && !app.permits (.res ri t.context) w.tag then .forbidden w.tag else .response w.tag) := by
  intro r hu hh
  have hsro : r.reqSro = [d.iface] ++ [iRequest, iInterface] := by
    show (if d.useGlobalViews then [d.iface, iRequest, iInterface] else [d.iface, iInterface]) = _
    rw [hg]; rfl
  obtain ⟨w, hw, hf⟩ := earlier_request_iface_wins app.regs clsView r [d.iface] [iRequest, iInterface] hsro u hu hh
  exact ⟨w, hw, by simp only [specView, hf]⟩

/-- a route declared without `use_global_views` never sees a global view: its request interface order has no `IRequest` -/
theorem route_without_global_views_excludes_global (app : App) (rq : Req) (i : Nat) (d : RouteDecl) (e : Route.Env)
    (ri : Nat) (t : Trav.Result) (hg : d.useGlobalViews = false) :
    let r := record app rq { Attrs.matched i d e with root := some ri, trav := some t }
    candidates app.regs clsView r = candidatesOn app.regs clsView r [d.iface, iInterface] r.ctxSro := by
  intro r
  have hsro : r.reqSro = [d.iface, iInterface] ++ [] := by
    show (if d.useGlobalViews then [d.iface, iRequest, iInterface] else [d.iface, iInterface]) = _
    rw [hg]; rfl
  rw [candidates_request_order app.regs clsView r _ _ hsro]
  simp [candidatesOn]

/-- **Not found exactly when neither a route-bound nor a global view qualifies** (C03's `notfound_iff_no_candidate` split
along the request interface order the router sets): for a matched `use_global_views` route the lookup ends in
`HTTPNotFound` / `PredicateMismatch` iff no candidate bound to the route and no global candidate has all predicates true. -/
theorem notfound_iff_no_route_view_and_no_traversal_view (app : App) (rq : Req) (i : Nat) (d : RouteDecl) (e : Route.Env)
    (ri : Nat) (t : Trav.Result) (key : CtxKey) (hg : d.useGlobalViews = true) :
    let r := record app rq { Attrs.matched i d e with root := some ri, trav := some t }
    (specView app clsView key r = .none ∨ specView app clsView key r = .mismatch) ↔
      (∀ v ∈ candidatesOn app.regs clsView r [d.iface] r.ctxSro, v.holds r = false) ∧
      (∀ v ∈ candidatesOn app.regs clsView r [iRequest, iInterface] r.ctxSro, v.holds r = false) := by
  intro r
  have hsro : r.reqSro = [d.iface] ++ [iRequest, iInterface] := by
    show (if d.useGlobalViews then [d.iface, iRequest, iInterface] else [d.iface, iInterface]) = _
    rw [hg]; rfl
  have hsplit := candidates_request_order app.regs clsView r _ _ hsro
  have hnf : (specView app clsView key r = .none ∨ specView app clsView key r = .mismatch) ↔
      ∀ v ∈ candidates app.regs clsView r, v.holds r = false := by
    simp only [specView]
    cases hf : (candidates app.regs clsView r).find? (·.holds r) with
    | none =>
      have := List.find?_eq_none.mp hf
      constructor
      · intro _ v hv; simpa using this v hv
      · intro _; simp only; split
        · exact Or.inr rfl
        · exact Or.inl rfl
    | some v =>
      have hv := List.find?_some hf
      have hmem := List.mem_of_find?_eq_some hf
      constructor
      · intro h; simp only at h; split at h <;> simp at h
      · intro h; have := h v hmem; simp [hv] at this
  rw [hnf, hsplit]
  simp only [List.mem_append]
  constructor
  · intro h; exact ⟨fun v hv => h v (Or.inl hv), fun v hv => h v (Or.inr hv)⟩
  · rintro ⟨h1, h2⟩ v (hv | hv)
    · exact h1 v hv
    · exact h2 v hv

/-! ## C05 in the router: the chosen body runs only if the policy permits its permission on the context found -/

/-- **Mediation**: the declarative lookup answers "the body with tag `t` runs" only for the first qualifying candidate,
and only if that candidate is unprotected or the policy's table permits its permission on the key asked (the CONTEXT
traversal found, for the main lookup). -/
theorem body_runs_only_if_permitted (app : App) (cls : Nat) (key : CtxKey) (r : Request) (t : Nat)
    (h : specView app cls key r = .response t) :
    ∃ v, (candidates app.regs cls r).find? (·.holds r) = some v ∧ v.tag = t ∧
      (v.secured = true → app.permits key t = true) := by
  simp only [specView] at h
  cases hf : (candidates app.regs cls r).find? (·.holds r) with
  | none => rw [hf] at h; simp only at h; split at h <;> cases h
  | some v =>
    rw [hf] at h
    simp only at h
    by_cases hs : (v.secured && !app.permits key v.tag) = true
    · simp only [hs, if_true] at h; cases h
    · simp only [hs, Bool.false_eq_true, if_false, Outcome.response.injEq] at h
      refine ⟨v, rfl, h, fun hsec => ?_⟩
      subst h
      cases hperm : app.permits key v.tag with
      | true => rfl
      | false => simp [hsec, hperm] at hs

/-- **Refusal is a 403 and the body does not run**: when the first qualifying candidate is protected and the table does
not permit, the handler raises `HTTPForbidden` (which step 4 renders), never a response of that body. -/
theorem refused_yields_forbidden (app : App) (key : CtxKey) (r : Request) (v : DView)
    (hf : (candidates app.regs clsView r).find? (·.holds r) = some v) (hs : v.secured = true)
    (hp : app.permits key v.tag = false) :
    ∀ nf, specMain app nf key r = .error app.world.forbidden := by
  intro nf
  simp only [specMain, specView, hf, hs, hp, Bool.not_false, Bool.and_self, if_true]

/-! ## the order of the steps inside `handle_request` and what is set at each, PROBED on the running router on every run -/

/-- the scratch application of `extract/x01.py` as the composed model takes it: roots `{a}` and `{b}`, a factory that raises
`ValueError`; routes `/r/{id}` (own factory), `/t/*traverse` (use_global_views), `/x/{id}` (raising factory); view 1 `v` on
class A, view 2 bound to `rt0`, exception view 3 for `ValueError` bound to `rt2`, notfound view 4, exception view 5 for
`URLDecodeError` -/
private def valueError : Exc := ⟨52, [52, 40, 0], false, none⟩
private def probeApp : App :=
  { routes := [⟨"rt0".toList, [.lit "/r/".toList, .ph "id".toList Rx.notSlashPlus], none, some 1, 1, 20, false⟩,
               ⟨"rt1".toList, [.lit "/t/".toList, .rest "traverse".toList], none, none, 2, 21, true⟩,
               ⟨"rt2".toList, [.lit "/x/".toList, .ph "id".toList Rx.notSlashPlus], none, some 2, 3, 22, false⟩],
    roots := [⟨.mk true [("a".toList, .mk true [])], [([], [10, 90, 90, 0]), (["a".toList], [11, 90, 90, 0])], none⟩,
              ⟨.mk true [("b".toList, .mk true [])], [([], [10, 90, 90, 0]), (["b".toList], [11, 90, 90, 0])], none⟩,
              ⟨.mk true [], [], some valueError⟩],
    defaultRoot := 0,
    views := [⟨mkStmt 0 11 "v" [] .unset false false 1 (.respond) , 9⟩,
              ⟨mkStmt 1 0 "" [] .unset false false 2 (.respond) , 9⟩,
              ⟨mkStmt 3 52 "" [] .noPermissionRequired true true 3 (.respond) , 9⟩,
              ⟨mkStmt 0 45 "" [] .noPermissionRequired true true 4 (.respond) , 9⟩,
              ⟨mkStmt 0 49 "" [] .noPermissionRequired true true 5 (.respond) , 9⟩,
              ⟨mkStmt 0 3 "m" [] .unset false false 6 (.respond) , 9⟩],
    world := { w0 with sec := ⟨false, false⟩ },
    urlDecode := ⟨49, [49, 50, 51, 52, 40, 0], false, none⟩, unicodeDecode := ⟨50, [50, 51, 52, 40, 0], false, none⟩,
    keyError := ⟨46, [46, 47, 40, 0], false, none⟩, allowed := [] }

example : Route.compileRoute Rx.Ucd.ascii [] "/r/{id}".toList = .ok [.lit "/r/".toList, .ph "id".toList Rx.notSlashPlus] ∧
    Route.compileRoute Rx.Ucd.ascii [] "/t/*traverse".toList = .ok [.lit "/t/".toList, .rest "traverse".toList] := by decide

/-- the same application in the request whose ContextFound subscriber marked the resource `a` with the marker interface
(id 3): what `a` provides WHEN THE LOOKUP STARTS -/
private def probeAppMarked : App :=
  { probeApp with
    roots := [⟨.mk true [("a".toList, .mk true [])], [([], [10, 90, 90, 0]), (["a".toList], [90, 3, 11, 90, 90, 0])], none⟩,
              ⟨.mk true [("b".toList, .mk true [])], [([], [10, 90, 90, 0]), (["b".toList], [11, 90, 90, 0])], none⟩,
              ⟨.mk true [], [], some valueError⟩] }

private def probeReqs : List (String × Trav.Bytes) :=
  [("traversal", [47, 97, 47, 118]), ("route-factory", [47, 114, 47, 55]), ("route-traverse", [47, 116, 47, 97, 47, 118]),
   ("factory-raises", [47, 120, 47, 49]), ("not-found", [47, 122, 122]), ("undecodable", [47, 0xff])]

def hookName : Point → String
  | .newRequest => "NewRequest"
  | .beforeTraversal => "BeforeTraversal"
  | .routeFactory => "routefactory"
  | .rootFactory => "rootfactory"
  | .traverser => "traverser"
  | .contextFound => "ContextFound"
  | _ => "?"

def renderVal : Route.Val → String
  | .str s => String.ofList s
  | .segs xs => "(" ++ String.intercalate "," (xs.map String.ofList) ++ ")"

/-- a hook of the model as an observed event of the probe -/
def renderStep (app : App) (h : Hook) : Pyr.Gen.X01.Step :=
  ⟨hookName h.1, h.2.route, (h.2.matchdict.getD []).map (fun kv => (String.ofList kv.1, renderVal kv.2)), h.2.reqSro, h.2.root,
   h.2.trav.map (fun t => t.context.map String.ofList), h.2.trav.map (fun t => String.ofList t.viewName),
   match h.2.root, h.2.trav with
   | some i, some t => app.ctxSro i t.context
   | _, _ => []⟩

def renderOutcome (app : App) (o : Outcome) : List Pyr.Gen.X01.Step × (String × Nat) × Option Nat :=
  (o.hooks.map (renderStep app),
   (match o.final with
    | .response (.view t) => ("view", t)
    | .response (.self _ st) => ("status", st.getD 0)
    | .propagates e => ("raise", e.id)),
   o.caught.map (·.id))

/-- **The running router takes the steps the composed model takes, and each step sees what the model says it sees**
(`extract/x01.py` runs the router of the tree under test on a scratch application and writes what logging subscribers,
factories and a logging traverser observed into `Gen/X01.lean`): for six request shapes — traversal fall-through, a route with
its own factory, a `*traverse` route with global views, a raising route factory rendered by a ROUTE-BOUND exception view,
not found, undecodable path, and a context MARKED with an interface by a ContextFound subscriber whose only view is registered
for that marker (found: the lookup classifies the context after the ContextFound subscribers ran, with what the context
provides at that moment — the `provides` column, read by the probe through zope.interface) — the order NewRequest → BeforeTraversal → root/route factory → traverser → ContextFound, the
attributes visible at each (`matched_route`, `matchdict` and the route's `request_iface` from BeforeTraversal on; `root` from
the traverser on; `context` / `view_name` at ContextFound), the answering view and the caught exception are exactly the
model's.  Fails closed when the probe could not run on the tree's own `pyramid`. -/
theorem probed_router_matches_model :
    Pyr.Gen.X01.ownTree = true ∧
    Pyr.Gen.X01.probed = (probeReqs.map fun nr =>
      (nr.1, renderOutcome probeApp (handle probeApp ⟨some nr.2, none, [], base0⟩))) ++
      [("marked-at-context-found",
        renderOutcome probeAppMarked (handle probeAppMarked ⟨some [47, 97, 47, 109], none, [], base0⟩))] := by decide

/-- **F-C02a leaks through unchanged** (why `handle_eq_spec_vroot_partial` compares up to `traversed`): virtual root `/a`,
path `/zz` on the probe application — the walk consumes `a` and stops at `zz`; the composed model (like the real traverser)
reports `traversed = (a, zz)`, the reading `(a)`; context, view name and the answering view agree. -/
theorem traversed_under_vroot_leaks :
    let rq : Req := ⟨some [47, 122, 122], some [47, 97], [], base0⟩
    (handle probeApp rq).attrs.trav.map (·.traversed) = some ["a".toList, "zz".toList] ∧
    (specHandle probeApp rq).attrs.trav.map (·.traversed) = some ["a".toList] ∧
    (handle probeApp rq).final = (specHandle probeApp rq).final ∧
    (handle probeApp rq).attrs.trav.map (·.context) = some ["a".toList] := by decide

/-- the probe application satisfies the hypotheses of `handle_eq_spec`, so the probed steps are also the reading's -/
example : Coherent probeApp.regs ∧ probeApp.world.ok = true ∧ probeApp.wf = true :=
  ⟨(coherentB_iff _).mp (by decide), by decide, by decide⟩

/-- AST cross-check (tolerant: `[]` = the walk did not recognise `handle_request`; a recognised, different order fails) -/
theorem ast_order_cross_check :
    Pyr.Gen.X01.astEvents = [] ∨
    Pyr.Gen.X01.astEvents = ["notify NewRequest", "routes_mapper", "notify BeforeTraversal", "root_factory", "traverser",
      "notify ContextFound", "_call_view", "raise HTTPNotFound"] := by decide

end Pyr.Router
