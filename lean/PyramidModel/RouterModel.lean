import PyramidModel.Route
import PyramidModel.Traversal
import PyramidModel.ViewLookup
import PyramidModel.ExcView
import PyramidModel.Pipeline
/-!
X01 — `Router.handle_request` under the excview tween as ONE function that wires the verified component models
together.  Core Lean only; nothing of the components is re-implemented here:

* C01  `Pyr.Route.mapperCall`        `routes_mapper(request)`                                   (router.py 71-73)
* C02  `Pyr.Trav.traverser`          `ResourceTreeTraverser(root)(request)`                      (router.py 120-123)
* C03  `Pyr.ViewLookup.callView`     `_call_view(registry, request, context, context_iface, view_name)` (142-144),
                                      reached through C14's `Pyr.ExcView.handler`
* C05  the `secured` layer: the policy is asked `permits(context, permission of the view found)`; falsy ⇒ `HTTPForbidden`
       before the body (`Pyr.ViewLookup.DView.call`), here with a policy *table* (`App.allowed`) instead of one verdict
* C14  `Pyr.ExcView.handler` / `errorHandler`   `excview_tween` → `_error_handler` → `invoke_exception_view`  (tweens.py)
* C13  the hook vocabulary `Pyr.Pipeline.Point` for the order of the events of `handle_request`

What this file adds is exactly the glue of `Router.handle_request` (src/pyramid/router.py 55-170):

  line 59      `request.request_iface = IRequest`                                  → `Attrs.none`
  line 68      NewRequest                                                          → hook `newRequest`
  lines 71-73  `if routes_mapper is not None: info = routes_mapper(request)`       → `routeStage`
  lines 79-80  `attrs['matchdict'] = match; attrs['matched_route'] = route`        → `Attrs.route`, `Attrs.matchdict`
  lines 101-3  `request.request_iface = queryUtility(IRouteRequest, name=route.name)` → `RouteDecl.reqSro`
  line 105     `root_factory = route.factory or self.root_factory`                 → `rootIndex`
  line 113     BeforeTraversal (before the root factory runs)                      → hook `beforeTraversal`
  lines 116-7  `root = root_factory(request)`                                      → hook `routeFactory` / `rootFactory`
  lines 120-34 traverser, `attrs.update(tdict)`                                    → `Attrs.trav`
  line 138     ContextFound                                                        → hook `contextFound`
  lines 141-4  `context_iface = providedBy(context)`; `_call_view(…, view_name)`   → `record` (ctxSro of the CONTEXT,
                                                                                       view name of the TRAVERSAL)
  lines 146-68 `if response is None: raise HTTPNotFound`                           → `ExcView.handler` (`.none ⇒ notFound`)

Inputs that are DATA, passed through to the component models unchanged (each component's trusted base): the compiled
token list of every route pattern (`Route.compileRoute`, done by the driver), the truth of opaque route predicates for
this request, `providedBy(resource).__sro__` for every resource of every tree, the resolution order of every exception,
everything `ViewLookup.Request` takes as data (parsed parameters, headers, custom view predicates), the policy's
decision table.  The resolution order of the REQUEST interface is *computed* here from the route declaration
(`RouteDecl.reqSro`, `RouteDecl.combinedSro`) and compared with the real `request_iface.__sro__` on every case.

Not modelled: a virtual root (`X-Vhm-Root`; C02's own subject, the composed request has none), `traverse=` /
`route.pmeta`, custom `ITraverser` adapters, static views, `accept=` / `containment=` / `physical_path=` view predicates
(C03's subject; the composed record carries no lineage), tweens other than the excview tween, response callbacks.
-/
namespace Pyr.Router

open Pyr.Trav (Seg Bytes)
open Pyr.ExcView (Exc Resp Stmt World)
open Pyr.Pipeline (Point)

/-- slot ids of `IRequest` and `Interface` on the request side (the ids of C03's harness) -/
def iRequest : Nat := 0
def iInterface : Nat := 50

/-! ## C14's structures are built through these two helpers ONLY (driver, witnesses, probe application), so that a field
added to `ExcView.Stmt` / `ExcView.World` needs one line here.  Neutral values: no `accept=`, the body does not touch
`request.response`, the callable is a function `(context, request)`. -/

/-- an `add_view`-family statement of the composed model -/
def mkStmt (reqIface ctxIface : Nat) (name : String) (preds : List ViewLookup.RawPred) (perm : ExcView.Perm)
    (isExc exceptionOnly : Bool) (tag : Nat) (body : ExcView.Body) : Stmt :=
  { reqIface := reqIface, ctxIface := ctxIface, name := name, preds := preds, accept := none, perm := perm, isExc := isExc,
    exceptionOnly := exceptionOnly, tag := tag, body := body, touch := false, kind := .fnCR }

/-- the security set-up and the exceptions the framework raises itself -/
def mkWorld (sec : ExcView.Security) (notFound mismatch forbidden excNotFound excMismatch excForbidden : Exc) : World :=
  { sec := sec, notFound := notFound, mismatch := mismatch, forbidden := forbidden, excNotFound := excNotFound,
    excMismatch := excMismatch, excForbidden := excForbidden, viewResponse := 0 }

/-! ## the application -/

/-- `config.add_route(name, pattern, factory=…, use_global_views=…, custom_predicates=…)` -/
structure RouteDecl where
  name : Text
  /-- `_compile_route(pattern)` (C01's `compileRoute`, applied by the driver) -/
  toks : List Route.Tok
  /-- an opaque route predicate (its truth for a request is `Req.routePredTrue`) -/
  pred : Option Nat
  /-- `factory=`: index into `App.roots` -/
  factory : Option Nat
  /-- slot ids of `IRouteRequest(name)` and of its `.combined` -/
  iface : Nat
  combined : Nat
  useGlobalViews : Bool
deriving Repr, DecidableEq

/-- `route_request_iface(name, bases)`: bases `()` or `(IRequest,)` -/
def RouteDecl.reqSro (r : RouteDecl) : List Nat :=
  if r.useGlobalViews then [r.iface, iRequest, iInterface] else [r.iface, iInterface]

/-- `iface.combined = InterfaceClass(bases=(iface, IRequest))` -/
def RouteDecl.combinedSro (r : RouteDecl) : List Nat := [r.combined, r.iface, iRequest, iInterface]

/-- a root factory: the tree it returns, `providedBy(resource).__sro__` of every resource (by position), or the
exception it raises -/
structure RootDecl where
  tree : Trav.Tree
  sro : List (List Seg × List Nat)
  raises : Option Exc

/-- one `add_view`-family statement (C14's `Stmt`) and the name of its permission (meaningful when `stmt.perm = .named`) -/
structure ViewDecl where
  stmt : Stmt
  permName : Nat
deriving Repr, DecidableEq

/-- what the policy is asked about -/
inductive CtxKey where
  /-- the resource at a position of the tree of root factory `root` -/
  | res (root : Nat) (pos : List Seg)
  /-- an exception (identified by its class, i.e. its resolution order) -/
  | exc (sro : List Nat)
deriving Repr, DecidableEq

structure App where
  routes : List RouteDecl
  roots : List RootDecl
  /-- `Configurator(root_factory=…)` -/
  defaultRoot : Nat
  views : List ViewDecl
  /-- policy / default permission present, the exceptions the framework raises itself (C14) -/
  world : World
  /-- `URLDecodeError` -/
  urlDecode : Exc
  /-- the plain `UnicodeDecodeError` of a virtual-root header that is not UTF-8 -/
  unicodeDecode : Exc
  /-- the `KeyError` of `request.path_info` when `PATH_INFO` is absent from the environ -/
  keyError : Exc
  /-- `policy.permits(request, context, permission)` is truthy exactly for these pairs -/
  allowed : List (CtxKey × Nat)

structure Req where
  /-- `environ['PATH_INFO']` as a WSGI string -/
  pathInfo : Option Bytes
  /-- `environ['HTTP_X_VHM_ROOT']` as a WSGI string (C02's virtual root) -/
  vroot : Option Bytes
  /-- the opaque route predicates that hold for this request -/
  routePredTrue : List Nat
  /-- what view predicates read and the router does not compute: method, parameters, headers, … (`reqSro`, `ctxSro`,
  `viewName`, `matchdict`, `permitted` of this record are NOT read: `record` overwrites them) -/
  base : ViewLookup.Request

/-! ## the glue -/

def App.stmts (app : App) : List Stmt := app.views.map (·.stmt)

def App.regs (app : App) : List ViewLookup.ViewReg := ExcView.allRegs app.world.sec app.stmts

/-- the registry after every statement was executed (C03's `registerAll`) -/
def App.registry (app : App) : ViewLookup.Registry := ViewLookup.registerAll app.regs

/-- `policy.permits(request, context, permission of the statement with this tag)` -/
def App.permits (app : App) (key : CtxKey) (tag : Nat) : Bool :=
  match app.views.find? (·.stmt.tag = tag) with
  | some v => app.allowed.contains (key, v.permName)
  | none => true

/-- the `routelist` of the mapper as this request sees it (C01's `Route`) -/
def mkRoute (rq : Req) (d : RouteDecl) (i : Nat) : Route.Route :=
  { id := i, name := d.name, toks := d.toks, static := false,
    preds := match d.pred with
      | some p => [Route.Pred.const (rq.routePredTrue.contains p)]
      | none => [] }

def routeList (app : App) (rq : Req) : List Route.Route :=
  app.routes.zipIdx.map fun (d, i) => mkRoute rq d i

/-- the request attributes `handle_request` sets (object identities are positions / indices) -/
structure Attrs where
  /-- `matched_route` (index into `App.routes`) -/
  route : Option Nat
  /-- `matchdict` -/
  matchdict : Option Route.Env
  /-- `request_iface.__sro__` and `request_iface.combined.__sro__` -/
  reqSro : List Nat
  combinedSro : List Nat
  /-- `root` (index of the root factory that was called) -/
  root : Option Nat
  /-- `context`, `view_name`, `subpath`, `traversed`, `virtual_root`, `virtual_root_path` -/
  trav : Option Trav.Result
deriving Repr, DecidableEq

/-- line 59: `request.request_iface = IRequest`, nothing else set -/
def Attrs.none : Attrs := ⟨.none, .none, [iRequest, iInterface], [iRequest, iInterface], .none, .none⟩

/-- lines 79-80, 101-103 -/
def Attrs.matched (i : Nat) (d : RouteDecl) (e : Route.Env) : Attrs :=
  ⟨some i, some e, d.reqSro, d.combinedSro, .none, .none⟩

/-- lines 71-105: `none` = `URLDecodeError` out of the mapper.  `routes_mapper is None` when no route was ever added. -/
def routeStage (app : App) (rq : Req) : Option (Attrs × Option RouteDecl) :=
  if app.routes.isEmpty then some (Attrs.none, .none)
  else
    match Route.mapperCall Rx.Ucd.ascii (routeList app rq) rq.pathInfo with
    | .urlDecode => .none
    | .noMatch => some (Attrs.none, .none)
    | .hit i e =>
      match app.routes[i]? with
      | some d => some (Attrs.matched i d e, some d)
      | .none => some (Attrs.none, .none)        -- unreachable: `i` indexes `routeList`

/-- line 105: `root_factory = route.factory or self.root_factory` -/
def rootIndex (app : App) (d : Option RouteDecl) : Nat × Point :=
  match d with
  | some r =>
    match r.factory with
    | some f => (f, .routeFactory)
    | .none => (app.defaultRoot, .rootFactory)
  | .none => (app.defaultRoot, .rootFactory)

def convVal : Route.Val → Trav.StrOrTuple
  | .str s => .str s
  | .segs xs => .tup xs

/-- what the traverser reads of the match dictionary: `matchdict.get('traverse')`, `matchdict.get('subpath')` -/
def travMatchdict (e : Route.Env) : Trav.MatchDict :=
  ⟨(e.lookup "traverse".toList).map convVal, (e.lookup "subpath".toList).map convVal⟩

/-- what `match_param` reads of the match dictionary (a tuple value never equals a text) -/
def viewMatchdict (e : Route.Env) : List (String × String) :=
  e.filterMap fun (k, v) =>
    match v with
    | .str s => some (String.ofList k, String.ofList s)
    | .segs _ => .none

/-- `providedBy(context).__sro__` -/
def App.ctxSro (app : App) (root : Nat) (pos : List Seg) : List Nat :=
  match app.roots[root]? with
  | some r => (r.sro.lookup pos).getD []
  | .none => []

/-- what `containment=` walks: for the context and each of its ancestors (context first) everything the location
provides (`pyramid.location.lineage` over `__parent__`; the harness's resources are location-aware) -/
def lineageOf (app : App) (root : Nat) (pos : List Seg) : List (List Nat) :=
  (List.range (pos.length + 1)).reverse.map fun k => app.ctxSro root (pos.take k)

/-- the record view lookup sees (C03's `Request`): request interface of the matched route, resolution order of the
context traversal found, view name traversal found, the route's match dictionary -/
def record (app : App) (rq : Req) (a : Attrs) : ViewLookup.Request :=
  { rq.base with
    matchdict := a.matchdict.map viewMatchdict
    reqSro := a.reqSro
    ctxSro := match a.root, a.trav with
      | some i, some t => app.ctxSro i t.context
      | _, _ => []
    viewName := match a.trav with
      | some t => String.ofList t.viewName
      | .none => ""
    lineage := match a.root, a.trav with
      | some i, some t => lineageOf app i t.context
      | _, _ => []
    physPath := match a.trav with
      | some t => some ("" :: t.context.map String.ofList)
      | .none => .none
    permitted := true }

/-- a hook of `handle_request` together with the request attributes a subscriber / factory sees at that moment -/
abbrev Hook := Point × Attrs

/-- the exception a traverser error is -/
def travExc (app : App) : Trav.Err → Exc
  | .unicodeDecode => app.unicodeDecode
  | _ => app.urlDecode

/-- `handle_request` from `BeforeTraversal` up to (not including) the view lookup (lines 107-138), the route stage having
left the attributes `a` and the matched route `d` -/
def afterRoute (app : App) (rq : Req) (a : Attrs) (d : Option RouteDecl) : Attrs × List Hook × Option Exc :=
  let (ri, hook) := rootIndex app d
  let h0 : List Hook := [(.newRequest, Attrs.none), (.beforeTraversal, a), (hook, a)]
  match app.roots[ri]? with
  | .none => (a, h0, some app.urlDecode)     -- excluded by `App.wf`
  | some root =>
    match root.raises with
    | some e => (a, h0, some e)
    | .none =>
      let a1 := { a with root := some ri }
      match Trav.traverser root.tree ⟨rq.pathInfo, rq.vroot, a.matchdict.map travMatchdict⟩ with
      | .error err => (a1, h0 ++ [(.traverser, a1)], some (travExc app err))
      | .ok t =>
        let a2 := { a with root := some ri, trav := some t }
        (a2, h0 ++ [(.traverser, a1), (.contextFound, a2)], .none)

/-- `handle_request` up to (not including) the view lookup: the attributes set, the hooks run (each with the attributes
visible at that moment), and the exception that ended it early, if any -/
def handleRequest (app : App) (rq : Req) : Attrs × List Hook × Option Exc :=
  match routeStage app rq with
  | .none => (Attrs.none, [(.newRequest, Attrs.none)], some app.urlDecode)
  | some (a, d) => afterRoute app rq a d

/-- the policy's verdict for the view the lookup picks (the picked view does not depend on the verdict:
`Lemmas/RouterLookup.lean`) -/
def verdict (app : App) (cls : Nat) (key : CtxKey) (r : ViewLookup.Request) : Bool :=
  match ViewLookup.callView app.registry cls { r with permitted := true } with
  | .response t => app.permits key t
  | _ => true

/-- what leaves the excview tween -/
inductive Final where
  | response (r : Resp)
  | propagates (e : Exc)
deriving Repr, DecidableEq

def Final.ofExcept : Except Exc Resp → Final
  | .ok r => .response r
  | .error e => .propagates e

structure Outcome where
  final : Final
  /-- the exception the excview tween caught -/
  caught : Option Exc
  /-- the request's attributes when the answering body ran -/
  attrs : Attrs
  /-- what the body of the exception view saw (context = the exception, `request.exception`, `request.exc_info`) -/
  seen : Option ExcView.Seen
  hooks : List Hook
deriving Repr, DecidableEq

/-- the policy key of the context of the main lookup -/
def mainKey (a : Attrs) : CtxKey :=
  match a.root, a.trav with
  | some i, some t => .res i t.context
  | _, _ => .res 0 []

/-- lines 166-168: `msg = request.path_info; raise HTTPNotFound(msg)` — as built, reading `path_info` raises `KeyError`
when `PATH_INFO` is absent (finding F-X01b), so that is what leaves `handle_request` -/
def raisedWhenNoView (app : App) (rq : Req) : Exc :=
  match rq.pathInfo with
  | some _ => app.world.notFound
  | .none => app.keyError

/-- `excview_tween(handler)`: what happens once `handle_request` has run up to the view lookup (`early = none`) or was
ended by an exception before it (`early = some e`), the request attributes being `a` -/
def tween (app : App) (rq : Req) (a : Attrs) (hooks : List Hook) (early : Option Exc) : Outcome :=
  let r0 := record app rq a
  let site : ExcView.Site := match early with
    | some e => .early e
    | .none => .lookup
  let r1 := { r0 with permitted := verdict app ExcView.clsView (mainKey a) r0 }
  match ExcView.handler { app.world with notFound := raisedWhenNoView app rq } app.registry app.stmts site r1 0 with
  | .ok resp => ⟨.response resp, .none, a, .none, hooks⟩
  | .error e =>
    let rx := ExcView.excRequest r0 e a.combinedSro
    let r2 := { r0 with permitted := verdict app ExcView.clsExc (.exc e.sro) rx }
    let res := ExcView.errorHandler app.world app.registry app.stmts (ExcView.excRequest r2 e a.combinedSro) e []
    ⟨Final.ofExcept res.2.2, some e, a, res.2.1, hooks⟩

/-- `excview_tween(handle_request)` on one request -/
def handle (app : App) (rq : Req) : Outcome :=
  let x := handleRequest app rq
  tween app rq x.1 x.2.1 x.2.2

/-! ## well-formedness (decidable) -/

/-- root indices exist; tags identify statements -/
def App.wf (app : App) : Bool :=
  decide (app.defaultRoot < app.roots.length) &&
  app.routes.all (fun r => match r.factory with | some f => decide (f < app.roots.length) | .none => true) &&
  decide ((app.views.map (·.stmt.tag)).Nodup)

end Pyr.Router
