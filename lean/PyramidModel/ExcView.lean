/-
C14 — executable model of Pyramid's exception-view machinery, on top of C03's registration/lookup model.

Mirrors (src/pyramid):
* `config/views.py:983-999`  `add_view.register`: one statement registers a derived view under `IViewClassifier`
                             unless `exception_only`, and — when its context is an exception type — a second derived view
                             under `IExceptionViewClassifier`                                            → `Stmt.regs`
* `viewderivers.py:295-313`  `_secured_view`: explicit permission, else the default permission *unless the derivation is
                             for the exception path*; `NO_PERMISSION_REQUIRED` and "no policy" disable it  → `securedOf`
* `util.py:612-628`          `hide_attrs` (pop with marker, restore or delete afterwards)                 → `popAll`, `restore`
* `view.py:749-791`          `invoke_exception_view`: hide `response/exc_info/exception`, set `exception`/`exc_info`, look
                             the view up with the exception classifier, the exception's provided resolution order and
                             `request_iface.combined`; `None` ⇒ `HTTPNotFound`; success ⇒ attributes set again  → `invokeExceptionView`
* `tweens.py:7-47`           `_error_handler` (an `HTTPNotFound` out of the lookup ⇒ the ORIGINAL exception is re-raised),
                             `excview_tween`                                                              → `errorHandler`, `excviewTween`
* `router.py:56-172`         `handle_request` after the point where something may raise: the main view lookup and what it
                             raises (`HTTPNotFound`, `PredicateMismatch`, `HTTPForbidden` from a refusing protected view, or
                             whatever the view body / renderer raises)                                    → `handler`
* `httpexceptions.py:1334`   `default_exceptionresponse_view` (returns the exception itself)              → `Body.returnContext`

Inputs that are DATA (computed by the harness from the real objects; trusted base): the resolution order of
`providedBy(exc)` and of `request_iface.combined`, `isinstance(exc, HTTPNotFound)`, the status of an exception that is
a response, object identities (numbers given by the harness), everything C03's model takes as data.
Second round: `Request.invoke_exception_view(exc_info, request, secure, reraise)` with all arguments (`invokeFull`; no `exc_info`
⇒ `sys.exc_info()`; `secure=False` ⇒ the permission check is skipped; `reraise=True` ⇒ the original is raised whenever no
response results), `Router.invoke_request` with raising sites ABOVE the excview tween (`invokeRequest`),
`default_execution_policy` and the documented invoking policy (`executionPolicy`), exception views that make the request
create a `response` (`Stmt.touch`), `containment` / `physical_path` on exception views (`excRequest`).
Not modelled: view bodies raising `PredicateMismatch` (F-C14c), `__call_permissive__` skipping the predicates of a single
protected view under `secure=False` (F-C14d), the lookup cache (C15).
Core Lean only.
-/
import PyramidModel.ViewLookup

namespace Pyr.ExcView
open Pyr.ViewLookup

/-- `IViewClassifier` / `IExceptionViewClassifier` as the classifier ids of C03's slot keys -/
def clsView : Nat := 0
def clsExc : Nat := 1

/-- An exception object. -/
structure Exc where
  /-- object identity (a number the harness gave the object) -/
  id : Nat
  /-- `providedBy(exc).__sro__` as slot ids: the classes of the MRO and the interfaces they implement, nearest first -/
  sro : List Nat
  /-- `isinstance(exc, HTTPNotFound)` (what `except HTTPNotFound` in `_error_handler` tests) -/
  isNotFound : Bool
  /-- status code when the exception is itself a response (an HTTP exception) -/
  status : Option Nat
deriving Repr, DecidableEq

/-- the object a body that raises creates when it is called a second time (once as the view of the main lookup, once as
an exception view): a new object of the same class -/
def Exc.again (e : Exc) : Exc := { e with id := e.id + 1000 }

/-- What the callable of a statement does when it is called. -/
inductive Body where
  /-- returns a fresh response carrying the statement's tag -/
  | respond
  /-- `default_exceptionresponse_view`: returns its context -/
  | returnContext
  /-- raises this exception (from the body or from its renderer) -/
  | raise (e : Exc)
deriving Repr, DecidableEq

/-- The kinds of view callable `DefaultViewMapper` (`viewderivers.py:42-170`) supports. -/
inductive ViewKind where
  /-- function / method `(context, request)` (the native, "old-style" two-argument form) -/
  | fnCR
  /-- function `(request)` -/
  | fnR
  /-- class with `__init__(self, context, request)` and an `attr=` method -/
  | clsCR
  /-- class with `__init__(self, context, request)` and `__call__` -/
  | clsCRcall
  /-- class with `__init__(self, request)` and an `attr=` method -/
  | clsR
  /-- instance with `__call__(self, context, request)` -/
  | instCR
  /-- instance with `__call__(self, request)` -/
  | instR
deriving Repr, DecidableEq

/-- **the mapper's calling convention**: is the `context` argument of the mapped view `(context, request)` handed on to
the user's callable (its constructor, for a class)? — `map_class_native` / `map_nonclass_attr` / unwrapped: yes;
`map_class_requestonly` / `map_nonclass_requestonly`: no (such a view reaches a context only through the request) -/
def ViewKind.receivesContext : ViewKind → Bool
  | .fnCR | .clsCR | .clsCRcall | .instCR => true
  | .fnR | .clsR | .instR => false

/-- is the user's object made anew for every call (`inst = view(context, request)` / `view(request)`)? -/
def ViewKind.constructsPerCall : ViewKind → Bool
  | .clsCR | .clsCRcall | .clsR => true
  | _ => false

/-- what the user's callable gets as its context when the mapped view is called with `mappedContext`.  `earlier` = the
context an instance of the same class was constructed with earlier in this request (an ordinary view of the class that
raised): the mapper constructs a new instance for every call, so it plays no role. -/
def ViewKind.userContext (k : ViewKind) (mappedContext : Nat) (_earlier : Option Nat) : Option Nat :=
  if k.receivesContext then some mappedContext else none

/-- The `permission=` argument. -/
inductive Perm where
  | unset
  | noPermissionRequired
  | named
deriving Repr, DecidableEq

structure Security where
  /-- a security policy is registered -/
  hasPolicy : Bool
  /-- a default permission is registered -/
  hasDefaultPermission : Bool
deriving Repr, DecidableEq

/-- `_secured_view`: does the derived view get `__call_permissive__` (is it protected)?
`excPath` = the derivation is the one for the exception classifier (`info.exception_only`). -/
def securedOf (sec : Security) (excPath : Bool) (p : Perm) : Bool :=
  let hasPermission : Bool :=
    match p with
    | .named => true
    | .noPermissionRequired => false
    | .unset => !excPath && sec.hasDefaultPermission
  sec.hasPolicy && hasPermission

/-- One `add_view`-family statement (`add_view`, `add_exception_view`, `add_notfound_view`, `add_forbidden_view`, the
default `add_view(default_exceptionresponse_view, context=IExceptionResponse)` of `setup_registry`). -/
structure Stmt where
  reqIface : Nat
  ctxIface : Nat
  name : String
  preds : List RawPred
  accept : Option (Offer × String)
  perm : Perm
  /-- `isexception(context)` -/
  isExc : Bool
  exceptionOnly : Bool
  tag : Nat
  body : Body
  /-- the body reads / mutates `request.response` (which makes the request create one) before it answers or raises -/
  touch : Bool
  /-- what kind of callable the statement's `view` (with its `attr`) is -/
  kind : ViewKind
deriving Repr, DecidableEq

/-- `register()` of `add_view`: the derived views and the classifier each is registered under, in the code's order -/
def Stmt.regs (sec : Security) (s : Stmt) : List ViewReg :=
  (if !s.exceptionOnly then
    [⟨clsView, s.reqIface, s.ctxIface, s.name, s.preds, s.accept, securedOf sec false s.perm, s.tag⟩] else [])
  ++
  (if s.isExc then
    [⟨clsExc, s.reqIface, s.ctxIface, s.name, s.preds, s.accept, securedOf sec true s.perm, s.tag⟩] else [])

def allRegs (sec : Security) (stmts : List Stmt) : List ViewReg := stmts.flatMap (Stmt.regs sec)

/-- the callable behind a tag (tags are unique per statement; see `TagsUnique`) -/
def bodyOf (stmts : List Stmt) (t : Nat) : Body :=
  match stmts.find? (·.tag = t) with
  | some s => s.body
  | none => .respond

def touchOf (stmts : List Stmt) (t : Nat) : Bool :=
  match stmts.find? (·.tag = t) with
  | some s => s.touch
  | none => false

def kindOf (stmts : List Stmt) (t : Nat) : ViewKind :=
  match stmts.find? (·.tag = t) with
  | some s => s.kind
  | none => .fnCR

/-! ## `request.__dict__` restricted to the attributes the machinery touches; values are object identities -/

abbrev Dict := List (String × Nat)

/-- `d.get(k)` -/
def dget (d : Dict) (k : String) : Option Nat :=
  match d with
  | [] => none
  | (k', v) :: rest => if k' = k then some v else dget rest k

/-- `del d[k]` / `d.pop(k, marker)` (all entries under the key go) -/
def ddel (d : Dict) (k : String) : Dict := d.filter (·.1 ≠ k)

/-- `d[k] = v` -/
def dset (d : Dict) (k : String) (v : Nat) : Dict := (k, v) :: ddel d k

/-- the names `invoke_exception_view` hides -/
def hidden : List String := ["response", "exc_info", "exception"]

/-- entry of `hide_attrs`: `saved_vals[name] = obj_vals.pop(name, _marker)` for each name -/
def popAll : List String → Dict → Dict × List (String × Option Nat)
  | [], d => (d, [])
  | n :: ns, d =>
    let (d', saved) := popAll ns (ddel d n)
    (d', (n, dget d n) :: saved)

/-- exit of `hide_attrs`: a saved value is put back; a name that was absent is deleted if it is there now -/
def restore : List (String × Option Nat) → Dict → Dict
  | [], d => d
  | (n, some v) :: rest, d => restore rest (dset d n v)
  | (n, none) :: rest, d => restore rest (ddel d n)

/-! ## responses, what an exception view observes -/

inductive Resp where
  /-- the response made by the body of the statement with this tag -/
  | view (tag : Nat)
  /-- the object with this identity returned as the response itself (an HTTP exception: its status) -/
  | self (obj : Nat) (status : Option Nat)
deriving Repr, DecidableEq

/-- what the body of an exception view sees when it starts -/
structure Seen where
  /-- the `context` argument of the mapped view `(context, request)` -/
  context : Nat
  /-- `request.exception`, `request.exc_info` (identified by the exception in it), `'response' in request.__dict__` -/
  exception : Option Nat
  excInfo : Option Nat
  response : Option Nat
  /-- what the user's callable was handed as its context by the view mapper (`none`: a request-only callable) -/
  userContext : Option Nat
deriving Repr, DecidableEq

/-- The exceptions the framework itself raises; identities and resolution orders are data. -/
structure World where
  sec : Security
  /-- `raise HTTPNotFound(msg)` of `handle_request` (no view found) -/
  notFound : Exc
  /-- `PredicateMismatch` leaving `_call_view` in the main lookup -/
  mismatch : Exc
  /-- `HTTPForbidden` raised by a refusing protected view in the main lookup -/
  forbidden : Exc
  /-- `raise HTTPNotFound` of `invoke_exception_view` (no exception view found) -/
  excNotFound : Exc
  /-- `PredicateMismatch` leaving `_call_view` in the exception-view lookup -/
  excMismatch : Exc
  /-- `HTTPForbidden` raised by a refusing protected exception view -/
  excForbidden : Exc
  /-- identity of the response object the request creates when an exception view touches `request.response` -/
  viewResponse : Nat
deriving Repr, DecidableEq

/-- `HTTPNotFound` and `PredicateMismatch` instances are `HTTPNotFound`s, `HTTPForbidden` is not (class hierarchy of
`httpexceptions.py` / `exceptions.py`; the harness reads it off the real classes) -/
def World.ok (w : World) : Bool :=
  w.excNotFound.isNotFound && w.excMismatch.isNotFound && !w.excForbidden.isNotFound

/-! ## `invoke_exception_view` -/

/-- the request record of the exception-view lookup: context = the exception, request interface =
`request_iface.combined`, view name `''`.  Predicates get the exception as their `context` argument: `physical_path`
looks at it (an exception has no `__name__`: never equal); `containment` prefers `request.context` — the ORIGINAL
context — and falls back to the exception when the request has no `context` attribute (before traversal, or after
`finish_request` popped it); `r.lineage = []` encodes "no `context` attribute". -/
def excRequest (r : Request) (e : Exc) (combinedSro : List Nat) : Request :=
  { r with reqSro := combinedSro, ctxSro := e.sro, viewName := "",
           lineage := if r.lineage.isEmpty then [e.sro] else r.lineage, physPath := none }

/-- `_call_view(registry, request, exc, providedBy(exc), '', view_classifier=IExceptionViewClassifier,
request_iface=request_iface.combined)` and the body of the view found; `.ok none` = `_call_view` returned `None`.
The dictionary returned is the request's after the body ran (it may have made the request create a `response`). -/
def callExcView (w : World) (reg : Registry) (stmts : List Stmt) (r : Request) (e : Exc) (d : Dict) :
    Dict × Option Seen × Except Exc (Option Resp) :=
  match callView reg clsExc r with
  | .response t =>
    let seen : Seen := ⟨e.id, dget d "exception", dget d "exc_info", dget d "response",
                        (kindOf stmts t).userContext e.id none⟩
    let d' := if touchOf stmts t then dset d "response" w.viewResponse else d
    match bodyOf stmts t with
    | .respond => (d', some seen, .ok (some (.view t)))
    | .returnContext => (d', some seen, .ok (some (.self e.id e.status)))
    | .raise e2 => (d', some seen, .error e2.again)
  | .forbidden _ => (d, none, .error w.excForbidden)
  | .mismatch => (d, none, .error w.excMismatch)
  | .none => (d, none, .ok none)

/-- the body of `invoke_exception_view` once `exc_info`, `secure` have been resolved into `e` and the record `r`
(`excRequest`); `reraise` as given -/
def invokeCore (w : World) (reg : Registry) (stmts : List Stmt) (r : Request) (e : Exc) (d : Dict) (reraise : Bool) :
    Dict × Option Seen × Except Exc Resp :=
  -- with hide_attrs(request, 'response', 'exc_info', 'exception'):
  let (d1, saved) := popAll hidden d
  --   attrs['exception'] = exc; attrs['exc_info'] = exc_info
  let d2 := dset (dset d1 "exception" e.id) "exc_info" e.id
  let (d2', seen, res) := callExcView w reg stmts r e d2
  -- leaving the with-block (normally or by an exception)
  let d3 := restore saved d2'
  match res with
  | .error e2 => (d3, seen, .error (if reraise then e else e2))          -- except Exception: if reraise: reraise_(*exc_info); raise
  | .ok none => (d3, seen, .error (if reraise then e else w.excNotFound)) -- if reraise: reraise_(*exc_info); raise HTTPNotFound
  | .ok (some resp) =>
    -- successful response, overwrite exception/exc_info
    (dset (dset d3 "exception" e.id) "exc_info" e.id, seen, .ok resp)

/-- `request.invoke_exception_view(exc_info)` as `_error_handler` calls it (`secure=True`, `reraise=False`); `r` is the
record of `excRequest` -/
def invokeExceptionView (w : World) (reg : Registry) (stmts : List Stmt) (r : Request) (e : Exc) (d : Dict) :
    Dict × Option Seen × Except Exc Resp :=
  invokeCore w reg stmts r e d false

/-- the arguments of `Request.invoke_exception_view(exc_info=None, request=None, secure=True, reraise=False)`
(`request=` selects whose attribute dictionary is `d`) -/
structure InvokeArgs where
  /-- `exc_info`, identified by the exception in it; `none` = not given -/
  excInfo : Option Exc
  secure : Bool
  reraise : Bool
deriving Repr, DecidableEq

/-- **`Request.invoke_exception_view`** with all its arguments.  `current` = the exception `sys.exc_info()` reports where
the call is made (used only when `exc_info` is not given); `r` = the ORIGINAL request record.  `secure=False` makes
`_call_view` use `__call_permissive__`: the permission check of a protected view is skipped — the same as a granting
policy. -/
def invokeFull (w : World) (reg : Registry) (stmts : List Stmt) (r : Request) (combinedSro : List Nat) (args : InvokeArgs)
    (current : Exc) (d : Dict) : Dict × Option Seen × Except Exc Resp :=
  let e := match args.excInfo with
    | some x => x
    | none => current                                  -- if exc_info is None: exc_info = sys.exc_info()
  let r1 := if args.secure then r else { r with permitted := true }
  invokeCore w reg stmts (excRequest r1 e combinedSro) e d args.reraise

/-- `_error_handler(request, exc)` -/
def errorHandler (w : World) (reg : Registry) (stmts : List Stmt) (r : Request) (e : Exc) (d : Dict) :
    Dict × Option Seen × Except Exc Resp :=
  match invokeExceptionView w reg stmts r e d with
  | (d', seen, .error e2) => if e2.isNotFound then (d', seen, .error e) else (d', seen, .error e2)
  | (d', seen, .ok resp) => (d', seen, .ok resp)

/-! ## what the excview tween wraps -/

/-- where the exception comes from -/
inductive Site where
  /-- raised before view lookup: a tween under the excview tween, a `NewRequest` / `BeforeTraversal` / `ContextFound`
  subscriber, the root factory, the traverser -/
  | early (e : Exc)
  /-- the request reaches the main view lookup -/
  | lookup
deriving Repr, DecidableEq

/-- `handler(request)` of the excview tween; `ctxObj` = identity of the context resource -/
def handler (w : World) (reg : Registry) (stmts : List Stmt) (site : Site) (r : Request) (ctxObj : Nat) : Except Exc Resp :=
  match site with
  | .early e => .error e
  | .lookup =>
    match callView reg clsView r with
    | .response t =>
      match bodyOf stmts t with
      | .respond => .ok (.view t)
      | .returnContext => .ok (.self ctxObj none)
      | .raise e => .error e
    | .forbidden _ => .error w.forbidden
    | .mismatch => .error w.mismatch
    | .none => .error w.notFound

structure Result where
  /-- the response that leaves the excview tween, or the exception that propagates out of it -/
  outcome : Except Exc Resp
  /-- what the exception view's body saw, if one ran -/
  seen : Option Seen
  /-- the request's attributes afterwards (what a finished callback reads) -/
  attrs : Dict
  /-- the exception the tween caught, if any -/
  caught : Option Exc

/-- `excview_tween(request)`; `d` = the attributes when the handler returns or raises -/
def excviewTween (w : World) (stmts : List Stmt) (site : Site) (r : Request) (combinedSro : List Nat) (ctxObj : Nat)
    (d : Dict) : Result :=
  let reg := registerAll (allRegs w.sec stmts)
  match handler w reg stmts site r ctxObj with
  | .ok resp => ⟨.ok resp, none, d, none⟩
  | .error e =>
    let (d', seen, out) := errorHandler w reg stmts (excRequest r e combinedSro) e d
    ⟨out, seen, d', some e⟩

/-! ## above the excview tween: the rest of `invoke_request`, and the execution policy -/

/-- raising sites ABOVE the excview tween -/
structure Above where
  /-- a tween placed over the excview tween raises before it calls its handler -/
  before : Option Exc
  /-- raised after a response left the excview tween: by the tween over it after its handler returned, by a response
  callback, by a `NewResponse` subscriber -/
  after : Option Exc
deriving Repr, DecidableEq

/-- `Router.invoke_request(request)`: the tween chain, response callbacks, `NewResponse`; nothing here catches -/
def invokeRequest (w : World) (stmts : List Stmt) (above : Above) (site : Site) (r : Request) (combinedSro : List Nat)
    (ctxObj : Nat) (d : Dict) : Result :=
  match above.before with
  | some e => ⟨.error e, none, d, none⟩
  | none =>
    let res := excviewTween w stmts site r combinedSro ctxObj d
    match res.outcome, above.after with
    | .ok _, some e => { res with outcome := .error e }
    | _, _ => res

inductive Policy where
  /-- `default_execution_policy`: `with router.request_context(environ) as request: return router.invoke_request(request)` -/
  | default
  /-- the documented pattern: the same, wrapped in `try … except Exception: return request.invoke_exception_view(args)` -/
  | invoking (args : InvokeArgs)
deriving Repr, DecidableEq

/-- the execution policy.  When it invokes the exception view itself, `finish_request` has already popped
`request.context` (the record loses its lineage), and `sys.exc_info()` reports the exception being handled. -/
def executionPolicy (p : Policy) (w : World) (stmts : List Stmt) (above : Above) (site : Site) (r : Request)
    (combinedSro : List Nat) (ctxObj : Nat) (d : Dict) : Result :=
  let res := invokeRequest w stmts above site r combinedSro ctxObj d
  match p, res.outcome with
  | .invoking args, .error x =>
    let (d', seen, out) := invokeFull w (registerAll (allRegs w.sec stmts)) stmts { r with lineage := [] } combinedSro args x res.attrs
    ⟨out, seen, d', some x⟩
  | _, _ => res

end Pyr.ExcView
