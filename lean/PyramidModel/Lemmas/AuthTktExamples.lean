/-
C09 helper lemmas, part 8: concrete parameters used by the non-vacuity `example`s of Props/C09.lean
(a toy hash, the identity "hash" for which the MAC is injective, two decimal literals).
-/
import PyramidModel.Lemmas.AuthTktReq

namespace Pyr.AuthTkt

/-- a toy hash with 2-byte digests: `WellSized` is satisfiable -/
def toyH : Hash := ⟨2, fun x => [byteOfNat (x.length % 256), byteOfNat (x.foldl (fun a b => a + b.toNat) 0 % 256)]⟩
def toyU : Uni := ⟨fun _ => false, fun _ => none⟩
def toyEnv : Env := ⟨toyH, toyU⟩


/-- `MacSecure` is satisfiable: for the (injective) identity "hash" the MAC of `x` is the MAC of nothing else -/
def idH : Hash := ⟨0, id⟩

theorem digitChar_inj : ∀ i j : Fin 16, digitChar i.val = digitChar j.val → i = j := by decide

theorem hexOf_injective : ∀ a b : Bytes, hexOf a = hexOf b → a = b := by
  intro a
  induction a with
  | nil =>
    intro b h
    cases b with
    | nil => rfl
    | cons y ys => simp [hexOf] at h
  | cons x xs ih =>
    intro b h
    cases b with
    | nil => simp [hexOf] at h
    | cons y ys =>
      have hx := UInt8.toNat_lt x
      have hy := UInt8.toNat_lt y
      have e1 : hexOf (x :: xs) = digitChar (x.toNat / 16) :: digitChar (x.toNat % 16) :: hexOf xs := by simp [hexOf]
      have e2 : hexOf (y :: ys) = digitChar (y.toNat / 16) :: digitChar (y.toNat % 16) :: hexOf ys := by simp [hexOf]
      rw [e1, e2] at h
      simp only [List.cons.injEq] at h
      obtain ⟨h1, h2, h3⟩ := h
      have a1 := digitChar_inj ⟨x.toNat / 16, by omega⟩ ⟨y.toNat / 16, by omega⟩ h1
      have a2 := digitChar_inj ⟨x.toNat % 16, by omega⟩ ⟨y.toNat % 16, by omega⟩ h2
      simp only [Fin.mk.injEq] at a1 a2
      have : x.toNat = y.toNat := by omega
      have hxy : x = y := by
        rw [← byteOfNat_toNat x, ← byteOfNat_toNat y, this]
      rw [hxy, ih ys h3]

theorem mac_idH_injective (s x y : Bytes) (h : mac idH s x = mac idH s y) : x = y := by
  simp only [mac, idH, id] at h
  have h1 := List.append_cancel_right (hexOf_injective _ _ h)
  have key : ∀ l1 l2 : Text, IsDigits 16 l1 → IsDigits 16 l2 →
      l1.map (fun c => byteOfNat c.toNat) = l2.map (fun c => byteOfNat c.toNat) → l1 = l2 := by
    intro l1
    induction l1 with
    | nil => intro l2 _ _ h; cases l2 with
      | nil => rfl
      | cons _ _ => simp at h
    | cons c r ih =>
      intro l2 hd1 hd2 h
      cases l2 with
      | nil => simp at h
      | cons c2 r2 =>
        simp only [List.map_cons, List.cons.injEq] at h
        obtain ⟨d1, hd1', rfl⟩ := hd1 c (by simp)
        obtain ⟨d2, hd2', rfl⟩ := hd2 c2 (by simp)
        have f1 := (digitChar_facts ⟨d1, hd1'⟩).2.1
        have f2 := (digitChar_facts ⟨d2, hd2'⟩).2.1
        simp only at f1 f2
        have := congrArg UInt8.toNat h.1
        rw [toNat_byteOfNat (by omega), toNat_byteOfNat (by omega)] at this
        have hc : digitChar d1 = digitChar d2 := by
          rw [← Char.ofNat_toNat (digitChar d1), ← Char.ofNat_toNat (digitChar d2), this]
        rw [hc, ih r2 (fun x hx => hd1 x (by simp [hx])) (fun x hx => hd2 x (by simp [hx])) h.2]
  exact hexOf_injective _ _ (key _ _ (hexOf_isDigits _) (hexOf_isDigits _) h1)


theorem decStr_small : decStr 10 = ['1', '0'] ∧ decStr 1 = ['1'] := by
  constructor <;> simp [decStr, natDigits, digitChar]


end Pyr.AuthTkt
