import PyramidModel.Lemmas.ActionsDyn
/-! Helper lemmas for C04, part 5: whole-run invariants of re-entrant commits (any `kids`, thunks allowed)
under the one assumption that the actions declared so far carry pairwise distinct ids:
* no action runs twice, at most one executed action per discriminator;
* every action that is neither executed nor still pending lies strictly below an executed (or, while the
  commit is unfinished, still pending) action with the same discriminator;
* inside a phase the executed actions ran in declaration order;
* the generator never runs out of its internal fuel, and a bounded program never exhausts `exec`'s fuel. -/
namespace Pyr.Actions

/-- every action declared so far: the top-level ones, then what each executed action appended, in
execution order (`log` is newest first) -/
def declared (kids : Nat → List Act) (top log : List Act) : List Act :=
  top ++ log.reverse.flatMap (fun a => kids a.id)

theorem declared_nil (kids : Nat → List Act) (top : List Act) : declared kids top [] = top := by
  simp [declared]

theorem declared_cons (kids : Nat → List Act) (top log : List Act) (a : Act) :
    declared kids top (a :: log) = declared kids top log ++ kids a.id := by
  simp [declared, List.flatMap_append]

/-- ids of the actions of phase `o`, in list order -/
def ordIds (o : Int) (l : List Act) : List Nat := (atOrd o l).map (·.id)

theorem ordIds_append (o : Int) (l1 l2 : List Act) : ordIds o (l1 ++ l2) = ordIds o l1 ++ ordIds o l2 := by
  simp [ordIds, atOrd]

theorem ordIds_sub_ids (o : Int) (l : List Act) : (ordIds o l).Sublist (l.map (·.id)) :=
  List.Sublist.map _ List.filter_sublist

/-! ### `undefer` leaves id, phase and include path alone -/

/-- what lines 424-425 do to one action when phase `o` is reached -/
def udf (done : List Nat) (o : Int) (a : Act) : Act :=
  if a.order == o then { a with disc := a.disc.eval done } else a

theorem undeferAt_eq_map (done : List Nat) (o : Int) (l : List Act) : undeferAt done o l = l.map (udf done o) := rfl

theorem udf_id (done : List Nat) (o : Int) (a : Act) : (udf done o a).id = a.id := by unfold udf; split <;> rfl
theorem udf_order (done : List Nat) (o : Int) (a : Act) : (udf done o a).order = a.order := by unfold udf; split <;> rfl
theorem udf_path (done : List Nat) (o : Int) (a : Act) : (udf done o a).path = a.path := by unfold udf; split <;> rfl

theorem eval_eval (d : Disc) (x y : List Nat) : (d.eval x).eval y = d.eval x := by
  cases d with
  | deferred dep t e =>
    simp only [Disc.eval]
    cases (if x.contains dep = true then t else e) <;> rfl
  | none => rfl
  | val v => rfl

theorem disc_of_key {a : Act} {d : Nat} (h : a.key = some d) : a.disc = .val d := by
  unfold Act.key at h
  cases hd : a.disc with
  | val v => rw [hd] at h; simp only [Disc.key, Option.some.injEq] at h; rw [h]
  | none => rw [hd] at h; simp [Disc.key] at h
  | deferred _ _ _ => rw [hd] at h; simp [Disc.key] at h

/-- an action whose discriminator is a value is not changed by `undefer` -/
theorem udf_of_key {a : Act} {d : Nat} (h : a.key = some d) (done : List Nat) (o : Int) : udf done o a = a := by
  have hd := disc_of_key h
  unfold udf
  split
  · cases a; simp only at hd; subst hd; rfl
  · rfl

theorem undeferAt_ids (done : List Nat) (o : Int) (l : List Act) :
    (undeferAt done o l).map (·.id) = l.map (·.id) := by
  rw [undeferAt_eq_map, List.map_map]
  apply List.map_congr_left
  intro a _
  exact udf_id done o a

theorem undeferAt_ordIds (done : List Nat) (o o' : Int) (l : List Act) :
    ordIds o' (undeferAt done o l) = ordIds o' l := by
  induction l with
  | nil => rfl
  | cons a l ih =>
    have hcons : undeferAt done o (a :: l) = udf done o a :: undeferAt done o l := rfl
    rw [hcons]
    simp only [ordIds, atOrd, List.filter_cons, udf_order] at ih ⊢
    split
    · simp only [List.map_cons, udf_id, ih]
    · exact ih

theorem mem_undeferAt {done : List Nat} {o : Int} {l : List Act} {r : Act} :
    r ∈ undeferAt done o l ↔ ∃ y ∈ l, r = udf done o y := by
  rw [undeferAt_eq_map, List.mem_map]
  constructor
  · rintro ⟨y, hy, rfl⟩; exact ⟨y, hy, rfl⟩
  · rintro ⟨y, hy, rfl⟩; exact ⟨y, hy, rfl⟩

/-- `r` is the declared action `x`, possibly with its thunk discriminator already called -/
def Orig (x r : Act) : Prop :=
  r.id = x.id ∧ r.path = x.path ∧ r.order = x.order ∧ (r.disc = x.disc ∨ ∃ done, r.disc = x.disc.eval done)

theorem Orig.refl (x : Act) : Orig x x := ⟨rfl, rfl, rfl, Or.inl rfl⟩

theorem Orig.udf {x y : Act} (h : Orig x y) (done : List Nat) (o : Int) : Orig x (udf done o y) := by
  obtain ⟨h1, h2, h3, h4⟩ := h
  refine ⟨by rw [udf_id, h1], by rw [udf_path, h2], by rw [udf_order, h3], ?_⟩
  unfold Pyr.Actions.udf
  split
  · simp only
    rcases h4 with h4 | ⟨d0, h4⟩
    · exact Or.inr ⟨done, by rw [h4]⟩
    · exact Or.inr ⟨d0, by rw [h4, eval_eval]⟩
  · exact h4

/-- the (evaluated) discriminator of `r` is one of the values of the declared discriminator of `x` -/
theorem Orig.key {x r : Act} (h : Orig x r) {d : Nat} (hk : r.key = some d) :
    ∃ done, (x.disc.eval done).key = some d := by
  have hd := disc_of_key hk
  rcases h.2.2.2 with h4 | ⟨d0, h4⟩
  · refine ⟨[], ?_⟩
    rw [← h4, hd]; rfl
  · exact ⟨d0, by rw [← h4, hd]; rfl⟩

/-! ### one order group, no assumption on the discriminators -/

theorem IdsNodup.undeferAt {l : List Act} (h : IdsNodup l) (done : List Nat) (o : Int) :
    IdsNodup (undeferAt done o l) := by
  unfold IdsNodup; rw [undeferAt_ids]; exact h

/-- lines 411-494 in terms of the declarative notions: an accepted group has no contested discriminator,
its sorted output is `groupRuns`, and exactly the other actions of the phase are forgotten -/
theorem groupStep_char {o : Int} {st st1 : St} {out : List Act} (hn : IdsNodup st.remaining)
    (h : groupStep o st = .ok (out, st1)) :
    contested st.log (atOrd o (undeferAt (st.log.map (·.id)) o st.remaining)) = [] ∧
    out = groupRuns st.log (atOrd o (undeferAt (st.log.map (·.id)) o st.remaining)) ∧
    st1 = { st with remaining := (List.filter (fun a => a.order != o || out.contains a)
              (undeferAt (st.log.map (·.id)) o st.remaining)) } := by
  simp only [groupStep] at h
  split at h
  · cases h
  · rename_i out' ov hr
    simp only [Except.ok.injEq, Prod.mk.injEq] at h
    obtain ⟨rfl, rfl⟩ := h
    have hnr : IdsNodup (undeferAt (st.log.map (·.id)) o st.remaining) := hn.undeferAt _ _
    have hng : IdsNodup (atOrd o (undeferAt (st.log.map (·.id)) o st.remaining)) := hnr.filter _
    obtain ⟨hc, hout, hov⟩ := resolveGroup_ok hng hr
    refine ⟨hc, hout, ?_⟩
    congr 1
    apply List.filter_congr
    intro a ha
    rw [Bool.eq_iff_iff]
    simp only [Bool.not_eq_true', Bool.or_eq_true, bne_iff_ne, ne_eq, List.contains_iff_mem]
    constructor
    · intro hno
      by_cases e : a.order = o
      · right
        apply Classical.byContradiction
        intro hnr'
        have : a.id ∈ ov := (hov a.id).mpr ⟨a, mem_atOrd.mpr ⟨ha, e⟩, rfl, by rw [← hout]; exact hnr'⟩
        rw [← List.contains_iff_mem] at this
        rw [this] at hno; cases hno
      · exact Or.inl e
    · intro hor
      cases hcn : ov.contains a.id with
      | false => rfl
      | true =>
        exfalso
        obtain ⟨x, hx, hxi, hxn⟩ := (hov a.id).mp (List.contains_iff_mem.mp hcn)
        have hxa : x = a := eq_of_id_eq hnr (mem_atOrd.mp hx).1 ha hxi
        subst hxa
        rcases hor with hor | hor
        · exact hor (mem_atOrd.mp hx).2
        · exact hxn (by rw [← hout]; exact hor)


theorem prevOf_none {L : List Act} {d : Nat} (h : prevOf L d = none) : ∀ x ∈ L, x.key ≠ some d := by
  unfold prevOf at h
  intro x hx hk
  have := List.find?_eq_none.mp h x hx
  simp [hk] at this

/-- an action of an accepted group that is not emitted lies strictly below an action with the same
discriminator that ran before or is emitted now -/
theorem discard_dominated {log g : List Act} (hn : IdsNodup g) (hc : contested log g = []) {r : Act}
    (hr : r ∈ g) (hnr : r ∉ groupRuns log g) :
    ∃ d, r.key = some d ∧ ∃ p, (p ∈ log ∨ p ∈ groupRuns log g) ∧ p.key = some d ∧ StrictPrefix p.path r.path := by
  cases hk : r.key with
  | none => exact absurd (groupRuns_mem.mpr ⟨hr, Or.inl hk⟩) hnr
  | some d =>
    refine ⟨d, rfl, ?_⟩
    have hrG : r ∈ withKey g d := mem_withKey.mpr ⟨hr, hk⟩
    have hd : d ∈ discsOf g := mem_discsOf.mpr (by intro e; rw [e] at hrG; cases hrG)
    have hs : settled log g d = true := by
      cases hs : settled log g d with
      | true => rfl
      | false =>
        have : d ∈ contested log g := by
          simp only [contested, List.mem_filter, Bool.not_eq_true']
          exact ⟨hd, hs⟩
        rw [hc] at this; cases this
    cases hp : prevOf log d with
    | some p =>
      obtain ⟨hpL, hpk⟩ := prevOf_some hp
      exact ⟨p, Or.inl hpL, hpk, (settled_some hp).mp hs r hrG⟩
    | none =>
      obtain ⟨w, hw, hh⟩ := (settled_none hp).mp hs
      have hwk := (mem_withKey.mp hw).2
      have hwr : w ∈ groupRuns log g :=
        groupRuns_mem.mpr ⟨(mem_withKey.mp hw).1, Or.inr ⟨d, hwk, hp, (isWinner_iff hwk).mpr hh⟩⟩
      rcases hh r hrG with e | e
      · have : r = w := eq_of_id_eq hn hr (mem_withKey.mp hw).1 e
        subst this; exact absurd hwr hnr
      · exact ⟨w, Or.inr hwr, hwk, e⟩

/-- the emitted actions of a group carry pairwise different discriminators -/
theorem groupRuns_keys_nodup {log g : List Act} (hn : IdsNodup g) :
    ((groupRuns log g).filterMap Act.key).Nodup := by
  unfold List.Nodup
  rw [List.pairwise_filterMap]
  have hno : IdsNodup (groupRuns log g) := hn.filter _
  have hp : (groupRuns log g).Pairwise (fun a b => a.id ≠ b.id) := by
    have := hno
    unfold IdsNodup List.Nodup at this
    rwa [List.pairwise_map] at this
  apply List.Pairwise.imp_of_mem _ hp
  intro a b ha hb hab d hda d' hdb e
  subst e
  obtain ⟨hag, ha'⟩ := groupRuns_mem.mp ha
  obtain ⟨hbg, hb'⟩ := groupRuns_mem.mp hb
  rcases ha' with ha' | ⟨d1, hk1, _, hw1⟩
  · rw [hda] at ha'; cases ha'
  rcases hb' with hb' | ⟨d2, hk2, _, hw2⟩
  · rw [hdb] at hb'; cases hb'
  rw [hda] at hk1; cases hk1
  rw [hdb] at hk2; cases hk2
  have := heads_unique hn (mem_withKey.mpr ⟨hag, hda⟩) ((isWinner_iff hda).mp hw1)
    (mem_withKey.mpr ⟨hbg, hdb⟩) ((isWinner_iff hdb).mp hw2)
  exact hab (by rw [this])

/-- forgetting the actions of phase `o` that are not emitted leaves exactly the emitted ones in phase `o` -/
theorem keep_phase (rem : List Act) (o : Int) (P : Act → Bool) :
    atOrd o (rem.filter (fun a => a.order != o || ((atOrd o rem).filter P).contains a)) = (atOrd o rem).filter P := by
  simp only [atOrd, List.filter_filter]
  apply List.filter_congr
  intro a ha
  rw [Bool.eq_iff_iff]
  simp only [Bool.and_eq_true, beq_iff_eq, Bool.or_eq_true, bne_iff_ne, ne_eq, List.contains_iff_mem, List.mem_filter]
  grind

/-! ### the invariant -/

/-- `r` is executed or still waiting -/
def Live (st : St) (r : Act) : Prop := r ∈ st.log ∨ r ∈ st.remaining ∨ r ∈ st.pending

/-- the declared action `x` lies strictly below an executed or still waiting action whose discriminator is
(one of the values of) `x`'s -/
def Dominated (st : St) (x : Act) : Prop :=
  ∃ p, (p ∈ st.log ∨ p ∈ st.remaining) ∧ ∃ d, p.key = some d ∧ StrictPrefix p.path x.path ∧
    ∃ done, (x.disc.eval done).key = some d

/-- invariant of the commit loop relative to the list `D` of all actions declared so far (queue-independent part) -/
structure GInv (D : List Act) (st : St) : Prop where
  nodup : IdsNodup (st.log ++ st.remaining ++ st.pending)
  logKeys : (st.log.filterMap Act.key).Nodup
  ord : ∀ o, (ordIds o st.log.reverse ++ ordIds o st.remaining ++ ordIds o st.pending).Sublist (ordIds o D)
  orig : ∀ r, Live st r → ∃ x ∈ D, Orig x r
  dom : ∀ x ∈ D, (∃ r, Live st r ∧ r.id = x.id) ∨ Dominated st x
  cnt : st.log.length + st.remaining.length + st.pending.length ≤ D.length

theorem GInv.nodupRem {D : List Act} {st : St} (h : GInv D st) : IdsNodup st.remaining :=
  h.nodup.sublist ((List.sublist_append_right _ _).trans (List.sublist_append_left _ _))

/-- the output of a freshly resolved group as the queue of the suspended generator -/
def QOK (st : St) (Q : List Act) : Prop :=
  (∀ a ∈ Q, Q = atOrd a.order st.remaining) ∧ (∀ a ∈ Q, ∀ d, a.key = some d → prevOf st.log d = none) ∧
    (Q.filterMap Act.key).Nodup

theorem groupStep_inv {D : List Act} (hD : IdsNodup D) {o : Int} {st st1 : St} {out : List Act}
    (hI : GInv D st) (h : groupStep o st = .ok (out, st1)) :
    GInv D st1 ∧ st1.pending = st.pending ∧ st1.log = st.log ∧ out = atOrd o st1.remaining ∧
      (∀ a ∈ out, ∀ d, a.key = some d → prevOf st.log d = none) ∧ (out.filterMap Act.key).Nodup ∧
      st1.remaining.length + (atOrd o st.remaining).length = st.remaining.length + out.length := by
  have hnR := hI.nodupRem
  obtain ⟨hc, hout, rfl⟩ := groupStep_char hnR h
  generalize hrem : undeferAt (st.log.map (·.id)) o st.remaining = rem at hc hout
  have hnrem : IdsNodup rem := by rw [← hrem]; exact hnR.undeferAt _ _
  have hng : IdsNodup (atOrd o rem) := hnrem.filter _
  have hremids : rem.map (·.id) = st.remaining.map (·.id) := by rw [← hrem, undeferAt_ids]
  have hmemrem : ∀ r, r ∈ rem ↔ ∃ y ∈ st.remaining, r = udf (st.log.map (·.id)) o y := by
    intro r; rw [← hrem]; exact mem_undeferAt
  have hR1 : ∀ r, r ∈ List.filter (fun a => a.order != o || out.contains a) rem ↔ r ∈ rem ∧ (r.order ≠ o ∨ r ∈ out) := by
    intro r
    simp only [List.mem_filter, Bool.or_eq_true, bne_iff_ne, ne_eq, List.contains_iff_mem]
  have houtg : ∀ a ∈ out, a ∈ rem ∧ a.order = o := by
    intro a ha
    rw [hout] at ha
    exact mem_atOrd.mp (groupRuns_sub ha)
  -- what happens to an action of `remaining`
  have fate : ∀ y ∈ st.remaining,
      udf (st.log.map (·.id)) o y ∈ List.filter (fun a => a.order != o || out.contains a) rem ∨
      ∃ d, (udf (st.log.map (·.id)) o y).key = some d ∧ ∃ p, (p ∈ st.log ∨
        p ∈ List.filter (fun a => a.order != o || out.contains a) rem) ∧ p.key = some d ∧ StrictPrefix p.path y.path := by
    intro y hy
    have hy' : udf (st.log.map (·.id)) o y ∈ rem := (hmemrem _).mpr ⟨y, hy, rfl⟩
    by_cases hk : (udf (st.log.map (·.id)) o y).order ≠ o ∨ udf (st.log.map (·.id)) o y ∈ out
    · exact Or.inl ((hR1 _).mpr ⟨hy', hk⟩)
    · right
      have hko : (udf (st.log.map (·.id)) o y).order = o := by
        apply Classical.byContradiction; intro e; exact hk (Or.inl e)
      have hkn : udf (st.log.map (·.id)) o y ∉ groupRuns st.log (atOrd o rem) := by
        rw [← hout]; intro e; exact hk (Or.inr e)
      obtain ⟨d, hkd, p, hp, hpk, hsp⟩ := discard_dominated hng hc (mem_atOrd.mpr ⟨hy', hko⟩) hkn
      refine ⟨d, hkd, p, ?_, hpk, by rwa [udf_path] at hsp⟩
      rcases hp with hp | hp
      · exact Or.inl hp
      · rw [← hout] at hp
        exact Or.inr ((hR1 p).mpr ⟨(houtg p hp).1, Or.inr hp⟩)
  refine ⟨⟨?_, hI.logKeys, ?_, ?_, ?_, ?_⟩, rfl, rfl, ?_, ?_, ?_, ?_⟩
  · -- ids stay distinct
    have h1 : IdsNodup (st.log ++ rem ++ st.pending) := by
      have := hI.nodup
      unfold IdsNodup at this ⊢
      simpa only [List.map_append, hremids] using this
    exact h1.sublist (List.Sublist.append (List.Sublist.append (List.Sublist.refl _) List.filter_sublist) (List.Sublist.refl _))
  · intro o'
    refine List.Sublist.trans ?_ (hI.ord o')
    refine List.Sublist.append (List.Sublist.append (List.Sublist.refl _) ?_) (List.Sublist.refl _)
    rw [← undeferAt_ordIds (st.log.map (·.id)) o o' st.remaining, hrem]
    exact List.Sublist.map _ (List.Sublist.filter _ List.filter_sublist)
  · rintro r (hr | hr | hr)
    · exact hI.orig r (Or.inl hr)
    · obtain ⟨y, hy, rfl⟩ := (hmemrem r).mp ((hR1 r).mp hr).1
      obtain ⟨x, hx, hxo⟩ := hI.orig y (Or.inr (Or.inl hy))
      exact ⟨x, hx, hxo.udf _ _⟩
    · exact hI.orig r (Or.inr (Or.inr hr))
  · intro x hx
    rcases hI.dom x hx with ⟨r, hr, hrx⟩ | ⟨p, hp, d, hpk, hsp, hdone⟩
    · rcases hr with hr | hr | hr
      · exact Or.inl ⟨r, Or.inl hr, hrx⟩
      · rcases fate r hr with hf | ⟨d, hkd, p, hp, hpk, hsp⟩
        · exact Or.inl ⟨_, Or.inr (Or.inl hf), by rw [udf_id, hrx]⟩
        · right
          obtain ⟨x0, hx0, hx0o⟩ := hI.orig r (Or.inr (Or.inl hr))
          have : x0 = x := eq_of_id_eq hD hx0 hx (by rw [← hx0o.1, hrx])
          subst this
          refine ⟨p, hp, d, hpk, by rw [← hx0o.2.1]; exact hsp, (hx0o.udf _ _).key hkd⟩
      · exact Or.inl ⟨r, Or.inr (Or.inr hr), hrx⟩
    · right
      rcases hp with hp | hp
      · exact ⟨p, Or.inl hp, d, hpk, hsp, hdone⟩
      · have hpu : udf (st.log.map (·.id)) o p = p := udf_of_key hpk _ _
        rcases fate p hp with hf | ⟨d', hkd, p', hp', hpk', hsp'⟩
        · rw [hpu] at hf
          exact ⟨p, Or.inr hf, d, hpk, hsp, hdone⟩
        · rw [hpu, hpk] at hkd
          cases hkd
          exact ⟨p', hp', d, hpk', hsp'.trans hsp, hdone⟩
  · have h1 := List.length_filter_le (fun a => a.order != o || out.contains a) rem
    have h5 : rem.length = st.remaining.length := by
      have := congrArg List.length hremids
      simpa using this
    have := hI.cnt
    simp only
    omega
  · -- the phase-`o` part of what is left is the output
    rw [hout]
    exact (keep_phase rem o _).symm
  · intro a ha d hk
    rw [hout] at ha
    rcases (groupRuns_mem.mp ha).2 with h' | ⟨d', hk', hp', _⟩
    · rw [hk] at h'; cases h'
    · rw [hk] at hk'; cases hk'; exact hp'
  · rw [hout]; exact groupRuns_keys_nodup hng
  · -- length bookkeeping for the generator's fuel
    have h1 := length_split o (List.filter (fun a => a.order != o || out.contains a) rem)
    have h2 := length_split o rem
    have h3 : atOrd o (List.filter (fun a => a.order != o || out.contains a) rem) = out := by
      rw [hout]; exact keep_phase rem o _
    have h4 : List.filter (fun a => a.order != o) (List.filter (fun a => a.order != o || out.contains a) rem) =
        List.filter (fun a => a.order != o) rem := by
      rw [List.filter_filter]
      apply List.filter_congr
      intro a _
      cases a.order != o <;> simp
    have h5 : rem.length = st.remaining.length := by
      have := congrArg List.length hremids
      simpa using this
    have h6 : (atOrd o rem).length = (atOrd o st.remaining).length := by
      have := congrArg List.length (undeferAt_ordIds (st.log.map (·.id)) o o st.remaining)
      rw [hrem] at this
      simpa [ordIds] using this
    rw [h3, h4] at h1
    simp only
    omega


/-- The generator body (top of a `groupby` iteration to the next `yield`/`StopIteration`/exception) started in a
state satisfying the invariant: a `yield` comes out of a state `stX` satisfying it whose freshly resolved
group is headed by the yielded action; `StopIteration` leaves nothing behind; the fuel is never exhausted. -/
theorem advance_inv {D : List Act} (hD : IdsNodup D) : ∀ (n : Nat) (st : St), GInv D st → st.remaining.length < n →
    (∀ a st', advance n st = (.yielded a, st') →
        ∃ stX q, GInv D stX ∧ stX.pending = st.pending ∧ stX.log = st.log ∧ QOK stX (a :: q) ∧
          st' = (yieldHead a q stX).2) ∧
    (∀ st', advance n st = (.done, st') →
        GInv D st' ∧ st'.remaining = [] ∧ st'.pending = st.pending ∧ st'.log = st.log) ∧
    (∀ st', advance n st ≠ (.stuck, st')) := by
  intro n
  induction n with
  | zero => intro st _ h; omega
  | succ n ih =>
    intro st hI hlen
    rw [advance_succ]
    cases ho : minOrd st.remaining with
    | none =>
      simp only
      refine ⟨fun a st' h => (by cases h), fun st' h => ?_, fun st' h => (by cases h)⟩
      simp only [Prod.mk.injEq, true_and] at h
      subst h
      exact ⟨hI, minOrd_eq_none.mp ho, rfl, rfl⟩
    | some o =>
      simp only
      obtain ⟨⟨y, hy, hyo⟩, _⟩ := minOrd_spec ho
      cases regressAt st.minOrder o with
      | some m => exact ⟨fun a st' h => (by cases h), fun st' h => (by cases h), fun st' h => (by cases h)⟩
      | none =>
        simp only
        cases hg : groupStep o st with
        | error ks => exact ⟨fun a st' h => (by cases h), fun st' h => (by cases h), fun st' h => (by cases h)⟩
        | ok r =>
          obtain ⟨out, st1⟩ := r
          simp only
          obtain ⟨hI1, hpend, hlog, hout, hfresh, hkeys, hlen1⟩ := groupStep_inv hD hI hg
          have hgpos : 0 < (atOrd o st.remaining).length := List.length_pos_of_mem (mem_atOrd.mpr ⟨hy, hyo⟩)
          cases out with
          | nil =>
            simp only
            simp only [List.length_nil, Nat.add_zero] at hlen1
            obtain ⟨h1, h2, h3⟩ := ih st1 hI1 (by omega)
            refine ⟨fun a st' h => ?_, fun st' h => ?_, h3⟩
            · obtain ⟨stX, q, g1, g2, g3, g4, g5⟩ := h1 a st' h
              exact ⟨stX, q, g1, g2.trans hpend, g3.trans hlog, g4, g5⟩
            · obtain ⟨g1, g2, g3, g4⟩ := h2 st' h
              exact ⟨g1, g2, g3.trans hpend, g4.trans hlog⟩
          | cons b q =>
            simp only
            refine ⟨fun a st' h => ?_, fun st' h => (by simp [yieldHead] at h), fun st' h => (by simp [yieldHead] at h)⟩
            have hab : b = a := by simp only [yieldHead, Prod.mk.injEq, Ev.yielded.injEq] at h; exact h.1
            subst hab
            refine ⟨st1, q, hI1, hpend, hlog, ⟨?_, ?_, hkeys⟩, (congrArg Prod.snd h).symm⟩
            · intro c hc
              rw [hout] at hc
              rw [(mem_atOrd.mp hc).2]; exact hout
            · intro c hc d hk
              rw [hlog]; exact hfresh c hc d hk


/-- invariant of the states the commit loop goes through -/
def RInv (D : List Act) (st : St) : Prop := GInv D st ∧ QOK st st.queue

theorem GInv.absorb {D : List Act} {st : St} (h : GInv D st) :
    GInv D (absorb st) ∧ (absorb st).pending = [] ∧ (absorb st).log = st.log ∧
      (st.pending ≠ [] → (absorb st).queue = []) ∧ (st.pending = [] → absorb st = st) := by
  unfold Pyr.Actions.absorb
  cases hp : st.pending with
  | nil => exact ⟨h, hp, rfl, fun e => absurd rfl e, fun _ => rfl⟩
  | cons p ps =>
    simp only
    refine ⟨⟨?_, h.logKeys, ?_, ?_, ?_, ?_⟩, by simp⟩
    · have := h.nodup
      rw [hp] at this
      simpa only [List.append_nil, List.append_assoc] using this
    · intro o
      have := h.ord o
      rw [hp] at this
      simp only [ordIds_append] at this ⊢
      simpa [ordIds, atOrd] using this
    · rintro r (hr | hr | hr)
      · exact h.orig r (Or.inl hr)
      · rcases List.mem_append.mp hr with hr | hr
        · exact h.orig r (Or.inr (Or.inl hr))
        · exact h.orig r (Or.inr (Or.inr (by rw [hp]; exact hr)))
      · cases hr
    · intro x hx
      rcases h.dom x hx with ⟨r, hr, hrx⟩ | ⟨q, hq, rest⟩
      · left
        refine ⟨r, ?_, hrx⟩
        rcases hr with hr | hr | hr
        · exact Or.inl hr
        · exact Or.inr (Or.inl (List.mem_append_left _ hr))
        · rw [hp] at hr; exact Or.inr (Or.inl (List.mem_append_right _ hr))
      · right
        refine ⟨q, ?_, rest⟩
        rcases hq with hq | hq
        · exact Or.inl hq
        · exact Or.inr (List.mem_append_left _ hq)
    · have := h.cnt
      rw [hp] at this
      simp only [List.length_append, List.length_nil] at this ⊢
      omega

/-- every `yield` of the loop comes out of a state satisfying the invariant whose queue-to-be is headed by
the yielded action -/
theorem next_yield {D : List Act} (hD : IdsNodup D) {st st' : St} {a : Act} (hR : RInv D st)
    (hn : next (absorb st) = (.yielded a, st')) :
    ∃ stX q, GInv D stX ∧ stX.pending = [] ∧ stX.log = st.log ∧ QOK stX (a :: q) ∧ st' = (yieldHead a q stX).2 := by
  obtain ⟨hA, hpend, hlog, hq0, hsame⟩ := hR.1.absorb
  unfold next at hn
  cases hq : (absorb st).queue with
  | nil =>
    rw [hq] at hn
    simp only at hn
    obtain ⟨stX, q, g1, g2, g3, g4, g5⟩ := (advance_inv hD _ _ hA (Nat.lt_succ_self _)).1 a st' hn
    exact ⟨stX, q, g1, g2.trans hpend, g3.trans hlog, g4, g5⟩
  | cons b q =>
    rw [hq] at hn
    simp only at hn
    have hpe : st.pending = [] := by
      apply Classical.byContradiction
      intro e
      rw [hq0 e] at hq; cases hq
    have hst := hsame hpe
    rw [hst] at hn hq
    have hab : b = a := by simp only [yieldHead, Prod.mk.injEq, Ev.yielded.injEq] at hn; exact hn.1
    subst hab
    refine ⟨st, q, hR.1, hpe, rfl, ?_, (congrArg Prod.snd hn).symm⟩
    have := hR.2
    rwa [hq] at this

theorem atOrd_filter_other {R : List Act} (hn : IdsNodup R) {a : Act} (ha : a ∈ R) {o : Int} (hne : a.order ≠ o) :
    atOrd o (R.filter (fun x => x.id != a.id)) = atOrd o R := by
  simp only [atOrd, List.filter_filter]
  apply List.filter_congr
  intro x hx
  by_cases e : x.order = o
  · have : x.id ≠ a.id := by
      intro hid
      have := eq_of_id_eq hn hx ha hid
      subst this; exact hne e
    simp [e, this]
  · simp [e]

theorem atOrd_filter_head {R : List Act} (hn : IdsNodup R) {a : Act} {q : List Act} {o : Int}
    (h : atOrd o R = a :: q) : atOrd o (R.filter (fun x => x.id != a.id)) = q := by
  have h1 : atOrd o (R.filter (fun x => x.id != a.id)) = (atOrd o R).filter (fun x => x.id != a.id) := by
    simp only [atOrd, List.filter_filter]
    apply List.filter_congr
    intro x _
    exact Bool.and_comm _ _
  rw [h1, h]
  have hnq : IdsNodup (a :: q) := by rw [← h]; exact hn.filter _
  simp only [IdsNodup, List.map_cons, List.nodup_cons, List.mem_map, not_exists, not_and] at hnq
  simp only [List.filter_cons, bne_self_eq_false, Bool.false_eq_true, if_false]
  rw [List.filter_eq_self]
  intro x hx
  simpa using hnq.1 x hx

/-- one turn of the loop: the yielded action is executed and appends `K` -/
theorem yield_step {D K : List Act} {stX : St} {a : Act} {q : List Act} (hI : GInv D stX) (hp : stX.pending = [])
    (hQ : QOK stX (a :: q)) (hDK : IdsNodup (D ++ K)) :
    RInv (D ++ K) { (yieldHead a q stX).2 with log := a :: (yieldHead a q stX).2.log, pending := K } := by
  have hD : IdsNodup D := hDK.sublist (List.sublist_append_left _ _)
  have hnR := hI.nodupRem
  obtain ⟨hQ1, hQ2, hQ3⟩ := hQ
  have haq : a :: q = atOrd a.order stX.remaining := hQ1 a (by simp)
  have haR : a ∈ stX.remaining := (mem_atOrd.mp (by rw [← haq]; simp : a ∈ atOrd a.order stX.remaining)).1
  have hLR : IdsNodup (stX.log ++ stX.remaining) := by
    have := hI.nodup
    rwa [hp, List.append_nil] at this
  have herase : eraseId a.id stX.remaining = stX.remaining.filter (fun x => x.id != a.id) := eraseId_eq_filter hnR _
  have hsplit : ∀ r ∈ stX.remaining, r = a ∨ r ∈ stX.remaining.filter (fun x => x.id != a.id) := by
    intro r hr
    by_cases e : r.id = a.id
    · exact Or.inl (eq_of_id_eq hnR hr haR e)
    · exact Or.inr (List.mem_filter.mpr ⟨hr, by simpa using e⟩)
  have hidsD : ∀ r, r ∈ stX.log ∨ r ∈ stX.remaining → r.id ∈ D.map (·.id) := by
    intro r hr
    obtain ⟨x, hx, hxo⟩ := hI.orig r (hr.elim Or.inl (fun h => Or.inr (Or.inl h)))
    exact List.mem_map.mpr ⟨x, hx, hxo.1.symm⟩
  have haL : a.id ∉ stX.log.map (·.id) := by
    intro h
    have := hLR
    simp only [IdsNodup, List.map_append] at this
    exact (List.nodup_append.mp this).2.2 a.id h a.id (List.mem_map.mpr ⟨a, haR, rfl⟩) rfl
  show GInv (D ++ K) _ ∧ QOK _ _
  simp only [yieldHead, herase]
  refine ⟨⟨?_, ?_, ?_, ?_, ?_, ?_⟩, ?_, ?_, ?_⟩
  · -- ids
    have h1 : IdsNodup (a :: stX.log ++ stX.remaining.filter (fun x => x.id != a.id)) := by
      have hsub : IdsNodup (stX.log ++ stX.remaining.filter (fun x => x.id != a.id)) :=
        hLR.sublist (List.Sublist.append (List.Sublist.refl _) List.filter_sublist)
      simp only [IdsNodup, List.cons_append, List.map_cons, List.nodup_cons] at hsub ⊢
      refine ⟨?_, hsub⟩
      simp only [List.map_append, List.mem_append, not_or]
      refine ⟨haL, ?_⟩
      intro h
      obtain ⟨x, hx, hxi⟩ := List.mem_map.mp h
      have := (List.mem_filter.mp hx).2
      simp [hxi] at this
    have hK : IdsNodup K := hDK.sublist (List.sublist_append_right _ _)
    simp only [IdsNodup, List.map_append] at h1 hK hDK ⊢
    rw [List.nodup_append]
    refine ⟨by simpa only [List.map_append] using h1, hK, ?_⟩
    intro i hi j hj e
    subst e
    have hiD : i ∈ D.map (·.id) := by
      rcases List.mem_append.mp hi with hi | hi
      · obtain ⟨x, hx, rfl⟩ := List.mem_map.mp hi
        rcases List.mem_cons.mp hx with rfl | hx
        · exact hidsD _ (Or.inr haR)
        · exact hidsD _ (Or.inl hx)
      · obtain ⟨x, hx, rfl⟩ := List.mem_map.mp hi
        exact hidsD _ (Or.inr (List.mem_filter.mp hx).1)
    exact (List.nodup_append.mp hDK).2.2 i hiD i hj rfl
  · -- one executed action per discriminator
    cases hk : a.key with
    | none => rw [List.filterMap_cons_none hk]; exact hI.logKeys
    | some d =>
      rw [List.filterMap_cons_some hk, List.nodup_cons]
      refine ⟨?_, hI.logKeys⟩
      intro h
      obtain ⟨x, hx, hxk⟩ := List.mem_filterMap.mp h
      exact prevOf_none (hQ2 a (by simp) d hk) x hx hxk
  · -- declaration order inside each phase
    intro o
    have hold := hI.ord o
    rw [hp] at hold
    simp only [ordIds_append, List.reverse_cons] at hold ⊢
    have hkey : ordIds o [a] ++ ordIds o (stX.remaining.filter (fun x => x.id != a.id)) = ordIds o stX.remaining := by
      by_cases e : a.order = o
      · subst e
        simp only [ordIds]
        rw [atOrd_filter_head hnR haq.symm, ← haq]
        simp [atOrd]
      · simp only [ordIds]
        rw [atOrd_filter_other hnR haR e]
        simp [atOrd, e]
    rw [List.append_assoc (ordIds o stX.log.reverse), hkey]
    have : (ordIds o stX.log.reverse ++ ordIds o stX.remaining).Sublist (ordIds o D) := by
      simpa [ordIds, atOrd] using hold
    exact List.Sublist.append this (List.Sublist.refl _)
  · rintro r (hr | hr | hr)
    · rcases List.mem_cons.mp hr with rfl | hr
      · obtain ⟨x, hx, hxo⟩ := hI.orig _ (Or.inr (Or.inl haR))
        exact ⟨x, List.mem_append_left _ hx, hxo⟩
      · obtain ⟨x, hx, hxo⟩ := hI.orig r (Or.inl hr)
        exact ⟨x, List.mem_append_left _ hx, hxo⟩
    · obtain ⟨x, hx, hxo⟩ := hI.orig r (Or.inr (Or.inl (List.mem_filter.mp hr).1))
      exact ⟨x, List.mem_append_left _ hx, hxo⟩
    · exact ⟨r, List.mem_append_right _ hr, Orig.refl r⟩
  · intro x hx
    rcases List.mem_append.mp hx with hx | hx
    · rcases hI.dom x hx with ⟨r, hr, hrx⟩ | ⟨p, hpm, rest⟩
      · left
        refine ⟨r, ?_, hrx⟩
        rcases hr with hr | hr | hr
        · exact Or.inl (List.mem_cons_of_mem _ hr)
        · rcases hsplit r hr with rfl | h
          · exact Or.inl (by simp)
          · exact Or.inr (Or.inl h)
        · rw [hp] at hr; cases hr
      · right
        refine ⟨p, ?_, rest⟩
        rcases hpm with hpm | hpm
        · exact Or.inl (List.mem_cons_of_mem _ hpm)
        · rcases hsplit p hpm with rfl | h
          · exact Or.inl (by simp)
          · exact Or.inr h
    · exact Or.inl ⟨x, Or.inr (Or.inr hx), rfl⟩
  · have h1 : (stX.remaining.filter (fun x => x.id != a.id)).length < stX.remaining.length :=
      List.length_filter_lt_length_iff_exists.mpr ⟨a, haR, by simp⟩
    have := hI.cnt
    rw [hp] at this
    simp only [List.length_cons, List.length_append, List.length_nil] at this ⊢
    omega
  · intro b hb
    have := hQ1 b (List.mem_cons_of_mem _ hb)
    exact (atOrd_filter_head hnR this.symm).symm
  · intro b hb d hk
    have hprev := hQ2 b (List.mem_cons_of_mem _ hb) d hk
    unfold prevOf at hprev ⊢
    rw [List.find?_cons]
    have hne : (a.key == some d) = false := by
      cases hka : a.key with
      | none => rfl
      | some d' =>
        have hnd : d' ≠ d := by
          intro e
          subst e
          rw [List.filterMap_cons_some hka, List.nodup_cons] at hQ3
          exact hQ3.1 (List.mem_filterMap.mpr ⟨b, hb, hk⟩)
        simpa using hnd
    rw [hne]
    exact hprev
  · exact List.Nodup.sublist (List.Sublist.filterMap _ (List.sublist_cons_self a q)) hQ3


theorem RInv.init {top : List Act} (hn : IdsNodup top) : RInv top (initSt top) := by
  refine ⟨⟨?_, ?_, ?_, ?_, ?_, ?_⟩, ?_, ?_, ?_⟩
  · simpa [initSt] using hn
  · simp [initSt]
  · intro o; simp [initSt, ordIds, atOrd]
  · rintro r (hr | hr | hr)
    · cases hr
    · cases hr
    · exact ⟨r, hr, Orig.refl r⟩
  · intro x hx; exact Or.inl ⟨x, Or.inr (Or.inr hx), rfl⟩
  · simp [initSt]
  · intro a ha; cases ha
  · intro a ha; cases ha
  · simp [initSt]

/-- every state of the commit loop satisfies the invariant, as long as the actions declared until then
have pairwise distinct ids -/
theorem Reachable.rinv {kids : Nat → List Act} {top : List Act} {st : St} (h : Reachable kids top st)
    (hn : IdsNodup (declared kids top st.log)) : RInv (declared kids top st.log) st := by
  induction h with
  | init =>
    simp only [initSt, declared_nil] at hn ⊢
    exact RInv.init hn
  | @step st st' a hr hnx ih =>
    have hlog : st'.log = st.log := by
      have := next_log st
      rw [hnx] at this; exact this
    simp only [hlog, declared_cons] at hn ⊢
    have hD : IdsNodup (declared kids top st.log) := hn.sublist (List.sublist_append_left _ _)
    obtain ⟨stX, q, g1, g2, g3, g4, g5⟩ := next_yield hD (ih hD) hnx
    have := yield_step (K := kids a.id) g1 g2 g4 hn
    rw [← g5] at this
    simpa only [hlog] using this

/-- a commit that ends normally comes from a reachable state whose generator stopped -/
theorem exec_ok {kids : Nat → List Act} {top : List Act} : ∀ (f : Nat) (st : St), Reachable kids top st →
    (exec kids f st).1 = .ok →
    ∃ st'', Reachable kids top st'' ∧ next (absorb st'') = (.done, (exec kids f st).2) := by
  intro f
  induction f with
  | zero => intro st _ h; cases h
  | succ f ih =>
    intro st hr h
    simp only [exec] at h ⊢
    cases hn : next (absorb st) with
    | mk ev st' =>
      rw [hn] at h
      cases ev with
      | yielded a => exact ih _ (Reachable.step hr hn) h
      | done => exact ⟨st, hr, hn⟩
      | conflict _ => cases h
      | regress _ _ => cases h
      | stuck => cases h

/-- `StopIteration` out of a state satisfying the invariant: nothing is left -/
theorem next_done {D : List Act} (hD : IdsNodup D) {st st' : St} (hR : RInv D st)
    (hn : next (absorb st) = (.done, st')) :
    GInv D st' ∧ st'.remaining = [] ∧ st'.pending = [] ∧ st'.log = st.log := by
  obtain ⟨hA, hpend, hlog, _, _⟩ := hR.1.absorb
  unfold next at hn
  cases hq : (absorb st).queue with
  | nil =>
    rw [hq] at hn
    simp only at hn
    obtain ⟨g1, g2, g3, g4⟩ := (advance_inv hD _ _ hA (Nat.lt_succ_self _)).2.1 st' hn
    exact ⟨g1, g2, g3.trans hpend, g4.trans hlog⟩
  | cons b q =>
    rw [hq] at hn
    simp [yieldHead] at hn

/-- the generator's internal fuel is never exhausted -/
theorem next_not_stuck {D : List Act} (hD : IdsNodup D) {st : St} (hR : RInv D st) (st' : St) :
    next (absorb st) ≠ (.stuck, st') := by
  obtain ⟨hA, _, _, _, _⟩ := hR.1.absorb
  unfold next
  cases (absorb st).queue with
  | nil => exact (advance_inv hD _ _ hA (Nat.lt_succ_self _)).2.2 st'
  | cons b q => simp [yieldHead]


/-- Static well-formedness of a re-entrant program: the top-level actions and everything any action can
append carry pairwise different ids (what `harness/c04.py: well_formed` demands of a case). -/
structure WFProg (kids : Nat → List Act) (top : List Act) : Prop where
  topNodup : IdsNodup top
  kidNodup : ∀ i, IdsNodup (kids i)
  fresh : ∀ i, ∀ k ∈ kids i, ∀ t ∈ top, k.id ≠ t.id
  apart : ∀ i j, i ≠ j → ∀ k ∈ kids i, ∀ k' ∈ kids j, k.id ≠ k'.id

theorem declared_nodup {kids : Nat → List Act} {top : List Act} (h : WFProg kids top) :
    ∀ log : List Act, IdsNodup log → IdsNodup (declared kids top log)
  | [], _ => by rw [declared_nil]; exact h.topNodup
  | a :: log, hn => by
    simp only [IdsNodup, List.map_cons, List.nodup_cons] at hn
    rw [declared_cons]
    have ih := declared_nodup h log hn.2
    unfold IdsNodup at ih ⊢
    rw [List.map_append, List.nodup_append]
    refine ⟨ih, h.kidNodup a.id, ?_⟩
    intro i hi j hj e
    subst e
    obtain ⟨x, hx, rfl⟩ := List.mem_map.mp hi
    obtain ⟨k, hk, hki⟩ := List.mem_map.mp hj
    simp only [declared, List.mem_append, List.mem_flatMap, List.mem_reverse] at hx
    rcases hx with hx | ⟨b, hb, hxb⟩
    · exact h.fresh a.id k hk x hx hki
    · have : b.id ≠ a.id := fun e => hn.1 (List.mem_map.mpr ⟨b, hb, e⟩)
      exact h.apart b.id a.id this x hxb k hk hki.symm

theorem GInv.logNodup {D : List Act} {st : St} (h : GInv D st) : IdsNodup st.log :=
  h.nodup.sublist ((List.sublist_append_left _ _).trans (List.sublist_append_left _ _))

/-- a well-formed program never declares an id twice, and never runs an action twice -/
theorem Reachable.wf {kids : Nat → List Act} {top : List Act} (hw : WFProg kids top) {st : St}
    (h : Reachable kids top st) : IdsNodup (declared kids top st.log) := by
  induction h with
  | init => simp only [initSt, declared_nil]; exact hw.topNodup
  | @step st st' a hr hnx ih =>
    have hlog : st'.log = st.log := by
      have := next_log st
      rw [hnx] at this; exact this
    simp only [hlog]
    obtain ⟨stX, q, g1, g2, g3, g4, _⟩ := next_yield ih (hr.rinv ih) hnx
    apply declared_nodup hw
    have haR : a ∈ stX.remaining :=
      (mem_atOrd.mp (by rw [← g4.1 a (by simp)]; simp : a ∈ atOrd a.order stX.remaining)).1
    have hn := g1.nodup
    simp only [IdsNodup, List.map_append, List.map_cons, List.nodup_cons] at hn ⊢
    have h1 := (List.nodup_append.mp hn).1
    refine ⟨?_, by rw [← g3]; exact (List.nodup_append.mp h1).1⟩
    intro hmem
    rw [← g3] at hmem
    exact (List.nodup_append.mp h1).2.2 a.id hmem a.id (List.mem_map.mpr ⟨a, haR, rfl⟩) rfl

/-- `exec`'s fuel: with at most `N` actions ever declared, `N + 1` turns of the loop are enough -/
theorem exec_fuel {kids : Nat → List Act} {top : List Act} (N : Nat)
    (hb : ∀ st, Reachable kids top st → IdsNodup (declared kids top st.log) ∧ (declared kids top st.log).length ≤ N) :
    ∀ (f : Nat) (st : St), Reachable kids top st → N < st.log.length + f → (exec kids f st).1 ≠ .fuel := by
  intro f
  induction f with
  | zero =>
    intro st hr hlt
    have := (hr.rinv (hb st hr).1).1.cnt
    have := (hb st hr).2
    omega
  | succ f ih =>
    intro st hr hlt
    simp only [exec]
    cases hn : next (absorb st) with
    | mk ev st' =>
      have hlog : st'.log = st.log := by
        have := next_log st
        rw [hn] at this; exact this
      cases ev with
      | yielded a =>
        apply ih _ (Reachable.step hr hn)
        simp only [List.length_cons, hlog]
        omega
      | done => intro h; cases h
      | conflict _ => intro h; cases h
      | regress _ _ => intro h; cases h
      | stuck => exact absurd hn (next_not_stuck (hb st hr).1 (hr.rinv (hb st hr).1) st')

theorem pairwise_mem {α : Type} {R : α → α → Prop} (hs : ∀ a b, R a b → R b a) {l : List α}
    (h : l.Pairwise R) {a b : α} (ha : a ∈ l) (hb : b ∈ l) : a = b ∨ R a b := by
  induction l with
  | nil => cases ha
  | cons x xs ih =>
    rw [List.pairwise_cons] at h
    rcases List.mem_cons.mp ha with rfl | ha' <;> rcases List.mem_cons.mp hb with rfl | hb'
    · exact Or.inl rfl
    · exact Or.inr (h.1 b hb')
    · exact Or.inr (hs _ _ (h.1 a ha'))
    · exact ih h.2 ha' hb'

/-- "at most one executed action per discriminator", elementwise -/
theorem keys_unique {L : List Act} (hk : (L.filterMap Act.key).Nodup) {a b : Act} (ha : a ∈ L) (hb : b ∈ L)
    {d : Nat} (hda : a.key = some d) (hdb : b.key = some d) : a = b := by
  unfold List.Nodup at hk
  rw [List.pairwise_filterMap] at hk
  rcases pairwise_mem (fun x y h b hb b' hb' e => h b' hb' b hb e.symm) hk ha hb with h | h
  · exact h
  · exact absurd rfl (h d hda d hdb)


/-- programs in which only action `i0` appends actions: at most `top.length + (kids i0).length` declarations -/
theorem single_parent_flat {kids : Nat → List Act} {i0 : Nat} (h : ∀ i, i ≠ i0 → kids i = []) :
    ∀ l : List Act, IdsNodup l →
      (l.flatMap (fun a => kids a.id)).length ≤ (if i0 ∈ l.map (·.id) then (kids i0).length else 0)
  | [], _ => by simp
  | a :: l, hn => by
    simp only [IdsNodup, List.map_cons, List.nodup_cons] at hn
    have ih := single_parent_flat h l hn.2
    simp only [List.flatMap_cons, List.length_append, List.map_cons, List.mem_cons]
    by_cases e : a.id = i0
    · subst e
      have : ¬ a.id ∈ l.map (·.id) := hn.1
      simp only [this, if_false] at ih
      simp only [true_or, if_true]
      omega
    · rw [h a.id e]
      have : (i0 = a.id ∨ i0 ∈ l.map (·.id)) ↔ i0 ∈ l.map (·.id) := by
        constructor
        · rintro (h' | h')
          · exact absurd h'.symm e
          · exact h'
        · exact Or.inr
      simp only [this, List.length_nil, Nat.zero_add]
      exact ih

theorem single_parent_bound {kids : Nat → List Act} {top : List Act} {i0 : Nat} (hw : WFProg kids top)
    (h : ∀ i, i ≠ i0 → kids i = []) (st : St) (hr : Reachable kids top st) :
    IdsNodup (declared kids top st.log) ∧ (declared kids top st.log).length ≤ top.length + (kids i0).length := by
  have hn := hr.wf hw
  refine ⟨hn, ?_⟩
  have hl : IdsNodup st.log.reverse := by
    have := (hr.rinv hn).1.logNodup
    unfold IdsNodup at this ⊢
    rw [List.map_reverse]
    exact (List.reverse_perm _).nodup_iff.mpr this
  have := single_parent_flat h st.log.reverse hl
  simp only [declared, List.length_append]
  split at this <;> omega

end Pyr.Actions
