/-
C20 — the hand-written specification of what every directive must record (`specDirectives`).

Sources: docs/narr/introspector.rst ("Pyramid Introspection Categories": category names, keys, "resolved"),
the directive signatures and docstrings in src/pyramid/config/*.py.  Reading rule:

* a key holds the **same-named parameter** — `.param k` when the documentation speaks of "the k argument
  passed to …", `.resolved k` when it says "(resolved)" or the docstring accepts a dotted Python name;
* every departure from that rule is spelled out: a renamed key (`request_methods ← request_method`,
  `type ← type_or_iface`, `callable ← view` (resolved; when no view is given but a renderer is, the directive's own
  `def view(context, request): return {}`), `value ← permission`, `factory ← tween_factory`,
  `path ← spec`, `interfaces ← iface`, `route_name ← name`), a constant (`property`/`reify` of request
  methods), a documented normalised form (`.derived`: the expression *and* the full list of assignments that
  give its locals their value — e.g. `as_sorted_tuple(safe_methods)`, the trailing slash of static view names,
  the route prefix in front of a pattern, `normalize_accept_offer`), or a value that only exists when the
  action runs (`.computed`: route object, derived view, predicate list, phash, order);
* category, discriminator, title, type name, the guards under which an introspectable / a key / a relation
  exists, which introspectables are handed to which `action(...)`, with which discriminator and `order=`.

`entries` are the public directives a configuration statement calls to reach the body (taken from the Configurator
API: `add_tween` → `_add_tween`, the three `add_*_predicate` → `_add_predicate`, `add_static_view` →
`StaticURLInfo.add`, `add_cache_buster` → `StaticURLInfo.add_cache_buster`, otherwise the method itself); each must
be an `@action_method`, because the outermost wrapper is what records the calling statement as `action_info`.

`docCategory` is the category name introspector.rst documents for the introspectable; the chapter's headings themselves
are *generated* (`Gen.C20.docCategories`), and `documented_categories` decides on every run that each `docCategory` is
one of them, equals the category in the source, that every heading is recorded by some directive, and that the only
recorded categories without a heading are the ones in `undocumentedCategories` below (families the chapter is silent
about).  (Until /repo 4ce8e67 the chapter called the CSRF category ``default csrf options`` — finding F-C20c, fixed in
the document.)

Things the chapter documents that no directive records (not demanded by the property, which speaks of the
*recorded* values): `routes.request_method`, `views.csrf_token`, `resource url adapters.request_iface`.
Things recorded but not documented: `views.exception_only/http_cache/require_csrf/predicates/phash/order` and
the extra `**view_options`, `routes.external_url`, `subscribers.phash/order`,
`default csrf options.check_origin/allow_no_origin/callback`.
-/
import PyramidModel.Lemmas.IntrospectTable
namespace Pyr.Introspect

/-- category expressions of directive families the chapter does not list (source text of the first argument of
`self.introspectable`) -/
def undocumentedCategories : List String :=
  ["'view predicates'", "'route predicates'", "'subscriber predicates'", "'view derivers'", "'request extensions'", "'execution policy'", "'response factory'",
   "'csrf storage policy'", "'cache busters'", "'accept view order'"]

def specDirectives : List SDirective := [
  { file := "adapters.py", name := "add_subscriber",
    entries := ["AdaptersConfiguratorMixin.add_subscriber"],
    docCategory := [("intr", "subscribers")],
    params := ["subscriber", "iface", "**predicates"],
    intros := [
      { var := "intr", category := "'subscribers'", discr := "id(subscriber)", title := "self.object_description(subscriber)", typeName := "'subscriber'",
        defs := [⟨"dotted", "self.maybe_dotted", "", []⟩, ⟨"subscriber", "dotted(subscriber)", "", []⟩] }],
    keys := [
      { var := "intr", key := "phash", shape := .computed "phash", scope := "register" }, 
      { var := "intr", key := "order", shape := .computed "order", scope := "register" }, 
      { var := "intr", key := "predicates", shape := .computed "preds", scope := "register" }, 
      { var := "intr", key := "derived_predicates", shape := .computed "derived_predicates", scope := "register" }, 
      { var := "intr", key := "derived_subscriber", shape := .computed "derived_subscriber", scope := "register" }, 
      { var := "intr", key := "subscriber", shape := .derived "subscriber" [
          ⟨"dotted", "self.maybe_dotted", "", []⟩, 
          ⟨"subscriber", "dotted(subscriber)", "", []⟩] }, 
      { var := "intr", key := "interfaces", shape := .derived "iface" [
          ⟨"dotted", "self.maybe_dotted", "", []⟩, 
          ⟨"iface", "dotted(iface)", "", []⟩, 
          ⟨"iface", "(Interface,)", "", ["iface is None"]⟩, 
          ⟨"iface", "(iface,)", "", ["not isinstance(iface, (tuple, list))"]⟩] }],
    acts := [
      ⟨"None", "", "", [], some [("intr", [])]⟩] },
  { file := "adapters.py", name := "add_response_adapter",
    entries := ["AdaptersConfiguratorMixin.add_response_adapter"],
    docCategory := [("intr", "response adapters")],
    params := ["adapter", "type_or_iface"],
    intros := [
      { var := "intr", category := "'response adapters'", discr := "discriminator", title := "self.object_description(adapter)", typeName := "'response adapter'",
        defs := [⟨"type_or_iface", "self.maybe_dotted(type_or_iface)", "", []⟩, ⟨"discriminator", "(IResponse, type_or_iface)", "", []⟩] }],
    keys := [
      { var := "intr", key := "adapter", shape := .resolved "adapter" }, 
      { var := "intr", key := "type", shape := .resolved "type_or_iface" }],
    acts := [
      ⟨"discriminator", "", "", [], some [("intr", [])]⟩] },
  { file := "adapters.py", name := "add_traverser",
    entries := ["AdaptersConfiguratorMixin.add_traverser"],
    docCategory := [("intr", "traversers")],
    params := ["adapter", "iface"],
    intros := [
      { var := "intr", category := "'traversers'", discr := "discriminator", title := "'traverser for %r' % iface", typeName := "'traverser'",
        defs := [⟨"iface", "self.maybe_dotted(iface)", "", []⟩, ⟨"discriminator", "('traverser', iface)", "", []⟩] }],
    keys := [
      { var := "intr", key := "adapter", shape := .resolved "adapter" }, 
      { var := "intr", key := "iface", shape := .resolved "iface" }],
    acts := [
      ⟨"discriminator", "", "", [], some [("intr", [])]⟩] },
  { file := "adapters.py", name := "add_resource_url_adapter",
    entries := ["AdaptersConfiguratorMixin.add_resource_url_adapter"],
    docCategory := [("intr", "resource url adapters")],
    params := ["adapter", "resource_iface"],
    intros := [
      { var := "intr", category := "'resource url adapters'", discr := "discriminator", title := "'resource url adapter for resource iface %r' % resource_iface", typeName := "'resource url adapter'",
        defs := [⟨"resource_iface", "self.maybe_dotted(resource_iface)", "", []⟩, ⟨"discriminator", "('resource url adapter', resource_iface)", "", []⟩] }],
    keys := [
      { var := "intr", key := "adapter", shape := .resolved "adapter" }, 
      { var := "intr", key := "resource_iface", shape := .resolved "resource_iface" }],
    acts := [
      ⟨"discriminator", "", "", [], some [("intr", [])]⟩] },
  { file := "assets.py", name := "override_asset",
    entries := ["AssetsConfiguratorMixin.override_asset"],
    docCategory := [("intr", "asset overrides")],
    params := ["to_override", "override_with", "_override"],
    intros := [
      { var := "intr", category := "'asset overrides'", discr := "(package, override_package, path, override_prefix)", title := "f'{to_override} -> {override_with}'", typeName := "'asset override'",
        defs := [⟨"package", "to_override", "", []⟩, ⟨"path", "''", "", []⟩, ⟨"package", "(to_override.split(':', 1))[0]", "", ["':' in to_override"]⟩, ⟨"path", "(to_override.split(':', 1))[1]", "", ["':' in to_override"]⟩, ⟨"override_package", "None", "", ["os.path.isabs(override_with)"]⟩, ⟨"override_prefix", "override_with", "", ["os.path.isabs(override_with)"]⟩, ⟨"override_package", "override_with", "", ["not (os.path.isabs(override_with))"]⟩, ⟨"override_prefix", "''", "", ["not (os.path.isabs(override_with))"]⟩, ⟨"override_package", "(override_with.split(':', 1))[0]", "", ["not (os.path.isabs(override_with))", "':' in override_with"]⟩, ⟨"override_prefix", "(override_with.split(':', 1))[1]", "", ["not (os.path.isabs(override_with))", "':' in override_with"]⟩] }],
    keys := [
      { var := "intr", key := "to_override", shape := .param "to_override" }, 
      { var := "intr", key := "override_with", shape := .param "override_with" }],
    acts := [
      ⟨"None", "PHASE1_CONFIG", "", [], some [("intr", [])]⟩] },
  { file := "factories.py", name := "set_root_factory",
    entries := ["FactoriesConfiguratorMixin.set_root_factory"],
    docCategory := [("intr", "root factories")],
    params := ["factory"],
    intros := [
      { var := "intr", category := "'root factories'", discr := "None", title := "self.object_description(factory)", typeName := "'root factory'" }],
    keys := [
      { var := "intr", key := "factory", shape := .derived "factory" [
          ⟨"factory", "self.maybe_dotted(factory)", "", []⟩, 
          ⟨"factory", "DefaultRootFactory", "", ["factory is None"]⟩] }],
    acts := [
      ⟨"IRootFactory", "", "", [], some [("intr", [])]⟩] },
  { file := "factories.py", name := "set_session_factory",
    entries := ["FactoriesConfiguratorMixin.set_session_factory"],
    docCategory := [("intr", "session factory")],
    params := ["factory"],
    intros := [
      { var := "intr", category := "'session factory'", discr := "None", title := "self.object_description(factory)", typeName := "'session factory'" }],
    keys := [
      { var := "intr", key := "factory", shape := .resolved "factory" }],
    acts := [
      ⟨"ISessionFactory", "", "", [], some [("intr", [])]⟩] },
  { file := "factories.py", name := "set_request_factory",
    entries := ["FactoriesConfiguratorMixin.set_request_factory"],
    docCategory := [("intr", "request factory")],
    params := ["factory"],
    intros := [
      { var := "intr", category := "'request factory'", discr := "None", title := "self.object_description(factory)", typeName := "'request factory'" }],
    keys := [
      { var := "intr", key := "factory", shape := .resolved "factory" }],
    acts := [
      ⟨"IRequestFactory", "", "", [], some [("intr", [])]⟩] },
  { file := "factories.py", name := "set_response_factory",
    entries := ["FactoriesConfiguratorMixin.set_response_factory"],
    params := ["factory"],
    intros := [
      { var := "intr", category := "'response factory'", discr := "None", title := "self.object_description(factory)", typeName := "'response factory'" }],
    keys := [
      { var := "intr", key := "factory", shape := .resolved "factory" }],
    acts := [
      ⟨"IResponseFactory", "", "", [], some [("intr", [])]⟩] },
  { file := "factories.py", name := "add_request_method",
    entries := ["FactoriesConfiguratorMixin.add_request_method"],
    params := ["callable", "name", "property", "reify"],
    intros := [
      { var := "intr", category := "'request extensions'", discr := "name", title := "self.object_description(callable)", typeName := "'request property'",
        defs := [⟨"callable", "self.maybe_dotted(callable)", "", ["callable is not None"]⟩, ⟨"name", "(InstancePropertyHelper.make_property(callable, name=name, reify=reify))[0]", "", ["property"]⟩, ⟨"callable", "(InstancePropertyHelper.make_property(callable, name=name, reify=reify))[1]", "", ["property"]⟩, ⟨"name", "callable.__name__", "", ["not (property)", "name is None"]⟩, ⟨"name", "get_callable_name(name)", "", ["not (property)", "not (name is None)"]⟩], guards := ["not (callable is None)", "property"] }, 
      { var := "intr", category := "'request extensions'", discr := "name", title := "self.object_description(callable)", typeName := "'request method'",
        defs := [⟨"callable", "self.maybe_dotted(callable)", "", ["callable is not None"]⟩, ⟨"name", "(InstancePropertyHelper.make_property(callable, name=name, reify=reify))[0]", "", ["property"]⟩, ⟨"callable", "(InstancePropertyHelper.make_property(callable, name=name, reify=reify))[1]", "", ["property"]⟩, ⟨"name", "callable.__name__", "", ["not (property)", "name is None"]⟩, ⟨"name", "get_callable_name(name)", "", ["not (property)", "not (name is None)"]⟩], guards := ["not (callable is None)", "not (property)"] }],
    keys := [
      { var := "intr", key := "callable", shape := .derived "callable" [
          ⟨"callable", "self.maybe_dotted(callable)", "", ["callable is not None"]⟩, 
          ⟨"name", "(InstancePropertyHelper.make_property(callable, name=name, reify=reify))[0]", "", ["property"]⟩, 
          ⟨"callable", "(InstancePropertyHelper.make_property(callable, name=name, reify=reify))[1]", "", ["property"]⟩, 
          ⟨"name", "callable.__name__", "", ["not (property)", "name is None"]⟩, 
          ⟨"name", "get_callable_name(name)", "", ["not (property)", "not (name is None)"]⟩], guards := ["not (callable is None)", "property"] }, 
      { var := "intr", key := "property", shape := .const "True", guards := ["not (callable is None)", "property"] }, 
      { var := "intr", key := "reify", shape := .param "reify", guards := ["not (callable is None)", "property"] }, 
      { var := "intr", key := "callable", shape := .derived "callable" [
          ⟨"callable", "self.maybe_dotted(callable)", "", ["callable is not None"]⟩, 
          ⟨"name", "(InstancePropertyHelper.make_property(callable, name=name, reify=reify))[0]", "", ["property"]⟩, 
          ⟨"callable", "(InstancePropertyHelper.make_property(callable, name=name, reify=reify))[1]", "", ["property"]⟩, 
          ⟨"name", "callable.__name__", "", ["not (property)", "name is None"]⟩, 
          ⟨"name", "get_callable_name(name)", "", ["not (property)", "not (name is None)"]⟩], guards := ["not (callable is None)", "not (property)"] }, 
      { var := "intr", key := "property", shape := .const "False", guards := ["not (callable is None)", "not (property)"] }, 
      { var := "intr", key := "reify", shape := .const "False", guards := ["not (callable is None)", "not (property)"] }],
    acts := [
      ⟨"('request extensions', name)", "", "", ["callable is None"], some []⟩, 
      ⟨"('request extensions', name)", "", "", ["not (callable is None)", "property"], some [("intr", [])]⟩, 
      ⟨"('request extensions', name)", "", "", ["not (callable is None)", "not (property)"], some [("intr", [])]⟩] },
  { file := "factories.py", name := "set_execution_policy",
    entries := ["FactoriesConfiguratorMixin.set_execution_policy"],
    params := ["policy"],
    intros := [
      { var := "intr", category := "'execution policy'", discr := "None", title := "self.object_description(policy)", typeName := "'execution policy'" }],
    keys := [
      { var := "intr", key := "policy", shape := .derived "policy" [
          ⟨"policy", "self.maybe_dotted(policy)", "", []⟩, 
          ⟨"policy", "default_execution_policy", "", ["policy is None"]⟩] }],
    acts := [
      ⟨"IExecutionPolicy", "", "", [], some [("intr", [])]⟩] },
  { file := "i18n.py", name := "set_locale_negotiator",
    entries := ["I18NConfiguratorMixin.set_locale_negotiator"],
    docCategory := [("intr", "locale negotiator")],
    params := ["negotiator"],
    intros := [
      { var := "intr", category := "'locale negotiator'", discr := "None", title := "self.object_description(negotiator)", typeName := "'locale negotiator'" }],
    keys := [
      { var := "intr", key := "negotiator", shape := .param "negotiator" }],
    acts := [
      ⟨"ILocaleNegotiator", "", "", [], some [("intr", [])]⟩] },
  { file := "i18n.py", name := "add_translation_dirs",
    entries := ["I18NConfiguratorMixin.add_translation_dirs"],
    docCategory := [("intr", "translation directories")],
    params := ["*specs", "**kw"],
    intros := [
      { var := "intr", category := "'translation directories'", discr := "directory", title := "spec", typeName := "'translation directory'",
        defs := [⟨"resolver", "AssetResolver(self.package_name)", "register", []⟩, ⟨"spec", "each of specs", "register", ["for spec in specs"]⟩, ⟨"spec", "spec Add ('/')", "register", ["for spec in specs", "not spec.endswith('/')"]⟩, ⟨"asset", "resolver.resolve(spec)", "register", ["for spec in specs"]⟩, ⟨"directory", "asset.abspath()", "register", ["for spec in specs"]⟩, ⟨"directory", "each of reversed(directories)", "register", ["not (override)", "for directory in reversed(directories)"]⟩], scope := "register", guards := ["for spec in specs"] }],
    keys := [
      { var := "intr", key := "directory", shape := .derived "directory" [
          ⟨"resolver", "AssetResolver(self.package_name)", "register", []⟩, 
          ⟨"spec", "each of specs", "register", ["for spec in specs"]⟩, 
          ⟨"spec", "spec Add ('/')", "register", ["for spec in specs", "not spec.endswith('/')"]⟩, 
          ⟨"asset", "resolver.resolve(spec)", "register", ["for spec in specs"]⟩, 
          ⟨"directory", "asset.abspath()", "register", ["for spec in specs"]⟩, 
          ⟨"directory", "each of reversed(directories)", "register", ["not (override)", "for directory in reversed(directories)"]⟩], scope := "register", guards := ["for spec in specs"] }, 
      { var := "intr", key := "spec", shape := .derived "spec" [
          ⟨"spec", "each of specs", "register", ["for spec in specs"]⟩, 
          ⟨"spec", "spec Add ('/')", "register", ["for spec in specs", "not spec.endswith('/')"]⟩], scope := "register", guards := ["for spec in specs"] }],
    acts := [
      ⟨"None", "", "", [], some [("intr", ["for spec in specs"])]⟩] },
  { file := "predicates.py", name := "_add_predicate",
    entries := ["AdaptersConfiguratorMixin.add_subscriber_predicate", "RoutesConfiguratorMixin.add_route_predicate", "ViewsConfiguratorMixin.add_view_predicate"],
    params := ["type", "name", "factory", "weighs_more_than", "weighs_less_than"],
    intros := [
      { var := "intr", category := "'%s predicates' % type", discr := "discriminator", title := "f'{type} predicate named {name}'", typeName := "'%s predicate' % type",
        defs := [⟨"discriminator", "('%s option' % type, name)", "", []⟩] }],
    keys := [
      { var := "intr", key := "name", shape := .param "name" }, 
      { var := "intr", key := "factory", shape := .resolved "factory" }, 
      { var := "intr", key := "weighs_more_than", shape := .param "weighs_more_than" }, 
      { var := "intr", key := "weighs_less_than", shape := .param "weighs_less_than" }],
    acts := [
      ⟨"discriminator", "PHASE1_CONFIG", "", [], some [("intr", [])]⟩] },
  { file := "rendering.py", name := "add_renderer",
    entries := ["RenderingConfiguratorMixin.add_renderer"],
    docCategory := [("intr", "renderer factories")],
    params := ["name", "factory"],
    intros := [
      { var := "intr", category := "'renderer factories'", discr := "name", title := "self.object_description(factory)", typeName := "'renderer factory'",
        defs := [⟨"name", "''", "", ["not name"]⟩] }],
    keys := [
      { var := "intr", key := "factory", shape := .resolved "factory" }, 
      { var := "intr", key := "name", shape := .derived "name" [
          ⟨"name", "''", "", ["not name"]⟩] }],
    acts := [
      ⟨"(IRendererFactory, name)", "PHASE1_CONFIG", "", [], some [("intr", [])]⟩] },
  { file := "routes.py", name := "add_route",
    entries := ["RoutesConfiguratorMixin.add_route"],
    docCategory := [("intr", "routes"), ("factory_intr", "root factories")],
    params := ["name", "pattern", "factory", "for_", "header", "xhr", "accept", "path_info", "request_method", "request_param", "traverse", "custom_predicates", "use_global_views", "path", "pregenerator", "static", "inherit_slash", "**predicates"],
    intros := [
      { var := "intr", category := "'routes'", discr := "name", title := "f'{name} (pattern: {pattern!r})'", typeName := "'route'" }, 
      { var := "factory_intr", category := "'root factories'", discr := "name", title := "self.object_description(factory)", typeName := "'root factory'", guards := ["factory"] }],
    keys := [
      { var := "intr", key := "name", shape := .param "name" }, 
      { var := "intr", key := "pattern", shape := .derived "pattern" [
          ⟨"pattern", "path", "", ["pattern is None"]⟩, 
          ⟨"parsed", "urlparse(pattern)", "", []⟩, 
          ⟨"pattern", "parsed.path", "", ["parsed.hostname"]⟩, 
          ⟨"pattern", "self.route_prefix", "", ["not (parsed.hostname)", "self.route_prefix", "pattern == '' and inherit_slash"]⟩, 
          ⟨"pattern", "self.route_prefix.rstrip('/') + '/' + pattern.lstrip('/')", "", ["not (parsed.hostname)", "self.route_prefix", "not (pattern == '' and inherit_slash)"]⟩] }, 
      { var := "intr", key := "factory", shape := .resolved "factory" }, 
      { var := "intr", key := "xhr", shape := .param "xhr" }, 
      { var := "intr", key := "request_methods", shape := .derived "request_method" [
          ⟨"request_method", "as_sorted_tuple(request_method)", "", ["request_method is not None"]⟩] }, 
      { var := "intr", key := "path_info", shape := .param "path_info" }, 
      { var := "intr", key := "request_param", shape := .param "request_param" }, 
      { var := "intr", key := "header", shape := .param "header" }, 
      { var := "intr", key := "accept", shape := .derived "accept" [
          ⟨"accept", "[accept]", "", ["accept is not None", "not is_nonstr_iter(accept)"]⟩, 
          ⟨"accept", "[normalize_accept_offer(accept_option) for accept_option in accept]", "", ["accept is not None"]⟩] }, 
      { var := "intr", key := "traverse", shape := .param "traverse" }, 
      { var := "intr", key := "custom_predicates", shape := .param "custom_predicates" }, 
      { var := "intr", key := "pregenerator", shape := .derived "pregenerator" [
          ⟨"external_url_pregenerator", "def external_url_pregenerator(request, elements, kw)", "", ["parsed.hostname"]⟩, 
          ⟨"pregenerator", "external_url_pregenerator", "", ["parsed.hostname"]⟩] }, 
      { var := "intr", key := "static", shape := .derived "static" [
          ⟨"static", "True", "", ["parsed.hostname"]⟩] }, 
      { var := "intr", key := "use_global_views", shape := .param "use_global_views" }, 
      { var := "intr", key := "external_url", shape := .derived "external_url" [
          ⟨"pattern", "path", "", ["pattern is None"]⟩, 
          ⟨"parsed", "urlparse(pattern)", "", []⟩, 
          ⟨"external_url", "pattern", "", []⟩, 
          ⟨"pattern", "parsed.path", "", ["parsed.hostname"]⟩, 
          ⟨"pattern", "self.route_prefix", "", ["not (parsed.hostname)", "self.route_prefix", "pattern == '' and inherit_slash"]⟩, 
          ⟨"pattern", "self.route_prefix.rstrip('/') + '/' + pattern.lstrip('/')", "", ["not (parsed.hostname)", "self.route_prefix", "not (pattern == '' and inherit_slash)"]⟩], guards := ["static is True"] }, 
      { var := "factory_intr", key := "factory", shape := .resolved "factory", guards := ["factory"] }, 
      { var := "factory_intr", key := "route_name", shape := .param "name", guards := ["factory"] }, 
      { var := "intr", key := "object", shape := .computed "route", scope := "register_connect" }],
    rels := [
      { var := "factory_intr", cat := "'routes'", discr := "name", guards := ["factory"] }],
    acts := [
      ⟨"('route-connect', name)", "", "", [], some []⟩, 
      ⟨"('route', name)", "PHASE2_CONFIG", "", [], some [("intr", []), ("factory_intr", ["factory"])]⟩] },
  { file := "security.py", name := "set_security_policy",
    entries := ["SecurityConfiguratorMixin.set_security_policy"],
    docCategory := [("intr", "security policy")],
    params := ["policy"],
    intros := [
      { var := "intr", category := "'security policy'", discr := "None", title := "self.object_description(policy)", typeName := "'security policy'" }],
    keys := [
      { var := "intr", key := "policy", shape := .resolved "policy" }],
    acts := [
      ⟨"ISecurityPolicy", "PHASE2_CONFIG", "", [], some [("intr", [])]⟩] },
  { file := "security.py", name := "set_authentication_policy",
    entries := ["SecurityConfiguratorMixin.set_authentication_policy"],
    docCategory := [("intr", "authentication policy")],
    params := ["policy"],
    intros := [
      { var := "intr", category := "'authentication policy'", discr := "None", title := "self.object_description(policy)", typeName := "'authentication policy'" }],
    keys := [
      { var := "intr", key := "policy", shape := .resolved "policy" }],
    acts := [
      ⟨"IAuthenticationPolicy", "PHASE2_CONFIG", "", [], some [("intr", [])]⟩] },
  { file := "security.py", name := "set_authorization_policy",
    entries := ["SecurityConfiguratorMixin.set_authorization_policy"],
    docCategory := [("intr", "authorization policy")],
    params := ["policy"],
    intros := [
      { var := "intr", category := "'authorization policy'", discr := "None", title := "self.object_description(policy)", typeName := "'authorization policy'" }],
    keys := [
      { var := "intr", key := "policy", shape := .resolved "policy" }],
    acts := [
      ⟨"IAuthorizationPolicy", "PHASE1_CONFIG", "", [], some [("intr", [])]⟩, 
      ⟨"None", "", "", [], some []⟩] },
  { file := "security.py", name := "set_default_permission",
    entries := ["SecurityConfiguratorMixin.set_default_permission"],
    docCategory := [("intr", "default permission"), ("perm_intr", "permissions")],
    params := ["permission"],
    intros := [
      { var := "intr", category := "'default permission'", discr := "None", title := "permission", typeName := "'default permission'" }, 
      { var := "perm_intr", category := "'permissions'", discr := "permission", title := "permission", typeName := "'permission'" }],
    keys := [
      { var := "intr", key := "value", shape := .param "permission" }, 
      { var := "perm_intr", key := "value", shape := .param "permission" }],
    acts := [
      ⟨"IDefaultPermission", "PHASE1_CONFIG", "", [], some [("intr", []), ("perm_intr", [])]⟩] },
  { file := "security.py", name := "add_permission",
    entries := ["SecurityConfiguratorMixin.add_permission"],
    docCategory := [("intr", "permissions")],
    params := ["permission_name"],
    intros := [
      { var := "intr", category := "'permissions'", discr := "permission_name", title := "permission_name", typeName := "'permission'" }],
    keys := [
      { var := "intr", key := "value", shape := .param "permission_name" }],
    acts := [
      ⟨"None", "", "", [], some [("intr", [])]⟩] },
  { file := "security.py", name := "set_default_csrf_options",
    entries := ["SecurityConfiguratorMixin.set_default_csrf_options"],
    docCategory := [("intr", "default csrf view options")],
    params := ["require_csrf", "token", "header", "safe_methods", "check_origin", "allow_no_origin", "callback"],
    intros := [
      { var := "intr", category := "'default csrf view options'", discr := "None", title := "options", typeName := "'default csrf view options'" }],
    keys := [
      { var := "intr", key := "require_csrf", shape := .param "require_csrf" }, 
      { var := "intr", key := "token", shape := .param "token" }, 
      { var := "intr", key := "header", shape := .param "header" }, 
      { var := "intr", key := "safe_methods", shape := .derived "as_sorted_tuple(safe_methods)" [] }, 
      { var := "intr", key := "check_origin", shape := .param "check_origin" }, 
      { var := "intr", key := "allow_no_origin", shape := .param "allow_no_origin" }, 
      { var := "intr", key := "callback", shape := .param "callback" }],
    acts := [
      ⟨"IDefaultCSRFOptions", "PHASE1_CONFIG", "", [], some [("intr", [])]⟩] },
  { file := "security.py", name := "set_csrf_storage_policy",
    entries := ["SecurityConfiguratorMixin.set_csrf_storage_policy"],
    params := ["policy"],
    intros := [
      { var := "intr", category := "'csrf storage policy'", discr := "None", title := "policy", typeName := "'csrf storage policy'" }],
    keys := [
      { var := "intr", key := "policy", shape := .param "policy" }],
    acts := [
      ⟨"ICSRFStoragePolicy", "", "", [], some [("intr", [])]⟩] },
  { file := "tweens.py", name := "_add_tween",
    entries := ["TweensConfiguratorMixin.add_tween"],
    internal := ["Configurator.setup_registry"],  -- explicit tweens named in the `pyramid.tweens` setting: not a statement
    docCategory := [("intr", "tweens")],
    params := ["tween_factory", "under", "over", "explicit"],
    intros := [
      { var := "intr", category := "'tweens'", discr := "discriminator", title := "name", typeName := "'%s tween' % tween_type",
        defs := [⟨"name", "tween_factory", "", []⟩, ⟨"tween_factory", "self.maybe_dotted(tween_factory)", "", []⟩, ⟨"discriminator", "('tween', name, explicit)", "", []⟩] }],
    keys := [
      { var := "intr", key := "name", shape := .derived "name" [
          ⟨"name", "tween_factory", "", []⟩, 
          ⟨"tween_factory", "self.maybe_dotted(tween_factory)", "", []⟩] }, 
      { var := "intr", key := "factory", shape := .resolved "tween_factory" }, 
      { var := "intr", key := "type", shape := .derived "tween_type" [
          ⟨"tween_type", "explicit and 'explicit' or 'implicit'", "", []⟩] }, 
      { var := "intr", key := "under", shape := .param "under" }, 
      { var := "intr", key := "over", shape := .param "over" }],
    acts := [
      ⟨"discriminator", "", "", [], some [("intr", [])]⟩] },
  { file := "views.py", name := "add_view",
    entries := ["ViewsConfiguratorMixin.add_view"],
    docCategory := [("view_intr", "views"), ("mapper_intr", "view mappers"), ("tmpl_intr", "templates"), ("perm_intr", "permissions")],
    params := ["view", "name", "for_", "permission", "request_type", "route_name", "request_method", "request_param", "containment", "attr", "renderer", "wrapper", "xhr", "accept", "header", "path_info", "custom_predicates", "context", "decorator", "mapper", "http_cache", "match_param", "require_csrf", "exception_only", "**view_options"],
    intros := [
      { var := "view_intr", category := "'views'", discr := "discriminator", title := "view_desc", typeName := "'view'",
        defs := [⟨"discrim_func", "def discrim_func()", "", []⟩, ⟨"discriminator", "Deferred(discrim_func)", "", []⟩] }, 
      { var := "mapper_intr", category := "'view mappers'", discr := "discriminator", title := "'view mapper for %s' % view_desc", typeName := "'view mapper'",
        defs := [⟨"discrim_func", "def discrim_func()", "", []⟩, ⟨"discriminator", "Deferred(discrim_func)", "", []⟩], guards := ["mapper"] }, 
      { var := "tmpl_intr", category := "'templates'", discr := "discriminator", title := "renderer.name", typeName := "'template'",
        defs := [⟨"discrim_func", "def discrim_func()", "", []⟩, ⟨"discriminator", "Deferred(discrim_func)", "", []⟩], guards := ["renderer is not None and renderer.name and ('.' in renderer.name)"] }, 
      { var := "perm_intr", category := "'permissions'", discr := "permission", title := "permission", typeName := "'permission'", guards := ["permission is not None"] }],
    keys := [
      { var := "view_intr", key := "phash", shape := .computed "phash", scope := "discrim_func" }, 
      { var := "view_intr", key := "order", shape := .computed "order", scope := "discrim_func" }, 
      { var := "view_intr", key := "predicates", shape := .computed "preds", scope := "discrim_func" }, 
      { var := "view_intr", key := "name", shape := .param "name" }, 
      { var := "view_intr", key := "context", shape := .derived "context" [
          ⟨"context", "self.maybe_dotted(context)", "", []⟩, 
          ⟨"for_", "self.maybe_dotted(for_)", "", []⟩, 
          ⟨"context", "for_", "", ["context is None"]⟩] }, 
      { var := "view_intr", key := "exception_only", shape := .param "exception_only" }, 
      { var := "view_intr", key := "containment", shape := .resolved "containment" }, 
      { var := "view_intr", key := "request_param", shape := .param "request_param" }, 
      { var := "view_intr", key := "request_methods", shape := .param "request_method" }, 
      { var := "view_intr", key := "route_name", shape := .param "route_name" }, 
      { var := "view_intr", key := "attr", shape := .param "attr" }, 
      { var := "view_intr", key := "xhr", shape := .param "xhr" }, 
      { var := "view_intr", key := "accept", shape := .derived "accept" [
          ⟨"accept", "normalize_accept_offer(accept)", "", ["accept is not None"]⟩] }, 
      { var := "view_intr", key := "header", shape := .param "header" }, 
      { var := "view_intr", key := "path_info", shape := .param "path_info" }, 
      { var := "view_intr", key := "match_param", shape := .param "match_param" }, 
      { var := "view_intr", key := "http_cache", shape := .param "http_cache" }, 
      { var := "view_intr", key := "require_csrf", shape := .param "require_csrf" }, 
      { var := "view_intr", key := "callable", shape := .derived "view" [
          ⟨"view", "self.maybe_dotted(view)", "", []⟩, 
          ⟨"view", "def view(context, request)", "", ["not view", "renderer"]⟩] }, 
      { var := "view_intr", key := "mapper", shape := .resolved "mapper" }, 
      { var := "view_intr", key := "decorator", shape := .derived "decorator" [
          ⟨"decorator", "combine_decorators(*map(self.maybe_dotted, decorator))", "", ["is_nonstr_iter(decorator)"]⟩, 
          ⟨"decorator", "self.maybe_dotted(decorator)", "", ["not (is_nonstr_iter(decorator))"]⟩] }, 
      { var := "view_intr", key := "**", shape := .extra "view_options" }, 
      { var := "view_intr", key := "derived_callable", shape := .computed "derived_view", scope := "register" }, 
      { var := "mapper_intr", key := "mapper", shape := .resolved "mapper", guards := ["mapper"] }, 
      { var := "tmpl_intr", key := "name", shape := .derived "renderer.name" [
          ⟨"renderer", "renderers.RendererHelper(name=renderer, package=self.package, registry=self.registry)", "", ["isinstance(renderer, str)"]⟩], guards := ["renderer is not None and renderer.name and ('.' in renderer.name)"] }, 
      { var := "tmpl_intr", key := "type", shape := .derived "renderer.type" [
          ⟨"renderer", "renderers.RendererHelper(name=renderer, package=self.package, registry=self.registry)", "", ["isinstance(renderer, str)"]⟩], guards := ["renderer is not None and renderer.name and ('.' in renderer.name)"] }, 
      { var := "tmpl_intr", key := "renderer", shape := .derived "renderer" [
          ⟨"renderer", "renderers.RendererHelper(name=renderer, package=self.package, registry=self.registry)", "", ["isinstance(renderer, str)"]⟩], guards := ["renderer is not None and renderer.name and ('.' in renderer.name)"] }, 
      { var := "perm_intr", key := "value", shape := .param "permission", guards := ["permission is not None"] }],
    rels := [
      { var := "tmpl_intr", cat := "'renderer factories'", discr := "renderer.type",
        defs := [⟨"renderer", "renderers.RendererHelper(name=renderer, package=self.package, registry=self.registry)", "", ["isinstance(renderer, str)"]⟩, ⟨"renderer", "renderer", "register", ["default"]⟩, ⟨"renderer", "renderers.RendererHelper(name=None, package=self.package, registry=self.registry)", "register", ["renderer is None", "self.registry.queryUtility(IRendererFactory) is not None"]⟩], scope := "register", guards := ["renderer_type is not None and tmpl_intr is not None and (intrspc is not None) and (intrspc.get('renderer factories', renderer_type) is not None)"] }, 
      { var := "mapper_intr", cat := "'views'", discr := "discriminator",
        defs := [⟨"discrim_func", "def discrim_func()", "", []⟩, ⟨"discriminator", "Deferred(discrim_func)", "", []⟩], guards := ["mapper"] }, 
      { var := "view_intr", cat := "'routes'", discr := "route_name", guards := ["route_name"] }, 
      { var := "tmpl_intr", cat := "'views'", discr := "discriminator",
        defs := [⟨"discrim_func", "def discrim_func()", "", []⟩, ⟨"discriminator", "Deferred(discrim_func)", "", []⟩], guards := ["renderer is not None and renderer.name and ('.' in renderer.name)"] }, 
      { var := "perm_intr", cat := "'views'", discr := "discriminator",
        defs := [⟨"discrim_func", "def discrim_func()", "", []⟩, ⟨"discriminator", "Deferred(discrim_func)", "", []⟩], guards := ["permission is not None"] }],
    acts := [
      ⟨"discriminator", "", "", [], some [("view_intr", []), ("mapper_intr", ["mapper"]), ("tmpl_intr", ["renderer is not None and renderer.name and ('.' in renderer.name)"]), ("perm_intr", ["permission is not None"])]⟩] },
  { file := "views.py", name := "add_accept_view_order",
    entries := ["ViewsConfiguratorMixin.add_accept_view_order"],
    params := ["value", "weighs_more_than", "weighs_less_than"],
    intros := [
      { var := "intr", category := "'accept view order'", discr := "value", title := "value", typeName := "'accept view order'",
        defs := [⟨"value", "normalize_accept_offer(value)", "", []⟩] }],
    keys := [
      { var := "intr", key := "value", shape := .derived "value" [
          ⟨"value", "normalize_accept_offer(value)", "", []⟩] }, 
      { var := "intr", key := "weighs_more_than", shape := .derived "weighs_more_than" [
          ⟨"normalize_types", "def normalize_types(thans)", "", []⟩, 
          ⟨"weighs_more_than", "[weighs_more_than]", "", ["weighs_more_than", "not is_nonstr_iter(weighs_more_than)"]⟩, 
          ⟨"weighs_more_than", "normalize_types(weighs_more_than)", "", ["weighs_more_than"]⟩] }, 
      { var := "intr", key := "weighs_less_than", shape := .derived "weighs_less_than" [
          ⟨"normalize_types", "def normalize_types(thans)", "", []⟩, 
          ⟨"weighs_less_than", "[weighs_less_than]", "", ["weighs_less_than", "not is_nonstr_iter(weighs_less_than)"]⟩, 
          ⟨"weighs_less_than", "normalize_types(weighs_less_than)", "", ["weighs_less_than"]⟩] }],
    acts := [
      ⟨"discriminator", "PHASE1_CONFIG", "", [], some [("intr", [])]⟩] },
  { file := "views.py", name := "add_view_deriver",
    entries := ["ViewsConfiguratorMixin.add_view_deriver"],
    params := ["deriver", "name", "under", "over"],
    intros := [
      { var := "intr", category := "'view derivers'", discr := "name", title := "name", typeName := "'view deriver'",
        defs := [⟨"deriver", "self.maybe_dotted(deriver)", "", []⟩, ⟨"name", "deriver.__name__", "", ["name is None"]⟩] }],
    keys := [
      { var := "intr", key := "name", shape := .derived "name" [
          ⟨"deriver", "self.maybe_dotted(deriver)", "", []⟩, 
          ⟨"name", "deriver.__name__", "", ["name is None"]⟩] }, 
      { var := "intr", key := "deriver", shape := .resolved "deriver" }, 
      { var := "intr", key := "under", shape := .derived "under" [
          ⟨"under", "'decorated_view'", "", ["under is None"]⟩, 
          ⟨"under", "as_sorted_tuple(under)", "", []⟩] }, 
      { var := "intr", key := "over", shape := .derived "over" [
          ⟨"over", "'rendered_view'", "", ["over is None"]⟩, 
          ⟨"over", "as_sorted_tuple(over)", "", []⟩, 
          ⟨"over", "as_sorted_tuple(over + ('mapped_view',))", "", ["VIEW in over and name != 'mapped_view'"]⟩] }],
    acts := [
      ⟨"discriminator", "PHASE1_CONFIG", "", [], some [("intr", [])]⟩] },
  { file := "views.py", name := "set_view_mapper",
    entries := ["ViewsConfiguratorMixin.set_view_mapper"],
    docCategory := [("intr", "view mappers")],
    params := ["mapper"],
    intros := [
      { var := "intr", category := "'view mappers'", discr := "IViewMapperFactory", title := "self.object_description(mapper)", typeName := "'default view mapper'" }],
    keys := [
      { var := "intr", key := "mapper", shape := .resolved "mapper" }],
    acts := [
      ⟨"IViewMapperFactory", "PHASE1_CONFIG", "", [], some [("intr", [])]⟩] },
  { file := "views.py", name := "add",
    entries := ["ViewsConfiguratorMixin.add_static_view"],
    docCategory := [("intr", "static views")],
    params := ["config", "name", "spec", "**extra"],
    intros := [
      { var := "intr", category := "'static views'", discr := "name", title := "'static view for %r' % name", typeName := "'static view'",
        defs := [⟨"name", "name + '/'", "", ["not name.endswith('/')"]⟩] }],
    keys := [
      { var := "intr", key := "name", shape := .derived "name" [
          ⟨"name", "name + '/'", "", ["not name.endswith('/')"]⟩] }, 
      { var := "intr", key := "spec", shape := .derived "spec" [
          ⟨"sep", "os.sep", "", ["os.path.isabs(spec)"]⟩, 
          ⟨"sep", "'/'", "", ["not (os.path.isabs(spec))"]⟩, 
          ⟨"spec", "spec + sep", "", ["not spec.endswith(sep) and (not spec.endswith(':'))"]⟩] }],
    acts := [
      ⟨"None", "", "", [], some [("intr", [])]⟩] },
  { file := "views.py", name := "add_cache_buster",
    entries := ["ViewsConfiguratorMixin.add_cache_buster"],
    params := ["config", "spec", "cachebust", "explicit"],
    intros := [
      { var := "intr", category := "'cache busters'", discr := "spec", title := "'cache buster for %r' % spec", typeName := "'cache buster'",
        defs := [⟨"sep", "os.sep", "", ["os.path.isabs(spec)"]⟩, ⟨"sep", "'/'", "", ["not (os.path.isabs(spec))"]⟩, ⟨"spec", "spec + sep", "", ["not spec.endswith(sep) and (not spec.endswith(':'))"]⟩] }],
    keys := [
      { var := "intr", key := "cachebust", shape := .param "cachebust" }, 
      { var := "intr", key := "path", shape := .derived "spec" [
          ⟨"sep", "os.sep", "", ["os.path.isabs(spec)"]⟩, 
          ⟨"sep", "'/'", "", ["not (os.path.isabs(spec))"]⟩, 
          ⟨"spec", "spec + sep", "", ["not spec.endswith(sep) and (not spec.endswith(':'))"]⟩] }, 
      { var := "intr", key := "explicit", shape := .param "explicit" }],
    acts := [
      ⟨"None", "", "", [], some [("intr", [])]⟩] }
]

end Pyr.Introspect
