import PyramidModel.UrlGen
import PyramidModel.Lemmas.PctCode
/-! C06 helper lemmas, part 1: `%`-formatting of the template is token-wise substitution; the dictionary loop;
what the server's percent-decoding makes of the generated text.  Property theorems are in `Props/C06.lean`. -/
namespace Pyr.UrlGen

open Pyr Pyr.Trav Pyr.Pct Pyr.Route

instance : DecidableEq (Except Err Text) := fun a b =>
  match a, b with
  | .ok x, .ok y => if h : x = y then isTrue (by rw [h]) else isFalse (by intro e; cases e; exact h rfl)
  | .error x, .error y => if h : x = y then isTrue (by rw [h]) else isFalse (by intro e; cases e; exact h rfl)
  | .ok _, .error _ => isFalse (by intro e; cases e)
  | .error _, .ok _ => isFalse (by intro e; cases e)

/-! ### the generated constants the proofs lean on (each fails by `decide` when the source changes) -/

theorem litSafe_eq : litSafe = [47] := by decide
theorem slash_in_valSafe : valSafe.contains 47 = true := by decide
theorem valSafe_ok : SafeOk valSafe := by decide
theorem litSafe_ok : SafeOk litSafe := by decide
theorem elemSafe_ok : SafeOk elemSafe := by decide
theorem scriptSafe_ok : SafeOk scriptSafe := by decide

/-! ### `gen % newdict` -/

/-- put a text in front of a successful result -/
def pre (p : Text) : Except Err Text → Except Err Text
  | .ok t => .ok (p ++ t)
  | .error e => .error e

theorem pre_nil (r : Except Err Text) : pre [] r = r := by cases r <;> rfl
theorem pre_pre (a b : Text) (r : Except Err Text) : pre a (pre b r) = pre (a ++ b) r := by
  cases r <;> simp [pre]

theorem fmt_txt_cons (nd : List (Text × Text)) (c : Char) (r : Text) (h : c ≠ '%') :
    fmtScan nd .txt (c :: r) = pre [c] (fmtScan nd .txt r) := by
  simp only [fmtScan, h, if_false]
  cases fmtScan nd .txt r <;> rfl

theorem fmt_txt_pctpct (nd : List (Text × Text)) (r : Text) :
    fmtScan nd .txt ('%' :: '%' :: r) = pre ['%'] (fmtScan nd .txt r) := by
  simp only [fmtScan, if_true]
  cases fmtScan nd .txt r <;> rfl

/-- `%`-doubling of a text -/
def dbl (c : Char) : Text := if c = '%' then ['%', '%'] else [c]

/-- a literal whose `%` are doubled formats back to itself -/
theorem fmt_doubled (nd : List (Text × Text)) (q B : Text) :
    fmtScan nd .txt (q.flatMap dbl ++ B) = pre q (fmtScan nd .txt B) := by
  induction q with
  | nil => simp [pre_nil]
  | cons c q ih =>
    by_cases hc : c = '%'
    · subst hc
      have : (List.flatMap dbl ('%' :: q) ++ B) = '%' :: '%' :: (q.flatMap dbl ++ B) := by
        simp [List.flatMap_cons, dbl]
      rw [this, fmt_txt_pctpct, ih, pre_pre]; rfl
    · have : (List.flatMap dbl (c :: q) ++ B) = c :: (q.flatMap dbl ++ B) := by
        simp [List.flatMap_cons, dbl, hc]
      rw [this, fmt_txt_cons nd c _ hc, ih, pre_pre]; rfl

theorem genLit_eq (s : Text) : genLit s = (quote litSafe s).flatMap dbl := by
  unfold genLit quote dbl
  rw [litSafe_eq]

/-- scanning a key without parentheses up to its `)` -/
theorem fmt_key (nd : List (Text × Text)) (n : Text) (hn : ∀ c ∈ n, c ≠ '(' ∧ c ≠ ')') (acc r : Text) :
    fmtScan nd (.key acc 0) (n ++ ')' :: r) =
      match nd.lookup (acc.reverse ++ n) with
      | some v => fmtScan nd (.conv v) r
      | none => .error .keyError := by
  induction n generalizing acc with
  | nil =>
    simp only [List.nil_append, List.append_nil, fmtScan, if_true]
    cases nd.lookup acc.reverse <;> rfl
  | cons c n ih =>
    have hc := hn c (by simp)
    have := ih (fun d hd => hn d (by simp [hd])) (c :: acc)
    simp only [List.cons_append, fmtScan, hc.1, hc.2, if_false]
    rw [this]
    simp

theorem fmt_conv_s (nd : List (Text × Text)) (v r : Text) :
    fmtScan nd (.conv v) ('s' :: r) = pre v (fmtScan nd .txt r) := by
  simp only [fmtScan, if_true]
  cases fmtScan nd .txt r <;> rfl

/-- a placeholder directive is replaced by the dictionary's text, or raises `KeyError` -/
theorem fmt_placeholder (nd : List (Text × Text)) (n : Text) (hn : ∀ c ∈ n, c ≠ '(' ∧ c ≠ ')') (B : Text) :
    fmtScan nd .txt (("%(".toList ++ n ++ ")s".toList) ++ B) =
      match nd.lookup n with
      | some v => pre v (fmtScan nd .txt B)
      | none => .error .keyError := by
  have e : ("%(".toList ++ n ++ ")s".toList) ++ B = '%' :: '(' :: (n ++ ')' :: ('s' :: B)) := by
    simp
  rw [e]
  have h1 : fmtScan nd .txt ('%' :: '(' :: (n ++ ')' :: ('s' :: B))) = fmtScan nd (.key [] 0) (n ++ ')' :: ('s' :: B)) := by
    simp [fmtScan]
  rw [h1, fmt_key nd n hn [] ('s' :: B)]
  simp only [List.reverse_nil, List.nil_append]
  cases nd.lookup n with
  | none => rfl
  | some v => simp only []; exact fmt_conv_s nd v B

theorem substToks_lit (nd : List (Text × Text)) (l : Text) (ts : List Tok) :
    substToks nd (.lit l :: ts) = pre (quote litSafe l) (substToks nd ts) := by
  simp only [substToks]; cases substToks nd ts <;> rfl

theorem substToks_ph (nd : List (Text × Text)) (n : Text) (rx : Rx.Rx) (ts : List Tok) :
    substToks nd (.ph n rx :: ts) =
      match nd.lookup n with
      | some v => pre v (substToks nd ts)
      | none => .error .keyError := by
  simp only [substToks]
  cases nd.lookup n with
  | none => rfl
  | some v => simp only []; cases substToks nd ts <;> rfl

theorem substToks_rest (nd : List (Text × Text)) (n : Text) (ts : List Tok) :
    substToks nd (.rest n :: ts) =
      match nd.lookup n with
      | some v => pre v (substToks nd ts)
      | none => .error .keyError := by
  simp only [substToks]
  cases nd.lookup n with
  | none => rfl
  | some v => simp only []; cases substToks nd ts <;> rfl

theorem namesPlain_cons (t : Tok) (ts : List Tok) (h : namesPlain (t :: ts) = true) :
    (∀ n, tokName t = some n → ∀ c ∈ n, c ≠ '(' ∧ c ≠ ')') ∧ namesPlain ts = true := by
  unfold namesPlain tokNames at h ⊢
  cases hn : tokName t with
  | none =>
    simp only [List.filterMap_cons, hn] at h
    exact ⟨fun n h' => (by cases h'), h⟩
  | some n =>
    simp only [List.filterMap_cons, hn, List.all_cons, Bool.and_eq_true] at h
    refine ⟨?_, h.2⟩
    intro n' h' c hc
    cases h'
    have h1 := h.1
    simp only [Bool.and_eq_true, Bool.not_eq_true', List.contains_eq_mem, decide_eq_false_iff_not] at h1
    constructor
    · rintro rfl; exact h1.1 hc
    · rintro rfl; exact h1.2 hc

/-- **`%`-formatting of the template is token-wise substitution**, for every token list whose names have no
parentheses and every dictionary. -/
theorem fmt_template (nd : List (Text × Text)) : ∀ (toks : List Tok), namesPlain toks = true →
    fmtScan nd .txt (genTemplate toks) = substToks nd toks
  | [], _ => by simp [genTemplate, fmtScan, substToks]
  | .lit l :: ts, h => by
    have ih := fmt_template nd ts (namesPlain_cons _ _ h).2
    have e : genTemplate (.lit l :: ts) = genLit l ++ genTemplate ts := by simp [genTemplate]
    rw [e, genLit_eq, fmt_doubled, ih, substToks_lit]
  | .ph n rx :: ts, h => by
    have hp := namesPlain_cons _ _ h
    have ih := fmt_template nd ts hp.2
    have e : genTemplate (.ph n rx :: ts) = ("%(".toList ++ n ++ ")s".toList) ++ genTemplate ts := by simp [genTemplate]
    rw [e, fmt_placeholder nd n (hp.1 n rfl), ih, substToks_ph]
  | .rest n :: ts, h => by
    have hp := namesPlain_cons _ _ h
    have ih := fmt_template nd ts hp.2
    have e : genTemplate (.rest n :: ts) = ("%(".toList ++ n ++ ")s".toList) ++ genTemplate ts := by simp [genTemplate]
    rw [e, fmt_placeholder nd n (hp.1 n rfl), ih, substToks_rest]

theorem generate_eq_closed (toks : List Tok) (kw : Kw) (h : namesPlain toks = true) :
    generate toks kw = generateClosed toks kw := by
  unfold generate generateClosed
  cases newDict (remName toks) kw with
  | error e => rfl
  | ok nd => exact fmt_template nd toks h

/-! ### the dictionary loop -/

/-- what `newdict` holds under a key: the quoted text of the first entry with that key -/
theorem newDict_lookup (rem : Option Text) : ∀ (kw : Kw) (nd : List (Text × Text)), newDict rem kw = .ok nd →
    ∀ n, nd.lookup n = match kw.lookup n with
      | some v => (match quoteVal rem n v with | .ok q => some q | .error _ => none)
      | none => none
  | [], nd, h, n => by
    simp only [newDict] at h; cases h; rfl
  | (k, v) :: rest, nd, h, n => by
    simp only [newDict] at h
    cases hq : quoteVal rem k v with
    | error e => rw [hq] at h; cases h
    | ok q =>
      rw [hq] at h
      cases hr : newDict rem rest with
      | error e => rw [hr] at h; cases h
      | ok d =>
        rw [hr] at h
        cases h
        have ih := newDict_lookup rem rest d hr n
        by_cases e : n = k
        · subst e
          simp [List.lookup, hq]
        · have : (n == k) = false := by simpa using e
          simp only [List.lookup, this]
          exact ih

/-- the loop succeeds when every entry can be quoted -/
theorem qAtoms_ok : ∀ (xs : List Atom) (ts : List Text), atomTexts xs = some ts →
    qAtoms xs = .ok (ts.map (quote valSafe))
  | [], ts, h => by simp only [atomTexts] at h; cases h; rfl
  | a :: as, ts, h => by
    simp only [atomTexts] at h
    cases ha : atomText a with
    | none => rw [ha] at h; cases h
    | some t =>
      cases hs : atomTexts as with
      | none => rw [ha, hs] at h; cases h
      | some ts' =>
        rw [ha, hs] at h
        cases h
        simp [qAtoms, qAtom, ha, qAtoms_ok as ts' hs]

theorem newDict_ok (rem : Option Text) : ∀ (kw : Kw), kwOk rem kw = true → ∃ nd, newDict rem kw = .ok nd
  | [], _ => ⟨[], rfl⟩
  | (k, v) :: rest, h => by
    simp only [kwOk, List.all_cons, Bool.and_eq_true] at h
    obtain ⟨nd, hnd⟩ := newDict_ok rem rest (by simpa [kwOk] using h.2)
    have h1 := h.1
    cases v with
    | one a =>
      cases ha : atomText a with
      | none => simp [ha] at h1
      | some t => exact ⟨(k, quote valSafe t) :: nd, by simp [newDict, quoteVal, qAtom, ha, hnd]⟩
    | many xs =>
      simp only [Bool.and_eq_true, decide_eq_true_eq] at h1
      cases hs : atomTexts xs with
      | none => simp [hs] at h1
      | some ts =>
        have hr := h1.1
        subst hr
        exact ⟨(k, joinWith '/' (ts.map (quote valSafe))) :: nd, by
          simp [newDict, quoteVal, qAtoms_ok xs ts hs, hnd]⟩

/-! ### quoting distributes over concatenation; `/` is kept by the value set -/

theorem quoteBytes_append (safe : List UInt8) (a b : Bytes) :
    quoteBytes safe (a ++ b) = quoteBytes safe a ++ quoteBytes safe b := by
  induction a with
  | nil => rfl
  | cons x a ih =>
    simp only [List.cons_append, quoteBytes]
    split <;> simp [ih]

theorem utf8Enc_append (a b : Text) : utf8Enc (a ++ b) = utf8Enc a ++ utf8Enc b := by
  simp [utf8Enc]

theorem quote_append (safe : List UInt8) (a b : Text) : quote safe (a ++ b) = quote safe a ++ quote safe b := by
  simp [quote, utf8Enc_append, quoteBytes_append]

theorem utf8Enc_slash : utf8Enc ['/'] = [47] := by decide

theorem quote_slash : quote valSafe ['/'] = ['/'] := by decide

/-- remainder sequences: quoting per element and joining with `/` is quoting the joined text -/
theorem join_quoted (ts : List Text) : joinWith '/' (ts.map (quote valSafe)) = quote valSafe (joinWith '/' ts) := by
  induction ts with
  | nil => rfl
  | cons x r ih =>
    cases r with
    | nil => rfl
    | cons y r' =>
      have e1 : joinWith '/' ((x :: y :: r').map (quote valSafe)) =
          quote valSafe x ++ '/' :: joinWith '/' ((y :: r').map (quote valSafe)) := rfl
      have e2 : joinWith '/' (x :: y :: r') = x ++ (['/'] ++ joinWith '/' (y :: r')) := rfl
      rw [e1, e2, quote_append, quote_append, quote_slash, ih]
      rfl

/-! ### what the server's decoding makes of quoted text -/

/-- `P` is ASCII and percent-decodes to the bytes `B`, whatever follows it -/
def Decodes (P : Text) (B : Bytes) : Prop :=
  (∀ c ∈ P, c.toNat < 128) ∧ ∀ T : Text, unquoteToBytes (toBytes (P ++ T)) = B ++ unquoteToBytes (toBytes T)

theorem decodes_nil : Decodes [] [] := ⟨by simp, by simp⟩

theorem Decodes.append {P Q : Text} {A B : Bytes} (hp : Decodes P A) (hq : Decodes Q B) : Decodes (P ++ Q) (A ++ B) := by
  refine ⟨?_, ?_⟩
  · intro c hc
    rcases List.mem_append.mp hc with h | h
    · exact hp.1 c h
    · exact hq.1 c h
  · intro T
    rw [List.append_assoc, hp.2, hq.2, List.append_assoc]

theorem toBytes_cons (c : Char) (t : Text) : toBytes (c :: t) = UInt8.ofNat c.toNat :: toBytes t := rfl

/-- the output of `quote_from_bytes` decodes to its input, in any context -/
theorem decodes_quoteBytes (safe : List UInt8) (hs : SafeOk safe) (bs : Bytes) : Decodes (quoteBytes safe bs) bs := by
  refine ⟨quoteBytes_ascii safe hs bs, ?_⟩
  intro T
  induction bs with
  | nil => simp [quoteBytes]
  | cons b bs ih =>
    unfold quoteBytes
    split
    · rename_i h
      have hk := kept_byte safe hs b h
      simp only [List.cons_append, toBytes_cons, byte_of_byteChar]
      rw [unq_cons_ne _ _ hk.2, ih]
    · have h1 := hexDigit_facts _ (byte_div_lt b)
      have h2 := hexDigit_facts _ (byte_mod_lt b)
      simp only [List.cons_append, toBytes_cons]
      have e : UInt8.ofNat ('%' : Char).toNat = 37 := by decide
      rw [e, unq_pct _ _ _ _ _ h1.1 h2.1, byte_split, ih]

theorem decodes_quote (safe : List UInt8) (hs : SafeOk safe) (t : Text) : Decodes (quote safe t) (utf8Enc t) :=
  decodes_quoteBytes safe hs (utf8Enc t)

theorem Decodes.wsgiBytes {P : Text} {B : Bytes} (h : Decodes P B) : wsgiBytes P = some B := by
  unfold UrlGen.wsgiBytes
  rw [asciiEncode_of_ascii P h.1]
  have := h.2 []
  simp only [List.append_nil] at this
  have e : unquoteToBytes (toBytes []) = [] := rfl
  rw [e, List.append_nil] at this
  simp [this]

end Pyr.UrlGen
