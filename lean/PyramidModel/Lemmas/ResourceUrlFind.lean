import PyramidModel.Lemmas.ResourceUrl
/-! C07 helper lemmas, part 3: `find_resource` on generated paths, requesting a generated URL.
Property theorems are in `Props/C07.lean`. -/
namespace Pyr.ResUrl
open Pyr.Trav

/-! ### unquoting whole path texts -/

theorem mem_joinWith (sep : Char) (xs : List Text) (c : Char) (h : c ∈ joinWith sep xs) :
    c = sep ∨ ∃ x ∈ xs, c ∈ x := by
  induction xs with
  | nil => simp [joinWith] at h
  | cons x r ih =>
    cases r with
    | nil => simp only [joinWith] at h; exact .inr ⟨x, by simp, h⟩
    | cons y r' =>
      simp only [joinWith, List.mem_append, List.mem_cons] at h
      rcases h with m | e | m
      · exact .inr ⟨x, by simp, m⟩
      · exact .inl e
      · rcases ih m with e | ⟨z, hz, hc⟩
        · exact .inl e
        · exact .inr ⟨z, by simp [hz], hc⟩

/-- characters of `a%20b/c`: ASCII, no `?` -/
theorem joined_quoted_chars (xs : List Seg) (c : Char) (h : c ∈ joinWith '/' (xs.map quoteSegment)) :
    c.toNat < 128 ∧ c ≠ '?' := by
  rcases mem_joinWith _ _ _ h with e | ⟨x, hx, hc⟩
  · subst e; decide
  · obtain ⟨s, _, rfl⟩ := List.mem_map.mp hx
    have := quoteSegment_chars s c hc
    exact ⟨this.1, this.2.2⟩

theorem unquote_joined {U : Bytes → Bytes} (hU : IsUnquoter U) (xs : List Seg) (rest : Bytes) :
    U (enc (joinWith '/' (xs.map quoteSegment)) ++ rest) = utf8Enc (joinWith '/' xs) ++ U rest := by
  induction xs with
  | nil => simp [joinWith, enc, utf8Enc]
  | cons x r ih =>
    cases r with
    | nil =>
      simp only [List.map_cons, List.map_nil, joinWith]
      exact unquote_quoteBytes hU (utf8Enc x) rest
    | cons y r' =>
      simp only [List.map_cons, joinWith] at ih ⊢
      rw [enc_append, enc_cons, List.append_assoc, List.cons_append]
      have e47 : UInt8.ofNat '/'.toNat = 47 := by decide
      rw [e47]
      have h1 := unquote_quoteBytes hU (utf8Enc x) (47 :: (enc (joinWith '/' (quoteSegment y :: r'.map quoteSegment)) ++ rest))
      have hq : quoteSegment x = quoteBytes pathSegmentSafe (utf8Enc x) := rfl
      rw [hq, h1, hU.pass 47 _ (by decide), ih, utf8Enc_append, utf8Enc_cons, utf8Enc_slash]
      simp

theorem unquote_slashed {U : Bytes → Bytes} (hU : IsUnquoter U) (xs : List Seg) (rest : Bytes) :
    U (enc (slashed (xs.map quoteSegment)) ++ rest) = utf8Enc (slashed xs) ++ U rest := by
  induction xs with
  | nil => simp [slashed, enc, utf8Enc]
  | cons x r ih =>
    simp only [List.map_cons, slashed_cons]
    rw [enc_append, enc_cons, List.append_assoc, List.cons_append]
    have e47 : UInt8.ofNat '/'.toNat = 47 := by decide
    rw [e47]
    have h1 := unquote_quoteBytes hU (utf8Enc x) (47 :: (enc (slashed (r.map quoteSegment)) ++ rest))
    have hq : quoteSegment x = quoteBytes pathSegmentSafe (utf8Enc x) := rfl
    rw [hq, h1, hU.pass 47 _ (by decide), ih, utf8Enc_append, utf8Enc_cons, utf8Enc_slash]
    simp

theorem unquote_lead_slash {U : Bytes → Bytes} (hU : IsUnquoter U) (t : Text) :
    U (enc ('/' :: t)) = 47 :: U (enc t) := by
  rw [enc_cons]
  have e47 : UInt8.ofNat '/'.toNat = 47 := by decide
  rw [e47, hU.pass 47 _ (by decide)]

theorem utf8Enc_lead_slash (t : Text) : utf8Enc ('/' :: t) = 47 :: utf8Enc t := by
  rw [utf8Enc_cons, utf8Enc_slash]; rfl

/-! ### `_join_path_tuple` on the tuples that occur -/

theorem joinPathTuple_abs (p : List Seg) :
    joinPathTuple ([] :: p) = '/' :: joinWith '/' (p.map quoteSegment) := by
  cases p with
  | nil => simp [joinPathTuple, joinWith, quoteSegment_nil]
  | cons x r => simp [joinPathTuple, joinWith, quoteSegment_nil]

theorem joinWith_head (x : Text) (r : List Text) (h : x ≠ []) :
    (joinWith '/' (x :: r)).head? = x.head? := by
  cases x with
  | nil => exact absurd rfl h
  | cons c cs => cases r <;> simp [joinWith]

theorem joinPathTuple_rel (q : List Seg) (hq : q ≠ []) (h : ∀ n ∈ q, n ≠ []) :
    joinPathTuple q = joinWith '/' (q.map quoteSegment) ∧ (joinPathTuple q).head? ≠ some '/' := by
  cases q with
  | nil => exact absurd rfl hq
  | cons x r =>
    have hx : quoteSegment x ≠ [] := quoteSegment_ne_nil x (h x (by simp))
    have hh := joinWith_head (quoteSegment x) (r.map quoteSegment) hx
    have hne : joinWith '/' (quoteSegment x :: r.map quoteSegment) ≠ [] := by
      intro e
      rw [e] at hh
      cases hqx : quoteSegment x with
      | nil => exact hx hqx
      | cons c cs => rw [hqx] at hh; simp at hh
    have e1 : joinPathTuple (x :: r) = joinWith '/' (quoteSegment x :: r.map quoteSegment) := by
      simp [joinPathTuple, hne]
    refine ⟨by simpa using e1, ?_⟩
    rw [e1, hh]
    cases hqx : quoteSegment x with
    | nil => exact absurd hqx hx
    | cons c cs =>
      simp only [List.head?_cons, ne_eq, Option.some.injEq]
      intro e
      exact slash_not_mem_quoteSegment x (by rw [hqx, e]; simp)

/-! ### find_resource -/

theorem findResource_tup (root : Tree) (start xs : List Seg) :
    findResource root start (.tup xs) = findResource root start (.str (if xs = [] then [] else joinPathTuple xs)) := rfl

theorem looksLikeScheme_slash (t : Text) : looksLikeScheme ('/' :: t) = false := by
  simp [looksLikeScheme, isAsciiLetter]

theorem enc_ne_63 (c : Char) (h1 : c.toNat < 128) (h2 : c ≠ '?') : UInt8.ofNat c.toNat ≠ 63 := by
  intro e
  have : (UInt8.ofNat c.toNat).toNat = 63 := by rw [e]; rfl
  simp at this
  have h3 : c.toNat = 63 := by omega
  apply h2
  have := Char.ofNat_toNat c
  rw [h3] at this
  rw [← this]

theorem takeWhile_self {α} (p : α → Bool) (l : List α) (h : ∀ a ∈ l, p a = true) : l.takeWhile p = l := by
  induction l with
  | nil => rfl
  | cons a r ih => simp [h a (by simp), ih (fun b hb => h b (by simp [hb]))]

/-- `find_resource(start, P)` for an ASCII path text `P` without `?` that is not scheme-like and whose
percent-decoding is the UTF-8 of a text `T` splitting into admissible names: the names are walked from the base
(the root for an absolute path, the start resource for a relative one); all found ⇒ that resource, else KeyError. -/
theorem findResource_text (root : Tree) (start base : List Seg) (P T : Text) (t : Tree) (segs : List Seg)
    (hascii : ∀ c ∈ P, c.toNat < 128 ∧ c ≠ '?') (hs : looksLikeScheme P = false)
    (hbase : base = if P.head? = some '/' then [] else start) (hres : root.resolve base = some t)
    (hun : unquoteWebob (enc P) = utf8Enc T) (hsplit : splitPathInfo T = segs)
    (hadm : ∀ n ∈ segs, AdmissibleName n) :
    findResource root start (.str P) =
      if Walkable t segs = true then .ok (base ++ segs) else .error .keyError := by
  have h1 := asciiEncode_of_ascii P (fun c hc => (hascii c hc).1)
  have h2 : blankPathInfo (enc P) = utf8Enc T := by
    simp only [blankPathInfo]
    rw [takeWhile_self _ _ (by
      intro a ha
      simp only [enc, List.mem_map] at ha
      obtain ⟨c, hc, rfl⟩ := ha
      have := enc_ne_63 c (hascii c hc).1 (hascii c hc).2
      simpa using this)]
    exact hun
  simp only [findResource, traverseApi, h1, hs, ← hbase, hres, h2, traverser_plain, hsplit]
  have hw := walk_admissible t segs hadm
  by_cases hwk : Walkable t segs = true
  · rw [hw.1 hwk]; simp [hwk]
  · have hwk' : Walkable t segs = false := by simpa using hwk
    have := hw.2 hwk'
    simp [hwk', this]

/-- absolute path text `/a%20b/c` (string form; the tuple `('', 'a b', 'c')` joins to the same text) -/
theorem findResource_abs (root : Tree) (start p : List Seg) (hadm : ∀ n ∈ p, AdmissibleName n) :
    findResource root start (.str ('/' :: joinWith '/' (p.map quoteSegment))) =
      if Walkable root p = true then .ok p else .error .keyError := by
  have := findResource_text root start [] ('/' :: joinWith '/' (p.map quoteSegment)) ('/' :: joinWith '/' p) root p
    (by
      intro c hc
      rcases List.mem_cons.mp hc with e | m
      · subst e; decide
      · exact joined_quoted_chars p c m)
    (looksLikeScheme_slash _) (by simp) (by simp [Tree.resolve])
    (by
      rw [unquote_lead_slash unquoteWebob_isUnquoter, utf8Enc_lead_slash]
      have := unquote_joined unquoteWebob_isUnquoter p []
      simp only [List.append_nil, unquoteWebob_isUnquoter.nil] at this
      rw [this])
    (split_joined p hadm).1 hadm
  simpa using this

/-- relative path text `a%20b/c` (the empty text for no names) looked up from an existing resource -/
theorem findResource_rel (root : Tree) (start q : List Seg) (t : Tree) (hadm : ∀ n ∈ q, AdmissibleName n)
    (hres : root.resolve start = some t) (hs : looksLikeScheme (joinWith '/' (q.map quoteSegment)) = false) :
    findResource root start (.str (joinWith '/' (q.map quoteSegment))) =
      if Walkable t q = true then .ok (start ++ q) else .error .keyError := by
  have hhead : (joinWith '/' (q.map quoteSegment)).head? ≠ some '/' := by
    by_cases hq : q = []
    · subst hq; simp [joinWith]
    · have := joinPathTuple_rel q hq (fun n hn => (hadm n hn).1)
      rw [this.1] at this
      exact this.2
  exact findResource_text root start start (joinWith '/' (q.map quoteSegment)) (joinWith '/' q) t q
    (joined_quoted_chars q) hs (by simp [hhead]) hres
    (by
      have := unquote_joined unquoteWebob_isUnquoter q []
      simp only [List.append_nil, unquoteWebob_isUnquoter.nil] at this
      exact this)
    (split_joined q hadm).2 hadm

end Pyr.ResUrl
