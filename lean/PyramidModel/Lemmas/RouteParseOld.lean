import PyramidModel.Lemmas.RouteParse
/-! Old-style `:name` patterns: `old_route_re.sub` turns the written text into the new-style text, on which
`Lemmas/RouteParse.lean` applies.  Helper lemmas for `Props/C01.lean` §4. -/
namespace Pyr.Route
open Pyr.Rx (Ucd isWord asciiAlpha asciiAlnum asciiDigit)

/-! ### old-style `:name` patterns -/

def headIdStart : Text → Bool
  | d :: _ => idStartA d
  | [] => false

/-- no `:` of `l` is directly followed (in `l ++ t`) by a name-start character -/
def noMarker : Text → Text → Bool
  | [], _ => true
  | c :: cs, t => !(c = ':' && headIdStart (cs ++ t)) && noMarker cs t

theorem oldRewrite_false_cons (u : Ucd) (c : Char) (cs : Text) :
    oldRewrite u false (c :: cs) =
      if c = ':' && headIdStart cs then '{' :: oldRewrite u true cs else c :: oldRewrite u false cs := by
  cases cs <;> simp [oldRewrite, headIdStart]

theorem oldRewrite_true_word (u : Ucd) (c : Char) (cs : Text) (h : isWord u c = true) :
    oldRewrite u true (c :: cs) = c :: oldRewrite u true cs := by
  simp [oldRewrite, h]

theorem oldRewrite_true_stop (u : Ucd) : ∀ (t : Text), (∀ c, t.head? = some c → isWord u c = false) →
    oldRewrite u true t = '}' :: oldRewrite u false t
  | [], _ => by simp [oldRewrite]
  | c :: cs, h => by
    have hc : isWord u c = false := h c rfl
    rw [oldRewrite_false_cons]
    cases cs <;> simp [oldRewrite, hc, headIdStart] <;> split <;> simp

theorem oldRewrite_quiet (u : Ucd) : ∀ (l t : Text), noMarker l t = true →
    oldRewrite u false (l ++ t) = l ++ oldRewrite u false t
  | [], _, _ => rfl
  | c :: cs, t, h => by
    simp only [noMarker, Bool.and_eq_true, Bool.not_eq_true'] at h
    rw [List.cons_append, oldRewrite_false_cons, h.1]
    simp [oldRewrite_quiet u cs t h.2]

theorem oldRewrite_words (u : Ucd) : ∀ (n t : Text), n.all (isWord u) = true →
    oldRewrite u true (n ++ t) = n ++ oldRewrite u true t
  | [], _, _ => rfl
  | c :: cs, t, h => by
    simp only [List.all_cons, Bool.and_eq_true] at h
    rw [List.cons_append, oldRewrite_true_word u c _ h.1, oldRewrite_words u cs t h.2, List.cons_append]

theorem idStartA_isWord (u : Ucd) (d : Char) (h : idStartA d = true) : isWord u d = true := by
  simp only [idStartA, Bool.or_eq_true, decide_eq_true_eq] at h
  rcases h with h | h
  · have := ascii_of_alpha d h
    simp [isWord, this, asciiAlnum, h]
  · subst h; rfl

theorem noMarker_weaken : ∀ (l t : Text), headIdStart t = false → noMarker l [] = true → noMarker l t = true
  | [], _, _, _ => rfl
  | c :: cs, t, ht, h => by
    simp only [noMarker, Bool.and_eq_true, Bool.not_eq_true', List.append_nil] at h ⊢
    refine ⟨?_, noMarker_weaken cs t ht h.2⟩
    cases cs with
    | nil => simp [ht]
    | cons d ds => simpa [headIdStart] using h.1

/-- the text of an old-style pattern: each placeholder is `:name` followed by its literal -/
def renderOld : List (Text × Text) → Text
  | [] => []
  | (n, l) :: rest => ':' :: (n ++ (l ++ renderOld rest))

/-- the same placeholders in the internal (new-style) form -/
def oldPieces (ps : List (Text × Text)) : List (RawPh × Text) := ps.map fun x => (⟨x.1, none⟩, x.2)

/-- an old-style placeholder and the literal after it: `name` = `[_a-zA-Z]\w*`; the literal has no `{`, does not start
with a word character (the name would swallow it) and contains no further `:name` marker -/
def oldPieceWf (u : Ucd) (x : Text × Text) : Bool :=
  (match x.1 with
    | [] => false
    | d :: ds => idStartA d && ds.all (isWord u)) &&
  !x.2.contains '{' && noMarker x.2 [] &&
  (match x.2 with
    | [] => true
    | c :: _ => !isWord u c)

theorem isWord_plain (u : Ucd) (c : Char) (h : isWord u c = true) : plainChar c = true := by
  simp only [plainChar, Bool.and_eq_true, decide_eq_true_eq]
  have h1 : isWord u ':' = false := rfl
  have h2 : isWord u '{' = false := rfl
  have h3 : isWord u '}' = false := rfl
  refine ⟨⟨?_, ?_⟩, ?_⟩ <;> (intro e; subst e; simp_all)

theorem renderOld_head (ps : List (Text × Text)) (t : Text) : headIdStart (renderOld ps ++ t) = false ∨ ps = [] := by
  cases ps with
  | nil => right; rfl
  | cons x rest => left; obtain ⟨n, l⟩ := x; simp [renderOld, headIdStart, idStartA, asciiAlpha]

theorem oldRewrite_pieces (u : Ucd) : ∀ (ps : List (Text × Text)) (t : Text),
    ps.all (oldPieceWf u) = true → (∀ c, t.head? = some c → isWord u c = false) →
    oldRewrite u false (renderOld ps ++ t) = renderPieces (oldPieces ps) ++ oldRewrite u false t
  | [], t, _, _ => by simp [renderOld, oldPieces, renderPieces]
  | (n, l) :: rest, t, hw, htw => by
    have ht : headIdStart t = false := by
      cases t with
      | nil => rfl
      | cons c cs =>
        have := htw c rfl
        simp only [headIdStart]
        cases hi : idStartA c with
        | false => rfl
        | true => rw [idStartA_isWord u c hi] at this; cases this
    simp only [List.all_cons, Bool.and_eq_true] at hw
    obtain ⟨hx, hrest⟩ := hw
    simp only [oldPieceWf, Bool.and_eq_true, Bool.not_eq_true'] at hx
    obtain ⟨⟨⟨hn, _⟩, hq⟩, hstart⟩ := hx
    cases n with
    | nil => simp at hn
    | cons d ds =>
      simp only [Bool.and_eq_true] at hn
      have hdw : isWord u d = true := idStartA_isWord u d hn.1
      have hall : (d :: ds).all (isWord u) = true := by simp [hdw, hn.2]
      -- what follows the literal does not start a name
      have hfollow : headIdStart (renderOld rest ++ t) = false := by
        rcases renderOld_head rest t with h | h
        · exact h
        · subst h; simpa [renderOld] using ht
      have hstop : ∀ c, (l ++ (renderOld rest ++ t)).head? = some c → isWord u c = false := by
        intro c hc
        cases l with
        | nil =>
          simp only [List.nil_append] at hc
          cases hr : renderOld rest ++ t with
          | nil => rw [hr] at hc; simp at hc
          | cons e es =>
            rw [hr] at hc hfollow
            simp only [List.head?_cons, Option.some.injEq] at hc
            subst hc
            -- a word character that cannot start a name is still possible (a digit): rule it out by the shape
            cases rest with
            | nil =>
              simp only [renderOld, List.nil_append] at hr
              exact htw e (by rw [hr]; rfl)
            | cons y ys => obtain ⟨n', l'⟩ := y; simp only [renderOld, List.cons_append] at hr; injection hr with h1 _; subst h1; rfl
        | cons a as =>
          simp only [List.cons_append, List.head?_cons, Option.some.injEq] at hc
          subst hc
          simpa using hstart
      simp only [renderOld, List.cons_append, List.append_assoc]
      rw [oldRewrite_false_cons]
      have : headIdStart (d :: (ds ++ (l ++ (renderOld rest ++ t)))) = true := by simpa [headIdStart] using hn.1
      simp only [this, Bool.and_true, decide_true, ite_true]
      have e1 : d :: (ds ++ (l ++ (renderOld rest ++ t))) = (d :: ds) ++ (l ++ (renderOld rest ++ t)) := rfl
      rw [e1, oldRewrite_words u (d :: ds) _ hall, oldRewrite_true_stop u _ hstop,
        oldRewrite_quiet u l _ (noMarker_weaken l _ hfollow hq), oldRewrite_pieces u rest t hrest htw]
      simp [oldPieces, renderPieces, renderPh]

theorem hasOld_marker : ∀ (a : Text) (d : Char) (b : Text), idStartA d = true → hasOld (a ++ ':' :: d :: b) = true
  | [], d, b, h => by simp [hasOld, h]
  | [x], d, b, h => by simp [hasOld, h]
  | x :: y :: rest, d, b, h => by
    have := hasOld_marker (y :: rest) d b h
    simp only [List.cons_append] at this ⊢
    simp [hasOld, this]

theorem words_noMarker (u : Ucd) : ∀ (n t : Text), n.all (isWord u) = true → noMarker n t = true
  | [], _, _ => rfl
  | c :: cs, t, h => by
    simp only [List.all_cons, Bool.and_eq_true] at h
    have hc : c ≠ ':' := by
      intro e; subst e
      have : isWord u ':' = false := rfl
      rw [this] at h; exact absurd h.1 (by simp)
    simp [noMarker, hc, words_noMarker u cs t h.2]

theorem words_noBrace (u : Ucd) (n : Text) (h : n.all (isWord u) = true) : '{' ∉ n := by
  intro hm
  have := (List.all_eq_true.mp h) '{' hm
  have h2 : isWord u '{' = false := rfl
  rw [h2] at this; cases this

theorem contains_false_iff (l : Text) (c : Char) : l.contains c = false ↔ c ∉ l := by
  rw [Bool.eq_false_iff]; simp

theorem renderOld_noBrace (u : Ucd) : ∀ (ps : List (Text × Text)), ps.all (oldPieceWf u) = true → '{' ∉ renderOld ps
  | [], _ => by simp [renderOld]
  | (n, l) :: rest, hw => by
    simp only [List.all_cons, Bool.and_eq_true] at hw
    obtain ⟨hx, hrest⟩ := hw
    simp only [oldPieceWf, Bool.and_eq_true, Bool.not_eq_true'] at hx
    obtain ⟨⟨⟨hn, hl⟩, _⟩, _⟩ := hx
    have hnw : n.all (isWord u) = true := by
      cases n with
      | nil => simp at hn
      | cons d ds =>
        simp only [Bool.and_eq_true] at hn
        simp [idStartA_isWord u d hn.1, hn.2]
    have h1 := words_noBrace u n hnw
    have h2 := (contains_false_iff l '{').mp hl
    have h3 := renderOld_noBrace u rest hrest
    simp only [renderOld, List.mem_cons, List.mem_append, not_or]
    exact ⟨by decide, h1, h2, h3⟩

theorem oldPieces_wf (u : Ucd) : ∀ (ps : List (Text × Text)), ps.all (oldPieceWf u) = true → piecesWf (oldPieces ps) = true
  | [], _ => rfl
  | (n, l) :: rest, hw => by
    simp only [List.all_cons, Bool.and_eq_true] at hw
    obtain ⟨hx, hrest⟩ := hw
    simp only [oldPieceWf, Bool.and_eq_true, Bool.not_eq_true'] at hx
    obtain ⟨⟨⟨hn, hl⟩, _⟩, _⟩ := hx
    have := oldPieces_wf u rest hrest
    simp only [oldPieces, List.map_cons, piecesWf, phWf, Bool.and_eq_true, Bool.not_eq_true', Bool.and_true] at this ⊢
    refine ⟨⟨?_, hl⟩, this⟩
    cases n with
    | nil => simp at hn
    | cons d ds =>
      simp only [Bool.and_eq_true] at hn ⊢
      refine ⟨hn.1, ?_⟩
      rw [List.all_eq_true]
      intro c hc
      exact isWord_plain u c ((List.all_eq_true.mp hn.2) c hc)

/-- an old-style pattern as the documented grammar writes it -/
structure OldWf (u : Ucd) (pfx : Text) (ps : List (Text × Text)) (rem : Option Text) : Prop where
  lead : pfx.head? = some '/'
  pfxPlain : pfx.contains '{' = false
  pfxQuiet : noMarker pfx [] = true
  nonempty : ps ≠ []
  piecesOk : ps.all (oldPieceWf u) = true
  restName : restWf u (pfx ++ renderPieces (oldPieces ps)) rem = true

theorem OldWf.restPlain {u : Ucd} {pfx : Text} {ps : List (Text × Text)} {rem : Option Text} (h : OldWf u pfx ps rem) :
    ∀ n, rem = some n → n.all (isWord u) = true := by
  intro n e; subst e; simpa [restWf] using h.restName

def renderOldRaw (pfx : Text) (ps : List (Text × Text)) (rem : Option Text) : Text :=
  pfx ++ (renderOld ps ++ renderRest rem)

theorem oldRewrite_whole (u : Ucd) (pfx : Text) (ps : List (Text × Text)) (rem : Option Text) (h : OldWf u pfx ps rem) :
    oldRewrite u false (renderOldRaw pfx ps rem) = renderRaw pfx (oldPieces ps) rem := by
  have hrp := h.restPlain
  obtain ⟨_, _, hq, hne, hps, _⟩ := h
  have hfollow : headIdStart (renderOld ps ++ renderRest rem) = false := by
    rcases renderOld_head ps (renderRest rem) with h | h
    · exact h
    · exact absurd h hne
  have hrest : ∀ c, (renderRest rem).head? = some c → isWord u c = false := by
    intro c hc
    cases rem with
    | none => simp [renderRest] at hc
    | some n => simp only [renderRest, List.head?_cons, Option.some.injEq] at hc; subst hc; rfl
  have htail : oldRewrite u false (renderRest rem) = renderRest rem := by
    cases rem with
    | none => rfl
    | some n =>
      have hn := hrp n rfl
      have : noMarker ('*' :: n) [] = true := by simp [noMarker, words_noMarker u n [] hn]
      simpa [renderRest, oldRewrite] using oldRewrite_quiet u ('*' :: n) [] this
  unfold renderOldRaw renderRaw
  rw [oldRewrite_quiet u pfx _ (noMarker_weaken pfx _ hfollow hq), oldRewrite_pieces u ps _ hps hrest, htail,
    List.append_assoc]

/-- **Old-style parser round trip.** -/
theorem parse_render_old_raw (u : Ucd) (pfx : Text) (ps : List (Text × Text)) (rem : Option Text) (h : OldWf u pfx ps rem) :
    parseRoute u (renderOldRaw pfx ps rem) = { pfx := pfx, pieces := oldPieces ps, remainder := rem } := by
  have hrew := oldRewrite_whole u pfx ps rem h
  have hrp := h.restPlain
  obtain ⟨hlead, hplain, hq, hne, hps, hrest⟩ := h
  have hnew : RawWf u pfx (oldPieces ps) rem :=
    ⟨hlead, hplain, oldPieces_wf u ps hps, Or.inl (by cases ps with | nil => exact absurd rfl hne | cons _ _ => simp [oldPieces]), hrest⟩
  -- the old-style branch is taken on the written text …
  have hmark : hasOld (renderOldRaw pfx ps rem) = true := by
    cases ps with
    | nil => exact absurd rfl hne
    | cons x rest =>
      obtain ⟨n, l⟩ := x
      simp only [List.all_cons, Bool.and_eq_true, oldPieceWf] at hps
      cases n with
      | nil => simp at hps
      | cons d ds =>
        have hd : idStartA d = true := by
          have := hps.1.1.1.1
          simp only [Bool.and_eq_true] at this
          exact this.1
        simpa [renderOldRaw, renderOld] using hasOld_marker pfx d (ds ++ (l ++ renderOld rest) ++ renderRest rem) hd
  have hnb : nextPh (renderOldRaw pfx ps rem) = none := by
    apply nextPh_none
    rw [contains_false_iff]
    have h1 := (contains_false_iff pfx '{').mp hplain
    have h2 := renderOld_noBrace u ps hps
    have h3 : '{' ∉ renderRest rem := by
      cases rem with
      | none => simp [renderRest]
      | some n =>
        have := words_noBrace u n (hrp n rfl)
        simp only [renderRest, List.mem_cons, not_or]
        exact ⟨by decide, this⟩
    simp only [renderOldRaw, List.mem_append, not_or]
    exact ⟨h1, h2, h3⟩
  -- … and not on the rewritten one, where the new-style theorem applies
  have hnewparse := parse_render_raw u pfx (oldPieces ps) rem hnew
  have hcond' : (hasOld (renderRaw pfx (oldPieces ps) rem) && (nextPh (renderRaw pfx (oldPieces ps) rem)).isNone) = false := by
    cases ps with
    | nil => exact absurd rfl hne
    | cons x rest =>
      obtain ⟨n, l⟩ := x
      have hw := oldPieces_wf u _ hps
      simp only [oldPieces, List.map_cons, piecesWf, Bool.and_eq_true] at hw
      have : nextPh (renderRaw pfx (oldPieces ((n, l) :: rest)) rem) =
          some (pfx, renderPh ⟨n, none⟩, l ++ renderPieces (oldPieces rest) ++ renderRest rem) := by
        simp only [renderRaw, oldPieces, List.map_cons, renderPieces, List.append_assoc, List.cons_append]
        rw [nextPh_lit pfx _ hplain, nextPh_at ⟨n, none⟩ hw.1.1]
        simp
      simp [this]
  rw [← hnewparse]
  unfold parseRoute
  simp only [hmark, hnb, Option.isNone_none, Bool.and_self, ite_true, hrew, hcond', Bool.false_eq_true, ite_false]

end Pyr.Route
