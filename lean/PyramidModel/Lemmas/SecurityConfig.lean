import PyramidModel.Security
/-!
C05 helper lemmas, part 2: one commit scope executes its statements sorted by (phase, position); because the
policy and the default permission are registered in earlier phases than views, every view of the scope is
derived against the scope's FINAL policy / default permission, in whatever order the statements were written.
-/
namespace Pyr.Security

def isPolicy : Stmt → Bool
  | .setPolicy _ => true
  | _ => false

def defOf : Stmt → Option PermArg
  | .setDefault p => some p
  | _ => none

def viewOf : Stmt → Option (Nat × ViewStmt)
  | .addView dir v => some (dir, v)
  | _ => none

/-- is a security policy registered once the scope has been committed? -/
def policyAfter (r0 : Reg) (stmts : List Stmt) : Bool := r0.policy || stmts.any isPolicy

/-- the default permission once the scope has been committed (the last one written wins in this model; the real
configurator reports two of them in one scope as a conflict) -/
def dfltAfter (r0 : Reg) (stmts : List Stmt) : PermArg := (stmts.filterMap defOf).foldl (fun _ p => p) r0.dflt

/-- the view statements of the scope, in the order written -/
def viewStmts (stmts : List Stmt) : List (Nat × ViewStmt) := stmts.filterMap viewOf

def Sorted (l : List Stmt) : Prop := l.Pairwise fun a b => a.phase ≤ b.phase

theorem mem_insertStmt {x y : Stmt} {l : List Stmt} : y ∈ insertStmt x l ↔ y = x ∨ y ∈ l := by
  induction l with
  | nil => simp [insertStmt]
  | cons z zs ih =>
    simp only [insertStmt]
    split
    · simp [List.mem_cons]
    · simp only [List.mem_cons, ih]
      constructor
      · rintro (h | h | h)
        · exact Or.inr (Or.inl h)
        · exact Or.inl h
        · exact Or.inr (Or.inr h)
      · rintro (h | h | h)
        · exact Or.inr (Or.inl h)
        · exact Or.inl h
        · exact Or.inr (Or.inr h)

theorem insertStmt_sorted {x : Stmt} {l : List Stmt} (h : Sorted l) : Sorted (insertStmt x l) := by
  induction l with
  | nil => simp [insertStmt, Sorted]
  | cons y ys ih =>
    simp only [Sorted, List.pairwise_cons] at h
    simp only [insertStmt]
    split
    · next hle =>
      simp only [Sorted, List.pairwise_cons]
      refine ⟨?_, h.1, h.2⟩
      intro b hb
      rcases List.mem_cons.mp hb with rfl | hb
      · exact hle
      · exact Int.le_trans hle (h.1 b hb)
    · next hnle =>
      simp only [Sorted, List.pairwise_cons]
      refine ⟨?_, ih h.2⟩
      intro b hb
      rcases mem_insertStmt.mp hb with rfl | hb
      · omega
      · exact h.1 b hb

theorem execOrder_sorted (l : List Stmt) : Sorted (execOrder l) := by
  induction l with
  | nil => simp [execOrder, Sorted]
  | cons x xs ih => exact insertStmt_sorted ih

theorem any_insertStmt (p : Stmt → Bool) (x : Stmt) (l : List Stmt) : (insertStmt x l).any p = (p x || l.any p) := by
  induction l with
  | nil => simp [insertStmt]
  | cons y ys ih =>
    simp only [insertStmt]
    split
    · simp
    · simp only [List.any_cons, ih]
      cases p x <;> cases p y <;> simp

theorem any_execOrder (p : Stmt → Bool) (l : List Stmt) : (execOrder l).any p = l.any p := by
  induction l with
  | nil => rfl
  | cons x xs ih => simp [execOrder, any_insertStmt, ih]

/-- stability: statements that all carry the same phase keep their written order -/
theorem filterMap_insertStmt {β : Type} (f : Stmt → Option β) (k : Int) (hk : ∀ s b, f s = some b → s.phase = k)
    (x : Stmt) (l : List Stmt) : (insertStmt x l).filterMap f = (x :: l).filterMap f := by
  induction l with
  | nil => rfl
  | cons y ys ih =>
    simp only [insertStmt]
    split
    · rfl
    · next hnle =>
      cases hy : f y with
      | none =>
        rw [List.filterMap_cons_none hy, ih]
        cases hx : f x with
        | none => rw [List.filterMap_cons_none hx, List.filterMap_cons_none hx, List.filterMap_cons_none hy]
        | some a => rw [List.filterMap_cons_some hx, List.filterMap_cons_some hx, List.filterMap_cons_none hy]
      | some b =>
        cases hx : f x with
        | none =>
          rw [List.filterMap_cons_some hy, ih, List.filterMap_cons_none hx, List.filterMap_cons_none hx,
            List.filterMap_cons_some hy]
        | some a =>
          have h1 := hk x a hx
          have h2 := hk y b hy
          omega

theorem filterMap_execOrder {β : Type} (f : Stmt → Option β) (k : Int) (hk : ∀ s b, f s = some b → s.phase = k)
    (l : List Stmt) : (execOrder l).filterMap f = l.filterMap f := by
  induction l with
  | nil => rfl
  | cons x xs ih =>
    simp only [execOrder]
    rw [filterMap_insertStmt f k hk]
    cases hx : f x with
    | none => rw [List.filterMap_cons_none hx, List.filterMap_cons_none hx, ih]
    | some a => rw [List.filterMap_cons_some hx, List.filterMap_cons_some hx, ih]

theorem viewOf_phase : ∀ s b, viewOf s = some b → s.phase = phaseView := by
  intro s b h
  cases s <;> simp [viewOf] at h
  rfl

theorem defOf_phase : ∀ s b, defOf s = some b → s.phase = phaseDefault := by
  intro s b h
  cases s <;> simp [defOf] at h
  rfl

/-- the facts about the generated phase table the ordering argument needs -/
structure PhasesOK : Prop where
  policy : phasePolicy < phaseView
  legacy : phaseLegacy < phaseView
  dflt : phaseDefault < phaseView

theorem late_not_policy (hp : PhasesOK) {s : Stmt} (h : phaseView ≤ s.phase) : isPolicy s = false ∧ defOf s = none := by
  cases s with
  | setPolicy legacy =>
    have h1 := hp.policy; have h2 := hp.legacy
    simp only [Stmt.phase] at h
    split at h <;> omega
  | setDefault p =>
    have := hp.dflt
    simp only [Stmt.phase] at h
    omega
  | addView d v => exact ⟨rfl, rfl⟩
  | other ph => exact ⟨rfl, rfl⟩

theorem any_false_of_forall {l : List Stmt} {p : Stmt → Bool} (h : ∀ s ∈ l, p s = false) : l.any p = false := by
  induction l with
  | nil => rfl
  | cons x xs ih =>
    simp only [List.any_cons, h x (List.mem_cons_self ..), Bool.false_or]
    exact ih fun s hs => h s (List.mem_cons_of_mem _ hs)

theorem filterMap_nil_of_forall {β : Type} {l : List Stmt} {f : Stmt → Option β} (h : ∀ s ∈ l, f s = none) :
    l.filterMap f = [] := by
  induction l with
  | nil => rfl
  | cons x xs ih =>
    rw [List.filterMap_cons_none (h x (List.mem_cons_self ..))]
    exact ih fun s hs => h s (List.mem_cons_of_mem _ hs)

def derivedOf (policy : Bool) (dflt : PermArg) (vs : List (Nat × ViewStmt)) : List DView :=
  vs.flatMap fun dv => deriveBoth policy dflt (lower dv.1 dv.2)

/-- running a phase-sorted statement list -/
theorem runStmts_sorted (hp : PhasesOK) : ∀ (l : List Stmt) (r : Reg), Sorted l →
    (runStmts r l).policy = (r.policy || l.any isPolicy) ∧
    (runStmts r l).dflt = (l.filterMap defOf).foldl (fun _ p => p) r.dflt ∧
    (runStmts r l).views = r.views ++ derivedOf (r.policy || l.any isPolicy)
      ((l.filterMap defOf).foldl (fun _ p => p) r.dflt) (l.filterMap viewOf) := by
  intro l
  induction l with
  | nil => intro r _; simp [runStmts, derivedOf]
  | cons a rest ih =>
    intro r hs
    simp only [Sorted, List.pairwise_cons] at hs
    have hrest := hs.2
    cases a with
    | setPolicy legacy =>
      have := ih { r with policy := true } hrest
      rw [List.filterMap_cons_none (show defOf (Stmt.setPolicy legacy) = none from rfl),
        List.filterMap_cons_none (show viewOf (Stmt.setPolicy legacy) = none from rfl)]
      simp only [runStmts, List.foldl_cons, step] at this ⊢
      simp only [isPolicy, List.any_cons, Bool.true_or, Bool.or_true]
      simpa using this
    | setDefault p =>
      have := ih { r with dflt := p } hrest
      rw [List.filterMap_cons_some (show defOf (Stmt.setDefault p) = some p from rfl),
        List.filterMap_cons_none (show viewOf (Stmt.setDefault p) = none from rfl)]
      simp only [runStmts, List.foldl_cons, step] at this ⊢
      simp only [isPolicy, List.any_cons, Bool.false_or]
      simpa using this
    | addView dir v =>
      have hlate : ∀ s ∈ rest, isPolicy s = false ∧ defOf s = none := fun s hm =>
        late_not_policy hp (by have := hs.1 s hm; simpa [Stmt.phase] using this)
      have hany : rest.any isPolicy = false := any_false_of_forall fun s hm => (hlate s hm).1
      have hdef : rest.filterMap defOf = [] := filterMap_nil_of_forall fun s hm => (hlate s hm).2
      have := ih { r with views := r.views ++ deriveBoth r.policy r.dflt (lower dir v) } hrest
      rw [List.filterMap_cons_some (show viewOf (Stmt.addView dir v) = some (dir, v) from rfl),
        List.filterMap_cons_none (show defOf (Stmt.addView dir v) = none from rfl)]
      simp only [runStmts, List.foldl_cons, step] at this ⊢
      simp only [isPolicy, List.any_cons, hany, hdef, Bool.or_false, List.foldl_nil] at this ⊢
      refine ⟨this.1, this.2.1, ?_⟩
      rw [this.2.2]
      simp [derivedOf, List.append_assoc]
    | other ph =>
      have := ih r hrest
      rw [List.filterMap_cons_none (show defOf (Stmt.other ph) = none from rfl),
        List.filterMap_cons_none (show viewOf (Stmt.other ph) = none from rfl)]
      simp only [runStmts, List.foldl_cons, step] at this ⊢
      simp only [isPolicy, List.any_cons, Bool.false_or]
      exact this

/-- the registry after one commit scope, whatever the written order -/
theorem configure_spec (hp : PhasesOK) (r0 : Reg) (stmts : List Stmt) :
    (configure r0 stmts).policy = policyAfter r0 stmts ∧
    (configure r0 stmts).dflt = dfltAfter r0 stmts ∧
    (configure r0 stmts).views =
      r0.views ++ derivedOf (policyAfter r0 stmts) (dfltAfter r0 stmts) (viewStmts stmts) := by
  have h := runStmts_sorted hp (execOrder stmts) r0 (execOrder_sorted stmts)
  rw [any_execOrder, filterMap_execOrder defOf phaseDefault defOf_phase,
    filterMap_execOrder viewOf phaseView viewOf_phase] at h
  exact h

end Pyr.Security
