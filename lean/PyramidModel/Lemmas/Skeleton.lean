/-
Soundness of the skeleton analysis (`Pyr.Skel.analyze`) with respect to `exec`, for every statement term,
every oracle and every entry configuration.  Core Lean only.
-/
import PyramidModel.Skeleton

namespace Pyr.Skel

theorem join_left {a b c : Option Nat} {k : Nat} (h : join a b = some c) (ha : a = some k) : c = some k := by
  subst ha
  cases b with
  | none => simp [join] at h; exact h.symm
  | some y =>
    simp only [join] at h
    split at h
    · simp at h; exact h.symm
    · simp at h

theorem join_right {a b c : Option Nat} {k : Nat} (h : join a b = some c) (hb : b = some k) : c = some k := by
  subst hb
  cases a with
  | none => simp [join] at h; exact h.symm
  | some x =>
    simp only [join] at h
    split at h
    · next hxy => simp at h; subst hxy; exact h.symm
    · simp at h

theorem joinS_left {a b c : Summ} (h : joinS a b = some c) (oc : Outcome) {k : Nat}
    (ha : a.get oc = some k) : c.get oc = some k := by
  simp only [joinS] at h
  split at h
  · next n r e hn hr he =>
    simp at h; subst h
    cases oc with
    | normal => exact join_left hn ha
    | returned => exact join_left hr ha
    | raised => exact join_left he ha
  · simp at h

theorem joinS_right {a b c : Summ} (h : joinS a b = some c) (oc : Outcome) {k : Nat}
    (hb : b.get oc = some k) : c.get oc = some k := by
  simp only [joinS] at h
  split at h
  · next n r e hn hr he =>
    simp at h; subst h
    cases oc with
    | normal => exact join_right hn hb
    | returned => exact join_right hr hb
    | raised => exact join_right he hb
  · simp at h

/-- the semantic reading of a summary: from a configuration `h` above `base`, the outcome of `s` is one the
summary allows and the depth is the one it gives -/
def Sound (q : Nat → Bool) (o : Oracle) (s : Stmt) : Prop :=
  ∀ h σ, analyze q s h = some σ → ∀ base tr,
    ∃ k, σ.get (exec o s ⟨base + h, tr⟩).2 = some k ∧ (exec o s ⟨base + h, tr⟩).1.depth = base + k

theorem iter_sound {f : Cfg → Cfg × Outcome} {σb : Summ} {h base : Nat}
    (hf : ∀ tr, ∃ k, σb.get (f ⟨base + h, tr⟩).2 = some k ∧ (f ⟨base + h, tr⟩).1.depth = base + k)
    (hinv : σb.norm = none ∨ σb.norm = some h) :
    ∀ n tr, ∃ k, (Summ.mk (some h) σb.ret σb.exc).get (iter f n ⟨base + h, tr⟩).2 = some k ∧
      (iter f n ⟨base + h, tr⟩).1.depth = base + k := by
  intro n
  induction n with
  | zero => intro tr; exact ⟨h, rfl, rfl⟩
  | succ n ih =>
    intro tr
    obtain ⟨k, hk, hd⟩ := hf tr
    simp only [iter]
    generalize hfe : f ⟨base + h, tr⟩ = r at hk hd
    obtain ⟨c', oc⟩ := r
    cases oc with
    | normal =>
      simp only [Summ.get] at hk
      have hkh : k = h := by
        rcases hinv with hn | hn
        · rw [hn] at hk; simp at hk
        · rw [hn] at hk; simp at hk; exact hk.symm
      subst hkh
      simp only at hd
      have : c' = ⟨base + k, c'.trace⟩ := by cases c'; simp_all
      rw [this]
      exact ih c'.trace
    | returned => exact ⟨k, hk, hd⟩
    | raised => exact ⟨k, hk, hd⟩

theorem cfg_eta (c : Cfg) : c = ⟨c.depth, c.trace⟩ := by cases c; rfl

theorem finPart_sound {q : Nat → Bool} {o : Oracle} {f : Stmt} (ihf : Sound q o f)
    {kind : Outcome} {x : Option Nat} {p : Summ} (hp : finPart (analyze q f) kind x = some p)
    {hx : Nat} (hxx : x = some hx) (base : Nat) (tr : List Visit) :
    ∃ k, p.get (match exec o f ⟨base + hx, tr⟩ with
                | (_, .normal) => kind
                | (_, r) => r) = some k ∧ (exec o f ⟨base + hx, tr⟩).1.depth = base + k := by
  subst hxx
  cases hsf : analyze q f hx with
  | none => simp [finPart, hsf] at hp
  | some sf =>
    obtain ⟨k, hk, hd⟩ := ihf hx sf hsf base tr
    generalize exec o f ⟨base + hx, tr⟩ = r at hk hd
    obtain ⟨c', oc⟩ := r
    refine ⟨k, ?_, hd⟩
    cases kind with
    | normal =>
      simp [finPart, hsf] at hp; subst hp
      cases oc <;> simpa [Summ.get] using hk
    | returned =>
      simp only [finPart, hsf] at hp
      split at hp
      · simp at hp
      · next r hr =>
        simp at hp; subst hp
        cases oc with
        | normal => exact join_left hr (by simpa [Summ.get] using hk)
        | returned => exact join_right hr (by simpa [Summ.get] using hk)
        | raised => simpa [Summ.get] using hk
    | raised =>
      simp only [finPart, hsf] at hp
      split at hp
      · simp at hp
      · next e he =>
        simp at hp; subst hp
        cases oc with
        | normal => exact join_left he (by simpa [Summ.get] using hk)
        | returned => simpa [Summ.get] using hk
        | raised => exact join_right he (by simpa [Summ.get] using hk)

theorem analyze_sound {q : Nat → Bool} {o : Oracle} (hq : o.respects q) : ∀ s, Sound q o s := by
  intro s
  induction s with
  | skip => intro h σ hs base tr; simp [analyze] at hs; subst hs; exact ⟨h, rfl, rfl⟩
  | push => intro h σ hs base tr; simp [analyze] at hs; subst hs; exact ⟨h + 1, rfl, by simp [exec]; omega⟩
  | pop =>
    intro h σ hs base tr
    simp only [analyze] at hs
    split at hs
    · simp at hs
    · next hne => simp at hs; subst hs; exact ⟨h - 1, rfl, by simp [exec]; omega⟩
  | call s =>
    intro h σ hs base tr
    simp [analyze] at hs; subst hs
    refine ⟨h, ?_, by simp [exec, Cfg.visit]⟩
    simp only [exec]
    cases hr : o.raises s (Cfg.count ⟨base + h, tr⟩ s) with
    | false => simp [Summ.get]
    | true =>
      cases hqs : q s with
      | false => simp [Summ.get]
      | true => rw [hq s _ hqs] at hr; cases hr
  | ret => intro h σ hs base tr; simp [analyze] at hs; subst hs; exact ⟨h, rfl, rfl⟩
  | raise => intro h σ hs base tr; simp [analyze] at hs; subst hs; exact ⟨h, rfl, rfl⟩
  | unknown => intro h σ hs; simp [analyze] at hs
  | seq a b iha ihb =>
    intro h σ hs base tr
    simp only [analyze] at hs
    split at hs
    · simp at hs
    · next sa hsa =>
      obtain ⟨k, hk, hd⟩ := iha h sa hsa base tr
      simp only [exec]
      generalize exec o a ⟨base + h, tr⟩ = r at hk hd
      obtain ⟨c', oc⟩ := r
      split at hs
      · next hn =>
        simp at hs; subst hs
        cases oc with
        | normal => simp [Summ.get, hn] at hk
        | returned => exact ⟨k, hk, hd⟩
        | raised => exact ⟨k, hk, hd⟩
      · next h1 hn =>
        split at hs
        · simp at hs
        · next sb hsb =>
          cases oc with
          | normal =>
            simp only [Summ.get, hn] at hk
            simp at hk; subst hk
            simp only at hd
            rw [cfg_eta c', hd]
            obtain ⟨k2, hk2, hd2⟩ := ihb h1 sb hsb base c'.trace
            exact ⟨k2, joinS_right hs _ hk2, hd2⟩
          | returned => exact ⟨k, joinS_left hs .returned (by simpa [Summ.get] using hk), hd⟩
          | raised => exact ⟨k, joinS_left hs .raised (by simpa [Summ.get] using hk), hd⟩
  | ite s a b iha ihb =>
    intro h σ hs base tr
    simp only [analyze] at hs
    split at hs
    · next sa sb hsa hsb =>
      simp only [exec]
      split
      · obtain ⟨k, hk, hd⟩ := iha h sa hsa base ((s, base + h, true) :: tr)
        simp only [Cfg.visit]
        next ht => rw [ht]; exact ⟨k, joinS_left hs _ hk, hd⟩
      · obtain ⟨k, hk, hd⟩ := ihb h sb hsb base ((s, base + h, false) :: tr)
        simp only [Cfg.visit]
        next ht => simp at ht; rw [ht]; exact ⟨k, joinS_right hs _ hk, hd⟩
    · simp at hs
  | loop s b ihb =>
    intro h σ hs base tr
    simp only [analyze] at hs
    split at hs
    · simp at hs
    · next sb hsb =>
      split at hs
      · next hinv =>
        simp at hs; subst hs
        simp only [exec, Cfg.visit]
        exact iter_sound (fun tr' => ihb h sb hsb base tr') hinv _ _
      · simp at hs
  | scope b ihb =>
    intro h σ hs base tr
    simp only [analyze] at hs
    split at hs
    · simp at hs
    · next sb hsb =>
      split at hs
      · simp at hs
      · next n hn =>
        simp at hs; subst hs
        obtain ⟨k, hk, hd⟩ := ihb h sb hsb base tr
        simp only [exec]
        generalize exec o b ⟨base + h, tr⟩ = r at hk hd
        obtain ⟨c', oc⟩ := r
        cases oc with
        | normal => exact ⟨k, join_left hn (by simpa [Summ.get] using hk), hd⟩
        | returned => exact ⟨k, join_right hn (by simpa [Summ.get] using hk), hd⟩
        | raised => exact ⟨k, by simpa [Summ.get] using hk, hd⟩
  | tryFinally b f ihb ihf =>
    intro h σ hs base tr
    simp only [analyze] at hs
    split at hs
    · simp at hs
    · next sb hsb =>
      split at hs
      · next p1 p2 p3 hp1 hp2 hp3 =>
        split at hs
        · simp at hs
        · next p12 hp12 =>
          obtain ⟨k, hk, hd⟩ := ihb h sb hsb base tr
          simp only [exec]
          generalize exec o b ⟨base + h, tr⟩ = r at hk hd
          obtain ⟨c', oc⟩ := r
          simp only at hd
          rw [cfg_eta c', hd]
          cases oc with
          | normal =>
            obtain ⟨k2, hk2, hd2⟩ := finPart_sound ihf hp1 (by simpa [Summ.get] using hk) base c'.trace
            refine ⟨k2, ?_, ?_⟩
            · generalize exec o f ⟨base + k, c'.trace⟩ = r2 at hk2 hd2
              obtain ⟨c2, oc2⟩ := r2
              cases oc2 <;> exact joinS_left hs _ (joinS_left hp12 _ hk2)
            · generalize exec o f ⟨base + k, c'.trace⟩ = r2 at hk2 hd2
              obtain ⟨c2, oc2⟩ := r2
              cases oc2 <;> exact hd2
          | returned =>
            obtain ⟨k2, hk2, hd2⟩ := finPart_sound ihf hp2 (by simpa [Summ.get] using hk) base c'.trace
            refine ⟨k2, ?_, ?_⟩
            · generalize exec o f ⟨base + k, c'.trace⟩ = r2 at hk2 hd2
              obtain ⟨c2, oc2⟩ := r2
              cases oc2 <;> exact joinS_left hs _ (joinS_right hp12 _ hk2)
            · generalize exec o f ⟨base + k, c'.trace⟩ = r2 at hk2 hd2
              obtain ⟨c2, oc2⟩ := r2
              cases oc2 <;> exact hd2
          | raised =>
            obtain ⟨k2, hk2, hd2⟩ := finPart_sound ihf hp3 (by simpa [Summ.get] using hk) base c'.trace
            refine ⟨k2, ?_, ?_⟩
            · generalize exec o f ⟨base + k, c'.trace⟩ = r2 at hk2 hd2
              obtain ⟨c2, oc2⟩ := r2
              cases oc2 <;> exact joinS_right hs _ hk2
            · generalize exec o f ⟨base + k, c'.trace⟩ = r2 at hk2 hd2
              obtain ⟨c2, oc2⟩ := r2
              cases oc2 <;> exact hd2
      · simp at hs
  | tryExcept b hd' ihb ihh =>
    intro h σ hs base tr
    simp only [analyze] at hs
    split at hs
    · simp at hs
    · next sb hsb =>
      obtain ⟨k, hk, hd⟩ := ihb h sb hsb base tr
      simp only [exec]
      generalize exec o b ⟨base + h, tr⟩ = r at hk hd
      obtain ⟨c', oc⟩ := r
      split at hs
      · next hn =>
        simp at hs; subst hs
        cases oc with
        | normal => exact ⟨k, hk, hd⟩
        | returned => exact ⟨k, hk, hd⟩
        | raised => simp [Summ.get, hn] at hk
      · next he hn =>
        split at hs
        · simp at hs
        · next sh hsh =>
          cases oc with
          | normal => exact ⟨k, joinS_left hs .normal (by simpa [Summ.get] using hk), hd⟩
          | returned => exact ⟨k, joinS_left hs .returned (by simpa [Summ.get] using hk), hd⟩
          | raised =>
            simp only [Summ.get, hn] at hk
            simp at hk; subst hk
            simp only at hd
            rw [cfg_eta c', hd]
            obtain ⟨k2, hk2, hd2⟩ := ihh he sh hsh base c'.trace
            exact ⟨k2, joinS_right hs _ hk2, hd2⟩

theorem optIs_get {x : Option Nat} {k j : Nat} (h : optIs x k = true) (hx : x = some j) : j = k := by
  subst hx; simpa [optIs] using h

end Pyr.Skel
