import PyramidModel.Lemmas.UrlGen
import PyramidModel.Lemmas.Route
/-! C06 helper lemmas, part 2: the generated text decodes to the intended path; the intended path has the intended
reading (`Splits`, C01's declarative spec).  Property theorems are in `Props/C06.lean`. -/
namespace Pyr.UrlGen

open Pyr Pyr.Trav Pyr.Pct Pyr.Route
open Pyr.Rx (Rx Ucd Lang)

/-! ### the language of the default placeholder -/

theorem setHas_slash (u : Ucd) (c : Char) : Rx.SetHas u [Rx.CItem.ch '/'] c ↔ c = '/' := by
  unfold Rx.SetHas
  simp [Rx.CItem.test]

theorem lang_notSlash (u : Ucd) (w : Text) : Lang u (.set true [Rx.CItem.ch '/']) w ↔ ∃ c, w = [c] ∧ c ≠ '/' := by
  simp only [Lang, if_true, setHas_slash]

theorem pow_notSlash (u : Ucd) : ∀ (k : Nat) (w : Text), Rx.Pow (Lang u (.set true [Rx.CItem.ch '/'])) k w →
    (∀ c ∈ w, c ≠ '/') ∧ w.length = k
  | 0, w, h => by simp only [Rx.Pow] at h; subst h; simp
  | k + 1, w, h => by
    obtain ⟨x, y, rfl, hx, hy⟩ := h
    obtain ⟨c, rfl, hc⟩ := (lang_notSlash u x).mp hx
    obtain ⟨h1, h2⟩ := pow_notSlash u k y hy
    refine ⟨?_, by simp [h2]⟩
    intro d hd
    simp only [List.cons_append, List.nil_append, List.mem_cons] at hd
    rcases hd with rfl | hd
    · exact hc
    · exact h1 d hd

theorem notSlash_pow (u : Ucd) : ∀ (w : Text), (∀ c ∈ w, c ≠ '/') → Rx.Pow (Lang u (.set true [Rx.CItem.ch '/'])) w.length w
  | [], _ => rfl
  | c :: w, h =>
    ⟨[c], w, rfl, (lang_notSlash u [c]).mpr ⟨c, rfl, h c (by simp)⟩, notSlash_pow u w (fun d hd => h d (by simp [hd]))⟩

/-- `[^/]+` is the set of non-empty texts without `/` -/
theorem lang_notSlashPlus (u : Ucd) (w : Text) : Lang u Rx.notSlashPlus w ↔ w ≠ [] ∧ '/' ∉ w := by
  simp only [Rx.notSlashPlus, Lang]
  constructor
  · rintro ⟨k, hk, _, hp⟩
    obtain ⟨h1, h2⟩ := pow_notSlash u k w hp
    refine ⟨?_, fun hm => h1 '/' hm rfl⟩
    intro e; subst e; simp at h2; omega
  · rintro ⟨hne, hns⟩
    refine ⟨w.length, ?_, by simp, notSlash_pow u w (fun c hc e => hns (e ▸ hc))⟩
    cases w with
    | nil => exact absurd rfl hne
    | cons _ _ => simp

/-! ### inversion of `Splits` with the path as a variable -/

theorem splits_nil_inv {u : Ucd} {R : Text → Prop} {p : Text} {e : Env} (h : Splits u R [] p e) : p = [] ∧ e = [] := by
  cases h; exact ⟨rfl, rfl⟩

theorem splits_lit_inv {u : Ucd} {R : Text → Prop} {l : Text} {ts : List Tok} {p : Text} {e : Env}
    (h : Splits u R (.lit l :: ts) p e) : ∃ p', p = l ++ p' ∧ Splits u R ts p' e := by
  cases h with
  | lit h' => exact ⟨_, rfl, h'⟩

theorem splits_ph_inv {u : Ucd} {R : Text → Prop} {n : Text} {rx : Rx} {ts : List Tok} {p : Text} {e : Env}
    (h : Splits u R (.ph n rx :: ts) p e) :
    ∃ c p' e', p = c ++ p' ∧ e = (n, .str c) :: e' ∧ Lang u rx c ∧ Splits u R ts p' e' := by
  cases h with
  | ph hl h' => exact ⟨_, _, _, rfl, rfl, hl, h'⟩

theorem splits_rest_inv {u : Ucd} {R : Text → Prop} {n : Text} {ts : List Tok} {p : Text} {e : Env}
    (h : Splits u R (.rest n :: ts) p e) :
    ∃ c p' e', p = c ++ p' ∧ e = (n, .segs (splitPathInfo c)) :: e' ∧ R c ∧ Splits u R ts p' e' := by
  cases h with
  | rest hr h' => exact ⟨_, _, _, rfl, rfl, hr, h'⟩

/-! ### the dictionary, by key -/

theorem newDict_some (rem : Option Text) : ∀ (kw : Kw) (nd : List (Text × Text)), newDict rem kw = .ok nd →
    ∀ n v, kw.lookup n = some v → ∃ q, quoteVal rem n v = .ok q ∧ nd.lookup n = some q
  | [], nd, _, n, v, hl => by simp [List.lookup] at hl
  | (k, v0) :: rest, nd, h, n, v, hl => by
    simp only [newDict] at h
    cases hq : quoteVal rem k v0 with
    | error e => rw [hq] at h; cases h
    | ok q =>
      rw [hq] at h
      cases hr : newDict rem rest with
      | error e => rw [hr] at h; cases h
      | ok d =>
        rw [hr] at h
        cases h
        by_cases e : n = k
        · subst e
          simp only [List.lookup, beq_self_eq_true, Option.some.injEq] at hl
          subst hl
          exact ⟨q, hq, by simp [List.lookup]⟩
        · have hb : (n == k) = false := by simpa using e
          simp only [List.lookup, hb] at hl ⊢
          exact newDict_some rem rest d hr n v hl

theorem newDict_none (rem : Option Text) : ∀ (kw : Kw) (nd : List (Text × Text)), newDict rem kw = .ok nd →
    ∀ n, kw.lookup n = none → nd.lookup n = none
  | [], nd, h, n, _ => by simp only [newDict] at h; cases h; rfl
  | (k, v0) :: rest, nd, h, n, hl => by
    simp only [newDict] at h
    cases hq : quoteVal rem k v0 with
    | error e => rw [hq] at h; cases h
    | ok q =>
      rw [hq] at h
      cases hr : newDict rem rest with
      | error e => rw [hr] at h; cases h
      | ok d =>
        rw [hr] at h
        cases h
        by_cases e : n = k
        · subst e; simp [List.lookup] at hl
        · have hb : (n == k) = false := by simpa using e
          simp only [List.lookup, hb] at hl ⊢
          exact newDict_none rem rest d hr n hl

/-- the quoted text of a value whose decoded text is `t` -/
theorem quoteVal_text (rem : Option Text) (n : Text) (v : KVal) (t q : Text) (ht : restText v = some t)
    (hq : quoteVal rem n v = .ok q) : q = quote valSafe t := by
  cases v with
  | one a =>
    simp only [restText] at ht
    simp only [quoteVal, qAtom, ht] at hq
    cases hq; rfl
  | many xs =>
    simp only [restText] at ht
    cases hs : atomTexts xs with
    | none => simp [hs] at ht
    | some ts =>
      simp only [hs, Option.map_some, Option.some.injEq] at ht
      subst ht
      simp only [quoteVal] at hq
      split at hq
      · rw [qAtoms_ok xs ts hs] at hq
        cases hq
        exact join_quoted ts
      · cases hq

/-! ### the generated text decodes to the intended path -/

theorem utf8Enc_nil : utf8Enc [] = [] := rfl

/-- token-wise substitution succeeds whenever the intended path is defined, and its result percent-decodes to the
UTF-8 bytes of that path -/
theorem subst_decodes (rem : Option Text) (kw : Kw) (nd : List (Text × Text)) (hnd : newDict rem kw = .ok nd) :
    ∀ (toks : List Tok) (I : Text), intended kw toks = some I →
      ∃ P, substToks nd toks = .ok P ∧ Decodes P (utf8Enc I)
  | [], I, h => by
    simp only [intended, Option.some.injEq] at h
    subst h
    exact ⟨[], rfl, decodes_nil⟩
  | .lit l :: ts, I, h => by
    simp only [intended] at h
    cases hi : intended kw ts with
    | none => simp [hi] at h
    | some I' =>
      simp only [hi, Option.map_some, Option.some.injEq] at h
      subst h
      obtain ⟨P, hP, hD⟩ := subst_decodes rem kw nd hnd ts I' hi
      refine ⟨quote litSafe l ++ P, by simp [substToks, hP], ?_⟩
      rw [utf8Enc_append]
      exact (decodes_quote litSafe litSafe_ok l).append hD
  | .ph n rx :: ts, I, h => by
    simp only [intended] at h
    cases hl : kw.lookup n with
    | none => simp [hl] at h
    | some v =>
      cases v with
      | many xs => simp [hl] at h
      | one a =>
        simp only [hl] at h
        cases ha : atomText a with
        | none => simp [ha] at h
        | some t =>
          cases hi : intended kw ts with
          | none => simp [ha, hi] at h
          | some I' =>
            simp only [ha, hi, Option.some.injEq] at h
            subst h
            obtain ⟨P, hP, hD⟩ := subst_decodes rem kw nd hnd ts I' hi
            obtain ⟨q, hq, hlk⟩ := newDict_some rem kw nd hnd n _ hl
            have hqe := quoteVal_text rem n (.one a) t q (by simp [restText, ha]) hq
            subst hqe
            refine ⟨quote valSafe t ++ P, by simp [substToks, hlk, hP], ?_⟩
            rw [utf8Enc_append]
            exact (decodes_quote valSafe valSafe_ok t).append hD
  | .rest n :: ts, I, h => by
    simp only [intended] at h
    cases hl : kw.lookup n with
    | none => simp [hl] at h
    | some v =>
      simp only [hl] at h
      cases ht : restText v with
      | none => simp [ht] at h
      | some t =>
        cases hi : intended kw ts with
        | none => simp [ht, hi] at h
        | some I' =>
          simp only [ht, hi, Option.some.injEq] at h
          subst h
          obtain ⟨P, hP, hD⟩ := subst_decodes rem kw nd hnd ts I' hi
          obtain ⟨q, hq, hlk⟩ := newDict_some rem kw nd hnd n _ hl
          have hqe := quoteVal_text rem n v t q ht hq
          subst hqe
          refine ⟨quote valSafe t ++ P, by simp [substToks, hlk, hP], ?_⟩
          rw [utf8Enc_append]
          exact (decodes_quote valSafe valSafe_ok t).append hD

/-! ### the intended path has the intended reading -/

theorem cleanSeg_iff (s : Text) : cleanSeg s = true ↔ (s ≠ [] ∧ s ≠ ['.'] ∧ s ≠ ['.', '.']) ∧ '/' ∉ s := by
  simp [cleanSeg]
  constructor
  · rintro ⟨⟨⟨a, b⟩, c⟩, d⟩; exact ⟨⟨a, c, d⟩, b⟩
  · rintro ⟨⟨a, c, d⟩, b⟩; exact ⟨⟨⟨a, b⟩, c⟩, d⟩

/-- a sequence of clean segments, joined with `/`, splits back into itself -/
theorem split_joined (ts : List Text) (h : ts.all cleanSeg = true) : splitPathInfo (joinWith '/' ts) = ts := by
  cases ts with
  | nil => decide
  | cons x xs =>
    have hc : ∀ s ∈ x :: xs, (s ≠ [] ∧ s ≠ ['.'] ∧ s ≠ ['.', '.']) ∧ '/' ∉ s := fun s hs =>
      (cleanSeg_iff s).mp (List.all_eq_true.mp h s hs)
    have hs := splitOn_joinWith '/' (x :: xs) (by simp) (fun s hs => (hc s hs).2)
    rw [splitPathInfo_eq, hs]
    exact normSegs_of_clean _ (fun s hs => (hc s hs).1)

theorem intended_splits (u : Ucd) (kw : Kw) : ∀ (toks : List Tok) (I : Text) (E : Env),
    sepOk kw toks = true → intended kw toks = some I → expectEnv kw toks = some E →
      Splits u (fun _ => True) toks I E
  | [], I, E, _, hi, he => by
    simp only [intended, Option.some.injEq] at hi
    simp only [expectEnv, Option.some.injEq] at he
    subst hi; subst he
    exact .nil
  | .lit l :: ts, I, E, hs, hi, he => by
    simp only [intended] at hi
    cases hi' : intended kw ts with
    | none => simp [hi'] at hi
    | some I' =>
      simp only [hi', Option.map_some, Option.some.injEq] at hi
      subst hi
      exact .lit (intended_splits u kw ts I' E (by simpa [sepOk] using hs) hi'
        (by simpa [expectEnv] using he))
  | .ph n rx :: ts, I, E, hs, hi, he => by
    simp only [sepOk, Bool.and_eq_true, decide_eq_true_eq] at hs
    obtain ⟨⟨⟨hrx, hv⟩, _⟩, hts⟩ := hs
    subst hrx
    simp only [intended] at hi
    simp only [expectEnv] at he
    cases hl : kw.lookup n with
    | none => simp [hl] at hi
    | some v =>
      cases v with
      | many xs => simp [hl] at hi
      | one a =>
        simp only [hl] at hi he hv
        cases ha : atomText a with
        | none => simp [ha] at hi
        | some t =>
          simp only [phValueOk, ha, Bool.and_eq_true, decide_eq_true_eq, Bool.not_eq_true', List.contains_eq_mem,
            decide_eq_false_iff_not] at hv
          cases hi' : intended kw ts with
          | none => simp [ha, hi'] at hi
          | some I' =>
            cases he' : expectEnv kw ts with
            | none => simp [expectVal, ha, he'] at he
            | some E' =>
              simp only [ha, hi', Option.some.injEq] at hi
              simp only [expectVal, ha, Option.map_some, he', Option.some.injEq] at he
              subst hi; subst he
              exact .ph ((lang_notSlashPlus u t).mpr ⟨hv.1, hv.2⟩)
                (intended_splits u kw ts I' E' hts hi' he')
  | .rest n :: ts, I, E, hs, hi, he => by
    simp only [sepOk, Bool.and_eq_true, List.isEmpty_iff] at hs
    obtain ⟨hts, hv⟩ := hs
    subst hts
    simp only [intended] at hi
    simp only [expectEnv] at he
    cases hl : kw.lookup n with
    | none => simp [hl] at hi
    | some v =>
      simp only [hl] at hi he hv
      cases ht : restText v with
      | none => simp [ht] at hi
      | some t =>
        simp only [ht, Option.some.injEq] at hi
        have hi : I = t ++ [] := by simpa using hi.symm
        subst hi
        have hx : expectVal (.rest n) v = some (.segs (splitPathInfo t)) := by
          cases v with
          | one a =>
            simp only [restText] at ht
            simp [expectVal, ht]
          | many xs =>
            simp only [restText] at ht
            cases hxs : atomTexts xs with
            | none => simp [hxs] at ht
            | some tl =>
              simp only [hxs, Option.map_some, Option.some.injEq] at ht
              subst ht
              simp only [restValueOk, hxs] at hv
              simp [expectVal, hxs, split_joined tl hv]
        simp only [hx, Option.some.injEq] at he
        subst he
        exact .rest trivial .nil

end Pyr.UrlGen
