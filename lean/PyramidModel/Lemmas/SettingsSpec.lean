import PyramidModel.SettingsModel
/-!
X02 — the declarative reading of `Settings` (docs/narr/environment.rst), written independently of the model's
statement list: a TABLE of documented settings (name, environment variable, kind, default, the switches that imply it) and
a four-level precedence.  Executable (the driver prints it next to the model's answer); core Lean only.
-/
namespace Pyr.Settings

instance {α} [DecidableEq α] : DecidableEq (Except Err α) := fun a b =>
  match a, b with
  | .ok x, .ok y => if h : x = y then isTrue (by rw [h]) else isFalse (fun e => h (Except.ok.inj e))
  | .error x, .error y => if h : x = y then isTrue (by rw [h]) else isFalse (fun e => h (Except.error.inj e))
  | .ok _, .error _ => isFalse (fun e => by cases e)
  | .error _, .ok _ => isFalse (fun e => by cases e)

/-- one documented setting -/
structure Entry where
  row : Row
  /-- the names of the settings that, when true, turn this one on -/
  impliedBy : List Text
deriving DecidableEq, Repr

def bE (name env : String) (implied : List String) : Entry :=
  ⟨⟨s name, s env, .bool, .bool false⟩, implied.map s⟩

/-- environment.rst, one entry per section (plus `debug_templates` and `csrf_trusted_origins`, which the code reads but
the chapter does not list) -/
def table : List Entry := [
  bE "debug_all" "PYRAMID_DEBUG_ALL" [],
  bE "debug_authorization" "PYRAMID_DEBUG_AUTHORIZATION" ["debug_all"],
  bE "debug_notfound" "PYRAMID_DEBUG_NOTFOUND" ["debug_all"],
  bE "debug_routematch" "PYRAMID_DEBUG_ROUTEMATCH" ["debug_all"],
  bE "debug_templates" "PYRAMID_DEBUG_TEMPLATES" ["debug_all"],
  bE "reload_all" "PYRAMID_RELOAD_ALL" [],
  bE "reload_templates" "PYRAMID_RELOAD_TEMPLATES" ["reload_all"],
  bE "reload_assets" "PYRAMID_RELOAD_ASSETS" ["reload_all", "reload_resources"],
  bE "reload_resources" "PYRAMID_RELOAD_RESOURCES" ["reload_all", "reload_assets"],
  ⟨⟨s "default_locale_name", s "PYRAMID_DEFAULT_LOCALE_NAME", .str, .str (s "en")⟩, []⟩,
  bE "prevent_http_cache" "PYRAMID_PREVENT_HTTP_CACHE" [],
  bE "prevent_cachebust" "PYRAMID_PREVENT_CACHEBUST" [],
  ⟨⟨s "csrf_trusted_origins", s "PYRAMID_CSRF_TRUSTED_ORIGINS", .list, .list []⟩, []⟩]

/-- the highest-precedence source present: environment variable, then `pyramid.<name>`, then `<name>`, then the default -/
def specSource (r : Row) (d : Dict) (env : Env) : Val :=
  match eget env r.env with
  | some t => .str t
  | none =>
    match get d (pfx ++ r.name) with
    | some v => v
    | none =>
      match get d r.name with
      | some v => v
      | none => r.default

/-- is the switch `n` on (by its own sources)? -/
def switchOn (tbl : List Entry) (d : Dict) (env : Env) (n : Text) : Bool :=
  match tbl.find? (fun e => e.row.name = n) with
  | some e => asbool (specSource e.row d env)
  | none => false

/-- the value of a setting given its highest-precedence source and whether one of its switches is on -/
def valueFrom (e : Entry) (src : Val) (switches : Bool) : Except Err Val :=
  match e.row.kind with
  | .bool => .ok (.bool (asbool src || switches))
  | k => conv k src

/-- the effective value of a documented setting -/
def effective (tbl : List Entry) (e : Entry) (d : Dict) (env : Env) : Except Err Val :=
  valueFrom e (specSource e.row d env) (e.impliedBy.any (switchOn tbl d env))

/-- the entry a key spells (un-prefixed or `pyramid.`-prefixed) -/
def entryOf (tbl : List Entry) (k : Text) : Option Entry :=
  tbl.find? fun e => k = e.row.name || k = pfx ++ e.row.name

/-- what the result holds under key `k`: the effective value under both spellings, everything else as given -/
def specGet (tbl : List Entry) (d : Dict) (env : Env) (k : Text) : Option Val :=
  match entryOf tbl k with
  | none => get d k
  | some e => match effective tbl e d env with
    | .ok v => some v
    | .error _ => none

/-- `Settings` raises (TypeError) exactly when a list-valued setting is given something that is not iterable -/
def specRaises (tbl : List Entry) (d : Dict) (env : Env) : Bool :=
  tbl.any fun e => match effective tbl e d env with | .ok _ => false | .error _ => true

/-- the keys of the result, in order: those of the input, then the un-prefixed / prefixed spelling of every entry not yet there -/
def specKeys (tbl : List Entry) (d : Dict) : List Text :=
  tbl.foldl (fun ks e => (expandKey e.row.name).foldl (fun ks k => if ks.contains k then ks else ks ++ [k]) ks) (d.map (·.1))

/-- the whole result as the reading gives it -/
def specSettings (tbl : List Entry) (d : Dict) (env : Env) : Except Err Dict :=
  if specRaises tbl d env then .error .typeError
  else .ok ((specKeys tbl d).filterMap fun k => (specGet tbl d env k).map fun v => (k, v))

end Pyr.Settings
