/-
The hand-written pipeline model seen through the same observation alphabet as the generated skeletons: its own log,
projected to (role, raised) events, is accepted by the callback-order monitor `Pyr.Skel.cbOrderStep` that every
execution of the generated `Router.__call__` skeleton is accepted by.  Core Lean only.
-/
import PyramidModel.Lemmas.Pipeline
import PyramidModel.Lemmas.SkeletonMonitor

namespace Pyr.Pipeline
open Pyr.Skel (cbOrderStep)

/-- the observation of a pipeline event in the skeleton's alphabet: role 0 = the chain was called (raised = no
response came out), 1 = a response callback, 2 = NewResponse, 3 = a finished callback; flag = it raised -/
def obsOf (cfg : Cfg) : Ev → Option (Nat × Bool)
  | .chain b => some (0, !b)
  | .cb .resp i _ _ => some (1, cbFaulty cfg i)
  | .hook .newResponse _ _ => some (2, (faultOf cfg .newResponse).isSome)
  | .cb .fin i _ _ => some (3, cbFaulty cfg i)
  | _ => none

def proj (cfg : Cfg) (evs : List Ev) : List (Nat × Bool) := evs.filterMap (obsOf cfg)

/-- the model has no event for "finish_request looks at the deque" (role 11): it always does, right before the first
finished callback, or at the very end when there is none -/
def withFinish : List (Nat × Bool) → List (Nat × Bool)
  | [] => [(11, false)]
  | (r, b) :: rest => if r = 3 then (11, false) :: (r, b) :: rest else (r, b) :: withFinish rest

/-- run the callback-order monitor (all events at the expected height) over an observation sequence -/
def accepts : Nat → List (Nat × Bool) → Option Nat
  | q, [] => some q
  | q, (r, b) :: rest =>
    match cbOrderStep 0 q r 0 b with
    | none => none
    | some q' => accepts q' rest

theorem accepts_append (q : Nat) (a b : List (Nat × Bool)) :
    accepts q (a ++ b) = (accepts q a).bind (fun q' => accepts q' b) := by
  induction a generalizing q with
  | nil => rfl
  | cons x xs ih =>
    obtain ⟨r, f⟩ := x
    simp only [List.cons_append, accepts]
    cases cbOrderStep 0 q r 0 f with
    | none => rfl
    | some q' => exact ih q'

theorem withFinish_append (a t : List (Nat × Bool)) (ha : ∀ x ∈ a, x.1 ≠ 3) (ht : ∀ x ∈ t, x.1 = 3) :
    withFinish (a ++ t) = a ++ (11, false) :: t := by
  induction a with
  | nil =>
    cases t with
    | nil => rfl
    | cons x xs =>
      obtain ⟨r, b⟩ := x
      have : r = 3 := ht (r, b) List.mem_cons_self
      subst this
      simp [withFinish]
  | cons x xs ih =>
    obtain ⟨r, b⟩ := x
    have hr : r ≠ 3 := ha (r, b) List.mem_cons_self
    simp only [List.cons_append, withFinish, hr, ↓reduceIte]
    rw [ih (fun y hy => ha y (List.mem_cons_of_mem _ hy))]

def respObs (cfg : Cfg) : Option Nat → Nat × Bool
  | some i => (1, cbFaulty cfg i)
  | none => (2, (faultOf cfg .newResponse).isSome)

theorem proj_stage (cfg : Cfg) {l : List Ev} (h : ∀ e ∈ l, e.isStage = true ∧ e.curOk = true) : proj cfg l = [] := by
  induction l with
  | nil => rfl
  | cons e rest ih =>
    have he := (h e List.mem_cons_self).1
    have := ih (fun x hx => h x (List.mem_cons_of_mem _ hx))
    simp only [proj] at this ⊢
    cases e with
    | hook p c d => cases p <;> simp_all [Ev.isStage, obsOf]
    | cb k i c d => simp [Ev.isStage] at he
    | chain b => simp [Ev.isStage] at he
    | reg k i => simpa [obsOf] using this
    | resume c d => simpa [obsOf] using this
    | sub i => simpa [obsOf] using this

theorem proj_post (cfg : Cfg) {l : List Ev}
    (h : ∀ e ∈ l, e.isFinCb = false ∧ e.isChain = false ∧ e.curOk = true) :
    proj cfg l = (respTrace l).map (respObs cfg) := by
  induction l with
  | nil => rfl
  | cons e rest ih =>
    have he := h e List.mem_cons_self
    have := ih (fun x hx => h x (List.mem_cons_of_mem _ hx))
    simp only [proj, respTrace] at this ⊢
    cases e with
    | hook p c d =>
      cases p <;> simp only [List.filterMap_cons, obsOf, respItem, List.map_cons, respObs] <;>
        first | exact this | exact congrArg _ this
    | cb k i c d =>
      cases k with
      | resp =>
        simp only [List.filterMap_cons, obsOf, respItem, List.map_cons, respObs]
        exact congrArg _ this
      | fin => simp [Ev.isFinCb] at he
    | chain b => simp [Ev.isChain] at he
    | reg k i => simp only [List.filterMap_cons, obsOf, respItem]; exact this
    | resume c d => simp only [List.filterMap_cons, obsOf, respItem]; exact this
    | sub i => simp only [List.filterMap_cons, obsOf, respItem]; exact this

theorem proj_tail (cfg : Cfg) {l : List Ev} (h : ∀ e ∈ l, e.isCbOrReg .fin = true ∧ e.curOk = true) :
    proj cfg l = (cbIds .fin l).map (fun i => (3, cbFaulty cfg i)) := by
  induction l with
  | nil => rfl
  | cons e rest ih =>
    have he := (h e List.mem_cons_self).1
    have := ih (fun x hx => h x (List.mem_cons_of_mem _ hx))
    simp only [proj, cbIds] at this ⊢
    cases e with
    | cb k i c d =>
      cases k with
      | resp => simp [Ev.isCbOrReg] at he
      | fin =>
        simp only [List.filterMap_cons, obsOf, cbId, ↓reduceIte, List.map_cons]
        exact congrArg _ this
    | reg k i => simp only [List.filterMap_cons, obsOf, cbId]; exact this
    | _ => simp [Ev.isCbOrReg] at he

theorem cbIds_length_le (k : CbKind) (l : List Ev) : (cbIds k l).length ≤ l.length := by
  simp only [cbIds]; exact List.length_filterMap_le _ _

/-- the response phase, from "a response left the chain", ends in "NewResponse sent" or "an observed event failed" -/
theorem accepts_resp (cfg : Cfg) (ids : List Nat) :
    accepts 1 ((expectedResp cfg ids).map (respObs cfg)) = some 2 ∨
    accepts 1 ((expectedResp cfg ids).map (respObs cfg)) = some 4 := by
  induction ids with
  | nil =>
    simp only [expectedResp, List.map_cons, List.map_nil, respObs, accepts]
    cases (faultOf cfg .newResponse).isSome <;> simp [cbOrderStep, accepts]
  | cons i rest ih =>
    simp only [expectedResp]
    rcases Bool.eq_false_or_eq_true (cbFaulty cfg i) with hf | hf
    · simp [hf, respObs, accepts, cbOrderStep]
    · simp only [hf, Bool.false_eq_true, ↓reduceIte, List.map_cons, respObs, accepts]
      simp only [cbOrderStep, bne_self_eq_false, Bool.false_eq_true, ↓reduceIte]
      exact ih

/-- the finished callbacks, from any state in which finish_request has been reached and no finished callback has
failed, keep the monitor alive -/
theorem accepts_fin (cfg : Cfg) (ids : List Nat) (s : Nat) (hs : s = 12 ∨ s = 13 ∨ s = 14 ∨ s = 15 ∨ s = 11 ∨ s = 10) :
    ∃ s', accepts s ((throughFault cfg ids).map (fun i => (3, cbFaulty cfg i))) = some s' ∧ 10 ≤ s' := by
  induction ids generalizing s with
  | nil => exact ⟨s, rfl, by omega⟩
  | cons i rest ih =>
    simp only [throughFault]
    rcases Bool.eq_false_or_eq_true (cbFaulty cfg i) with hf | hf
    · simp only [hf, ↓reduceIte, List.map_cons, List.map_nil, accepts]
      rcases hs with h | h | h | h | h | h <;> subst h <;> exact ⟨16, by simp [cbOrderStep, accepts], by omega⟩
    · simp only [hf, Bool.false_eq_true, ↓reduceIte, List.map_cons, accepts]
      rcases hs with h | h | h | h | h | h <;> subst h <;>
        simp only [cbOrderStep, bne_self_eq_false, Bool.false_eq_true, ↓reduceIte, Nat.reduceDiv, Nat.reduceMod,
          Nat.reduceBEq, Bool.or_self, Bool.or_false, Bool.false_or, beq_self_eq_true] <;>
        first
          | exact ih 13 (by simp)
          | exact ih 15 (by simp)

/-- **The pipeline model's own log is accepted by the monitor of the generated skeleton**, for every request tree,
schedule and entry stack (with fewer than `drainFuel` events, so that the model's callback loops ended by themselves),
and finish_request is always reached. -/
theorem pipeline_accepted (xv top : Bool) (r : Req) (self : Path) (stack0 : List Path)
    (hfuel : (runReq xv top r self stack0).1.own.length < drainFuel) :
    ∃ q, accepts 0 (withFinish (proj r.cfg (runReq xv top r self stack0).1.own)) = some q ∧ 10 ≤ q := by
  obtain ⟨pre, b, rp, np, tail, heq, hpre, hrp, hnp, hb, hresp, htail, hfin⟩ := (runReq_props xv top r self stack0).2.1
  rw [heq] at hfuel ⊢
  have hlen : ∀ (k : CbKind) (l : List Ev), l.length ≤ (pre ++ Ev.chain b :: (rp ++ np ++ tail)).length →
      (cbIds k l).length < drainFuel := fun k l h => Nat.lt_of_le_of_lt (Nat.le_trans (cbIds_length_le k l) h) hfuel
  have hpost : ∀ e ∈ rp ++ np, e.isFinCb = false ∧ e.isChain = false ∧ e.curOk = true := by
    intro e he
    rcases List.mem_append.mp he with h | h
    · have := hrp e h
      cases e with
      | cb k i c d => cases k <;> simp_all [Ev.isCbOrReg, Ev.isFinCb, Ev.isChain]
      | reg k i => simp_all [Ev.isFinCb, Ev.isChain]
      | _ => simp [Ev.isCbOrReg] at this
    · rcases hnp with h0 | ⟨d, regEvs, h0, hreg⟩
      · subst h0; cases h
      · subst h0
        rcases List.mem_cons.mp h with h | h
        · subst h; simp [Ev.isFinCb, Ev.isChain, Ev.curOk]
        · have := hreg e h
          cases e <;> simp_all [Ev.isReg, Ev.isFinCb, Ev.isChain, Ev.curOk]
  have hsplit : proj r.cfg (pre ++ Ev.chain b :: (rp ++ np ++ tail)) =
      ((0, !b) :: (respTrace (rp ++ np)).map (respObs r.cfg)) ++ (cbIds .fin tail).map (fun i => (3, cbFaulty r.cfg i)) := by
    have h1 := proj_stage r.cfg hpre
    have h2 := proj_post r.cfg hpost
    have h3 := proj_tail r.cfg htail
    simp only [proj] at h1 h2 h3 ⊢
    rw [List.filterMap_append, h1, List.filterMap_cons_some (by rfl), List.filterMap_append, h2, h3]
    simp
  rw [hsplit, withFinish_append]
  · rw [accepts_append, hfin (hlen .fin tail (by simp; omega))]
    cases b with
    | false =>
      obtain ⟨h1, h2⟩ := hb rfl
      subst h1; subst h2
      simp only [List.append_nil, respTrace, List.filterMap_nil, List.map_nil, Bool.not_false, accepts, cbOrderStep,
        bne_self_eq_false, Bool.false_eq_true, ↓reduceIte, Nat.reduceDiv, Nat.reduceMod, Nat.reduceBEq, Option.bind_some]
      exact accepts_fin r.cfg _ 14 (by simp)
    | true =>
      rw [hresp rfl (hlen .resp rp (by simp; omega))]
      simp only [Bool.not_true, accepts, cbOrderStep, bne_self_eq_false, Bool.false_eq_true, ↓reduceIte,
        Nat.reduceDiv, Nat.reduceMod, Nat.reduceBEq]
      rcases accepts_resp r.cfg (regsOf .resp (pre ++ rp)) with h | h
      · rw [h]
        simp only [Option.bind_some, accepts, cbOrderStep, bne_self_eq_false, Bool.false_eq_true, ↓reduceIte,
          Nat.reduceDiv, Nat.reduceMod, Nat.reduceBEq, beq_self_eq_true]
        exact accepts_fin r.cfg _ 12 (by simp)
      · rw [h]
        simp only [Option.bind_some, accepts, cbOrderStep, bne_self_eq_false, Bool.false_eq_true, ↓reduceIte,
          Nat.reduceDiv, Nat.reduceMod, Nat.reduceBEq, beq_self_eq_true]
        exact accepts_fin r.cfg _ 14 (by simp)
  · intro x hx
    rcases List.mem_cons.mp hx with h | h
    · subst h; simp
    · obtain ⟨y, _, hy⟩ := List.mem_map.mp h
      subst hy
      cases y <;> simp [respObs]
  · intro x hx
    obtain ⟨i, _, hi⟩ := List.mem_map.mp hx
    subst hi; rfl

end Pyr.Pipeline
