/-
X03 — `loads (dumps v) = v`: the JSON reader of the spec inverts the encoder of the model; adapter resolution.
-/
import PyramidModel.Lemmas.RenderersSpec
import PyramidModel.Lemmas.HttpExcJson

namespace Pyr.Render
open Pyr.HttpExc (readJsonString skipWs jsonStr readJsonString_jsonStr skipWs_jsonStr)

/-! ### integers -/

def noDigitHead : Text → Bool
  | [] => true
  | c :: _ => !isDigit c

theorem digitChar_facts : ∀ d, d < 10 →
    isDigit (digitChar d) = true ∧ (digitChar d).toNat - 48 = d ∧ digitChar d ≠ '"' ∧ digitChar d ≠ '[' ∧
    digitChar d ≠ '{' ∧ digitChar d ≠ 'n' ∧ digitChar d ≠ 't' ∧ digitChar d ≠ 'f' ∧ digitChar d ≠ '-' ∧
    digitChar d ≠ ' ' ∧ digitChar d ≠ '\n' ∧ digitChar d ≠ '\r' ∧ digitChar d ≠ '\t' ∧ digitChar d ≠ ']' ∧ digitChar d ≠ '}' := by
  decide

theorem readDigits_digit (d : Nat) (hd : d < 10) (r : Text) (acc : Nat) :
    readDigits (digitChar d :: r) acc = readDigits r (acc * 10 + d) := by
  have h := digitChar_facts d hd
  simp [readDigits, h.1, h.2.1]

theorem readDigits_stop (rest : Text) (acc : Nat) (h : noDigitHead rest = true) : readDigits rest acc = (acc, rest) := by
  cases rest with
  | nil => rfl
  | cons c r =>
    simp only [noDigitHead, Bool.not_eq_true'] at h
    simp [readDigits, h]

theorem readDigits_decDigits (n : Nat) : ∀ (acc : Nat) (rest : Text),
    readDigits (decDigits n ++ rest) acc = readDigits rest (acc * 10 ^ (decDigits n).length + n) := by
  fun_induction decDigits n with
  | case1 n h =>
    intro acc rest
    simp [readDigits_digit n h]
  | case2 n h ih =>
    intro acc rest
    rw [List.append_assoc, ih]
    simp only [List.cons_append, List.nil_append, List.length_append, List.length_cons, List.length_nil]
    rw [readDigits_digit _ (Nat.mod_lt _ (by omega))]
    congr 1
    rw [Nat.pow_succ]
    have := Nat.div_add_mod n 10
    rw [Nat.add_mul, Nat.mul_assoc]
    omega

theorem decDigits_head (n : Nat) : ∃ d tl, d < 10 ∧ decDigits n = digitChar d :: tl := by
  fun_induction decDigits n with
  | case1 n h => exact ⟨n, [], h, rfl⟩
  | case2 n h ih =>
    obtain ⟨d, tl, hd, he⟩ := ih
    exact ⟨d, tl ++ [digitChar (n % 10)], hd, by rw [he]; rfl⟩

theorem readDigits_whole (n : Nat) (rest : Text) (h : noDigitHead rest = true) :
    readDigits (decDigits n ++ rest) 0 = (n, rest) := by
  rw [readDigits_decDigits, readDigits_stop _ _ h]; simp

theorem readInt_dumpsInt (i : Int) (rest : Text) (h : noDigitHead rest = true) :
    readInt (dumpsInt i ++ rest) = some (i, rest) := by
  cases i with
  | ofNat n =>
    obtain ⟨d, tl, hd, he⟩ := decDigits_head n
    have hf := digitChar_facts d hd
    have hw := readDigits_whole n rest h
    simp only [dumpsInt] at hw ⊢
    rw [he] at hw ⊢
    simp only [List.cons_append, readInt, hf.2.2.2.2.2.2.2.2.1, if_false, hf.1, if_true]
    simp only [List.cons_append] at hw
    rw [hw]
    rfl
  | negSucc n =>
    obtain ⟨d, tl, hd, he⟩ := decDigits_head (n + 1)
    have hf := digitChar_facts d hd
    have hw := readDigits_whole (n + 1) rest h
    simp only [dumpsInt, List.cons_append, readInt, if_true]
    rw [he] at hw ⊢
    simp only [List.cons_append] at hw ⊢
    simp only [hf.1, if_true, hw]
    simp [Int.negSucc_eq]

/-! ### the first character of an encoded value -/

def valueStart (c : Char) : Bool :=
  c == '"' || c == '[' || c == '{' || c == 'n' || c == 't' || c == 'f' || c == '-' || isDigit c

theorem valueStart_facts (c : Char) (h : valueStart c = true) :
    c ≠ ' ' ∧ c ≠ '\n' ∧ c ≠ '\r' ∧ c ≠ '\t' ∧ c ≠ ']' ∧ c ≠ '}' ∧ c ≠ ',' ∧ c ≠ ':' := by
  simp only [valueStart, Bool.or_eq_true, beq_iff_eq, isDigit, Bool.and_eq_true, decide_eq_true_eq] at h
  rcases h with ((((((h | h) | h) | h) | h) | h) | h) | h
  all_goals first
    | (subst h; decide)
    | (refine ⟨?_, ?_, ?_, ?_, ?_, ?_, ?_, ?_⟩ <;> (intro he; subst he; simp at h))

theorem dumps_head (v : Val) (hv : v.plain = true) : ∃ c tl, dumps v = c :: tl ∧ valueStart c = true := by
  cases v with
  | null => exact ⟨'n', _, rfl, by decide⟩
  | bool b => cases b <;> exact ⟨_, _, rfl, by decide⟩
  | int i =>
    cases i with
    | ofNat n =>
      obtain ⟨d, tl, hd, he⟩ := decDigits_head n
      refine ⟨digitChar d, tl, by simp [dumps, dumpsInt, he], ?_⟩
      simp [valueStart, (digitChar_facts d hd).1]
    | negSucc n => exact ⟨'-', _, rfl, by decide⟩
  | str t => exact ⟨'"', _, rfl, by decide⟩
  | arr xs => cases xs <;> exact ⟨'[', _, rfl, by decide⟩
  | obj ms => cases ms <;> exact ⟨'{', _, rfl, by decide⟩
  | custom _ _ _ => simp [Val.plain] at hv

theorem skipWs_cons_of (c : Char) (r : Text) (h1 : c ≠ ' ') (h2 : c ≠ '\n') (h3 : c ≠ '\r') (h4 : c ≠ '\t') :
    skipWs (c :: r) = c :: r := by
  simp [skipWs, h1, h2, h3, h4]

theorem skipWs_dumps (v : Val) (hv : v.plain = true) (rest : Text) : skipWs (dumps v ++ rest) = dumps v ++ rest := by
  obtain ⟨c, tl, he, hc⟩ := dumps_head v hv
  have hf := valueStart_facts c hc
  rw [he]
  exact skipWs_cons_of c _ hf.1 hf.2.1 hf.2.2.1 hf.2.2.2.1

theorem headIs_dumps (v : Val) (hv : v.plain = true) (rest : Text) :
    headIs ']' (dumps v ++ rest) = false ∧ headIs '}' (dumps v ++ rest) = false := by
  obtain ⟨c, tl, he, hc⟩ := dumps_head v hv
  have hf := valueStart_facts c hc
  rw [he]
  simp [headIs, hf.2.2.2.2.1, hf.2.2.2.2.2.1]

theorem skipWs_space (r : Text) : skipWs (' ' :: r) = skipWs r := by simp [skipWs]

theorem jsonStr_length (t : Text) : 2 ≤ (jsonStr t).length := by
  simp [jsonStr]

theorem jsonStr_head (t : Text) : ∃ tl, jsonStr t = '"' :: tl := ⟨_, rfl⟩

theorem dumpsInt_head (i : Int) : ∃ c tl, dumpsInt i = c :: tl ∧ c ≠ '"' ∧ c ≠ '[' ∧ c ≠ '{' ∧ c ≠ 'n' ∧ c ≠ 't' ∧ c ≠ 'f' := by
  cases i with
  | ofNat n =>
    obtain ⟨d, tl, hd, he⟩ := decDigits_head n
    have hf := digitChar_facts d hd
    exact ⟨digitChar d, tl, by simp [dumpsInt, he], hf.2.2.1, hf.2.2.2.1, hf.2.2.2.2.1, hf.2.2.2.2.2.1, hf.2.2.2.2.2.2.1, hf.2.2.2.2.2.2.2.1⟩
  | negSucc n => exact ⟨'-', _, rfl, by decide, by decide, by decide, by decide, by decide, by decide⟩

theorem noDigitHead_cons (c : Char) (r : Text) (h : isDigit c = false) : noDigitHead (c :: r) = true := by
  simp [noDigitHead, h]

theorem length_lt_of_cons_append {α} (a : α) (x y : List α) : x.length < (a :: (x ++ y)).length := by
  simp; omega

/-! ### the reader inverts the encoder -/

mutual
theorem parse_dumps : ∀ (v : Val), v.plain = true → ∀ (f : Nat) (rest : Text), noDigitHead rest = true →
    (dumps v).length < f → parseVal f (dumps v ++ rest) = some (v, rest)
  | _, _, 0, _, _, hf => by omega
  | .null, _, f + 1, rest, _, _ => by
    simp [dumps, tNull, parseVal, expect, List.isPrefixOf]
  | .bool true, _, f + 1, rest, _, _ => by
    simp [dumps, tTrue, parseVal, expect, List.isPrefixOf]
  | .bool false, _, f + 1, rest, _, _ => by
    simp [dumps, tFalse, parseVal, expect, List.isPrefixOf]
  | .int i, _, f + 1, rest, hr, _ => by
    obtain ⟨c, tl, he, h1, h2, h3, h4, h5, h6⟩ := dumpsInt_head i
    have hri := readInt_dumpsInt i rest hr
    simp only [dumps]
    rw [he] at hri ⊢
    simp only [List.cons_append] at hri ⊢
    simp only [parseVal, h1, h2, h3, h4, h5, h6, if_false, hri, Option.map_some]
  | .str t, _, f + 1, rest, _, _ => by
    obtain ⟨tl, he⟩ := jsonStr_head t
    have hrs := readJsonString_jsonStr t rest
    simp only [dumps]
    rw [he] at hrs ⊢
    simp only [List.cons_append] at hrs ⊢
    simp only [parseVal, if_true, hrs, Option.map_some]
  | .arr .nil, _, f + 1, rest, _, _ => by
    simp [dumps, parseVal, skipWs, headIs]
  | .arr (.cons v r), hv, f + 1, rest, hr, hf => by
    simp only [Val.plain, Vals.plain, Bool.and_eq_true] at hv
    simp only [dumps, List.length_cons, List.length_append, List.length_nil] at hf
    have hv1 := parse_dumps v hv.1 f (dumpsTail r ++ ']' :: rest)
      (by cases r <;> simp [dumpsTail, noDigitHead, isDigit]) (by omega)
    have ht := parseTail_dumps r hv.2 f rest (by omega)
    have hh := headIs_dumps v hv.1 (dumpsTail r ++ ']' :: rest)
    have hs := skipWs_dumps v hv.1 (dumpsTail r ++ ']' :: rest)
    simp only [dumps, List.cons_append, List.append_assoc, List.nil_append]
    simp only [parseVal, show ('[' : Char) ≠ '"' by decide, if_false, if_true, hs, hh.1, Bool.false_eq_true, hv1, ht, Option.map_some]
  | .obj .nil, _, f + 1, rest, _, _ => by
    simp [dumps, parseVal, skipWs, headIs]
  | .obj (.cons k v r), hv, f + 1, rest, hr, hf => by
    simp only [Val.plain, Mems.plain, Bool.and_eq_true] at hv
    simp only [dumps, List.length_cons, List.length_append, List.length_nil] at hf
    have hk := jsonStr_length k
    have hm := parseMember_dumps k v hv.1 f (dumpsMemTail r ++ '}' :: rest)
      (by cases r <;> simp [dumpsMemTail, noDigitHead, isDigit]) (by omega)
    have ht := parseMemTail_dumps r hv.2 f rest (by omega)
    obtain ⟨tl, he⟩ := jsonStr_head k
    have hs : skipWs (jsonStr k ++ (':' :: ' ' :: (dumps v ++ (dumpsMemTail r ++ '}' :: rest)))) = jsonStr k ++ (':' :: ' ' :: (dumps v ++ (dumpsMemTail r ++ '}' :: rest))) :=
      skipWs_jsonStr k _
    have hh : headIs '}' (jsonStr k ++ (':' :: ' ' :: (dumps v ++ (dumpsMemTail r ++ '}' :: rest)))) = false := by
      rw [he]; simp [headIs]
    simp only [dumps, List.cons_append, List.append_assoc, List.nil_append]
    simp only [parseVal, show ('{' : Char) ≠ '"' by decide, show ('{' : Char) ≠ '[' by decide, if_false, if_true, hs, hh,
      Bool.false_eq_true, hm, ht, Option.map_some]
theorem parseMember_dumps : ∀ (k : Text) (v : Val), v.plain = true → ∀ (f : Nat) (rest : Text), noDigitHead rest = true →
    (jsonStr k).length + 2 + (dumps v).length < f →
    parseMember f (jsonStr k ++ (':' :: ' ' :: (dumps v ++ rest))) = some (k, v, rest)
  | _, _, _, 0, _, _, hf => by omega
  | k, v, hv, f + 1, rest, hr, hf => by
    have hv1 := parse_dumps v hv f rest hr (by omega)
    have hs := skipWs_dumps v hv rest
    simp only [parseMember, readJsonString_jsonStr, skipWs, show (':' : Char) ≠ ' ' by decide, show (':' : Char) ≠ '\n' by decide,
      show (':' : Char) ≠ '\r' by decide, show (':' : Char) ≠ '\t' by decide, or_self, if_false, headIs, beq_self_eq_true, if_true,
      List.drop_succ_cons, List.drop_zero, true_or, hs, hv1]
theorem parseTail_dumps : ∀ (xs : Vals), xs.plain = true → ∀ (f : Nat) (rest : Text), (dumpsTail xs).length + 1 < f →
    parseTail f (dumpsTail xs ++ ']' :: rest) = some (xs, rest)
  | _, _, 0, _, hf => by omega
  | .nil, _, f + 1, rest, _ => by
    simp [dumpsTail, parseTail]
  | .cons v r, hv, f + 1, rest, hf => by
    simp only [Vals.plain, Bool.and_eq_true] at hv
    simp only [dumpsTail, List.length_cons, List.length_append] at hf
    have hv1 := parse_dumps v hv.1 f (dumpsTail r ++ ']' :: rest)
      (by cases r <;> simp [dumpsTail, noDigitHead, isDigit]) (by omega)
    have ht := parseTail_dumps r hv.2 f rest (by omega)
    have hs := skipWs_dumps v hv.1 (dumpsTail r ++ ']' :: rest)
    simp only [dumpsTail, List.cons_append, List.append_assoc]
    simp only [parseTail, show (',' : Char) ≠ ']' by decide, if_false, if_true, skipWs_space, hs, hv1, ht, Option.map_some]
theorem parseMemTail_dumps : ∀ (ms : Mems), ms.plain = true → ∀ (f : Nat) (rest : Text), (dumpsMemTail ms).length + 1 < f →
    parseMemTail f (dumpsMemTail ms ++ '}' :: rest) = some (ms, rest)
  | _, _, 0, _, hf => by omega
  | .nil, _, f + 1, rest, _ => by
    simp [dumpsMemTail, parseMemTail]
  | .cons k v r, hv, f + 1, rest, hf => by
    simp only [Mems.plain, Bool.and_eq_true] at hv
    simp only [dumpsMemTail, List.length_cons, List.length_append] at hf
    have hk := jsonStr_length k
    have hm := parseMember_dumps k v hv.1 f (dumpsMemTail r ++ '}' :: rest)
      (by cases r <;> simp [dumpsMemTail, noDigitHead, isDigit]) (by omega)
    have ht := parseMemTail_dumps r hv.2 f rest (by omega)
    have hs : skipWs (jsonStr k ++ (':' :: ' ' :: (dumps v ++ (dumpsMemTail r ++ '}' :: rest)))) = jsonStr k ++ (':' :: ' ' :: (dumps v ++ (dumpsMemTail r ++ '}' :: rest))) :=
      skipWs_jsonStr k _
    simp only [dumpsMemTail, List.cons_append, List.append_assoc]
    simp only [parseMemTail, show (',' : Char) ≠ '}' by decide, if_false, if_true, skipWs_space, hs, hm, ht, Option.map_some]
end

/-- `json.loads(json.dumps(v)) == v` for every value that needs no `default` hook -/
theorem loads_dumps_plain (v : Val) (hv : v.plain = true) : loads (dumps v) = some v := by
  have h := parse_dumps v hv ((dumps v).length + 1) [] rfl (by omega)
  simp only [List.append_nil] at h
  simp [loads, h]

end Pyr.Render
