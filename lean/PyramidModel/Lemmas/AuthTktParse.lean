/-
C09 helper lemmas, part 3: the wire format.  `parse_ticket` reads back what `AuthTicket.cookie_value` wrote, and
accepts nothing whose digest field is not the MAC of its other fields.
-/
import PyramidModel.Lemmas.AuthTktNum
import PyramidModel.Lemmas.AuthTktCodec

namespace Pyr.AuthTkt

/-- `strings_differ` is inequality -/
theorem stringsDiffer_eq (a b : Bytes) : stringsDiffer a b = (a != b) := by
  unfold stringsDiffer
  by_cases hl : a.length = b.length
  · by_cases he : a = b
    · subst he; simp
    · simp [hl, he]
  · have he : a ≠ b := fun h => hl (by rw [h])
    simp [hl, he]

/-! ### splitting -/

theorem splitFirst_append (sep : Char) (a b : Text) (h : sep ∉ a) : splitFirst sep (a ++ sep :: b) = some (a, b) := by
  induction a with
  | nil => simp [splitFirst]
  | cons c r ih =>
    have hc : c ≠ sep := fun e => h (by simp [e])
    have hr : sep ∉ r := fun e => h (by simp [e])
    simp [splitFirst, hc, ih hr]

theorem splitFirst_some {sep : Char} {s a b : Text} (h : splitFirst sep s = some (a, b)) :
    s = a ++ sep :: b ∧ sep ∉ a := by
  induction s generalizing a with
  | nil => simp [splitFirst] at h
  | cons c r ih =>
    unfold splitFirst at h
    split at h
    · rename_i hc
      simp at h
      obtain ⟨rfl, rfl⟩ := h
      simp [hc]
    · rename_i hc
      split at h
      · rename_i a' b' hab
        simp at h
        obtain ⟨rfl, rfl⟩ := h
        obtain ⟨h1, h2⟩ := ih hab
        constructor
        · simp [h1]
        · simp; exact ⟨fun e => hc e.symm, h2⟩
      · simp at h

theorem splitFirst_none {sep : Char} {s : Text} (h : sep ∉ s) : splitFirst sep s = none := by
  induction s with
  | nil => rfl
  | cons c r ih =>
    have hc : c ≠ sep := fun e => h (by simp [e])
    have hr : sep ∉ r := fun e => h (by simp [e])
    simp [splitFirst, hc, ih hr]

theorem splitAll_no_sep (sep : Char) (t : Text) (h : sep ∉ t) : splitAll sep t = [t] := by
  induction t with
  | nil => rfl
  | cons c r ih =>
    have hc : c ≠ sep := fun e => h (by simp [e])
    have hr : sep ∉ r := fun e => h (by simp [e])
    simp [splitAll, hc, ih hr]

theorem splitAll_append_sep (sep : Char) (a b : Text) (h : sep ∉ a) :
    splitAll sep (a ++ sep :: b) = a :: splitAll sep b := by
  induction a with
  | nil => simp [splitAll]
  | cons c r ih =>
    have hc : c ≠ sep := fun e => h (by simp [e])
    have hr : sep ∉ r := fun e => h (by simp [e])
    simp [splitAll, hc, ih hr]

/-- `','.join(tokens).split(',')` gives the tokens back when there is at least one and none contains a comma -/
theorem splitAll_intercalate (toks : List Text) (hne : toks ≠ []) (h : ∀ t ∈ toks, ',' ∉ t) :
    splitAll ',' (List.intercalate [','] toks) = toks := by
  induction toks with
  | nil => exact absurd rfl hne
  | cons t r ih =>
    cases r with
    | nil =>
      simp [List.intercalate]
      exact splitAll_no_sep ',' t (h t (by simp))
    | cons t2 r2 =>
      have e : List.intercalate [','] (t :: t2 :: r2) = t ++ ',' :: List.intercalate [','] (t2 :: r2) := by
        simp [List.intercalate, List.intersperse]
      rw [e, splitAll_append_sep ',' _ _ (h t (by simp)), ih (by simp) (fun x hx => h x (by simp [hx]))]

theorem stripQuotes_id (c : Char) (mid : Text) (e : Char) (hc : c ≠ '"') (he : e ≠ '"') :
    stripQuotes (c :: (mid ++ [e])) = c :: (mid ++ [e]) := by
  simp [stripQuotes, List.dropWhile, hc, he]

/-! ### hex digests -/

theorem hexOf_length (bs : Bytes) : (hexOf bs).length = 2 * bs.length := by
  induction bs with
  | nil => rfl
  | cons b r ih =>
    have : hexOf (b :: r) = digitChar (b.toNat / 16) :: digitChar (b.toNat % 16) :: hexOf r := by simp [hexOf]
    rw [this]; simp [ih]; omega

theorem hexOf_isDigits (bs : Bytes) : IsDigits 16 (hexOf bs) := by
  intro c hc
  simp only [hexOf, List.mem_flatMap] at hc
  obtain ⟨b, _, hc⟩ := hc
  have := UInt8.toNat_lt b
  simp at hc
  rcases hc with rfl | rfl
  · exact ⟨_, by omega, rfl⟩
  · exact ⟨_, by omega, rfl⟩

/-- every digest of the hash has the advertised size -/
def Hash.WellSized (H : Hash) : Prop := ∀ x, (H.fn x).length = H.size

theorem mac_length (H : Hash) (hH : H.WellSized) (secret x : Bytes) : (mac H secret x).length = H.size * 2 := by
  simp [mac, hexOf_length, hH _]; omega

theorem mac_isDigits (H : Hash) (secret x : Bytes) : IsDigits 16 (mac H secret x) := hexOf_isDigits _

theorem isDigits_ne_quote {base : Nat} (hb : base ≤ 16) {s : Text} (hs : IsDigits base s) : ∀ c ∈ s, c ≠ '"' := by
  intro c hc
  obtain ⟨d, hd, rfl⟩ := hs c hc
  exact (digitChar_facts ⟨d, by omega⟩).2.2.2.2.2.2.2.2.2.1

theorem hex8_isDigits (n : Nat) : IsDigits 16 (hex8 n) := by
  intro c hc
  simp [hex8] at hc
  rcases hc with ⟨_, rfl⟩ | hc
  · exact ⟨0, by omega, by decide⟩
  · exact natDigits_isDigits 16 (by omega) n c hc

/-! ### the syntactic round trip -/

/-- the text `cookie_value` builds from its pieces -/
def wire (digest : Text) (ts : Nat) (userid : Text) (toks : Text) (userData : Text) : Text :=
  let v := digest ++ hex8 ts ++ quoteBytes (utf8Enc userid) ++ ['!']
  let v := if toks.isEmpty then v else v ++ toks ++ ['!']
  v ++ userData

theorem cookieValue_eq (env : Env) (secret userid ip : Text) (tokens : List Text) (userData : Text) (ts : Nat)
    (d : Text) (hd : calcDigest env ip ts secret userid (List.intercalate [','] tokens) userData = .ok d) :
    cookieValue env secret userid ip tokens userData ts = .ok (wire d ts userid (List.intercalate [','] tokens) userData) := by
  simp [cookieValue, hd, wire, bind, Except.bind, pure, Except.pure]

/-- `userData` does not end with a double quote (so `strip('"')` leaves the ticket alone) -/
def EndsClean (ud : Text) : Prop := ud = [] ∨ ∃ r e, ud = r ++ [e] ∧ e ≠ '"'

theorem parseFields_wire (U : Uni) (dsz : Nat) (d : Text) (ts : Nat) (userid toks ud : Text)
    (hdl : d.length = dsz) (hdd : IsDigits 16 d) (hts : ts < 4294967296)
    (htk : '!' ∉ toks) (hud : '!' ∉ ud) (hend : EndsClean ud) :
    parseFields U dsz (wire d ts userid toks ud) = some (d, ⟨ts, userid, toks, ud⟩) := by
  -- shape of the value: c :: (mid ++ [e]) with c, e ≠ '"'
  have h8 := hex8_length ts hts
  have h8d := hex8_isDigits ts
  obtain ⟨c0, r0, hpre⟩ : ∃ c r, d ++ hex8 ts = c :: r := by
    cases hd' : d ++ hex8 ts with
    | nil =>
      have := congrArg List.length hd'
      simp [h8] at this
    | cons c r => exact ⟨c, r, rfl⟩
  have hc0 : c0 ≠ '"' := by
    have hall : ∀ c ∈ d ++ hex8 ts, c ≠ '"' := by
      intro c hc
      rcases List.mem_append.mp hc with h | h
      · exact isDigits_ne_quote (by omega) hdd c h
      · exact isDigits_ne_quote (by omega) h8d c h
    exact hall c0 (by rw [hpre]; simp)
  let data : Text := (if toks.isEmpty then [] else toks ++ ['!']) ++ ud
  have hw : wire d ts userid toks ud = (d ++ hex8 ts) ++ (quoteBytes (utf8Enc userid) ++ '!' :: data) := by
    simp only [wire, data]
    split <;> simp [List.append_assoc]
  obtain ⟨mid, e, hpost, he⟩ : ∃ mid e, quoteBytes (utf8Enc userid) ++ '!' :: data = mid ++ [e] ∧ e ≠ '"' := by
    rcases hend with rfl | ⟨r, e, rfl, he⟩
    · by_cases hte : toks.isEmpty
      · refine ⟨quoteBytes (utf8Enc userid), '!', ?_, by decide⟩
        simp [data, hte]
      · refine ⟨quoteBytes (utf8Enc userid) ++ '!' :: toks, '!', ?_, by decide⟩
        simp [data, hte]
    · refine ⟨quoteBytes (utf8Enc userid) ++ '!' :: ((if toks.isEmpty then [] else toks ++ ['!']) ++ r), e, ?_, he⟩
      simp [data, List.append_assoc]
  have hstrip : stripQuotes (wire d ts userid toks ud) = wire d ts userid toks ud := by
    rw [hw, hpre, hpost]
    have := stripQuotes_id c0 (r0 ++ mid) e hc0 he
    simpa [List.append_assoc] using this
  unfold parseFields
  simp only [hstrip]
  have htake : (wire d ts userid toks ud).take dsz = d := by
    rw [hw, List.append_assoc, List.take_left' hdl]
  have hdrop : (wire d ts userid toks ud).drop dsz = hex8 ts ++ (quoteBytes (utf8Enc userid) ++ '!' :: data) := by
    rw [hw, List.append_assoc, List.drop_left' hdl]
  have hdrop8 : (wire d ts userid toks ud).drop (dsz + 8) = quoteBytes (utf8Enc userid) ++ '!' :: data := by
    rw [← List.drop_drop, hdrop, List.drop_left' h8]
  rw [htake, hdrop, List.take_left' h8, pyInt_hex8, hdrop8]
  have hq : '!' ∉ quoteBytes (utf8Enc userid) := fun h => (quoteBytes_chars _ _ h).1 rfl
  simp only [splitFirst_append '!' _ _ hq, unquote_quote]
  by_cases hte : toks.isEmpty
  · have ht0 : toks = [] := by simpa using hte
    subst ht0
    simp [data, splitFirst_none hud]
  · have : data = toks ++ '!' :: ud := by simp [data, hte]
    rw [this, splitFirst_append '!' _ _ htk]

end Pyr.AuthTkt
