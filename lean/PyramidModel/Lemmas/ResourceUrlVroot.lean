import PyramidModel.Lemmas.ResourceUrlFind
/-! C07 helper lemmas, part 4: `ResourceURL`, the virtual-root trimming, requesting the URL back.
Property theorems are in `Props/C07.lean`. -/
namespace Pyr.ResUrl
open Pyr.Trav

/-! ### normal form of `ResourceURL.__init__` -/

/-- `physical_path_tuple` after the trailing `''` has been appended (not for the root) -/
def physTuple (p : List Seg) : List Seg := if p = [] then [[]] else [] :: p ++ [[]]

theorem physical_eq (p : List Seg) :
    (if resourcePathTuple p [] ≠ [[]] then joinPathTuple (resourcePathTuple p []) ++ ['/']
      else joinPathTuple (resourcePathTuple p [])) = pathOf p := by
  simp only [resourcePathTuple, resourcePathList_eq, List.append_nil, joinPathTuple_abs, pathOf_eq]
  cases p with
  | nil => simp [joinWith, slashed]
  | cons x r =>
    have : (x :: r).map quoteSegment ≠ [] := by simp
    simp only [ne_eq, List.cons.injEq, reduceCtorEq, and_false, not_false_eq_true, if_true, List.cons_append]
    rw [joinWith_slash _ this]
    exact ⟨trivial, rfl⟩

theorem physTuple_eq (p : List Seg) :
    (if resourcePathTuple p [] ≠ [[]] then resourcePathTuple p [] ++ [[]] else resourcePathTuple p []) = physTuple p := by
  simp only [resourcePathTuple, resourcePathList_eq, List.append_nil, physTuple]
  cases p <;> simp

theorem resourceURL_none (p : List Seg) :
    resourceURL p none = { physicalPath := pathOf p, virtualPath := pathOf p,
                           physicalPathTuple := physTuple p, virtualPathTuple := physTuple p } := by
  simp only [resourceURL, physical_eq, physTuple_eq]

theorem resourceURL_some (p : List Seg) (h : Bytes) :
    resourceURL p (some h) =
      if rstripSlash (latin1 h) ≠ [] ∧ (rstripSlash (latin1 h) ++ ['/']).isPrefixOf (pathOf p) = true then
        { physicalPath := pathOf p, virtualPath := (pathOf p).drop (rstripSlash (latin1 h)).length,
          physicalPathTuple := physTuple p,
          virtualPathTuple := [] :: (physTuple p).drop (splitOn '/' (rstripSlash (latin1 h))).length }
      else { physicalPath := pathOf p, virtualPath := pathOf p,
             physicalPathTuple := physTuple p, virtualPathTuple := physTuple p } := by
  simp only [resourceURL, physical_eq, physTuple_eq]

/-! ### `rstrip('/')` -/

def EndsNoSlash (t : Text) : Prop := ∃ X c, t = X ++ [c] ∧ c ≠ '/'

theorem endsNoSlash_of_seg (s : Text) (h1 : s ≠ []) (h2 : '/' ∉ s) : EndsNoSlash s := by
  refine ⟨s.dropLast, s.getLast h1, (List.dropLast_concat_getLast h1).symm, ?_⟩
  intro e
  exact h2 (e ▸ List.getLast_mem h1)

theorem endsNoSlash_append (a t : Text) (h : EndsNoSlash t) : EndsNoSlash (a ++ t) := by
  obtain ⟨X, c, rfl, hc⟩ := h
  exact ⟨a ++ X, c, by simp, hc⟩

theorem endsNoSlash_joinWith (hs : List Text) (hne : hs ≠ []) (h : ∀ s ∈ hs, s ≠ [] ∧ '/' ∉ s) :
    EndsNoSlash (joinWith '/' hs) := by
  induction hs with
  | nil => exact absurd rfl hne
  | cons x r ih =>
    cases r with
    | nil => simpa [joinWith] using endsNoSlash_of_seg x (h x (by simp)).1 (h x (by simp)).2
    | cons y r' =>
      rw [joinWith_cons_cons]
      have := ih (by simp) (fun s hs => h s (by simp [hs]))
      have e : x ++ '/' :: joinWith '/' (y :: r') = (x ++ ['/']) ++ joinWith '/' (y :: r') := by simp
      rw [e]
      exact endsNoSlash_append _ _ this

theorem dropWhile_replicate_slash (k : Nat) (l : Text) :
    (List.replicate k '/' ++ l).dropWhile (· = '/') = l.dropWhile (· = '/') := by
  induction k with
  | zero => simp
  | succ k ih => simp [List.replicate_succ, ih]

theorem rstrip_endsNoSlash (t : Text) (k : Nat) (h : EndsNoSlash t) :
    rstripSlash (t ++ List.replicate k '/') = t := by
  obtain ⟨X, c, rfl, hc⟩ := h
  simp only [rstripSlash, List.reverse_append, List.reverse_replicate, List.reverse_cons, List.reverse_nil,
    List.nil_append, List.singleton_append]
  rw [dropWhile_replicate_slash]
  simp [hc]

theorem rstrip_all_slash (k : Nat) : rstripSlash (List.replicate k '/') = [] := by
  have := dropWhile_replicate_slash k []
  simp only [List.append_nil, List.dropWhile_nil] at this
  simp [rstripSlash, this]

/-! ### string prefix of slash-terminated segment texts = whole-segment prefix -/

theorem append_slash_inj (a b r r' : Text) (ha : '/' ∉ a) (hb : '/' ∉ b)
    (h : a ++ '/' :: r = b ++ '/' :: r') : a = b ∧ r = r' := by
  induction a generalizing b with
  | nil =>
    cases b with
    | nil => simpa using h
    | cons d b' =>
      simp only [List.nil_append, List.cons_append, List.cons.injEq] at h
      exact absurd (h.1 ▸ (by simp : d ∈ d :: b')) hb
  | cons c a' ih =>
    cases b with
    | nil =>
      simp only [List.nil_append, List.cons_append, List.cons.injEq] at h
      exact absurd (h.1 ▸ (by simp : c ∈ c :: a')) ha
    | cons d b' =>
      simp only [List.cons_append, List.cons.injEq] at h
      have := ih b' (fun m => ha (by simp [m])) (fun m => hb (by simp [m])) h.2
      exact ⟨by rw [h.1, this.1], this.2⟩

theorem slashed_prefix_iff (xs ys : List Text) (hx : ∀ s ∈ xs, '/' ∉ s) (hy : ∀ s ∈ ys, '/' ∉ s) :
    slashed xs <+: slashed ys ↔ xs <+: ys := by
  constructor
  · intro h
    induction xs generalizing ys with
    | nil => exact List.nil_prefix
    | cons x r ih =>
      obtain ⟨t, ht⟩ := h
      cases ys with
      | nil => simp [slashed] at ht
      | cons y ys' =>
        rw [slashed_cons, slashed_cons, List.append_assoc, List.cons_append] at ht
        obtain ⟨e1, e2⟩ := append_slash_inj x y _ _ (hx x (by simp)) (hy y (by simp)) ht
        subst e1
        have := ih ys' (fun s hs => hx s (by simp [hs])) (fun s hs => hy s (by simp [hs])) ⟨t, e2⟩
        exact (List.cons_prefix_cons).mpr ⟨rfl, this⟩
  · rintro ⟨r, rfl⟩
    exact ⟨slashed r, (slashed_append xs r).symm⟩

theorem mem_map_quote_noSlash (p : List Seg) (s : Text) (h : s ∈ p.map quoteSegment) : '/' ∉ s := by
  obtain ⟨n, _, rfl⟩ := List.mem_map.mp h
  exact slash_not_mem_quoteSegment n

/-- The trimming decision and its result, for a header whose stripped text is `/h1/…/hn` (n ≥ 1, slash-free
segments): the physical path is trimmed iff `h1 … hn` is a whole-segment prefix of the quoted names. -/
theorem virtualPath_trim (p : List Seg) (hs : List Text) (hdr : Bytes) (hne : hs ≠ [])
    (hslash : ∀ s ∈ hs, '/' ∉ s) (hv : rstripSlash (latin1 hdr) = '/' :: joinWith '/' hs) :
    (resourceURL p (some hdr)).virtualPath =
      if hs.isPrefixOf (p.map quoteSegment) = true then '/' :: slashed ((p.map quoteSegment).drop hs.length)
      else pathOf p := by
  rw [resourceURL_some, hv]
  have e1 : ('/' :: joinWith '/' hs) ++ ['/'] = '/' :: slashed hs := by
    rw [List.cons_append, joinWith_slash hs hne]
  have e2 : (('/' :: joinWith '/' hs) ++ ['/']).isPrefixOf (pathOf p) = hs.isPrefixOf (p.map quoteSegment) := by
    rw [e1, pathOf_eq]
    rw [Bool.eq_iff_iff, List.isPrefixOf_iff_prefix, List.isPrefixOf_iff_prefix, List.cons_prefix_cons]
    simp only [true_and]
    exact slashed_prefix_iff hs _ hslash (mem_map_quote_noSlash p)
  rw [e2]
  by_cases hp : hs.isPrefixOf (p.map quoteSegment) = true
  · simp only [hp, ne_eq, reduceCtorEq, not_false_eq_true, and_self, if_true]
    obtain ⟨r, hr⟩ := List.isPrefixOf_iff_prefix.mp hp
    rw [pathOf_eq, ← hr, slashed_append, List.drop_left' rfl]
    have : '/' :: (slashed hs ++ slashed r) = ('/' :: joinWith '/' hs) ++ '/' :: slashed r := by
      rw [← joinWith_slash hs hne]; simp
    rw [this, List.drop_left' rfl]
  · simp [hp]

/-! ### names that need no quoting -/

theorem char_ofNat_byte (c : Char) (h : c.toNat < 128) : Char.ofNat (UInt8.ofNat c.toNat).toNat = c := by
  have : (UInt8.ofNat c.toNat).toNat = c.toNat := by simp; omega
  rw [this, Char.ofNat_toNat]

theorem utf8Enc_ascii (t : Text) (h : ∀ c ∈ t, c.toNat < 128) : utf8Enc t = enc t := by
  induction t with
  | nil => rfl
  | cons c r ih =>
    rw [utf8Enc_cons, utf8EncodeChar_ascii c (h c (by simp)), enc_cons, ih (fun d hd => h d (by simp [hd]))]
    rfl

theorem latin1_enc (t : Text) (h : ∀ c ∈ t, c.toNat < 128) : latin1 (enc t) = t := by
  induction t with
  | nil => rfl
  | cons c r ih =>
    simp only [enc, latin1, List.map_cons, List.map_map] at ih ⊢
    rw [char_ofNat_byte c (h c (by simp)), ih (fun d hd => h d (by simp [hd]))]

theorem quoteSegment_of_noQuote (s : Seg) (h : NoQuoteNeeded s) : quoteSegment s = s := by
  have hascii : ∀ c ∈ s, c.toNat < 128 := fun c hc => (h c hc).1
  rw [quoteSegment, utf8Enc_ascii s hascii]
  induction s with
  | nil => simp [enc, quoteBytes]
  | cons c r ih =>
    have hk : keptByte (UInt8.ofNat c.toNat) = true := (h c (by simp)).2
    rw [enc_cons, quoteBytes_cons_kept _ _ hk, char_ofNat_byte c (hascii c (by simp)),
      ih (fun d hd => h d (by simp [hd])) (fun d hd => hascii d (by simp [hd]))]

theorem map_quote_of_noQuote (vt : List Seg) (h : ∀ n ∈ vt, NoQuoteNeeded n) : vt.map quoteSegment = vt := by
  induction vt with
  | nil => rfl
  | cons x r ih =>
    simp only [List.map_cons]
    rw [quoteSegment_of_noQuote x (h x (by simp)), ih (fun n hn => h n (by simp [hn]))]

/-! ### the canonical header -/

theorem utf8Enc_replicate_slash (k : Nat) : utf8Enc (List.replicate k '/') = List.replicate k 47 := by
  induction k with
  | zero => rfl
  | succ k ih => rw [List.replicate_succ, utf8Enc_lead_slash, ih, List.replicate_succ]

theorem replicate_snoc (k : Nat) : List.replicate k '/' ++ ['/'] = List.replicate (k + 1) '/' :=
  (List.replicate_succ').symm

/-- the header text: `/a/b` and `k` trailing slashes -/
def headerText (vt : List Seg) (k : Nat) : Text := '/' :: joinWith '/' vt ++ List.replicate k '/'

theorem vrootHeader_eq (vt : List Seg) (k : Nat) : vrootHeader vt k = utf8Enc (headerText vt k) := by
  simp only [vrootHeader, headerText]
  rw [show ('/' :: joinWith '/' vt ++ List.replicate k '/' : Text) = ('/' :: joinWith '/' vt) ++ List.replicate k '/' from rfl,
    utf8Enc_append, utf8Enc_replicate_slash]

theorem decode_vrootHeader (vt : List Seg) (k : Nat) : decodePathInfo (vrootHeader vt k) = some (headerText vt k) := by
  rw [vrootHeader_eq]; exact utf8Dec_utf8Enc _

theorem headerText_ascii (vt : List Seg) (k : Nat) (h : ∀ n ∈ vt, NoQuoteNeeded n) :
    ∀ c ∈ headerText vt k, c.toNat < 128 := by
  intro c hc
  simp only [headerText, List.cons_append, List.mem_cons, List.mem_append, List.mem_replicate] at hc
  rcases hc with e | m | ⟨_, e⟩
  · subst e; decide
  · rcases mem_joinWith _ _ _ m with e | ⟨x, hx, hcx⟩
    · subst e; decide
    · exact (h x hx c hcx).1
  · subst e; decide

theorem latin1_vrootHeader (vt : List Seg) (k : Nat) (h : ∀ n ∈ vt, NoQuoteNeeded n) :
    latin1 (vrootHeader vt k) = headerText vt k := by
  rw [vrootHeader_eq, utf8Enc_ascii _ (headerText_ascii vt k h), latin1_enc _ (headerText_ascii vt k h)]

/-- the header text followed by a slash is a slash-terminated list of segments whose non-empty ones are the names -/
theorem headerText_slashed (vt : List Seg) (k : Nat) (hadm : ∀ n ∈ vt, AdmissibleName n) :
    ∃ L : List Seg, headerText vt k ++ ['/'] = slashed L ∧ (∀ s ∈ L, '/' ∉ s) ∧ (∀ s ∈ L, s = [] ∨ Clean s) ∧
      L.filter (· ≠ []) = vt := by
  have hrep : ∀ m, List.replicate m '/' = slashed (List.replicate m []) := by
    intro m
    induction m with
    | zero => rfl
    | succ m ih => rw [List.replicate_succ, List.replicate_succ, slashed_cons, ← ih]; rfl
  by_cases hvt : vt = []
  · subst hvt
    refine ⟨List.replicate (k + 2) [], ?_, ?_, ?_, ?_⟩
    · rw [← hrep]
      simp only [headerText, joinWith]
      simp [replicate_snoc, List.replicate_succ]
    · intro s hs; rw [(List.mem_replicate.mp hs).2]; simp
    · intro s hs; exact .inl (List.mem_replicate.mp hs).2
    · exact filter_replicate_nil _
  · refine ⟨[] :: vt ++ List.replicate k [], ?_, ?_, ?_, ?_⟩
    · simp only [headerText]
      rw [List.cons_append, slashed_append, slashed_cons, ← hrep, ← joinWith_slash vt hvt]
      simp only [List.nil_append, List.cons_append, List.append_assoc, List.cons.injEq, true_and]
      congr 1
      rw [replicate_snoc, List.replicate_succ]
    · intro s hs
      simp only [List.cons_append, List.mem_cons, List.mem_append, List.mem_replicate] at hs
      rcases hs with e | m | ⟨_, e⟩
      · subst e; simp
      · exact (hadm s m).noSlash
      · subst e; simp
    · intro s hs
      simp only [List.cons_append, List.mem_cons, List.mem_append, List.mem_replicate] at hs
      rcases hs with e | m | ⟨_, e⟩
      · exact .inl e
      · exact .inr (hadm s m).clean
      · exact .inl e
    · simp only [List.cons_append, List.filter_cons, List.filter_append, filter_replicate_nil, List.append_nil]
      simp
      exact fun a ha => (hadm a ha).1

theorem split_trailing_slash (t : Text) : splitPathInfo t = splitPathInfo (t ++ ['/']) := by
  rw [splitPathInfo_eq, splitPathInfo_eq]
  have : t ++ ['/'] = t ++ '/' :: [] := rfl
  rw [this, splitOn_append_sep]
  have := normSegs_append_replicate_nil 1 (splitOn '/' t)
  simp only [List.replicate_one] at this
  simp only [splitOn]
  rw [this]

/-- header text followed by `/a/b/` splits into the virtual root's names and then `a`, `b` -/
theorem split_header_path (vt rest : List Seg) (k : Nat) (hv : ∀ n ∈ vt, AdmissibleName n)
    (hr : ∀ n ∈ rest, AdmissibleName n) :
    splitPathInfo (headerText vt k) = vt ∧
      splitPathInfo (headerText vt k ++ '/' :: slashed rest) = vt ++ rest := by
  obtain ⟨L, hL, h1, h2, h3⟩ := headerText_slashed vt k hv
  refine ⟨?_, ?_⟩
  · rw [split_trailing_slash, hL, splitPathInfo_eq]
    have := splitOn_slashed L [] h1
    simp only [List.append_nil] at this
    rw [this]
    simp only [splitOn]
    have h2' : ∀ s ∈ L ++ [[]], s = [] ∨ Clean s := by
      intro s hs
      rcases List.mem_append.mp hs with m | m
      · exact h2 s m
      · exact .inl (by simpa using m)
    rw [normSegs_filter _ h2', List.filter_append, h3]
    simp
  · have e : headerText vt k ++ '/' :: slashed rest = slashed (L ++ rest) ++ [] := by
      rw [slashed_append, ← hL]; simp
    rw [e, splitPathInfo_eq, splitOn_slashed _ _ (by
      intro s hs
      rcases List.mem_append.mp hs with m | m
      · exact h1 s m
      · exact (hr s m).noSlash)]
    simp only [splitOn]
    have h2' : ∀ s ∈ L ++ rest ++ [[]], s = [] ∨ Clean s := by
      intro s hs
      simp only [List.mem_append, List.mem_singleton] at hs
      rcases hs with (m | m) | m
      · exact h2 s m
      · exact .inr (hr s m).clean
      · exact .inl m
    rw [normSegs_filter _ h2', List.filter_append, List.filter_append, h3,
      filter_ne_nil_of_all rest (fun s hs => (hr s hs).1)]
    simp

/-! ### requesting a generated URL -/

theorem mem_slashed (xs : List Text) (c : Char) (h : c ∈ slashed xs) : c = '/' ∨ ∃ x ∈ xs, c ∈ x := by
  simp only [slashed, List.mem_flatMap, List.mem_append, List.mem_singleton] at h
  obtain ⟨x, hx, hc⟩ := h
  rcases hc with m | e
  · exact .inr ⟨x, hx, m⟩
  · exact .inl e

/-- the request for `/a%20b/c/` reaches the traverser with the text `/a b/c/` -/
theorem requestBack_slashed (root : Tree) (rest : List Seg) (hdr : Option Bytes) :
    requestBack root ('/' :: slashed (rest.map quoteSegment)) hdr =
      traverser root { pathInfo := some (utf8Enc ('/' :: slashed rest)), vroot := hdr, matchdict := none } := by
  have hascii : ∀ c ∈ ('/' :: slashed (rest.map quoteSegment) : Text), c.toNat < 128 := by
    intro c hc
    rcases List.mem_cons.mp hc with e | m
    · subst e; decide
    · rcases mem_slashed _ _ m with e | ⟨x, hx, hcx⟩
      · subst e; decide
      · obtain ⟨n, _, rfl⟩ := List.mem_map.mp hx
        exact (quoteSegment_chars n c hcx).1
  have hun : unquoteToBytes (enc ('/' :: slashed (rest.map quoteSegment))) = utf8Enc ('/' :: slashed rest) := by
    rw [unquote_lead_slash unquoteToBytes_isUnquoter, utf8Enc_lead_slash]
    have := unquote_slashed unquoteToBytes_isUnquoter rest []
    simp only [List.append_nil, unquoteToBytes_isUnquoter.nil] at this
    rw [this]
  simp only [requestBack, asciiEncode_of_ascii _ hascii, hun]

/-- the traverser under a canonical virtual-root header, asked for `/a/b/` below it -/
theorem traverser_vroot (root : Tree) (vt rest : List Seg) (k : Nat) (hv : ∀ n ∈ vt, AdmissibleName n)
    (hr : ∀ n ∈ rest, AdmissibleName n) (hw : Walkable root (vt ++ rest) = true) :
    traverser root { pathInfo := some (utf8Enc ('/' :: slashed rest)), vroot := some (vrootHeader vt k), matchdict := none } =
      .ok (specBack (vt ++ rest) vt) := by
  obtain ⟨s1, s2⟩ := split_header_path vt rest k hv hr
  simp only [traverser, requestPath, Option.getD_some, decodePathInfo, utf8Dec_utf8Enc]
  have hd := decode_vrootHeader vt k
  simp only [decodePathInfo] at hd
  have hne : ¬ (headerText vt k ++ '/' :: slashed rest = ['/']) := by
    simp [headerText]
  simp only [hd, reduceCtorEq, if_false, traverseText, s1, s2, hne, walk_outcome,
    deepest_of_walkable root _ hw, specBack]
  by_cases hvt : vt = []
  · subst hvt; simp
  · have : 0 < vt.length := List.length_pos_iff.mpr hvt
    have e : List.take (vt.length + rest.length) (vt ++ rest) = vt ++ rest :=
      List.take_of_length_le (by simp)
    simp [this, e]

theorem map_quote_injective (a b : List Seg) (h : a.map quoteSegment = b.map quoteSegment) : a = b := by
  induction a generalizing b with
  | nil => cases b with
    | nil => rfl
    | cons y r => simp at h
  | cons x r ih =>
    cases b with
    | nil => simp at h
    | cons y r' =>
      simp only [List.map_cons, List.cons.injEq] at h
      rw [quoteSegment_injective x y h.1, ih r' h.2]

/-- for names that need no quoting, being a prefix of the quoted names is being a prefix of the names -/
theorem prefix_quote_iff (vt p : List Seg) (h : ∀ n ∈ vt, NoQuoteNeeded n) :
    vt.isPrefixOf (p.map quoteSegment) = vt.isPrefixOf p := by
  have hq := map_quote_of_noQuote vt h
  rw [Bool.eq_iff_iff, List.isPrefixOf_iff_prefix, List.isPrefixOf_iff_prefix]
  constructor
  · intro hp
    have e := List.prefix_iff_eq_take.mp hp
    rw [← List.map_take] at e
    have : vt = p.take vt.length := map_quote_injective _ _ (by rw [hq]; exact e)
    rw [this]
    exact List.take_prefix _ _
  · intro hp
    have := List.IsPrefix.map quoteSegment hp
    rwa [hq] at this

theorem headerText_rstrip (vt : List Seg) (k : Nat) (hne : vt ≠ []) (hadm : ∀ n ∈ vt, AdmissibleName n) :
    rstripSlash (headerText vt k) = '/' :: joinWith '/' vt := by
  have h1 : EndsNoSlash ('/' :: joinWith '/' vt) :=
    endsNoSlash_append ['/'] _ (endsNoSlash_joinWith vt hne (fun s hs => ⟨(hadm s hs).1, (hadm s hs).noSlash⟩))
  exact rstrip_endsNoSlash _ k h1

/-- Under a canonical header whose names need no quoting, the virtual path is what the property demands. -/
theorem virtualPath_canonical (p vt : List Seg) (k : Nat) (hadm : ∀ n ∈ vt, AdmissibleName n)
    (hnq : ∀ n ∈ vt, NoQuoteNeeded n) :
    (resourceURL p (some (vrootHeader vt k))).virtualPath = specVirtualPath p (some vt) := by
  by_cases hvt : vt = []
  · subst hvt
    have hl := latin1_vrootHeader [] k hnq
    have : headerText [] k = List.replicate (k + 1) '/' := by simp [headerText, joinWith, List.replicate_succ]
    rw [resourceURL_some, hl, this, rstrip_all_slash]
    simp [specVirtualPath, inside]
  · have hv : rstripSlash (latin1 (vrootHeader vt k)) = '/' :: joinWith '/' vt := by
      rw [latin1_vrootHeader vt k hnq]; exact headerText_rstrip vt k hvt hadm
    rw [virtualPath_trim p vt _ hvt (fun s hs => (hadm s hs).noSlash) hv, prefix_quote_iff vt p hnq]
    simp only [specVirtualPath, inside]
    by_cases hp : vt.isPrefixOf p = true
    · simp only [hp, if_true, pathOf_eq, List.map_drop]
    · simp [hp]

theorem physicalPath_eq (p : List Seg) (hdr : Option Bytes) : (resourceURL p hdr).physicalPath = pathOf p := by
  cases hdr with
  | none => rw [resourceURL_none]
  | some h => rw [resourceURL_some]; split <;> rfl

/-- `virtual_root()` under a canonical header whose names need no quoting -/
theorem virtualRoot_canonical (root : Tree) (p vt : List Seg) (k : Nat) (hp : ∀ n ∈ p, AdmissibleName n)
    (hadm : ∀ n ∈ vt, AdmissibleName n) (hnq : ∀ n ∈ vt, NoQuoteNeeded n) (hw : Walkable root p = true) :
    virtualRoot root p (some (vrootHeader vt k)) = .ok (if inside vt p = true then vt else []) := by
  simp only [virtualRoot, physicalPath_eq, virtualPath_canonical p vt k hadm hnq, specVirtualPath]
  by_cases hin : inside vt p = true
  · obtain ⟨rest, hr⟩ := List.isPrefixOf_iff_prefix.mp hin
    have hd : p.drop vt.length = rest := by rw [← hr]; simp
    simp only [hin, if_true, hd]
    by_cases hvt : vt = []
    · subst hvt
      simp only [List.nil_append] at hr
      subst hr
      simp
    · have hq : (vt.map quoteSegment) ≠ [] := by simpa using hvt
      have e : pathOf p = ('/' :: joinWith '/' (vt.map quoteSegment)) ++ pathOf rest := by
        rw [pathOf_eq, pathOf_eq, ← hr, List.map_append, slashed_append, ← joinWith_slash _ hq]
        simp
      have hne : pathOf p ≠ pathOf rest := by
        intro h
        have := congrArg List.length h
        rw [e] at this
        simp at this
        omega
      have hsuf : (pathOf rest).isSuffixOf (pathOf p) = true :=
        List.isSuffixOf_iff_suffix.mpr ⟨_, e.symm⟩
      simp only [hne, ne_eq, not_false_eq_true, hsuf, and_self, if_true]
      have ht : (pathOf p).take ((pathOf p).length - (pathOf rest).length) = '/' :: joinWith '/' (vt.map quoteSegment) := by
        rw [e]
        apply List.take_left'
        simp
        omega
      rw [ht, findResource_abs root p vt hadm]
      have hwv : Walkable root vt = true := walkable_prefix root vt rest (by rw [hr]; exact hw)
      simp [hwv]
  · simp [hin]

end Pyr.ResUrl
