import PyramidModel.Lemmas.ResourceUrlFind
/-! C07 helper lemmas, part 4: `ResourceURL`, the virtual-root trimming, requesting the URL back.
Property theorems are in `Props/C07.lean`. -/
namespace Pyr.ResUrl
open Pyr.Trav

/-! ### normal form of `ResourceURL.__init__` -/

/-- `physical_path_tuple` after the trailing `''` has been appended (not for the root) -/
def physTuple (p : List Seg) : List Seg := if p = [] then [[]] else [] :: p ++ [[]]

theorem physical_eq (p : List Seg) :
    (if resourcePathTuple p [] ≠ [[]] then joinPathTuple (resourcePathTuple p []) ++ ['/']
      else joinPathTuple (resourcePathTuple p [])) = pathOf p := by
  simp only [resourcePathTuple, resourcePathList_eq, List.append_nil, joinPathTuple_abs, pathOf_eq]
  cases p with
  | nil => simp [joinWith, slashed]
  | cons x r =>
    have : (x :: r).map quoteSegment ≠ [] := by simp
    simp only [ne_eq, List.cons.injEq, reduceCtorEq, and_false, not_false_eq_true, if_true, List.cons_append]
    rw [joinWith_slash _ this]
    exact ⟨trivial, rfl⟩

theorem physTuple_eq (p : List Seg) :
    (if resourcePathTuple p [] ≠ [[]] then resourcePathTuple p [] ++ [[]] else resourcePathTuple p []) = physTuple p := by
  simp only [resourcePathTuple, resourcePathList_eq, List.append_nil, physTuple]
  cases p <;> simp

theorem resourceURL_none (p : List Seg) :
    resourceURL p none = .ok { physicalPath := pathOf p, virtualPath := pathOf p,
                               physicalPathTuple := physTuple p, virtualPathTuple := physTuple p } := by
  simp only [resourceURL, physical_eq, physTuple_eq]

theorem split_no_nil (t : Text) : [] ∉ splitPathInfo t := by
  intro h
  rw [splitPathInfo_eq] at h
  exact (normSegs_clean_out _ [] h).1.1 rfl

/-- comparing `physical_path_tuple[:numels]` (which ends in `''`) with the header's segments is the prefix test -/
theorem take_snoc_nil_iff (p vt : List Seg) (h : [] ∉ vt) : (p ++ [[]]).take vt.length = vt ↔ vt <+: p := by
  constructor
  · intro e
    have hp : vt <+: p ++ [[]] := by rw [← e]; exact List.take_prefix _ _
    rcases List.prefix_concat_iff.mp hp with e' | hp'
    · exact absurd (by rw [e']; simp) h
    · exact hp'
  · rintro ⟨r, rfl⟩
    rw [List.append_assoc]
    exact List.take_left' rfl

theorem slashed_eq_joinWith (xs : List Text) : slashed xs = joinWith '/' (xs ++ [[]]) := by
  induction xs with
  | nil => rfl
  | cons x r ih =>
    rw [slashed_cons, ih]
    cases r <;> simp [joinWith]

/-- `_join_path_tuple(('',) + rest + ('',))` is the URL path of `rest` -/
theorem joinPathTuple_vpt (rest : List Seg) : joinPathTuple ([] :: (rest ++ [[]])) = pathOf rest := by
  rw [joinPathTuple_abs, pathOf_eq, slashed_eq_joinWith]
  simp [quoteSegment_nil]

/-- `ResourceURL` under a decodable header: the virtual path is what the property demands for the virtual root
the traverser reads out of that header. -/
theorem resourceURL_vroot (p : List Seg) (hdr : Bytes) (v : Text) (hd : decodePathInfo hdr = some v) :
    ∃ u, resourceURL p (some hdr) = .ok u ∧ u.physicalPath = pathOf p ∧ u.physicalPathTuple = physTuple p ∧
      u.virtualPath = specVirtualPath p (some (splitPathInfo v)) ∧
      u.virtualPathTuple = (if splitPathInfo v ≠ [] ∧ inside (splitPathInfo v) p = true
        then [] :: (p.drop (splitPathInfo v).length ++ [[]]) else physTuple p) := by
  have hnil := split_no_nil v
  simp only [resourceURL, physical_eq, physTuple_eq, hd]
  generalize splitPathInfo v = vt at hnil ⊢
  by_cases hvt : vt = []
  · subst hvt
    refine ⟨_, by simp; rfl, rfl, rfl, ?_, ?_⟩ <;> simp [specVirtualPath, inside]
  · have hlen : ([] :: vt : List Seg).length > 1 := by
      have := List.length_pos_iff.mpr hvt
      simp; omega
    by_cases hp : p = []
    · subst hp
      have hno : ¬ ((physTuple []).take ([] :: vt : List Seg).length = [] :: vt) := by
        cases vt with
        | nil => exact absurd rfl hvt
        | cons x r => simp [physTuple]
      have hin : inside vt [] = false := by
        cases vt with
        | nil => exact absurd rfl hvt
        | cons x r => simp [inside]
      refine ⟨_, by rw [if_neg (by intro h; exact hno h.2)], rfl, rfl, ?_, ?_⟩ <;> simp [specVirtualPath, hin]
    · have hpt : physTuple p = [] :: (p ++ [[]]) := by simp [physTuple, hp]
      have hiff : ((physTuple p).take ([] :: vt : List Seg).length = [] :: vt) ↔ vt <+: p := by
        rw [hpt]
        simp only [List.length_cons, List.take_succ_cons, List.cons.injEq, true_and]
        exact take_snoc_nil_iff p vt hnil
      by_cases hin : inside vt p = true
      · have hpre : vt <+: p := List.isPrefixOf_iff_prefix.mp hin
        have hc : ([] :: vt : List Seg).length > 1 ∧ (physTuple p).take ([] :: vt : List Seg).length = [] :: vt :=
          ⟨hlen, hiff.mpr hpre⟩
        have hdrop : (physTuple p).drop ([] :: vt : List Seg).length = p.drop vt.length ++ [[]] := by
          rw [hpt]
          simp only [List.length_cons, List.drop_succ_cons]
          exact List.drop_append_of_le_length hpre.length_le
        refine ⟨_, by rw [if_pos hc], rfl, rfl, ?_, ?_⟩
        · simp only [hdrop, joinPathTuple_vpt, specVirtualPath, hin, if_true]
        · simp only [hdrop, hvt, hin, ne_eq, not_false_eq_true, and_self, if_true]
      · have hno : ¬ vt <+: p := fun h => hin (List.isPrefixOf_iff_prefix.mpr h)
        refine ⟨_, by rw [if_neg (by intro h; exact hno (hiff.mp h.2))], rfl, rfl, ?_, ?_⟩ <;>
          simp [specVirtualPath, hin]

theorem resourceURL_undecodable (p : List Seg) (hdr : Bytes) (hd : decodePathInfo hdr = none) :
    resourceURL p (some hdr) = .error .unicodeDecode := by
  simp only [resourceURL, hd]

/-! ### headers -/

theorem char_ofNat_byte (c : Char) (h : c.toNat < 128) : Char.ofNat (UInt8.ofNat c.toNat).toNat = c := by
  have : (UInt8.ofNat c.toNat).toNat = c.toNat := by simp; omega
  rw [this, Char.ofNat_toNat]

theorem utf8Enc_ascii (t : Text) (h : ∀ c ∈ t, c.toNat < 128) : utf8Enc t = enc t := by
  induction t with
  | nil => rfl
  | cons c r ih =>
    rw [utf8Enc_cons, utf8EncodeChar_ascii c (h c (by simp)), enc_cons, ih (fun d hd => h d (by simp [hd]))]
    rfl

/-- an ASCII header text is read as its normalised segments -/
theorem headerVroot_ascii (t : Text) (h : ∀ c ∈ t, c.toNat < 128) : headerVroot (enc t) = some (splitPathInfo t) := by
  simp only [headerVroot, decodePathInfo]
  rw [← utf8Enc_ascii t h, utf8Dec_utf8Enc]
  rfl

theorem utf8Enc_replicate_slash (k : Nat) : utf8Enc (List.replicate k '/') = List.replicate k 47 := by
  induction k with
  | zero => rfl
  | succ k ih => rw [List.replicate_succ, utf8Enc_lead_slash, ih, List.replicate_succ]

theorem replicate_snoc (k : Nat) : List.replicate k '/' ++ ['/'] = List.replicate (k + 1) '/' :=
  (List.replicate_succ').symm

/-- the header text: `/a/b` and `k` trailing slashes -/
def headerText (vt : List Seg) (k : Nat) : Text := '/' :: joinWith '/' vt ++ List.replicate k '/'

theorem vrootHeader_eq (vt : List Seg) (k : Nat) : vrootHeader vt k = utf8Enc (headerText vt k) := by
  simp only [vrootHeader, headerText]
  rw [show ('/' :: joinWith '/' vt ++ List.replicate k '/' : Text) = ('/' :: joinWith '/' vt) ++ List.replicate k '/' from rfl,
    utf8Enc_append, utf8Enc_replicate_slash]

theorem decode_vrootHeader (vt : List Seg) (k : Nat) : decodePathInfo (vrootHeader vt k) = some (headerText vt k) := by
  rw [vrootHeader_eq]; exact utf8Dec_utf8Enc _

/-- the header text followed by a slash is a slash-terminated list of segments whose non-empty ones are the names -/
theorem headerText_slashed (vt : List Seg) (k : Nat) (hadm : ∀ n ∈ vt, AdmissibleName n) :
    ∃ L : List Seg, headerText vt k ++ ['/'] = slashed L ∧ (∀ s ∈ L, '/' ∉ s) ∧ (∀ s ∈ L, s = [] ∨ Clean s) ∧
      L.filter (· ≠ []) = vt := by
  have hrep : ∀ m, List.replicate m '/' = slashed (List.replicate m []) := by
    intro m
    induction m with
    | zero => rfl
    | succ m ih => rw [List.replicate_succ, List.replicate_succ, slashed_cons, ← ih]; rfl
  by_cases hvt : vt = []
  · subst hvt
    refine ⟨List.replicate (k + 2) [], ?_, ?_, ?_, ?_⟩
    · rw [← hrep]
      simp only [headerText, joinWith]
      simp [replicate_snoc, List.replicate_succ]
    · intro s hs; rw [(List.mem_replicate.mp hs).2]; simp
    · intro s hs; exact .inl (List.mem_replicate.mp hs).2
    · exact filter_replicate_nil _
  · refine ⟨[] :: vt ++ List.replicate k [], ?_, ?_, ?_, ?_⟩
    · simp only [headerText]
      rw [List.cons_append, slashed_append, slashed_cons, ← hrep, ← joinWith_slash vt hvt]
      simp only [List.nil_append, List.cons_append, List.append_assoc, List.cons.injEq, true_and]
      congr 1
      rw [replicate_snoc, List.replicate_succ]
    · intro s hs
      simp only [List.cons_append, List.mem_cons, List.mem_append, List.mem_replicate] at hs
      rcases hs with e | m | ⟨_, e⟩
      · subst e; simp
      · exact (hadm s m).noSlash
      · subst e; simp
    · intro s hs
      simp only [List.cons_append, List.mem_cons, List.mem_append, List.mem_replicate] at hs
      rcases hs with e | m | ⟨_, e⟩
      · exact .inl e
      · exact .inr (hadm s m).clean
      · exact .inl e
    · simp only [List.cons_append, List.filter_cons, List.filter_append, filter_replicate_nil, List.append_nil]
      simp
      exact fun a ha => (hadm a ha).1

theorem split_trailing_slash (t : Text) : splitPathInfo t = splitPathInfo (t ++ ['/']) := by
  rw [splitPathInfo_eq, splitPathInfo_eq]
  have : t ++ ['/'] = t ++ '/' :: [] := rfl
  rw [this, splitOn_append_sep]
  have := normSegs_append_replicate_nil 1 (splitOn '/' t)
  simp only [List.replicate_one] at this
  simp only [splitOn]
  rw [this]

/-- header text followed by `/a/b/` splits into the virtual root's names and then `a`, `b` -/
theorem split_header_path (vt rest : List Seg) (k : Nat) (hv : ∀ n ∈ vt, AdmissibleName n)
    (hr : ∀ n ∈ rest, AdmissibleName n) :
    splitPathInfo (headerText vt k) = vt ∧
      splitPathInfo (headerText vt k ++ '/' :: slashed rest) = vt ++ rest := by
  obtain ⟨L, hL, h1, h2, h3⟩ := headerText_slashed vt k hv
  refine ⟨?_, ?_⟩
  · rw [split_trailing_slash, hL, splitPathInfo_eq]
    have := splitOn_slashed L [] h1
    simp only [List.append_nil] at this
    rw [this]
    simp only [splitOn]
    have h2' : ∀ s ∈ L ++ [[]], s = [] ∨ Clean s := by
      intro s hs
      rcases List.mem_append.mp hs with m | m
      · exact h2 s m
      · exact .inl (by simpa using m)
    rw [normSegs_filter _ h2', List.filter_append, h3]
    simp
  · have e : headerText vt k ++ '/' :: slashed rest = slashed (L ++ rest) ++ [] := by
      rw [slashed_append, ← hL]; simp
    rw [e, splitPathInfo_eq, splitOn_slashed _ _ (by
      intro s hs
      rcases List.mem_append.mp hs with m | m
      · exact h1 s m
      · exact (hr s m).noSlash)]
    simp only [splitOn]
    have h2' : ∀ s ∈ L ++ rest ++ [[]], s = [] ∨ Clean s := by
      intro s hs
      simp only [List.mem_append, List.mem_singleton] at hs
      rcases hs with (m | m) | m
      · exact h2 s m
      · exact .inr (hr s m).clean
      · exact .inl m
    rw [normSegs_filter _ h2', List.filter_append, List.filter_append, h3,
      filter_ne_nil_of_all rest (fun s hs => (hr s hs).1)]
    simp

/-! ### requesting a generated URL -/

theorem mem_slashed (xs : List Text) (c : Char) (h : c ∈ slashed xs) : c = '/' ∨ ∃ x ∈ xs, c ∈ x := by
  simp only [slashed, List.mem_flatMap, List.mem_append, List.mem_singleton] at h
  obtain ⟨x, hx, hc⟩ := h
  rcases hc with m | e
  · exact .inr ⟨x, hx, m⟩
  · exact .inl e

/-- the request for `/a%20b/c/` reaches the traverser with the text `/a b/c/` -/
theorem requestBack_slashed (root : Tree) (rest : List Seg) (hdr : Option Bytes) :
    requestBack root ('/' :: slashed (rest.map quoteSegment)) hdr =
      traverser root { pathInfo := some (utf8Enc ('/' :: slashed rest)), vroot := hdr, matchdict := none } := by
  have hascii : ∀ c ∈ ('/' :: slashed (rest.map quoteSegment) : Text), c.toNat < 128 := by
    intro c hc
    rcases List.mem_cons.mp hc with e | m
    · subst e; decide
    · rcases mem_slashed _ _ m with e | ⟨x, hx, hcx⟩
      · subst e; decide
      · obtain ⟨n, _, rfl⟩ := List.mem_map.mp hx
        exact (quoteSegment_chars n c hcx).1
  have hun : unquoteToBytes (enc ('/' :: slashed (rest.map quoteSegment))) = utf8Enc ('/' :: slashed rest) := by
    rw [unquote_lead_slash unquoteToBytes_isUnquoter, utf8Enc_lead_slash]
    have := unquote_slashed unquoteToBytes_isUnquoter rest []
    simp only [List.append_nil, unquoteToBytes_isUnquoter.nil] at this
    rw [this]
  simp only [requestBack, asciiEncode_of_ascii _ hascii, hun]

/-- the traverser under any decodable virtual-root header designating `vt`, asked for `/a/b/` below it -/
theorem traverser_vroot (root : Tree) (hdr : Bytes) (vt rest : List Seg) (hv : headerVroot hdr = some vt)
    (hr : ∀ n ∈ rest, AdmissibleName n) (hw : Walkable root (vt ++ rest) = true) :
    traverser root { pathInfo := some (utf8Enc ('/' :: slashed rest)), vroot := some hdr, matchdict := none } =
      .ok (specBack (vt ++ rest) vt) := by
  simp only [headerVroot] at hv
  cases hd : decodePathInfo hdr with
  | none => simp [hd] at hv
  | some V =>
    have s1 : splitPathInfo V = vt := by simpa [hd] using hv
    have s2 := split_slashed rest hr
    simp only [traverser, requestPath, Option.getD_some]
    have hdd : decodePathInfo (utf8Enc ('/' :: slashed rest)) = some ('/' :: slashed rest) := utf8Dec_utf8Enc _
    simp only [hdd, hd, reduceCtorEq, if_false, traverseText]
    simp only [s1, s2, walk_outcome, deepest_of_walkable root _ hw, specBack]
    by_cases hvt : vt = []
    · subst hvt; simp
    · have : 0 < vt.length := List.length_pos_iff.mpr hvt
      have e : List.take (vt.length + rest.length) (vt ++ rest) = vt ++ rest :=
        List.take_of_length_le (by simp)
      simp [this, e]

/-- `virtual_root()` under a decodable header -/
theorem virtualRoot_vroot (root : Tree) (p vt : List Seg) (hdr : Bytes) (hv : headerVroot hdr = some vt)
    (hp : ∀ n ∈ p, AdmissibleName n) (hw : Walkable root p = true) :
    virtualRoot root p (some hdr) = .ok (if inside vt p = true then vt else []) := by
  simp only [headerVroot] at hv
  cases hd : decodePathInfo hdr with
  | none => simp [hd] at hv
  | some V =>
    have s1 : splitPathInfo V = vt := by simpa [hd] using hv
    obtain ⟨u, hu, h1, _, h3, _⟩ := resourceURL_vroot p hdr V hd
    rw [s1] at h3
    simp only [virtualRoot, hu, h1, h3, specVirtualPath]
    by_cases hin : inside vt p = true
    · obtain ⟨rest, hr⟩ := List.isPrefixOf_iff_prefix.mp hin
      have hadm : ∀ n ∈ vt, AdmissibleName n := fun n hn => hp n (by rw [← hr]; simp [hn])
      have hd' : p.drop vt.length = rest := by rw [← hr]; simp
      simp only [hin, if_true, hd']
      by_cases hvt : vt = []
      · subst hvt
        simp only [List.nil_append] at hr
        subst hr
        simp
      · have hq : (vt.map quoteSegment) ≠ [] := by simpa using hvt
        have e : pathOf p = ('/' :: joinWith '/' (vt.map quoteSegment)) ++ pathOf rest := by
          rw [pathOf_eq, pathOf_eq, ← hr, List.map_append, slashed_append, ← joinWith_slash _ hq]
          simp
        have hne : pathOf p ≠ pathOf rest := by
          intro h
          have := congrArg List.length h
          rw [e] at this
          simp at this
          omega
        have hsuf : (pathOf rest).isSuffixOf (pathOf p) = true :=
          List.isSuffixOf_iff_suffix.mpr ⟨_, e.symm⟩
        simp only [hne, ne_eq, not_false_eq_true, hsuf, and_self, if_true]
        have ht : (pathOf p).take ((pathOf p).length - (pathOf rest).length) = '/' :: joinWith '/' (vt.map quoteSegment) := by
          rw [e]
          apply List.take_left'
          simp
          omega
        rw [ht, findResource_abs root p vt hadm]
        have hwv : Walkable root vt = true := walkable_prefix root vt rest (by rw [hr]; exact hw)
        simp [hwv]
    · simp [hin]

end Pyr.ResUrl
