import PyramidModel.RouterSpec
import PyramidModel.Props.C03
/-! X01 helper lemmas, view-lookup part: the view C03's lookup picks does not depend on the policy's verdict, so asking the
policy about *the picked view's* permission (the composed model's `verdict`) is the same as C03's single-verdict record;
through C03's `lookup_eq_spec` the composed lookup equals `specView`. -/
namespace Pyr.Router
open Pyr.ViewLookup

theorem cond_eval_permitted (r : Request) (b : Bool) (c : Cond) : c.eval { r with permitted := b } = c.eval r := by
  cases c <;> rfl

theorem pred_eval_permitted (r : Request) (b : Bool) (p : Pred) : p.eval { r with permitted := b } = p.eval r := by
  simp only [Pred.eval, cond_eval_permitted]

theorem holds_permitted (r : Request) (b : Bool) (v : DView) : v.holds { r with permitted := b } = v.holds r := by
  simp only [DView.holds, pred_eval_permitted]

theorem candidates_permitted (regs : List ViewReg) (cls : Nat) (r : Request) (b : Bool) :
    candidates regs cls { r with permitted := b } = candidates regs cls r := rfl

theorem anyRegistered_permitted (regs : List ViewReg) (cls : Nat) (r : Request) (b : Bool) :
    anyRegistered regs cls { r with permitted := b } = anyRegistered regs cls r := rfl

/-- C03's declarative outcome for a record whose verdict is `b` -/
theorem expectedView_permitted (regs : List ViewReg) (cls : Nat) (r : Request) (b : Bool) :
    expectedView regs cls { r with permitted := b } =
      match (candidates regs cls r).find? (·.holds r) with
      | some v => if v.secured && !b then .forbidden v.tag else .response v.tag
      | none => if anyRegistered regs cls r then .mismatch else .none := by
  simp only [expectedView, candidates_permitted, anyRegistered_permitted, holds_permitted]
  rfl

/-- the composed model's verdict, read on C03's candidates: the policy's answer for the first qualifying candidate -/
theorem verdict_eq (app : App) (cls : Nat) (key : CtxKey) (r : Request) (hc : Coherent app.regs) :
    verdict app cls key r =
      match (candidates app.regs cls r).find? (·.holds r) with
      | some v => app.permits key v.tag
      | none => true := by
  simp only [App.registry, verdict, lookup_eq_spec _ _ _ hc, expectedView_permitted]
  cases (candidates app.regs cls r).find? (·.holds r) with
  | none =>
    simp only []
    by_cases ha : anyRegistered app.regs cls r = true
    · simp only [ha, if_true]
    · simp only [ha, Bool.false_eq_true, if_false]
  | some v => simp only [Bool.not_true, Bool.and_false, Bool.false_eq_true, if_false]

/-- the composed lookup (ask the policy about the permission of the view the lookup picks) is the declarative `specView` -/
theorem lookup_with_verdict (app : App) (cls : Nat) (key : CtxKey) (r : Request) (hc : Coherent app.regs) :
    callView app.registry cls { r with permitted := verdict app cls key r } = specView app cls key r := by
  simp only [App.registry, verdict, lookup_eq_spec _ _ _ hc, expectedView_permitted, specView]
  cases (candidates app.regs cls r).find? (·.holds r) with
  | none => rfl
  | some v =>
    by_cases hs : v.secured = true
    · simp only [hs, Bool.true_and, Bool.not_true, Bool.false_eq_true, if_false]
    · simp only [hs, Bool.false_and, Bool.false_eq_true, if_false]

end Pyr.Router
