import PyramidModel.ViewLookup
/-! Helper lemmas for C03: the generic stable sort `sortL`/`insertLast` of `ViewLookup.lean`. -/
namespace Pyr.ViewLookup

variable {α : Type}

/-- sortedness w.r.t. a Boolean order -/
def SortedBy (le : α → α → Bool) (l : List α) : Prop := l.Pairwise (fun a b => le a b = true)

structure TotalPreorder (le : α → α → Bool) : Prop where
  total : ∀ a b, le a b = true ∨ le b a = true
  trans : ∀ a b c, le a b = true → le b c = true → le a c = true

theorem mem_insertLast (le : α → α → Bool) (v x : α) (l : List α) :
    x ∈ insertLast le v l ↔ x = v ∨ x ∈ l := by
  induction l with
  | nil => simp [insertLast]
  | cons y ys ih =>
    simp only [insertLast]
    split
    · simp only [List.mem_cons, ih]
      constructor
      · rintro (h | h | h)
        · exact Or.inr (Or.inl h)
        · exact Or.inl h
        · exact Or.inr (Or.inr h)
      · rintro (h | h | h)
        · exact Or.inr (Or.inl h)
        · exact Or.inl h
        · exact Or.inr (Or.inr h)
    · simp [List.mem_cons]

theorem insertLast_perm (le : α → α → Bool) (v : α) (l : List α) :
    (insertLast le v l).Perm (v :: l) := by
  induction l with
  | nil => simp [insertLast]
  | cons y ys ih =>
    simp only [insertLast]
    split
    · exact (List.Perm.cons y ih).trans (List.Perm.swap v y ys)
    · exact List.Perm.refl _

theorem insertLast_sorted {le : α → α → Bool} (h : TotalPreorder le) (v : α) (l : List α)
    (hs : SortedBy le l) : SortedBy le (insertLast le v l) := by
  induction l with
  | nil => simp [insertLast, SortedBy]
  | cons y ys ih =>
    simp only [SortedBy, List.pairwise_cons] at hs
    simp only [insertLast]
    split
    · rename_i hyv
      simp only [SortedBy, List.pairwise_cons]
      refine ⟨?_, ih hs.2⟩
      intro x hx
      rcases (mem_insertLast le v x ys).mp hx with rfl | hx
      · exact hyv
      · exact hs.1 x hx
    · rename_i hyv
      have hvy : le v y = true := by
        rcases h.total v y with h1 | h1
        · exact h1
        · exact absurd h1 hyv
      simp only [SortedBy, List.pairwise_cons]
      refine ⟨?_, hs.1, hs.2⟩
      intro x hx
      rcases List.mem_cons.mp hx with rfl | hx
      · exact hvy
      · exact h.trans _ _ _ hvy (hs.1 x hx)

theorem insertLast_of_all_le (le : α → α → Bool) (v : α) (l : List α)
    (h : ∀ y ∈ l, le y v = true) : insertLast le v l = l ++ [v] := by
  induction l with
  | nil => rfl
  | cons y ys ih =>
    simp only [insertLast, h y (List.mem_cons_self ..), if_true, List.cons_append]
    rw [ih (fun z hz => h z (List.mem_cons_of_mem _ hz))]

theorem foldl_insertLast_of_sorted (le : α → α → Bool) (l acc : List α)
    (hs : SortedBy le (acc ++ l)) :
    l.foldl (fun a v => insertLast le v a) acc = acc ++ l := by
  induction l generalizing acc with
  | nil => simp
  | cons v vs ih =>
    simp only [List.foldl_cons]
    have hall : ∀ y ∈ acc, le y v = true := by
      intro y hy
      have := List.pairwise_append.mp hs
      exact this.2.2 y hy v (List.mem_cons_self ..)
    rw [insertLast_of_all_le le v acc hall]
    have : acc ++ [v] ++ vs = acc ++ v :: vs := by simp
    rw [ih (acc ++ [v]) (by rw [this]; exact hs), this]

theorem sortL_of_sorted (le : α → α → Bool) (l : List α) (hs : SortedBy le l) : sortL le l = l := by
  have := foldl_insertLast_of_sorted le l [] (by simpa using hs)
  simpa [sortL] using this

theorem foldl_insertLast_sorted {le : α → α → Bool} (h : TotalPreorder le) (l acc : List α)
    (hs : SortedBy le acc) : SortedBy le (l.foldl (fun a v => insertLast le v a) acc) := by
  induction l generalizing acc with
  | nil => simpa
  | cons v vs ih => exact ih _ (insertLast_sorted h v acc hs)

theorem sortL_sorted {le : α → α → Bool} (h : TotalPreorder le) (l : List α) :
    SortedBy le (sortL le l) :=
  foldl_insertLast_sorted h l [] (by simp [SortedBy])

theorem sortL_idem {le : α → α → Bool} (h : TotalPreorder le) (l : List α) :
    sortL le (sortL le l) = sortL le l :=
  sortL_of_sorted le _ (sortL_sorted h l)

theorem sortL_append_single (le : α → α → Bool) (l : List α) (v : α) :
    sortL le (l ++ [v]) = insertLast le v (sortL le l) := by
  simp [sortL, List.foldl_append]

/-- `l.append(v); l.sort()` on a list that was sorted the same way before -/
theorem sortL_sortL_append {le : α → α → Bool} (h : TotalPreorder le) (l : List α) (v : α) :
    sortL le (sortL le l ++ [v]) = sortL le (l ++ [v]) := by
  rw [sortL_append_single, sortL_idem h, sortL_append_single]

theorem foldl_insertLast_perm (le : α → α → Bool) (l acc : List α) :
    (l.foldl (fun a v => insertLast le v a) acc).Perm (l.reverse ++ acc) := by
  induction l generalizing acc with
  | nil => simp
  | cons v vs ih =>
    simp only [List.foldl_cons, List.reverse_cons, List.append_assoc, List.singleton_append]
    exact (ih _).trans (List.Perm.append_left _ (insertLast_perm le v acc))

theorem sortL_perm (le : α → α → Bool) (l : List α) : (sortL le l).Perm l := by
  have := foldl_insertLast_perm le l []
  simp only [List.append_nil] at this
  exact this.trans (List.reverse_perm l)

theorem mem_sortL (le : α → α → Bool) (l : List α) (x : α) : x ∈ sortL le l ↔ x ∈ l :=
  (sortL_perm le l).mem_iff

theorem sortL_nil (le : α → α → Bool) : sortL le ([] : List α) = [] := rfl

/-- mapping with a function that does not change the order relation on the members commutes -/
theorem insertLast_map (le : α → α → Bool) (f : α → α) (v : α) (l : List α)
    (hf : ∀ y ∈ l, le (f y) (f v) = le y v) :
    insertLast le (f v) (l.map f) = (insertLast le v l).map f := by
  induction l with
  | nil => rfl
  | cons y ys ih =>
    simp only [List.map_cons, insertLast, hf y (List.mem_cons_self ..)]
    split
    · simp only [List.map_cons]
      rw [ih (fun z hz => hf z (List.mem_cons_of_mem _ hz))]
    · simp

theorem foldl_insertLast_map (le : α → α → Bool) (f : α → α) (l acc : List α)
    (hf : ∀ x, x ∈ l ∨ x ∈ acc → ∀ y, y ∈ l ∨ y ∈ acc → le (f x) (f y) = le x y) :
    (l.map f).foldl (fun a v => insertLast le v a) (acc.map f)
      = (l.foldl (fun a v => insertLast le v a) acc).map f := by
  induction l generalizing acc with
  | nil => rfl
  | cons v vs ih =>
    simp only [List.map_cons, List.foldl_cons]
    rw [insertLast_map le f v acc (fun y hy => hf y (Or.inr hy) v (Or.inl (List.mem_cons_self ..)))]
    apply ih
    intro x hx y hy
    apply hf
    · rcases hx with hx | hx
      · exact Or.inl (List.mem_cons_of_mem _ hx)
      · rcases (mem_insertLast le v x acc).mp hx with rfl | hx
        · exact Or.inl (List.mem_cons_self ..)
        · exact Or.inr hx
    · rcases hy with hy | hy
      · exact Or.inl (List.mem_cons_of_mem _ hy)
      · rcases (mem_insertLast le v y acc).mp hy with rfl | hy
        · exact Or.inl (List.mem_cons_self ..)
        · exact Or.inr hy

theorem sortL_map (le : α → α → Bool) (f : α → α) (l : List α)
    (hf : ∀ x ∈ l, ∀ y ∈ l, le (f x) (f y) = le x y) :
    sortL le (l.map f) = (sortL le l).map f := by
  have := foldl_insertLast_map le f l [] (by
    intro x hx y hy
    rcases hx with hx | hx
    · rcases hy with hy | hy
      · exact hf x hx y hy
      · simp at hy
    · simp at hx)
  simpa [sortL] using this

/-- a sorted list stays sorted when an element is found by `find?`-style scanning: every element
before a member is not greater -/
theorem sortedBy_append {le : α → α → Bool} {l₁ l₂ : List α} (h : SortedBy le (l₁ ++ l₂)) :
    SortedBy le l₁ ∧ SortedBy le l₂ ∧ ∀ a ∈ l₁, ∀ b ∈ l₂, le a b = true :=
  List.pairwise_append.mp h

end Pyr.ViewLookup
-- x
