import PyramidModel.Lemmas.SessionOps
/-!
C10 helper lemmas, part 2: the session dictionary stays `JsonNormal` (pairwise distinct keys at every depth) when
the arguments of the calls are — the domain on which the abstract serialiser is assumed to round-trip.
-/
namespace Pyr.Session

/-- the session dictionary is JSON-normal -/
def DataNormal (d : Data) : Bool := JV.keysNodup (d.map (·.1)) && JV.normalO d

/-- the values a call stores are JSON-normal -/
def Op.normal : Op → Bool
  | .set _ v => v.normal
  | .update kvs => JV.normalO kvs
  | .setdefault _ v => v.normal
  | .flash msg _ _ => msg.normal
  | _ => true

def OpsNormal (ops : List (Nat × Op)) : Bool := ops.all (fun p => p.2.normal)

theorem keysNodup_iff (l : List String) : JV.keysNodup l = true ↔ l.Nodup := by
  induction l with
  | nil => simp [JV.keysNodup]
  | cons k r ih => simp [JV.keysNodup, ih, List.nodup_cons]

theorem normalO_iff (d : Data) : JV.normalO d = true ↔ ∀ p ∈ d, p.2.normal = true := by
  induction d with
  | nil => simp [JV.normalO]
  | cons p r ih =>
    rcases p with ⟨k, v⟩
    simp [JV.normalO, ih]

theorem normalL_iff (xs : List JV) : JV.normalL xs = true ↔ ∀ x ∈ xs, x.normal = true := by
  induction xs with
  | nil => simp [JV.normalL]
  | cons x r ih => simp [JV.normalL, ih]

theorem DataNormal_iff (d : Data) :
    DataNormal d = true ↔ (d.map (·.1)).Nodup ∧ ∀ p ∈ d, p.2.normal = true := by
  simp [DataNormal, keysNodup_iff, normalO_iff]

theorem dget_none_iff (d : Data) (k : String) : dget d k = none ↔ k ∉ d.map (·.1) := by
  induction d with
  | nil => simp [dget, JV.look]
  | cons p r ih =>
    rcases p with ⟨k', v'⟩
    by_cases h : (k' == k) = true
    · have : k' = k := by simpa using h
      simp [dget, JV.look, this]
    · have hne : ¬ k' = k := by simpa using h
      have : dget r k = JV.look k r := rfl
      simp only [dget, JV.look, h] at *
      simp [ih, hne, Ne.symm hne, eq_comm]

theorem dget_mem (d : Data) (k : String) (v : JV) (h : dget d k = some v) : (k, v) ∈ d := by
  induction d with
  | nil => simp [dget, JV.look] at h
  | cons p r ih =>
    rcases p with ⟨k', v'⟩
    by_cases hk : (k' == k) = true
    · have : k' = k := by simpa using hk
      simp [dget, JV.look, hk] at h
      simp [this, h]
    · have h' : dget r k = some v := by simpa [dget, JV.look, hk] using h
      exact List.mem_cons_of_mem _ (ih h')

theorem keys_dset (d : Data) (k : String) (v : JV) :
    (dset d k v).map (·.1) = if k ∈ d.map (·.1) then d.map (·.1) else d.map (·.1) ++ [k] := by
  induction d with
  | nil => simp [dset]
  | cons p r ih =>
    rcases p with ⟨k', v'⟩
    by_cases h : (k' == k) = true
    · have : k' = k := by simpa using h
      simp [dset, this]
    · have hne : ¬ k' = k := by simpa using h
      simp only [dset, h]
      by_cases hm : k ∈ r.map (·.1)
      · simp only [hm, if_true] at ih
        simp [ih, hm]
      · simp only [hm, if_false] at ih
        have hne' : ¬ k = k' := fun e => hne e.symm
        simp [ih, hm, hne']

theorem mem_dset (d : Data) (k : String) (v : JV) (p : String × JV) (h : p ∈ dset d k v) : p ∈ d ∨ p = (k, v) := by
  induction d with
  | nil => simpa [dset] using h
  | cons q r ih =>
    rcases q with ⟨k', v'⟩
    by_cases hk : (k' == k) = true
    · have hkk : k' = k := by simpa using hk
      simp [dset, hk] at h
      rcases h with h | h
      · right; rw [h, hkk]
      · left; exact List.mem_cons_of_mem _ h
    · simp [dset, hk] at h
      rcases h with h | h
      · left; simp [h]
      · rcases ih h with h' | h'
        · left; exact List.mem_cons_of_mem _ h'
        · right; exact h'

theorem dset_normal (d : Data) (k : String) (v : JV) (hd : DataNormal d = true) (hv : v.normal = true) :
    DataNormal (dset d k v) = true := by
  rw [DataNormal_iff] at hd ⊢
  refine ⟨?_, ?_⟩
  · rw [keys_dset]
    split
    · exact hd.1
    · rename_i hm
      rw [List.nodup_append]
      refine ⟨hd.1, by simp, ?_⟩
      intro a ha b hb
      simp at hb
      subst hb
      intro hab
      exact hm (hab ▸ ha)
  · intro p hp
    rcases mem_dset d k v p hp with h | h
    · exact hd.2 p h
    · rw [h]; exact hv

theorem ddel_sublist (d : Data) (k : String) : (ddel d k).Sublist d := by
  induction d with
  | nil => simp [ddel]
  | cons p r ih =>
    rcases p with ⟨k', v'⟩
    by_cases h : (k' == k) = true
    · simp [ddel, h]
    · simp [ddel, h, ih]

theorem sublist_normal (d d' : Data) (hs : d'.Sublist d) (hd : DataNormal d = true) : DataNormal d' = true := by
  rw [DataNormal_iff] at hd ⊢
  exact ⟨(hs.map _).nodup hd.1, fun p hp => hd.2 p (hs.subset hp)⟩

theorem dupdate_normal (d : Data) (kvs : List (String × JV)) (hd : DataNormal d = true) (hk : JV.normalO kvs = true) :
    DataNormal (dupdate d kvs) = true := by
  induction kvs generalizing d with
  | nil => simpa [dupdate] using hd
  | cons p r ih =>
    rcases p with ⟨k, v⟩
    simp only [JV.normalO, Bool.and_eq_true] at hk
    have := ih (dset d k v) (dset_normal d k v hd hk.1) hk.2
    simpa [dupdate] using this

theorem DataNormal_nil : DataNormal [] = true := by simp [DataNormal, JV.keysNodup, JV.normalO]

theorem queue_append_normal (d : Data) (k : String) (xs : List JV) (m : JV) (hd : DataNormal d = true)
    (hg : dget d k = some (.arr xs)) (hm : m.normal = true) : (JV.arr (xs ++ [m])).normal = true := by
  have h1 : (JV.arr xs).normal = true := ((DataNormal_iff d).1 hd).2 _ (dget_mem d k _ hg)
  simp only [JV.normal, normalL_iff] at h1 ⊢
  intro x hx
  rcases List.mem_append.1 hx with h | h
  · exact h1 x h
  · simp at h; rw [h]; exact hm

/-- every call with normal arguments keeps the dictionary normal -/
theorem apply_normal (op : Op) (d : Data) (hd : DataNormal d = true) (ho : op.normal = true) :
    DataNormal (Spec.apply op d) = true := by
  cases op with
  | set k v => exact dset_normal d k v hd ho
  | del k => exact sublist_normal d _ (ddel_sublist d k) hd
  | update kvs => exact dupdate_normal d kvs hd ho
  | pop k dflt => exact sublist_normal d _ (ddel_sublist d k) hd
  | popitem => exact sublist_normal d _ (List.dropLast_sublist d) hd
  | setdefault k v =>
    simp only [Spec.apply]
    split
    · exact hd
    · exact dset_normal d k v hd ho
  | clear => exact DataNormal_nil
  | invalidate => exact DataNormal_nil
  | flash msg q dup =>
    have ho : msg.normal = true := by simpa [Op.normal] using ho
    simp only [Spec.apply, Spec.queueOf]
    cases hg : dget d (flashKey q) with
    | none =>
      simp only []
      split
      · exact dset_normal d _ _ hd (by simpa [JV.normal, JV.normalL] using ho)
      · split
        · exact hd
        · exact dset_normal d _ _ hd (by simp [JV.normal, JV.normalL])
    | some x =>
      cases x with
      | arr xs =>
        simp only []
        split
        · exact dset_normal d _ _ hd (queue_append_normal d _ xs msg hd hg ho)
        · split
          · exact hd
          · exact dset_normal d _ _ hd (by simp [JV.normal, JV.normalL])
      | _ => exact hd
  | popFlash q => exact sublist_normal d _ (ddel_sublist d _) hd
  | newCsrf tok => exact dset_normal d _ _ hd (by simp [JV.normal])
  | getCsrf tok =>
    simp only [Spec.apply]
    split
    · exact hd
    · exact dset_normal d _ _ hd (by simp [JV.normal])
  | _ => exact hd

theorem endData_normal (d : Data) (ops : List (Nat × Op)) (hd : DataNormal d = true) (ho : OpsNormal ops = true) :
    DataNormal (Spec.endData d ops) = true := by
  induction ops generalizing d with
  | nil => exact hd
  | cons p rest ih =>
    rcases p with ⟨dq, op⟩
    simp only [OpsNormal, List.all_cons, Bool.and_eq_true] at ho
    exact ih (Spec.apply op d) (apply_normal op d hd ho.1) ho.2

end Pyr.Session
