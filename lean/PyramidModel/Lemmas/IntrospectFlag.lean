import PyramidModel.Lemmas.Introspect
/-!
Helper lemmas for C20, part 2: the `introspection` flag through `include` nesting (`flatten`).
-/
namespace Pyr.Introspect

mutual
/-- no included callable assigns `config.introspection` -/
def Stmt.noSet : Stmt → Bool
  | .act _ => true
  | .incl _ setFlag body => setFlag.isNone && noSetL body
def noSetL : List Stmt → Bool
  | [] => true
  | s :: r => s.noSet && noSetL r
end

mutual
/-- the actions a program declares, in declaration order -/
def Stmt.acts : Stmt → List ActD
  | .act a => [a]
  | .incl _ _ body => actsL body
def actsL : List Stmt → List ActD
  | [] => []
  | s :: r => s.acts ++ actsL r
end

mutual
theorem flatten_off (path : List Nat) : (s : Stmt) → s.noSet = true →
    ∀ p ∈ flatten true false path s, p.intrs = []
  | .act a, _ => by
    intro p hp
    simp [flatten] at hp
    subst hp
    rfl
  | .incl node setFlag body, h => by
    intro p hp
    simp only [Stmt.noSet, Bool.and_eq_true, Option.isNone_iff_eq_none] at h
    obtain ⟨h1, h2⟩ := h
    subst h1
    simp only [flatten, Option.getD_none, if_true] at hp
    exact flattenL_off _ body h2 p hp
theorem flattenL_off (path : List Nat) : (l : List Stmt) → noSetL l = true →
    ∀ p ∈ flattenL true false path l, p.intrs = []
  | [], _ => by
    intro p hp
    simp [flattenL] at hp
  | s :: r, h => by
    intro p hp
    simp only [noSetL, Bool.and_eq_true] at h
    simp only [flattenL, List.mem_append] at hp
    rcases hp with hp | hp
    · exact flatten_off path s h.1 p hp
    · exact flattenL_off path r h.2 p hp
end

mutual
/-- with the flag on (and nobody switching it) every action keeps the introspectables its directive built,
whatever `include` does with the flag -/
theorem flatten_on (forwards : Bool) (path : List Nat) : (s : Stmt) → s.noSet = true →
    (flatten forwards true path s).map (fun p => (p.id, p.intrs)) = s.acts.map (fun a => (a.id, a.intrs))
  | .act a, _ => by
    simp [flatten, Stmt.acts]
  | .incl node setFlag body, h => by
    simp only [Stmt.noSet, Bool.and_eq_true, Option.isNone_iff_eq_none] at h
    obtain ⟨h1, h2⟩ := h
    subst h1
    simp only [flatten, Option.getD_none, Stmt.acts]
    have : (if forwards = true then true else true) = true := by cases forwards <;> rfl
    rw [this]
    exact flattenL_on forwards _ body h2
theorem flattenL_on (forwards : Bool) (path : List Nat) : (l : List Stmt) → noSetL l = true →
    (flattenL forwards true path l).map (fun p => (p.id, p.intrs)) = (actsL l).map (fun a => (a.id, a.intrs))
  | [], _ => by
    simp [flattenL, actsL]
  | s :: r, h => by
    simp only [noSetL, Bool.and_eq_true] at h
    simp only [flattenL, actsL, List.map_append]
    rw [flatten_on forwards path s h.1, flattenL_on forwards path r h.2]
end

theorem declsOf_nil_of_all_empty (ps : List Pending) (h : ∀ p ∈ ps, p.intrs = []) (i : Nat) : declsOf ps i = [] := by
  unfold declsOf
  split
  · rename_i p hp
    exact h p (List.mem_of_find?_eq_some hp)
  · rfl

theorem registerAll_no_decls (decls : Nat → List Decl) (h : ∀ i, decls i = []) (ids : List Nat) (S : IState) :
    registerAll decls ids S = .ok S := by
  induction ids with
  | nil => rfl
  | cons i r ih => simp [registerAll, h i, registerList, ih]

end Pyr.Introspect
