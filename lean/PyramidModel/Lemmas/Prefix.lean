import PyramidModel.Prefix
import PyramidModel.Lemmas.RouteAdd
/-! X08 helper lemmas: stripping commutes, `combine` is the join of the stripped operands, the join is a monoid. -/
namespace Pyr.Prefix

open Pyr.Route (lstripSlash rstripSlash Clean lstrip_of_head rstrip_of_last strip_eq head_lstrip last_rstrip
  strip_nil_or_clean clean_join stack_none stack_clean stackPrefix)
open Pyr.Trav (stripSlash splitOn)

deriving instance DecidableEq for Except

theorem lstrip_all_slash : ∀ (pat : Text), (∀ c ∈ pat, c = '/') → lstripSlash pat = []
  | [], _ => rfl
  | c :: cs, h => by
    have hc : c = '/' := h c (by simp)
    unfold lstripSlash
    rw [List.dropWhile_cons]; simp only [hc, decide_true, ite_true]
    exact lstrip_all_slash cs (fun d hd => h d (by simp [hd]))

/-- join of two texts by one slash, an empty operand contributing nothing -/
def joinNE (x y : Text) : Text := if x = [] then y else if y = [] then x else x ++ '/' :: y

/-- empty, or no slash at either end -/
def NilOrClean (t : Text) : Prop := t = [] ∨ Clean t

theorem lstrip_cons_slash (t : Text) : lstripSlash ('/' :: t) = lstripSlash t := by
  simp [lstripSlash, List.dropWhile_cons]

theorem lstrip_cons_ne (c : Char) (t : Text) (h : c ≠ '/') : lstripSlash (c :: t) = c :: t := by
  simp [lstripSlash, List.dropWhile_cons, h]

theorem rstrip_cons (c : Char) (t : Text) :
    rstripSlash (c :: t) = if rstripSlash t = [] ∧ c = '/' then [] else c :: rstripSlash t := by
  unfold rstripSlash
  rw [List.reverse_cons, List.dropWhile_append]
  by_cases he : List.dropWhile (· = '/') t.reverse = []
  · by_cases hc : c = '/'
    · simp [he, hc]
    · simp [he, hc, List.dropWhile_cons]
  · have : (List.dropWhile (· = '/') t.reverse).isEmpty = false := by
      cases hd : List.dropWhile (· = '/') t.reverse with
      | nil => exact absurd hd he
      | cons _ _ => rfl
    simp [this, he]

/-- `s.rstrip('/').lstrip('/') == s.lstrip('/').rstrip('/')` -/
theorem strip_comm (t : Text) : lstripSlash (rstripSlash t) = rstripSlash (lstripSlash t) := by
  induction t with
  | nil => rfl
  | cons c t ih =>
    by_cases hc : c = '/'
    · subst hc
      rw [lstrip_cons_slash, rstrip_cons]
      by_cases hr : rstripSlash t = []
      · simp only [hr, and_self, ite_true]
        rw [← ih, hr]
      · simp only [hr, false_and, ite_false]
        rw [lstrip_cons_slash, ih]
    · rw [lstrip_cons_ne c t hc, rstrip_cons]
      simp only [hc, and_false, ite_false]
      exact lstrip_cons_ne c _ hc

theorem strip_eq' (t : Text) : stripSlash t = lstripSlash (rstripSlash t) := by rw [strip_comm]; rfl

theorem strip_nilOrClean (t : Text) : NilOrClean (stripSlash t) := strip_nil_or_clean t

theorem strip_of_clean (t : Text) (h : Clean t) : stripSlash t = t := by
  rw [strip_eq, lstrip_of_head t h.2.1, rstrip_of_last t h.2.2]

theorem strip_of_nilOrClean (t : Text) (h : NilOrClean t) : stripSlash t = t := by
  cases h with
  | inl h => subst h; rfl
  | inr h => exact strip_of_clean t h

theorem strip_idem (t : Text) : stripSlash (stripSlash t) = stripSlash t := strip_of_nilOrClean _ (strip_nilOrClean t)

theorem dropWhile_nil_all (p : Char → Bool) : ∀ (l : List Char), l.dropWhile p = [] → ∀ x ∈ l, p x = true
  | [], _, x, hx => by cases hx
  | c :: cs, h, x, hx => by
    rw [List.dropWhile_cons] at h
    by_cases hp : p c = true
    · rw [if_pos hp] at h
      cases hx with
      | head => exact hp
      | tail _ hm => exact dropWhile_nil_all p cs h x hm
    · rw [if_neg hp] at h; cases h

theorem lstrip_nil_cases (x : Text) (h : lstripSlash x = []) : x = [] ∨ x.getLast? = some '/' := by
  unfold lstripSlash at h
  have h := dropWhile_nil_all _ x h
  cases hx : x.getLast? with
  | none => left; simpa using hx
  | some c =>
    right
    have hm : c ∈ x := List.mem_of_getLast? hx
    have := h c hm
    simp at this
    rw [this]

theorem txt_ofText (t : Text) : txt (ofText t) = t := by
  unfold ofText txt
  split
  · rename_i h; simp [h]
  · rfl

theorem combine_eq_stack (a b : Pfx) : combine a b = stackPrefix a b := by
  unfold combine stackPrefix ofText txt
  rfl

/-- only the stripped form of the outer prefix matters -/
theorem combine_norm_left (a b : Pfx) : combine a b = combine (norm a) b := by
  unfold combine norm
  rw [txt_ofText]
  congr 1
  generalize txt a = A
  generalize lstripSlash (txt b) = L
  by_cases hx : rstripSlash A = []
  · have hs : stripSlash A = [] := by rw [strip_eq', hx]; rfl
    rw [hx, hs]; rfl
  · have hl : lstripSlash (rstripSlash A) ≠ [] := by
      intro h
      cases lstrip_nil_cases _ h with
      | inl h => exact hx h
      | inr h => exact last_rstrip A h
    have hS : Clean (stripSlash A) := by
      cases strip_nilOrClean A with
      | inl h => rw [strip_eq'] at h; exact absurd h hl
      | inr h => exact h
    have h1 : lstripSlash (rstripSlash A ++ '/' :: L) = stripSlash A ++ '/' :: L := by
      unfold lstripSlash at hl ⊢
      rw [List.dropWhile_append]
      have : (List.dropWhile (· = '/') (rstripSlash A)).isEmpty = false := by
        cases hd : List.dropWhile (· = '/') (rstripSlash A) with
        | nil => exact absurd hd hl
        | cons _ _ => rfl
      rw [this]
      simp only [Bool.false_eq_true, ite_false]
      rw [strip_eq']; rfl
    have h2 : lstripSlash (rstripSlash (stripSlash A) ++ '/' :: L) = stripSlash A ++ '/' :: L := by
      rw [rstrip_of_last _ hS.2.2]
      apply lstrip_of_head
      cases hA : stripSlash A with
      | nil => exact absurd hA hS.1
      | cons c cs => have := hS.2.1; rw [hA] at this; simpa using this
    rw [strip_eq, strip_eq, h1, h2]

theorem joinNE_nilOrClean (x y : Text) (hx : NilOrClean x) (hy : NilOrClean y) : NilOrClean (joinNE x y) := by
  unfold joinNE
  split
  · exact hy
  · split
    · exact hx
    · rename_i h1 h2
      exact Or.inr (clean_join x y (hx.resolve_left h1) (hy.resolve_left h2))

/-- **`combine` is the join of the stripped operands** -/
theorem combine_eq (a b : Pfx) : combine a b = ofText (joinNE (stripSlash (txt a)) (stripSlash (txt b))) := by
  rw [combine_norm_left, combine_eq_stack]
  unfold norm
  have hb : b.getD [] = txt b := rfl
  cases strip_nilOrClean (txt a) with
  | inl h =>
    rw [h]
    have : ofText ([] : Text) = none := rfl
    rw [this, stack_none, hb]
    simp only [joinNE, ite_true]
    rfl
  | inr h =>
    have : ofText (stripSlash (txt a)) = some (stripSlash (txt a)) := by simp [ofText, h.1]
    rw [this, stack_clean _ h, hb]
    unfold joinNE ofText
    simp only [h.1, ite_false]
    split <;> simp [h.1]

theorem joinNE_assoc (x y z : Text) : joinNE (joinNE x y) z = joinNE x (joinNE y z) := by
  unfold joinNE
  by_cases hx : x = [] <;> by_cases hy : y = [] <;> by_cases hz : z = [] <;> simp [hx, hy, hz]

theorem joinNE_nil_left (y : Text) : joinNE [] y = y := by simp [joinNE]
theorem joinNE_nil_right (x : Text) : joinNE x [] = x := by
  unfold joinNE; split <;> simp_all

theorem strip_txt_combine (a b : Pfx) :
    stripSlash (txt (combine a b)) = joinNE (stripSlash (txt a)) (stripSlash (txt b)) := by
  rw [combine_eq, txt_ofText]
  exact strip_of_nilOrClean _ (joinNE_nilOrClean _ _ (strip_nilOrClean _) (strip_nilOrClean _))

def segsOf (t : Text) : List Text := if t = [] then [] else splitOn '/' t

theorem segsOf_joinNE (x y : Text) : segsOf (joinNE x y) = segsOf x ++ segsOf y := by
  unfold joinNE segsOf
  by_cases hx : x = [] <;> by_cases hy : y = [] <;> simp [hx, hy, Pyr.Trav.splitOn_append_sep]

theorem prefixAt_append (top : Pfx) (s : List Pfx) (p : Pfx) : prefixAt top (s ++ [p]) = combine (prefixAt top s) p := by
  simp [prefixAt, List.foldl_append]

end Pyr.Prefix
