/-
C09 helper lemmas, part 4: `parse_ticket` as a declarative format, and `identify` / `remember` case by case.
-/
import PyramidModel.Lemmas.AuthTktParse

namespace Pyr.AuthTkt

/-! ### parse_ticket accepts exactly the MAC of the parsed fields -/

theorem parseTicket_accept_iff (env : Env) (secret c ip : Text) (p : Parsed) :
    parseTicket env secret c ip = .ok (some p) ↔
      ∃ d, parseFields env.U (env.H.size * 2) c = some (d, p) ∧
        calcDigest env ip p.ts secret p.userid p.tokens p.userData = .ok d := by
  unfold parseTicket
  cases hpf : parseFields env.U (env.H.size * 2) c with
  | none => simp [pure, Except.pure]
  | some dp =>
    obtain ⟨d, q⟩ := dp
    simp only
    cases hcd : calcDigest env ip q.ts secret q.userid q.tokens q.userData with
    | error e =>
      simp only [bind, Except.bind]
      constructor
      · intro h; cases h
      · rintro ⟨d', h1, h2⟩
        simp only [Option.some.injEq, Prod.mk.injEq] at h1
        obtain ⟨rfl, rfl⟩ := h1
        rw [hcd] at h2; cases h2
    | ok expected =>
      simp only [bind, Except.bind, stringsDiffer_eq, pure, Except.pure]
      by_cases he : expected = d
      · subst he
        have hb : (utf8Enc expected != utf8Enc expected) = false := by simp
        simp only [hb]
        constructor
        · intro h
          simp at h
          exact ⟨expected, by rw [h], by rw [← h]; exact hcd⟩
        · rintro ⟨d', h1, _⟩
          simp at h1
          simp [h1.2]
      · have hne : (utf8Enc expected != utf8Enc d) = true := by
          simp; exact fun h => he (utf8Enc_injective h)
        simp only [hne]
        constructor
        · intro h; simp at h
        · rintro ⟨d', h1, h2⟩
          simp at h1
          obtain ⟨rfl, rfl⟩ := h1
          rw [hcd] at h2
          simp at h2
          exact absurd h2 he

/-- how `parse_ticket` splits what follows the userid -/
def splitData (data : Text) : Text × Text :=
  match splitFirst '!' data with
  | some (a, b) => (a, b)
  | none => ([], data)

/-- the wire format, declaratively: digest (exact width) · 8-character timestamp · quoted userid · `!` · data -/
theorem parseFields_iff (U : Uni) (dsz : Nat) (c d : Text) (p : Parsed) :
    parseFields U dsz c = some (d, p) ↔
      ∃ t8 uq data, stripQuotes c = d ++ t8 ++ uq ++ '!' :: data ∧ d.length = dsz ∧ t8.length = 8 ∧ '!' ∉ uq ∧
        pyInt U 16 t8 = some p.ts ∧ p.userid = unquote uq ∧ p.tokens = (splitData data).1 ∧
        p.userData = (splitData data).2 := by
  constructor
  · intro h
    unfold parseFields at h
    simp only at h
    generalize stripQuotes c = t at h
    cases hts : pyInt U 16 ((t.drop dsz).take 8) with
    | none => simp [hts] at h
    | some ts =>
      simp only [hts] at h
      cases hsp : splitFirst '!' (t.drop (dsz + 8)) with
      | none => simp [hsp] at h
      | some ab =>
        obtain ⟨uq, data⟩ := ab
        simp only [hsp] at h
        obtain ⟨hdr, hnot⟩ := splitFirst_some hsp
        have hlen : dsz + 8 < t.length := by
          have := congrArg List.length hdr
          simp at this
          omega
        refine ⟨(t.drop dsz).take 8, uq, data, ?_, ?_, ?_, hnot, ?_, ?_, ?_, ?_⟩
        · have e1 : t = t.take dsz ++ t.drop dsz := (List.take_append_drop dsz t).symm
          have e2 : t.drop dsz = (t.drop dsz).take 8 ++ (t.drop dsz).drop 8 := (List.take_append_drop 8 _).symm
          have e3 : (t.drop dsz).drop 8 = t.drop (dsz + 8) := by rw [List.drop_drop]
          have hd : d = t.take dsz := by
            cases hs2 : splitFirst '!' data <;> simp [hs2] at h <;> exact h.1.symm
          rw [hd, List.append_assoc, List.append_assoc, ← hdr, ← e3, ← e2, ← e1]
        · have hd : d = t.take dsz := by
            cases hs2 : splitFirst '!' data <;> simp [hs2] at h <;> exact h.1.symm
          rw [hd, List.length_take]; omega
        · rw [List.length_take, List.length_drop]; omega
        · cases hs2 : splitFirst '!' data <;> simp [hs2] at h <;> rw [← h.2] <;> exact hts
        · cases hs2 : splitFirst '!' data <;> simp [hs2] at h <;> rw [← h.2]
        · cases hs2 : splitFirst '!' data with
          | none => simp [hs2] at h; rw [← h.2]; simp [splitData, hs2]
          | some ab => obtain ⟨a, b⟩ := ab; simp [hs2] at h; rw [← h.2]; simp [splitData, hs2]
        · cases hs2 : splitFirst '!' data with
          | none => simp [hs2] at h; rw [← h.2]; simp [splitData, hs2]
          | some ab => obtain ⟨a, b⟩ := ab; simp [hs2] at h; rw [← h.2]; simp [splitData, hs2]
  · rintro ⟨t8, uq, data, hs, hdl, h8, hnot, hts, hu, htk, hud⟩
    unfold parseFields
    simp only [hs]
    have e : d ++ t8 ++ uq ++ '!' :: data = d ++ (t8 ++ (uq ++ '!' :: data)) := by simp [List.append_assoc]
    rw [e, List.take_left' hdl, List.drop_left' hdl, List.take_left' h8, hts]
    have e2 : (d ++ (t8 ++ (uq ++ '!' :: data))).drop (dsz + 8) = uq ++ '!' :: data := by
      rw [← List.drop_drop, List.drop_left' hdl, List.drop_left' h8]
    simp only [e2, splitFirst_append '!' _ _ hnot]
    obtain ⟨ts, userid, toks, ud⟩ := p
    simp only at hts hu htk hud
    cases hs2 : splitFirst '!' data with
    | none => simp [splitData, hs2] at htk hud; simp [hu, htk, hud]
    | some ab => obtain ⟨a, b⟩ := ab; simp [splitData, hs2] at htk hud; simp [hu, htk, hud]

/-! ### identify, case by case -/

theorem identify_no_cookie (env : Env) (cfg : Cfg) (req : Req) (st : St) (h : req.cookie = none) :
    identify env cfg req st = (.ok none, st) := by
  simp [identify, h, pure, Except.pure]

theorem identify_rejected (env : Env) (cfg : Cfg) (req : Req) (st : St) (c : Text) (hc : req.cookie = some c)
    (h : parseTicket env cfg.secret c (remoteAddr cfg req) = .ok none) :
    identify env cfg req st = (.ok none, st) := by
  simp [identify, hc, h, pure, Except.pure]

theorem identify_expired (env : Env) (cfg : Cfg) (req : Req) (st : St) (c : Text) (p : Parsed)
    (hc : req.cookie = some c) (h : parseTicket env cfg.secret c (remoteAddr cfg req) = .ok (some p))
    (he : isExpired cfg req.now p.ts = true) :
    identify env cfg req st = (.ok none, st) := by
  simp [identify, hc, h, he, pure, Except.pure]

theorem identify_plain (env : Env) (cfg : Cfg) (req : Req) (st : St) (c : Text) (p : Parsed) (u : UserId)
    (hc : req.cookie = some c) (h : parseTicket env cfg.secret c (remoteAddr cfg req) = .ok (some p))
    (he : isExpired cfg req.now p.ts = false)
    (hd : decodeLoop env.U (splitAll '|' p.userData) (.str p.userid) = .ok u)
    (hr : reissueDue cfg st req.now p.ts = false) :
    identify env cfg req st = (.ok (some ⟨p.ts, u, splitAll ',' p.tokens, p.userData⟩), st) := by
  simp [identify, hc, h, he, hd, hr, pure, Except.pure]

theorem identify_reissue (env : Env) (cfg : Cfg) (req : Req) (st : St) (c : Text) (p : Parsed) (u : UserId)
    (hc : req.cookie = some c) (h : parseTicket env cfg.secret c (remoteAddr cfg req) = .ok (some p))
    (he : isExpired cfg req.now p.ts = false)
    (hd : decodeLoop env.U (splitAll '|' p.userData) (.str p.userid) = .ok u)
    (hr : reissueDue cfg st req.now p.ts = true)
    (headers : List SetCookie) (st' : St)
    (hrem : remember env cfg req st true u cfg.maxAge (((splitAll ',' p.tokens).filter (!·.isEmpty)).map .str) = (.ok headers, st')) :
    identify env cfg req st =
      (.ok (some ⟨p.ts, u, (splitAll ',' p.tokens).filter (!·.isEmpty), p.userData⟩),
       { st' with reissued := true, callbacks := st'.callbacks ++ [headers] }) := by
  simp [identify, hc, h, he, hd, hr, hrem, pure, Except.pure]

/-- what a raised outcome of `identify` presupposes: a malformed address, or an accepted digest -/
theorem identify_raised_cases (env : Env) (cfg : Cfg) (req : Req) (st : St) (e : Err) (st' : St)
    (h : identify env cfg req st = (.error e, st')) :
    ∃ c, req.cookie = some c ∧
      (parseTicket env cfg.secret c (remoteAddr cfg req) = .error e ∨
       ∃ p, parseTicket env cfg.secret c (remoteAddr cfg req) = .ok (some p)) := by
  unfold identify at h
  cases hc : req.cookie with
  | none => simp [hc, pure, Except.pure] at h
  | some c =>
    refine ⟨c, rfl, ?_⟩
    simp only [hc] at h
    cases hp : parseTicket env cfg.secret c (remoteAddr cfg req) with
    | error e' =>
      simp [hp] at h
      left; rw [h.1]
    | ok o =>
      cases o with
      | none => simp [hp, pure, Except.pure] at h
      | some p => right; exact ⟨p, rfl⟩

/-! ### the userid type tags -/

/-- the identity a userid comes back as: `int`, `str`, `bytes` keep their type; any other type was stored as `str()` -/
def normUid : UserId → UserId
  | .other r => .str r
  | u => u

theorem latin1Enc_ascii (t : Text) (h : ∀ c ∈ t, c.toNat < 128) : latin1Enc t = .ok (asciiBytes t) := by
  induction t with
  | nil => rfl
  | cons c r ih =>
    have hc : c.toNat < 256 := by have := h c (by simp); omega
    have hr := ih (fun x hx => h x (by simp [hx]))
    simp [latin1Enc, hc, hr, asciiBytes, Functor.map, Except.map]

theorem b64_decode_encoded (bs : Bytes) : latin1Enc (b64enc bs) = .ok (asciiBytes (b64enc bs)) :=
  latin1Enc_ascii _ (fun c hc => (b64enc_chars bs c hc).1)

theorem no_bar_tag : ∀ tag ∈ [tagInt, tagB64Unicode, tagB64Str], '|' ∉ userIdTypePrefix ++ tag := by decide

theorem decoder_tags (U : Uni) : decoder U tagInt = some (decInt U) ∧ decoder U tagB64Unicode = some decB64Unicode ∧
    decoder U tagB64Str = some decB64Str := by
  refine ⟨?_, ?_, ?_⟩ <;> simp [decoder, tagInt, tagUnicode, tagB64Unicode, tagB64Str]

theorem decodeLoop_tag (U : Uni) (tag : Text) (hbar : '|' ∉ userIdTypePrefix ++ tag) (dec : Text → Res UserId)
    (hdec : decoder U tag = some dec) (t : Text) (u : UserId) (hu : dec t = .ok u) :
    decodeLoop U (splitAll '|' (userIdTypePrefix ++ tag)) (.str t) = .ok u := by
  have hpre : userIdTypePrefix.isPrefixOf (userIdTypePrefix ++ tag) = true :=
    List.isPrefixOf_iff_prefix.mpr (List.prefix_append _ _)
  have hdrop : (userIdTypePrefix ++ tag).drop userIdTypePrefix.length = tag := List.drop_left
  have hne : (userIdTypePrefix ++ tag).isEmpty = false := by simp [userIdTypePrefix]
  rw [splitAll_no_sep '|' _ hbar]
  simp [decodeLoop, hne, hpre, hdrop, hdec, hu, bind, Except.bind, pure, Except.pure]

theorem decodeLoop_issued (U : Uni) (u : UserId) :
    decodeLoop U (splitAll '|' (userIdTypePrefix ++ (encodeUserid u).1)) (.str (encodeUserid u).2) = .ok (normUid u) := by
  obtain ⟨h1, h2, h3⟩ := decoder_tags U
  cases u with
  | int z =>
    exact decodeLoop_tag U tagInt (no_bar_tag _ (by simp)) _ h1 _ _ (by simp [encodeUserid, decInt, pyInt_decStr, normUid, pure, Except.pure])
  | str t =>
    exact decodeLoop_tag U tagB64Unicode (no_bar_tag _ (by simp)) _ h2 _ _
      (by simp [encodeUserid, decB64Unicode, b64_decode_encoded, b64dec_enc, utf8DecStrict_enc, normUid, pure, Except.pure])
  | bytes b =>
    exact decodeLoop_tag U tagB64Str (no_bar_tag _ (by simp)) _ h3 _ _
      (by simp [encodeUserid, decB64Str, b64_decode_encoded, b64dec_enc, normUid, pure, Except.pure])
  | other r =>
    exact decodeLoop_tag U tagB64Unicode (no_bar_tag _ (by simp)) _ h2 _ _
      (by simp [encodeUserid, decB64Unicode, b64_decode_encoded, b64dec_enc, utf8DecStrict_enc, normUid, pure, Except.pure])

theorem encodeUserid_norm (u : UserId) : encodeUserid (normUid u) = encodeUserid u := by
  cases u <;> rfl

/-! ### tokens -/

theorem isTokChar_ne (c : Char) (h : isTokChar c = true ∨ c = '\n') : c ≠ ',' ∧ c ≠ '!' := by
  rcases h with h | rfl
  · constructor
    · rintro rfl; revert h; decide
    · rintro rfl; revert h; decide
  · decide

theorem validToken_chars (t : Text) (h : validToken t = true) : t ≠ [] ∧ ∀ c ∈ t, c ≠ ',' ∧ c ≠ '!' := by
  cases t with
  | nil => simp [validToken] at h
  | cons c r =>
    simp only [validToken, Bool.and_eq_true, Bool.or_eq_true] at h
    refine ⟨by simp, ?_⟩
    intro x hx
    simp at hx
    rcases hx with rfl | hx
    · have : isTokChar x = true := by simp [isTokChar, h.1]
      exact isTokChar_ne x (Or.inl this)
    · rcases h.2 with h2 | h2
      · exact isTokChar_ne x (Or.inl (List.all_eq_true.mp h2 x hx))
      · cases hl : r.getLast? with
        | none => simp [hl] at h2
        | some l =>
          simp only [hl, Bool.and_eq_true, decide_eq_true_eq] at h2
          have hr : r = r.dropLast ++ [l] := by
            have hne : r ≠ [] := by intro e; simp [e] at hl
            have := List.dropLast_concat_getLast hne
            rw [List.getLast?_eq_some_getLast hne] at hl
            simp at hl
            rw [hl] at this
            exact this.symm
          rw [hr] at hx
          simp at hx
          rcases hx with hx | rfl
          · exact isTokChar_ne x (Or.inl (List.all_eq_true.mp h2.2 x hx))
          · exact isTokChar_ne x (Or.inr h2.1)

theorem checkTokens_ok {toks : List Tok} {tl : List Text} (h : checkTokens toks = .ok tl) :
    toks = tl.map .str ∧ ∀ t ∈ tl, validToken t = true ∧ (t.all (·.toNat < 128)) = true := by
  induction toks generalizing tl with
  | nil => simp [checkTokens, pure, Except.pure] at h; subst h; simp
  | cons a r ih =>
    cases a with
    | nonstr => simp [checkTokens, throw, throwThe, MonadExceptOf.throw] at h
    | str t =>
      unfold checkTokens at h
      split at h
      · rename_i hv
        cases hr : checkTokens r with
        | error e => simp [hr, Functor.map, Except.map] at h
        | ok tl' =>
          simp [hr, Functor.map, Except.map] at h
          subst h
          obtain ⟨h1, h2⟩ := ih hr
          simp only [Bool.and_eq_true] at hv
          refine ⟨by simp [h1], ?_⟩
          intro x hx
          simp at hx
          rcases hx with rfl | hx
          · exact ⟨hv.2, hv.1⟩
          · exact h2 x hx
      · simp [throw, throwThe, MonadExceptOf.throw] at h

theorem checkTokens_map_str (tl : List Text) (h : ∀ t ∈ tl, validToken t = true ∧ (t.all (·.toNat < 128)) = true) :
    checkTokens (tl.map .str) = .ok tl := by
  induction tl with
  | nil => rfl
  | cons t r ih =>
    have ht := h t (by simp)
    have hr := ih (fun x hx => h x (by simp [hx]))
    simp [checkTokens, ht.1, ht.2, hr, Functor.map, Except.map]

theorem intercalate_no_bang (tl : List Text) (h : ∀ t ∈ tl, ∀ c ∈ t, c ≠ '!') :
    '!' ∉ List.intercalate [','] tl := by
  induction tl with
  | nil => simp [List.intercalate]
  | cons t r ih =>
    cases r with
    | nil =>
      simp [List.intercalate]
      intro hm; exact h t (by simp) _ hm rfl
    | cons t2 r2 =>
      have e : List.intercalate [','] (t :: t2 :: r2) = t ++ ',' :: List.intercalate [','] (t2 :: r2) := by
        simp [List.intercalate, List.intersperse]
      rw [e]
      simp only [List.mem_append, List.mem_cons, not_or]
      refine ⟨fun hm => h t (by simp) _ hm rfl, by decide, ih (fun x hx => h x (by simp [hx]))⟩

/-- the token list `identify` returns for issued tokens: `''.split(',')` is `['']` -/
def tokensBack (tl : List Text) : List Text := if tl = [] then [[]] else tl

theorem splitAll_joined (tl : List Text) (h : ∀ t ∈ tl, validToken t = true) :
    splitAll ',' (List.intercalate [','] tl) = tokensBack tl := by
  unfold tokensBack
  split
  · rename_i h0; subst h0; rfl
  · rename_i h0
    exact splitAll_intercalate tl h0 (fun t ht hm => ((validToken_chars t (h t ht)).2 _ hm).1 rfl)

theorem tokensBack_filter (tl : List Text) (h : ∀ t ∈ tl, validToken t = true) :
    (tokensBack tl).filter (!·.isEmpty) = tl := by
  unfold tokensBack
  split
  · rename_i h0; subst h0; rfl
  · apply List.filter_eq_self.mpr
    intro t ht
    have := (validToken_chars t (h t ht)).1
    cases t <;> simp_all

end Pyr.AuthTkt
