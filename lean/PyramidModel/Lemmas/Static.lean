import PyramidModel.Lemmas.StaticSpec
import PyramidModel.Lemmas.Traversal
/-! Helper lemmas for C16 (`Static.lean`).  Property theorems are in `Props/C16.lean`. -/
namespace Pyr.Static

open Pyr.Trav (Seg Bytes splitOn joinWith splitPathInfo decodePathInfo splitOn_append_sep splitOn_joinWith
  splitOn_no_sep mem_splitOn_no_sep splitOn_ne_nil)

/-! ### `_secure_path` -/

theorem hasInsecure_false_iff (t : List Seg) :
    hasInsecurePathElement t = false ↔ ([] : Seg) ∉ t ∧ ['.'] ∉ t ∧ ['.', '.'] ∉ t := by
  simp only [hasInsecurePathElement, insecureElements, List.any_cons, List.any_nil, Bool.or_false,
    Bool.or_eq_false_iff, List.contains_eq_mem, decide_eq_false_iff_not]
  constructor
  · rintro ⟨a, b, c⟩; exact ⟨c, b, a⟩
  · rintro ⟨a, b, c⟩; exact ⟨c, b, a⟩

theorem containsInvalid_false_iff (s : Seg) :
    containsInvalidElementChar s = false ↔ '/' ∉ s ∧ '\x00' ∉ s := by
  simp only [containsInvalidElementChar, invalidElementChars, List.any_cons, List.any_nil, Bool.or_false,
    Bool.or_eq_false_iff, List.contains_eq_mem, decide_eq_false_iff_not]
  constructor
  · rintro ⟨a, _, c⟩; exact ⟨a, c⟩
  · rintro ⟨a, c⟩; exact ⟨a, a, c⟩

/-- `_secure_path` accepts exactly the tuples of proper components, and returns their join -/
theorem securePath_eq_some_iff (t : List Seg) (p : Text) :
    securePath t = some p ↔ (∀ s ∈ t, Proper s) ∧ p = joinWith '/' t := by
  unfold securePath
  by_cases h1 : hasInsecurePathElement t = true
  · simp only [h1, if_true, reduceCtorEq, false_iff, not_and]
    intro hp
    have : hasInsecurePathElement t = false := by
      rw [hasInsecure_false_iff]
      exact ⟨fun m => (hp _ m).1 rfl, fun m => (hp _ m).2.1 rfl, fun m => (hp _ m).2.2.1 rfl⟩
    simp [this] at h1
  · have h1' : hasInsecurePathElement t = false := by simpa using h1
    obtain ⟨e0, e1, e2⟩ := (hasInsecure_false_iff t).mp h1'
    simp only [h1', Bool.false_eq_true, if_false]
    by_cases h2 : t.any containsInvalidElementChar = true
    · simp only [h2, if_true, reduceCtorEq, false_iff, not_and]
      intro hp
      obtain ⟨s, hs, hc⟩ := List.any_eq_true.mp h2
      have := (containsInvalid_false_iff s).mpr ⟨(hp s hs).2.2.2.1, (hp s hs).2.2.2.2⟩
      simp [this] at hc
    · have h2' : t.any containsInvalidElementChar = false := by simpa using h2
      simp only [h2', Bool.false_eq_true, if_false, Option.some.injEq]
      constructor
      · intro e
        refine ⟨fun s hs => ?_, e.symm⟩
        have hc : containsInvalidElementChar s = false := by
          have := List.any_eq_false.mp h2' s hs
          simpa using this
        obtain ⟨c1, c2⟩ := (containsInvalid_false_iff s).mp hc
        exact ⟨fun e => e0 (e ▸ hs), fun e => e1 (e ▸ hs), fun e => e2 (e ▸ hs), c1, c2⟩
      · intro ⟨_, e⟩; exact e.symm

theorem securePath_eq_none_iff (t : List Seg) : securePath t = none ↔ ∃ s ∈ t, ¬ Proper s := by
  constructor
  · intro h
    apply Classical.byContradiction
    intro hn
    have hall : ∀ s ∈ t, Proper s := fun s hs => Classical.byContradiction fun hp => hn ⟨s, hs, hp⟩
    have := (securePath_eq_some_iff t (joinWith '/' t)).mpr ⟨hall, rfl⟩
    simp [h] at this
  · rintro ⟨s, hs, hp⟩
    cases h : securePath t with
    | none => rfl
    | some p => exact absurd (((securePath_eq_some_iff t p).mp h).1 s hs) hp

/-! ### joins -/

theorem joinWith_cons_cons (sep : Char) (x y : Text) (r : List Text) :
    joinWith sep (x :: y :: r) = x ++ sep :: joinWith sep (y :: r) := rfl

theorem joinWith_append (sep : Char) (xs ys : List Text) (hx : xs ≠ []) (hy : ys ≠ []) :
    joinWith sep (xs ++ ys) = joinWith sep xs ++ sep :: joinWith sep ys := by
  induction xs with
  | nil => exact absurd rfl hx
  | cons x r ih =>
    cases r with
    | nil =>
      cases ys with
      | nil => exact absurd rfl hy
      | cons y ys => simp [joinWith]
    | cons z r =>
      have := ih (by simp)
      simp only [List.cons_append] at this ⊢
      rw [joinWith_cons_cons, this, joinWith_cons_cons]
      simp

/-- `root/s₁/…/sₙ` is `root`, a slash, and the joined segments -/
theorem below_eq (root : Text) (segs : List Seg) (h : segs ≠ []) :
    below root segs = root ++ '/' :: joinWith '/' segs := by
  unfold below
  congr 1
  induction segs with
  | nil => exact absurd rfl h
  | cons x r ih =>
    cases r with
    | nil => simp [joinWith]
    | cons y r =>
      have := ih (by simp)
      simp only [List.flatMap_cons] at this ⊢
      rw [this, joinWith_cons_cons]
      simp

theorem below_nil (root : Text) : below root [] = root := by simp [below]

theorem below_append (root : Text) (xs ys : List Seg) : below root (xs ++ ys) = below (below root xs) ys := by
  simp [below, List.flatMap_append]

theorem getLast?_append_ne {α} (a b : List α) (hb : b ≠ []) : (a ++ b).getLast? = b.getLast? := by
  rw [List.getLast?_append]
  cases h : b.getLast? with
  | none => exact absurd (List.getLast?_eq_none_iff.mp h) hb
  | some x => rfl

/-- the last character of a join of non-empty slash-free components is not a slash -/
theorem getLast?_joinWith_ne (comps : List Seg) (hne : comps ≠ []) (h : ∀ c ∈ comps, c ≠ [] ∧ '/' ∉ c) :
    (joinWith '/' comps).getLast? ≠ some '/' ∧ joinWith '/' comps ≠ [] := by
  induction comps with
  | nil => exact absurd rfl hne
  | cons x r ih =>
    cases r with
    | nil =>
      obtain ⟨h1, h2⟩ := h x (by simp)
      simp only [joinWith]
      refine ⟨fun e => h2 ?_, h1⟩
      exact List.mem_of_getLast? e
    | cons y r =>
      obtain ⟨i1, i2⟩ := ih (by simp) (fun c hc => h c (by simp [hc]))
      rw [joinWith_cons_cons]
      refine ⟨?_, by simp⟩
      rw [getLast?_append_ne _ _ (by simp), List.getLast?_cons_of_ne_nil i2]; exact i1

theorem head?_joinWith (comps : List Seg) (hne : comps ≠ []) (h : ∀ c ∈ comps, c ≠ [] ∧ '/' ∉ c) :
    (joinWith '/' comps).head? ≠ some '/' := by
  cases comps with
  | nil => exact absurd rfl hne
  | cons x r =>
    obtain ⟨h1, h2⟩ := h x (by simp)
    cases x with
    | nil => exact absurd rfl h1
    | cons c cs =>
      have hc : c ≠ '/' := fun e => h2 (by simp [e])
      cases r with
      | nil => simpa [joinWith] using hc
      | cons y r => simpa [joinWith] using hc

/-! ### `posixpath.join` -/

theorem pjoin_rel (a b : Text) (ha : a ≠ []) (hl : a.getLast? ≠ some '/') (hb : b.head? ≠ some '/') :
    pjoin a b = a ++ '/' :: b := by
  simp [pjoin, ha, hl, hb]

/-! ### `posixpath.normpath` -/

theorem npStep_skip (k : Nat) (st : List Seg) : npStep k st [] = st := by simp [npStep]

theorem npStep_proper (k : Nat) (st : List Seg) (s : Seg) (h : Proper s) : npStep k st s = s :: st := by
  obtain ⟨h1, h2, h3, _, _⟩ := h
  simp [npStep, h1, h2, h3]

theorem foldl_npStep_proper (k : Nat) (segs st : List Seg) (h : ∀ s ∈ segs, Proper s) :
    segs.foldl (npStep k) st = segs.reverse ++ st := by
  induction segs generalizing st with
  | nil => simp
  | cons x r ih =>
    simp only [List.foldl_cons, npStep_proper k st x (h x (by simp))]
    rw [ih _ (fun s hs => h s (by simp [hs]))]
    simp

theorem mem_foldl_npStep (k : Nat) (comps st : List Seg) (c : Seg) (h : c ∈ comps.foldl (npStep k) st) :
    c ∈ st ∨ (c ∈ comps ∧ c ≠ [] ∧ c ≠ ['.']) := by
  induction comps generalizing st with
  | nil => exact .inl (by simpa using h)
  | cons x r ih =>
    simp only [List.foldl_cons] at h
    rcases ih _ h with m | ⟨m, n⟩
    · unfold npStep at m
      split at m
      · exact .inl m
      · rename_i hx
        split at m
        · rcases List.mem_cons.mp m with e | m'
          · subst e
            exact .inr ⟨by simp, fun e => hx (.inl e), fun e => hx (.inr e)⟩
          · exact .inl m'
        · exact .inl (List.mem_of_mem_tail m)
    · exact .inr ⟨by simp [m], n⟩

theorem npComps_mem (p : Text) (c : Seg) (h : c ∈ npComps p) : c ≠ [] ∧ '/' ∉ c := by
  unfold npComps at h
  rcases mem_foldl_npStep _ _ [] c (List.mem_reverse.mp h) with m | ⟨m, n, _⟩
  · simp at m
  · exact ⟨n, mem_splitOn_no_sep '/' p c m⟩

theorem initialSlashes_le (p : Text) : initialSlashes p ≤ 2 := by
  unfold initialSlashes
  simp only
  split
  · omega
  · split <;> omega

theorem takeWhile_replicate_slash (k : Nat) (c : Char) (hc : c ≠ '/') (y : Text) :
    (List.replicate k '/' ++ c :: y).takeWhile (· = '/') = List.replicate k '/' := by
  induction k with
  | zero => simp [hc]
  | succ k ih => simp [List.replicate_succ, ih]

/-- the number of initial slashes is decided before the first other character -/
theorem initialSlashes_form (k : Nat) (hk : k ≤ 2) (c : Char) (hc : c ≠ '/') (y : Text) :
    initialSlashes (List.replicate k '/' ++ c :: y) = k := by
  unfold initialSlashes
  simp only [takeWhile_replicate_slash k c hc y, List.length_replicate]
  split
  · omega
  · split <;> omega

/-- what a fixed point of `normpath` looks like (other than `/`, `//`, `.`): its initial slashes and then its
own components, joined -/
theorem normpath_fixed_form (root : Text) (hn : normpath root = root) (h1 : root ≠ ['/'])
    (h2 : root ≠ ['/', '/']) (h3 : root ≠ ['.']) :
    npComps root ≠ [] ∧ root = List.replicate (initialSlashes root) '/' ++ joinWith '/' (npComps root) := by
  unfold normpath at hn
  by_cases h0 : root = []
  · simp [h0] at hn
  · simp only [h0, if_false] at hn
    by_cases hr : List.replicate (initialSlashes root) '/' ++ joinWith '/' (npComps root) = []
    · simp only [hr, if_true] at hn; exact absurd hn.symm h3
    · simp only [hr, if_false] at hn
      refine ⟨fun hc => ?_, hn.symm⟩
      rw [hc] at hn hr
      simp only [joinWith, List.append_nil] at hn hr
      have := initialSlashes_le root
      rcases hk : initialSlashes root with _ | _ | _ | k
      · rw [hk] at hr; simp at hr
      · rw [hk] at hn; exact h1 (by simpa using hn.symm)
      · rw [hk] at hn; exact h2 (by simpa using hn.symm)
      · omega

/-- **The containment computation.**  For a normalised root (a fixed point of `normpath` other than `/`, `//`,
`.`) and a tuple of proper components of any length, joining below the root and normalising gives exactly
`root/s₁/…/sₙ`. -/
theorem normpath_join_below (root : Text) (segs : List Seg) (hn : normpath root = root) (h1 : root ≠ ['/'])
    (h2 : root ≠ ['/', '/']) (h3 : root ≠ ['.']) (hs : ∀ s ∈ segs, Proper s) :
    normpath (pjoin root (joinWith '/' segs)) = below root segs := by
  obtain ⟨hc, hr⟩ := normpath_fixed_form root hn h1 h2 h3
  have hX : ∀ c ∈ npComps root, c ≠ [] ∧ '/' ∉ c := npComps_mem root
  obtain ⟨hl, hne⟩ := getLast?_joinWith_ne (npComps root) hc hX
  have hk := initialSlashes_le root
  have hs' : ∀ c ∈ segs, c ≠ [] ∧ '/' ∉ c := fun c hc => ⟨(hs c hc).1, (hs c hc).2.2.2.1⟩
  -- the root is not empty and does not end in a slash
  have hroot_ne : root ≠ [] := by rw [hr]; simp [hne]
  have hroot_last : root.getLast? ≠ some '/' := by rw [hr, getLast?_append_ne _ _ hne]; exact hl
  -- the joined tuple does not start with a slash
  have hhead : (joinWith '/' segs).head? ≠ some '/' := by
    by_cases hsn : segs = []
    · simp [hsn, joinWith]
    · exact head?_joinWith segs hsn hs'
  rw [pjoin_rel root _ hroot_ne hroot_last hhead]
  -- initial slashes of the joined path
  obtain ⟨c, y, hcy⟩ : ∃ c y, joinWith '/' (npComps root) = c :: y := by
    cases h : joinWith '/' (npComps root) with
    | nil => exact absurd h hne
    | cons c y => exact ⟨c, y, rfl⟩
  have hcs : c ≠ '/' := by
    have := head?_joinWith (npComps root) hc hX
    rw [hcy] at this
    simpa using this
  have hinit : initialSlashes (root ++ '/' :: joinWith '/' segs) = initialSlashes root := by
    conv => lhs; rw [hr, hcy]
    rw [List.append_assoc, List.cons_append]
    exact initialSlashes_form _ hk c hcs _
  -- the components of the joined path
  have hfold : npComps (root ++ '/' :: joinWith '/' segs) = npComps root ++ segs := by
    unfold npComps
    rw [hinit, splitOn_append_sep, List.foldl_append]
    by_cases hsn : segs = []
    · subst hsn
      simp [joinWith, splitOn, npStep_skip]
    · rw [splitOn_joinWith '/' segs hsn (fun s m => (hs' s m).2), foldl_npStep_proper _ _ _ hs]
      simp
  unfold normpath
  have hP : root ++ '/' :: joinWith '/' segs ≠ [] := by simp
  simp only [hP, if_false, hinit, hfold]
  by_cases hsn : segs = []
  · subst hsn
    simp only [List.append_nil, below_nil]
    rw [← hr]
    simp [hroot_ne]
  · rw [joinWith_append '/' _ _ hc hsn, below_eq root segs hsn, ← List.append_assoc, ← hr]
    simp

/-! ### small list facts -/

theorem flatMap_congr' {α β} (l : List α) (f g : α → List β) (h : ∀ a ∈ l, f a = g a) :
    l.flatMap f = l.flatMap g := by
  induction l with
  | nil => rfl
  | cons x r ih =>
    simp only [List.flatMap_cons, h x (by simp)]
    rw [ih (fun a ha => h a (by simp [ha]))]

theorem filterMap_congr' {α β} (l : List α) (f g : α → Option β) (h : ∀ a ∈ l, f a = g a) :
    l.filterMap f = l.filterMap g := by
  induction l with
  | nil => rfl
  | cons x r ih =>
    simp only [List.filterMap_cons, h x (by simp)]
    rw [ih (fun a ha => h a (by simp [ha]))]

theorem find?_congr' {α} (l : List α) (p q : α → Bool) (h : ∀ a ∈ l, p a = q a) : l.find? p = l.find? q := by
  induction l with
  | nil => rfl
  | cons x r ih =>
    simp only [List.find?_cons, h x (by simp)]
    rw [ih (fun a ha => h a (by simp [ha]))]

theorem joinWith_cons_char (sep c : Char) (p : Text) (ps : List Text) :
    joinWith sep ((c :: p) :: ps) = c :: joinWith sep (p :: ps) := by
  cases ps <;> simp [joinWith]

/-- `sep.join(t.split(sep)) == t` -/
theorem joinWith_splitOn (sep : Char) (t : Text) : joinWith sep (splitOn sep t) = t := by
  induction t with
  | nil => simp [splitOn, joinWith]
  | cons c t ih =>
    by_cases hc : c = sep
    · subst hc
      rw [Pyr.Trav.splitOn_cons_sep]
      cases h : splitOn c t with
      | nil => exact absurd h (splitOn_ne_nil c t)
      | cons p ps => rw [joinWith_cons_cons, ← h, ih]; rfl
    · obtain ⟨p, ps, h1, h2⟩ := Pyr.Trav.splitOn_cons_ne sep c t hc
      rw [h2, joinWith_cons_char, ← h1, ih]

/-! ### `rstrip('/')` -/

theorem rstripSlash_of_last (t : Text) (h : t.getLast? ≠ some '/') : rstripSlash t = t := by
  rcases List.eq_nil_or_concat t with e | ⟨ys, a, e⟩
  · subst e; rfl
  · rw [List.concat_eq_append] at e
    subst e
    have ha : a ≠ '/' := by simpa using h
    simp [rstripSlash, ha]

theorem rstripSlash_append_slash (t : Text) : rstripSlash (t ++ ['/']) = rstripSlash t := by
  simp [rstripSlash]

/-! ### names below a root -/

theorem below_cons (base : Text) (c : Seg) (r : List Seg) : below base (c :: r) = below (base ++ '/' :: c) r := by
  simp [below]

theorem below_concat_ext (root : Text) (init : List Seg) (l ext : Text) :
    below root (init ++ [l]) ++ ext = below root (init ++ [l ++ ext]) := by
  simp [below, List.flatMap_append]

/-- a path below a base that does not end in a slash does not end in a slash either -/
theorem below_ne_last (base : Text) (comps : List Seg) (hb : base ≠ []) (hl : base.getLast? ≠ some '/')
    (h : ∀ c ∈ comps, c ≠ [] ∧ '/' ∉ c) : below base comps ≠ [] ∧ (below base comps).getLast? ≠ some '/' := by
  induction comps generalizing base with
  | nil => simpa [below] using ⟨hb, hl⟩
  | cons c r ih =>
    rw [below_cons]
    obtain ⟨c1, c2⟩ := h c (by simp)
    refine ih _ (by simp) ?_ (fun x hx => h x (by simp [hx]))
    rw [getLast?_append_ne _ _ (by simp), List.getLast?_cons_of_ne_nil c1]
    exact fun e => c2 (List.mem_of_getLast? e)

/-- `os.path.join(base, c₁, …, cₙ)` for relative non-empty components is `base/c₁/…/cₙ` -/
theorem foldl_pjoin_below (base : Text) (comps : List Seg) (hb : base ≠ []) (hl : base.getLast? ≠ some '/')
    (h : ∀ c ∈ comps, c ≠ [] ∧ '/' ∉ c) : comps.foldl pjoin base = below base comps := by
  induction comps generalizing base with
  | nil => simp [below]
  | cons c r ih =>
    obtain ⟨c1, c2⟩ := h c (by simp)
    have hh : c.head? ≠ some '/' := fun e => c2 (List.mem_of_head? e)
    rw [List.foldl_cons, pjoin_rel base c hb hl hh, below_cons]
    have := below_ne_last base [c] hb hl (fun x hx => by simp at hx; subst hx; exact ⟨c1, c2⟩)
    simp only [below_cons, below_nil] at this
    exact ih _ this.1 this.2 (fun x hx => h x (by simp [hx]))

theorem fsRoot_ne_last (r : Text) (hw : FsRootWf r) : r ≠ [] ∧ r.getLast? ≠ some '/' := by
  obtain ⟨hn, h1, h2, h3⟩ := hw
  obtain ⟨hc, hr⟩ := normpath_fixed_form r hn h1 h2 h3
  obtain ⟨hl, hne⟩ := getLast?_joinWith_ne (npComps r) hc (npComps_mem r)
  constructor
  · rw [hr]; simp [hne]
  · rw [hr, getLast?_append_ne _ _ hne]; exact hl

/-- the resource name `get_resource_name` forms for the tuple `comps`: an OS path for a filesystem root, a
package-relative name for a package root -/
def nameOf (v : View) (comps : List Seg) : Text :=
  if v.pkg then rstripSlash v.docroot ++ '/' :: joinWith '/' comps else below v.docroot comps

theorem pkg_droot (base docroot : Text) (hw : PkgRootWf base docroot) :
    splitOn '/' (rstripSlash docroot) ≠ [] ∧
    (∀ c ∈ splitOn '/' (rstripSlash docroot), c ≠ [] ∧ '/' ∉ c) ∧
    rstripSlash docroot = joinWith '/' (splitOn '/' (rstripSlash docroot)) :=
  ⟨splitOn_ne_nil _ _, fun c hc => ⟨hw.2.2 c hc, mem_splitOn_no_sep '/' _ c hc⟩, (joinWith_splitOn '/' _).symm⟩

theorem rootOf_pkg (v : View) (hp : v.pkg = true) (hw : PkgRootWf v.base v.docroot) :
    rootOf v = below v.base (splitOn '/' (rstripSlash v.docroot)) := by
  obtain ⟨h1, _, h3⟩ := pkg_droot _ _ hw
  rw [below_eq _ _ h1, ← h3]
  simp [rootOf, hp]

/-- the OS path of a package-relative name -/
theorem osPath_pkg (v : View) (hp : v.pkg = true) (hw : PkgRootWf v.base v.docroot) (comps : List Seg)
    (hne : comps ≠ []) (h : ∀ c ∈ comps, c ≠ [] ∧ '/' ∉ c) :
    osPath v (nameOf v comps) = below (rootOf v) comps := by
  obtain ⟨h1, h2, h3⟩ := pkg_droot _ _ hw
  have hall : ∀ c ∈ splitOn '/' (rstripSlash v.docroot) ++ comps, c ≠ [] ∧ '/' ∉ c := by
    intro c hc
    rcases List.mem_append.mp hc with m | m
    · exact h2 c m
    · exact h c m
  have hname : nameOf v comps = joinWith '/' (splitOn '/' (rstripSlash v.docroot) ++ comps) := by
    rw [joinWith_append '/' _ _ h1 hne, ← h3]
    simp [nameOf, hp]
  have hne' : nameOf v comps ≠ [] := by simp [nameOf, hp]
  rw [rootOf_pkg v hp hw, ← below_append]
  simp only [osPath, hp, if_true, resourceFilename, hne', if_false]
  rw [hname, splitOn_joinWith '/' _ (by simp [hne]) (fun s m => (hall s m).2)]
  exact foldl_pjoin_below _ _ hw.1 hw.2.1 hall

/-- the package root itself is asked about with a trailing slash (`static/`) -/
theorem osPath_pkg_nil (v : View) (hp : v.pkg = true) (hw : PkgRootWf v.base v.docroot) :
    osPath v (nameOf v []) = rootOf v ++ ['/'] := by
  obtain ⟨h1, h2, h3⟩ := pkg_droot _ _ hw
  have hname : nameOf v [] = rstripSlash v.docroot ++ '/' :: [] := by simp [nameOf, hp, joinWith]
  have hne' : nameOf v [] ≠ [] := by simp [hname]
  simp only [osPath, hp, if_true, resourceFilename, hne', if_false]
  rw [hname, splitOn_append_sep, List.foldl_append, foldl_pjoin_below _ _ hw.1 hw.2.1 h2, ← rootOf_pkg v hp hw]
  have := below_ne_last v.base _ hw.1 hw.2.1 h2
  rw [← rootOf_pkg v hp hw] at this
  simp [splitOn, pjoin, this.1, this.2]

theorem osPath_fs (v : View) (hp : v.pkg = false) (n : Text) : osPath v n = n := by simp [osPath, hp]

theorem rootOf_fs (v : View) (hp : v.pkg = false) : rootOf v = v.docroot := by simp [rootOf, hp]

/-- the OS path of the name formed for a non-empty tuple -/
theorem osPath_nameOf (v : View) (hw : WfView v) (comps : List Seg) (hne : comps ≠ [])
    (h : ∀ c ∈ comps, c ≠ [] ∧ '/' ∉ c) : osPath v (nameOf v comps) = below (rootOf v) comps := by
  cases hp : v.pkg with
  | true =>
    have := hw.2.2; simp only [hp, if_true] at this
    exact osPath_pkg v hp this comps hne h
  | false => simp [osPath, nameOf, rootOf, hp]

theorem nameOf_concat_ext (v : View) (init : List Seg) (l ext : Text) :
    nameOf v (init ++ [l]) ++ ext = nameOf v (init ++ [l ++ ext]) := by
  unfold nameOf
  split
  · cases init with
    | nil => simp [joinWith]
    | cons x r => rw [joinWith_append '/' _ _ (by simp) (by simp), joinWith_append '/' _ _ (by simp) (by simp)]; simp [joinWith]
  · exact below_concat_ext _ _ _ _

/-- the root has a non-empty OS path that does not end in a slash -/
theorem rootOf_ne_last (v : View) (hw : WfView v) : rootOf v ≠ [] ∧ (rootOf v).getLast? ≠ some '/' := by
  cases hp : v.pkg with
  | true =>
    have h := hw.2.2; simp only [hp, if_true] at h
    rw [rootOf_pkg v hp h]
    exact below_ne_last _ _ h.1 h.2.1 (pkg_droot _ _ h).2.1
  | false =>
    have h := hw.2.2; simp only [hp, Bool.false_eq_true, if_false] at h
    rw [rootOf_fs v hp]
    exact fsRoot_ne_last _ h

/-! ### `get_resource_name` -/

theorem proper_comp {s : Seg} (h : Proper s) : s ≠ [] ∧ '/' ∉ s := ⟨h.1, h.2.2.2.1⟩

/-- `get_resource_name` for a tuple of proper components, in terms of `root/s₁/…/sₙ` -/
theorem resourceName_proper (fs : Fs) (v : View) (hw : WfView v) (slash : Bool) (segs : List Seg)
    (hs : ∀ s ∈ segs, Proper s) (hsl : fs.isDir (rootOf v ++ ['/']) = fs.isDir (rootOf v)) :
    resourceName fs v slash segs =
      if fs.isDir (below (rootOf v) segs) then
        (if slash then .name (nameOf v (segs ++ [v.index])) else .redirect)
      else .name (nameOf v segs) := by
  have hsec := (securePath_eq_some_iff segs _).mpr ⟨hs, rfl⟩
  have hs' : ∀ c ∈ segs, c ≠ [] ∧ '/' ∉ c := fun c hc => proper_comp (hs c hc)
  unfold resourceName
  rw [hsec]
  cases hp : v.pkg with
  | true =>
    have hpw := hw.2.2; simp only [hp, if_true] at hpw
    obtain ⟨d1, d2, d3⟩ := pkg_droot _ _ hpw
    obtain ⟨dl, dne⟩ := getLast?_joinWith_ne _ d1 d2
    rw [← d3] at dl dne
    simp only [if_true]
    have hrp : pkgResourcePath v.docroot (joinWith '/' segs) = nameOf v segs := by simp [pkgResourcePath, dne, nameOf, hp]
    rw [hrp]
    have hq : resourceFilename v.base (nameOf v segs) = osPath v (nameOf v segs) := by simp [osPath, hp]
    rw [hq]
    have hdir : fs.isDir (osPath v (nameOf v segs)) = fs.isDir (below (rootOf v) segs) := by
      by_cases hsn : segs = []
      · subst hsn; rw [osPath_pkg_nil v hp hpw, hsl, below_nil]
      · rw [osPath_pkg v hp hpw segs hsn hs']
    rw [hdir]
    have hidx : rstripSlash (nameOf v segs) ++ '/' :: v.index = nameOf v (segs ++ [v.index]) := by
      by_cases hsn : segs = []
      · subst hsn
        have : nameOf v [] = rstripSlash v.docroot ++ ['/'] := by simp [nameOf, hp, joinWith]
        rw [this, rstripSlash_append_slash, rstripSlash_of_last _ dl]
        simp [nameOf, hp, joinWith]
      · obtain ⟨sl, sne⟩ := getLast?_joinWith_ne segs hsn hs'
        have hlast : (nameOf v segs).getLast? ≠ some '/' := by
          have hn : nameOf v segs = rstripSlash v.docroot ++ '/' :: joinWith '/' segs := by simp [nameOf, hp]
          rw [hn, getLast?_append_ne _ _ (by simp), List.getLast?_cons_of_ne_nil sne]; exact sl
        rw [rstripSlash_of_last _ hlast]
        simp only [nameOf, hp, if_true]
        rw [joinWith_append '/' _ _ hsn (by simp)]
        simp [joinWith]
    rw [hidx]
    cases fs.isDir (below (rootOf v) segs) <;> cases slash <;> simp
  | false =>
    have hfw := hw.2.2; simp only [hp, Bool.false_eq_true, if_false] at hfw
    obtain ⟨hn, h1, h2, h3⟩ := hfw
    simp only [Bool.false_eq_true, if_false]
    rw [normpath_join_below v.docroot segs hn h1 h2 h3 hs, rootOf_fs v hp]
    obtain ⟨rn, rl⟩ := fsRoot_ne_last v.docroot ⟨hn, h1, h2, h3⟩
    obtain ⟨bn, bl⟩ := below_ne_last v.docroot segs rn rl hs'
    have hih : v.index.head? ≠ some '/' := fun e => hw.1.2.2.2.1 (List.mem_of_head? e)
    rw [pjoin_rel _ _ bn bl hih]
    have : below v.docroot segs ++ '/' :: v.index = nameOf v (segs ++ [v.index]) := by
      simp [nameOf, hp, below, List.flatMap_append]
    rw [this]
    have : below v.docroot segs = nameOf v segs := by simp [nameOf, hp]
    rw [← this]
    cases fs.isDir (below v.docroot segs) <;> cases slash <;> simp

theorem resourceName_improper (fs : Fs) (v : View) (slash : Bool) (segs : List Seg) (h : ∃ s ∈ segs, ¬ Proper s) :
    resourceName fs v slash segs = .notFound := by
  unfold resourceName
  rw [(securePath_eq_none_iff segs).mpr h]

/-! ### candidates, sorting, choice -/

/-- the candidate list in terms of the OS path of the target -/
def candsAt (fs : Fs) (v : View) (target : Text) : List Cand :=
  (if fs.isRegular target then [⟨target, none⟩] else []) ++
  v.encs.flatMap fun (e, exts) =>
    exts.filterMap fun ext => if fs.isRegular (target ++ ext) then some ⟨target ++ ext, some e⟩ else none

theorem candidates_nameOf (fs : Fs) (v : View) (hw : WfView v) (comps : List Seg) (hne : comps ≠ [])
    (h : ∀ c ∈ comps, c ≠ [] ∧ '/' ∉ c) :
    candidates fs v (nameOf v comps) = candsAt fs v (below (rootOf v) comps) := by
  unfold candidates candsAt findResourcePath
  rw [osPath_nameOf v hw comps hne h]
  congr 1
  · by_cases ht : fs.isRegular (below (rootOf v) comps) = true <;> simp [ht]
  · apply flatMap_congr'
    intro ⟨e, exts⟩ he
    apply filterMap_congr'
    intro ext hx
    have hext : '/' ∉ ext := (hw.2.1 (e, exts) he ext hx).1
    have hpath : osPath v (nameOf v comps ++ ext) = below (rootOf v) comps ++ ext := by
      rcases List.eq_nil_or_concat comps with e0 | ⟨init, l, e0⟩
      · exact absurd e0 hne
      · rw [List.concat_eq_append] at e0
        subst e0
        have hl := h l (by simp)
        rw [nameOf_concat_ext, below_concat_ext]
        apply osPath_nameOf v hw _ (by simp)
        intro c hc
        rcases List.mem_append.mp hc with m | m
        · exact h c (by simp [m])
        · simp only [List.mem_singleton] at m
          subst m
          exact ⟨by simp [hl.1], by simp [hl.2, hext]⟩
    simp only [hpath]
    by_cases ht : fs.isRegular (below (rootOf v) comps ++ ext) = true <;> simp [ht]

theorem mem_candsAt (fs : Fs) (v : View) (target : Text) (c : Cand) (h : c ∈ candsAt fs v target) :
    (c.path = target ∧ c.enc = none ∧ fs.isRegular target = true) ∨
    ∃ e ∈ v.encs, ∃ x ∈ e.2, c.path = target ++ x ∧ c.enc = some e.1 ∧ fs.isRegular (target ++ x) = true := by
  unfold candsAt at h
  rcases List.mem_append.mp h with m | m
  · left
    split at m
    · simp only [List.mem_singleton] at m; subst m; simp_all
    · simp at m
  · right
    obtain ⟨⟨e, exts⟩, he, hc⟩ := List.mem_flatMap.mp m
    obtain ⟨x, hx, hf⟩ := List.mem_filterMap.mp hc
    refine ⟨(e, exts), he, x, hx, ?_⟩
    split at hf
    · simp only [Option.some.injEq] at hf; subst hf; simp_all
    · simp at hf

theorem mem_insertBySize (size : Text → Nat) (x c : Cand) (l : List Cand) :
    c ∈ insertBySize size x l ↔ c = x ∨ c ∈ l := by
  induction l with
  | nil => simp [insertBySize]
  | cons y ys ih =>
    unfold insertBySize
    split
    · simp
    · simp only [List.mem_cons, ih]
      constructor
      · rintro (a | a | a) <;> simp [a]
      · rintro (a | a | a) <;> simp [a]

theorem mem_sortBySize (size : Text → Nat) (c : Cand) (l : List Cand) : c ∈ sortBySize size l ↔ c ∈ l := by
  induction l with
  | nil => simp [sortBySize]
  | cons x r ih => simp [sortBySize, mem_insertBySize, ih]

theorem length_insertBySize (size : Text → Nat) (x : Cand) (l : List Cand) :
    (insertBySize size x l).length = l.length + 1 := by
  induction l with
  | nil => simp [insertBySize]
  | cons y ys ih => unfold insertBySize; split <;> simp [ih]

theorem length_sortBySize (size : Text → Nat) (l : List Cand) : (sortBySize size l).length = l.length := by
  induction l with
  | nil => simp [sortBySize]
  | cons x r ih => simp [sortBySize, length_insertBySize, ih]

/-- the sorted list is ascending in size -/
theorem sortBySize_sorted (size : Text → Nat) (l : List Cand) :
    (sortBySize size l).Pairwise fun a b => size a.path ≤ size b.path := by
  induction l with
  | nil => simp [sortBySize]
  | cons x r ih =>
    simp only [sortBySize]
    generalize sortBySize size r = s at ih
    induction s with
    | nil => simp [insertBySize]
    | cons y ys ih2 =>
      unfold insertBySize
      split
      · rename_i hle
        refine List.Pairwise.cons ?_ ih
        intro b hb
        rcases List.mem_cons.mp hb with e | m
        · subst e; exact hle
        · exact Nat.le_trans hle (List.rel_of_pairwise_cons ih m)
      · rename_i hgt
        have ih' := List.Pairwise.of_cons ih
        refine List.Pairwise.cons ?_ (ih2 ih')
        intro b hb
        rcases (mem_insertBySize size x b ys).mp hb with e | m
        · subst e; omega
        · exact List.rel_of_pairwise_cons ih m

/-- `find_best_match` returns the first file of the list that the client accepts -/
theorem findBestMatch_eq_find (ae : Option (List Enc)) (files : List Cand) :
    findBestMatch ae files = files.find? (accepts ae) := by
  cases ae with
  | none =>
    simp only [findBestMatch]
    induction files with
    | nil => rfl
    | cons c r ih =>
      obtain ⟨p, e⟩ := c
      cases e with
      | none => simp [List.find?_cons, accepts]
      | some e => simpa [List.find?_cons, accepts] using ih
  | some acc =>
    simp only [findBestMatch]
    apply find?_congr'
    intro c hc
    cases he : c.enc with
    | none => simp [accepts, he]
    | some e =>
      have : e ∈ files.filterMap (·.enc) := List.mem_filterMap.mpr ⟨c, hc, he⟩
      simp only [accepts, he]
      by_cases ha : acc.contains e = true
      · have hm : e ∈ List.filter acc.contains (files.filterMap (·.enc)) := List.mem_filter.mpr ⟨this, ha⟩
        rw [ha]; simpa using hm
      · have hm : e ∉ List.filter acc.contains (files.filterMap (·.enc)) := fun m => ha (List.mem_filter.mp m).2
        have ha' : acc.contains e = false := by simpa using ha
        rw [ha']; simpa using hm

/-- `static_view.__call__` after the name is known, in terms of the OS path of the target -/
def chooseAt (fs : Fs) (v : View) (ae : Option (List Enc)) (target : Text) : Outcome :=
  let files := sortBySize fs.size (candsAt fs v target)
  match files.find? (accepts ae) with
  | none => .notFound
  | some c =>
    if fs.isDir c.path then .isADirectory c.path
    else .file c.path c.enc (decide (files.length > 1))

theorem view_tail (fs : Fs) (v : View) (ae : Option (List Enc)) (n target : Text)
    (h : candidates fs v n = candsAt fs v target) :
    (match findBestMatch ae (possibleFiles fs v n) with
      | none => Outcome.notFound
      | some c =>
        if fs.isDir c.path then Outcome.isADirectory c.path
        else Outcome.file c.path c.enc (decide ((possibleFiles fs v n).length > 1))) = chooseAt fs v ae target := by
  unfold chooseAt possibleFiles
  rw [h, findBestMatch_eq_find]

/-- `static_view.__call__` for a tuple of proper components -/
theorem staticView_proper (fs : Fs) (v : View) (hw : WfView v) (ae : Option (List Enc)) (slash : Bool)
    (segs : List Seg) (hs : ∀ s ∈ segs, Proper s) (hroot : fs.isDir (rootOf v) = true)
    (hsl : fs.isDir (rootOf v ++ ['/']) = fs.isDir (rootOf v)) :
    staticView fs v ae slash segs =
      if fs.isDir (below (rootOf v) segs) then
        (if slash then chooseAt fs v ae (below (rootOf v) (segs ++ [v.index])) else .redirect)
      else chooseAt fs v ae (below (rootOf v) segs) := by
  have hs' : ∀ c ∈ segs, c ≠ [] ∧ '/' ∉ c := fun c hc => proper_comp (hs c hc)
  have hs2 : ∀ c ∈ segs ++ [v.index], c ≠ [] ∧ '/' ∉ c := by
    intro c hc
    rcases List.mem_append.mp hc with m | m
    · exact hs' c m
    · simp only [List.mem_singleton] at m; subst m; exact proper_comp hw.1
  unfold staticView
  rw [resourceName_proper fs v hw slash segs hs hsl]
  cases hd : fs.isDir (below (rootOf v) segs) with
  | true =>
    cases slash with
    | false => rfl
    | true => exact view_tail fs v ae _ _ (candidates_nameOf fs v hw (segs ++ [v.index]) (by simp) hs2)
  | false =>
    have hsn : segs ≠ [] := by
      intro e; subst e; rw [below_nil, hroot] at hd; exact absurd hd (by simp)
    exact view_tail fs v ae _ _ (candidates_nameOf fs v hw segs hsn hs')

theorem staticView_improper (fs : Fs) (v : View) (ae : Option (List Enc)) (slash : Bool) (segs : List Seg)
    (h : ∃ s ∈ segs, ¬ Proper s) : staticView fs v ae slash segs = .notFound := by
  unfold staticView
  rw [resourceName_improper fs v slash segs h]

/-! ### containment -/

theorem proper_append_ext (l ext : Text) (hl : Proper l) (h1 : '/' ∉ ext) (h2 : '\x00' ∉ ext) : Proper (l ++ ext) := by
  obtain ⟨a, b, c, d, e⟩ := hl
  refine ⟨by simp [a], ?_, ?_, by simp [d, h1], by simp [e, h2]⟩
  · intro h
    cases l with
    | nil => exact a rfl
    | cons x xs =>
      cases xs with
      | nil => simp at h; exact b (by simp [h.1])
      | cons y ys => simp at h
  · intro h
    cases l with
    | nil => exact a rfl
    | cons x xs =>
      cases xs with
      | nil =>
        simp at h
        cases ext with
        | nil => simp at h
        | cons z zs => cases zs <;> simp_all
      | cons y ys =>
        cases ys with
        | nil => simp at h; exact c (by simp [h.1, h.2.1])
        | cons z zs => simp at h

/-- whatever `chooseAt` opens for a target strictly inside the root is strictly inside the root -/
theorem chooseAt_under (fs : Fs) (v : View) (hw : WfView v) (ae : Option (List Enc)) (comps : List Seg)
    (hne : comps ≠ []) (hc : ∀ c ∈ comps, Proper c) (p : Text)
    (h : (∃ e b, chooseAt fs v ae (below (rootOf v) comps) = .file p e b) ∨
         chooseAt fs v ae (below (rootOf v) comps) = .isADirectory p) :
    Under (rootOf v) p := by
  have key : ∀ c : Cand, c ∈ candsAt fs v (below (rootOf v) comps) → Under (rootOf v) c.path := by
    intro c hcm
    rcases mem_candsAt fs v _ c hcm with ⟨e, _, _⟩ | ⟨e, he, x, hx, ep, _, _⟩
    · exact ⟨comps, hne, hc, e⟩
    · rcases List.eq_nil_or_concat comps with e0 | ⟨init, l, e0⟩
      · exact absurd e0 hne
      · rw [List.concat_eq_append] at e0
        subst e0
        obtain ⟨x1, x2⟩ := hw.2.1 e he x hx
        refine ⟨init ++ [l ++ x], by simp, ?_, by rw [ep, below_concat_ext]⟩
        intro c' hc'
        rcases List.mem_append.mp hc' with m | m
        · exact hc c' (by simp [m])
        · simp only [List.mem_singleton] at m
          subst m
          exact proper_append_ext l x (hc l (by simp)) x1 x2
  unfold chooseAt at h
  simp only at h
  cases hf : (sortBySize fs.size (candsAt fs v (below (rootOf v) comps))).find? (accepts ae) with
  | none => simp [hf] at h
  | some c =>
    have hm : c ∈ candsAt fs v (below (rootOf v) comps) :=
      (mem_sortBySize _ _ _).mp (List.mem_of_find?_eq_some hf)
    rw [hf] at h
    simp only at h
    by_cases hd : fs.isDir c.path = true
    · simp only [hd, if_true, reduceCtorEq, exists_false, Outcome.isADirectory.injEq, false_or] at h
      exact h ▸ key c hm
    · simp only [hd, if_false, Outcome.file.injEq, reduceCtorEq, or_false] at h
      obtain ⟨_, _, e1, _, _⟩ := h
      exact e1 ▸ key c hm

/-- everything `static_view.__call__` opens lies strictly inside the root -/
theorem staticView_under (fs : Fs) (v : View) (hw : WfView v) (hr : RootIsDir fs v) (ae : Option (List Enc))
    (slash : Bool) (segs : List Seg) (p : Text)
    (h : (∃ e b, staticView fs v ae slash segs = .file p e b) ∨ staticView fs v ae slash segs = .isADirectory p) :
    Under (rootOf v) p := by
  by_cases hs : ∀ s ∈ segs, Proper s
  · rw [staticView_proper fs v hw ae slash segs hs hr.1 hr.2] at h
    cases hd : fs.isDir (below (rootOf v) segs) with
    | true =>
      rw [hd] at h
      cases slash with
      | false => simp at h
      | true =>
        simp only [if_true] at h
        refine chooseAt_under fs v hw ae (segs ++ [v.index]) (by simp) ?_ p h
        intro c hc
        rcases List.mem_append.mp hc with m | m
        · exact hs c m
        · simp only [List.mem_singleton] at m; subst m; exact hw.1
    | false =>
      rw [hd] at h
      simp only [Bool.false_eq_true, if_false] at h
      have hsn : segs ≠ [] := by
        intro e; subst e; rw [below_nil, hr.1] at hd; exact absurd hd (by simp)
      exact chooseAt_under fs v hw ae segs hsn hs p h
  · have : ∃ s ∈ segs, ¬ Proper s := by
      apply Classical.byContradiction
      intro hn
      exact hs fun s m => Classical.byContradiction fun hp => hn ⟨s, m, hp⟩
    rw [staticView_improper fs v ae slash segs this] at h
    simp at h

/-! ### model = spec -/

theorem candsAt_eq_specCands (fs : Fs) (v : View) (target : Text) :
    candsAt fs v target = specCands fs v target := rfl

/-- a candidate is a regular file, so `open()` never meets a directory -/
theorem candsAt_not_dir (fs : Fs) (v : View) (target : Text) (c : Cand) (h : c ∈ candsAt fs v target) :
    fs.isDir c.path = false := by
  have key : ∀ p, fs.isRegular p = true → fs.isDir p = false := by
    intro p hp
    simp only [Fs.isRegular, Bool.and_eq_true, Bool.not_eq_true'] at hp
    exact hp.2
  rcases mem_candsAt fs v target c h with ⟨e, _, t⟩ | ⟨e, he, x, hx, ep, _, t⟩
  · rw [e]; exact key _ t
  · rw [ep]; exact key _ t

theorem chooseAt_eq_specChoose (fs : Fs) (v : View) (ae : Option (List Enc)) (target : Text) :
    chooseAt fs v ae target = specChoose fs v ae target := by
  unfold chooseAt specChoose
  simp only
  rw [← candsAt_eq_specCands fs v target]
  cases hf : (sortBySize fs.size (candsAt fs v target)).find? (accepts ae) with
  | none => rfl
  | some c =>
    have hm : c ∈ candsAt fs v target := (mem_sortBySize _ _ _).mp (List.mem_of_find?_eq_some hf)
    simp [candsAt_not_dir fs v target c hm]

/-- the model of the view is the declarative spec, on every tuple -/
theorem staticView_eq_specView (fs : Fs) (v : View) (hw : WfView v) (hr : RootIsDir fs v)
    (ae : Option (List Enc)) (slash : Bool) (segs : List Seg) :
    staticView fs v ae slash segs = specView fs v ae slash segs := by
  by_cases hs : ∀ s ∈ segs, Proper s
  · have hall : (segs.all fun s => decide (Proper s)) = true := by
      simpa [List.all_eq_true] using hs
    rw [staticView_proper fs v hw ae slash segs hs hr.1 hr.2]
    unfold specView
    simp only [hall, if_true]
    cases hd : fs.isDir (below (rootOf v) segs) with
    | true =>
      cases slash with
      | false => rfl
      | true =>
        simp only [if_true]
        have e : below (rootOf v) (segs ++ [v.index]) = below (rootOf v) segs ++ '/' :: v.index := by
          simp [below, List.flatMap_append]
        rw [e]
        exact chooseAt_eq_specChoose fs v ae _
    | false =>
      simp only [Bool.false_eq_true, if_false]
      exact chooseAt_eq_specChoose fs v ae _
  · have hex : ∃ s ∈ segs, ¬ Proper s := by
      apply Classical.byContradiction
      intro hn
      exact hs fun s m => Classical.byContradiction fun hp => hn ⟨s, m, hp⟩
    rw [staticView_improper fs v ae slash segs hex]
    unfold specView
    have hall : (segs.all fun s => decide (Proper s)) = false := by
      obtain ⟨s, m, hp⟩ := hex
      apply Bool.eq_false_iff.mpr
      intro h
      exact hp (by simpa using List.all_eq_true.mp h s m)
    simp [hall]

/-! ### the candidates of the model, without any assumption on the configuration -/

theorem mem_candidates (fs : Fs) (v : View) (n : Text) (c : Cand) (h : c ∈ candidates fs v n) :
    (c.enc = none ∧ findResourcePath fs v n = some c.path) ∨
    ∃ e exts x, (e, exts) ∈ v.encs ∧ x ∈ exts ∧ c.enc = some e ∧ findResourcePath fs v (n ++ x) = some c.path := by
  unfold candidates at h
  rcases List.mem_append.mp h with m | m
  · left
    split at m
    · rename_i p hp
      simp only [List.mem_singleton] at m; subst m; exact ⟨rfl, hp⟩
    · simp at m
  · right
    obtain ⟨⟨e, exts⟩, he, hc⟩ := List.mem_flatMap.mp m
    obtain ⟨x, hx, hf⟩ := List.mem_filterMap.mp hc
    refine ⟨e, exts, x, he, hx, ?_⟩
    cases hp : findResourcePath fs v (n ++ x) with
    | none => simp [hp] at hf
    | some p =>
      simp only [hp, Option.map_some, Option.some.injEq] at hf
      subst hf
      exact ⟨rfl, rfl⟩

/-- in an ascending list, the first element with a property is a smallest one with it -/
theorem find?_sorted_min {α} (r : α → α → Prop) (hrefl : ∀ a, r a a) (l : List α) (hs : l.Pairwise r)
    (p : α → Bool) (c : α) (h : l.find? p = some c) (c' : α) (hc' : c' ∈ l) (hp : p c' = true) : r c c' := by
  obtain ⟨_, as, bs, e, hno⟩ := List.find?_eq_some_iff_append.mp h
  subst e
  rcases List.mem_append.mp hc' with m | m
  · have := hno c' m; simp [hp] at this
  · rcases List.mem_cons.mp m with e | m
    · subst e; exact hrefl _
    · have := (List.pairwise_append.mp hs).2.1
      exact List.rel_of_pairwise_cons this m

theorem specChoose_cases (fs : Fs) (v : View) (ae : Option (List Enc)) (t : Text) :
    specChoose fs v ae t = .notFound ∨ ∃ p e b, specChoose fs v ae t = .file p e b := by
  unfold specChoose
  simp only
  cases (sortBySize fs.size (specCands fs v t)).find? (accepts ae) with
  | none => exact .inl rfl
  | some c => exact .inr ⟨_, _, _, rfl⟩

/-- the spec answers 404, a redirect, or a file — nothing else -/
theorem specView_cases (fs : Fs) (v : View) (ae : Option (List Enc)) (slash : Bool) (segs : List Seg) :
    specView fs v ae slash segs = .notFound ∨ specView fs v ae slash segs = .redirect ∨
      ∃ p e b, specView fs v ae slash segs = .file p e b := by
  unfold specView
  split
  · simp only
    split
    · split
      · rcases specChoose_cases fs v ae (below (rootOf v) segs ++ '/' :: v.index) with h | h
        · exact .inl h
        · exact .inr (.inr h)
      · exact .inr (.inl rfl)
    · rcases specChoose_cases fs v ae (below (rootOf v) segs) with h | h
      · exact .inl h
      · exact .inr (.inr h)
  · exact .inl rfl

/-- what `find_resource_path` returns is a regular file -/
theorem findResourcePath_regular (fs : Fs) (v : View) (n p : Text) (h : findResourcePath fs v n = some p) :
    fs.isRegular p = true := by
  unfold findResourcePath at h
  split at h
  · rename_i hr; simp only [Option.some.injEq] at h; subst h; exact hr
  · simp at h

theorem candidates_regular (fs : Fs) (v : View) (n : Text) (c : Cand) (h : c ∈ candidates fs v n) :
    fs.isRegular c.path = true := by
  rcases mem_candidates fs v n c h with ⟨_, h1⟩ | ⟨_, _, _, _, _, _, h4⟩
  · exact findResourcePath_regular fs v _ _ h1
  · exact findResourcePath_regular fs v _ _ h4

/-- the chosen candidate of `__call__`, whatever the configuration -/
theorem staticView_chosen (fs : Fs) (v : View) (ae : Option (List Enc)) (slash : Bool) (segs : List Seg)
    (p : Text) (h : (∃ e b, staticView fs v ae slash segs = .file p e b) ∨ staticView fs v ae slash segs = .isADirectory p) :
    fs.isRegular p = true := by
  unfold staticView at h
  cases hn : resourceName fs v slash segs with
  | notFound => simp [hn] at h
  | redirect => simp [hn] at h
  | name n =>
    simp only [hn] at h
    rw [findBestMatch_eq_find] at h
    cases hf : (possibleFiles fs v n).find? (accepts ae) with
    | none => simp [hf] at h
    | some c =>
      simp only [hf] at h
      have hm : c ∈ candidates fs v n := (mem_sortBySize _ _ _).mp (List.mem_of_find?_eq_some hf)
      have hreg := candidates_regular fs v n c hm
      by_cases hd : fs.isDir c.path = true
      · simp only [hd, if_true, reduceCtorEq, exists_false, Outcome.isADirectory.injEq, false_or] at h
        exact h ▸ hreg
      · simp only [hd, if_false, Outcome.file.injEq, reduceCtorEq, or_false] at h
        obtain ⟨_, _, e1, _, _⟩ := h
        exact e1 ▸ hreg

theorem staticView_file_regular (fs : Fs) (v : View) (ae : Option (List Enc)) (slash : Bool) (segs : List Seg)
    (p : Text) (e : Option Enc) (b : Bool) (h : staticView fs v ae slash segs = .file p e b) : fs.isRegular p = true :=
  staticView_chosen fs v ae slash segs p (.inl ⟨e, b, h⟩)

theorem staticView_not_isADirectory (fs : Fs) (v : View) (ae : Option (List Enc)) (slash : Bool) (segs : List Seg)
    (p : Text) (h : staticView fs v ae slash segs = .isADirectory p) : False := by
  have hreg := staticView_chosen fs v ae slash segs p (.inr h)
  -- the model only answers `isADirectory p` when `fs.isDir p`
  have hdir : fs.isDir p = true := by
    unfold staticView at h
    cases hn : resourceName fs v slash segs with
    | notFound => simp [hn] at h
    | redirect => simp [hn] at h
    | name n =>
      simp only [hn] at h
      cases hf : findBestMatch ae (possibleFiles fs v n) with
      | none => simp [hf] at h
      | some c =>
        simp only [hf] at h
        by_cases hd : fs.isDir c.path = true
        · simp only [hd, if_true, Outcome.isADirectory.injEq] at h
          exact h ▸ hd
        · simp [hd] at h
  simp [Fs.isRegular, hdir] at hreg

/-! ### the configurations the translator's probes are made with (`extract/c16.py`) -/

/-- filesystem probe: the root given; package probe: `<pkg>:static/` -/
def probeView (pkg : Bool) (root : Text) : View :=
  { pkg := pkg, base := "/probe-base".toList, docroot := if pkg then "static/".toList else root,
    index := "index.html".toList, encs := [] }

/-- below the filesystem probe root nothing exists; in the scratch package only `static/` is a directory -/
def probeFs (pkg : Bool) : Fs :=
  { isDir := fun p => pkg && (p = "/probe-base/static/".toList || p = "/probe-base/static".toList)
    isThere := fun p => pkg && (p = "/probe-base/static/".toList || p = "/probe-base/static".toList)
    size := fun _ => 0 }

def nameOutcomeTag : NameOutcome → String × Text
  | .notFound => ("notfound", [])
  | .redirect => ("redirect", [])
  | .name n => ("name", n)

/-- the model's answer to a raw PATH_INFO given to `get_resource_name` without `use_subpath` -/
def pathInfoTag (root : Text) (raw : List Nat) : String × Text :=
  match decodePathInfo (raw.map UInt8.ofNat) with
  | none => ("urldecode", [])
  | some t => nameOutcomeTag (resourceName (probeFs false) (probeView false root) (endsWithSlash t) (splitPathInfo t))

end Pyr.Static
