import PyramidModel.Lemmas.UrlGrammar
/-
Helper lemmas for C17, part 5: whole URLs — the parser on `app_url + path + suffix + qs + frag`, the grammar of
the whole, and the shape of the application URL in each branch of `parse_url_overrides`.
-/
namespace Pyr.Url
open Pyr Pyr.Trav Pyr.Pct

/-! ### the application URL as `scheme://authority` + quoted script name -/

/-- `host` + `:port` unless the port is elided (`none`) or empty -/
def authText (w : Text × Text × Option Text) : Text :=
  w.2.1 ++ (match w.2.2 with
    | some pt => if pt = [] then [] else ':' :: pt
    | none => [])

theorem originText_eq (w : Text × Text × Option Text) : originText w = w.1 ++ colonSlashSlash ++ authText w := by
  obtain ⟨s, h, p⟩ := w
  cases p with
  | none => simp [originText, authText]
  | some pt =>
    simp only [originText, authText]
    split <;> simp

/-- the origin (`scheme://authority`) the helpers put in front when no `_app_url` is given -/
def originOf (e : Env) (o : Ovr) : Text × Text × Option Text :=
  if o.scheme.isSome || o.host.isSome || o.port.isSome then wanted e o.scheme o.host o.port else hostUrlParts e

theorem quoteBytes_congr (s1 s2 : List UInt8)
    (h : ∀ b, (isUnreserved b || s1.contains b) = (isUnreserved b || s2.contains b)) (bs : Bytes) :
    quoteBytes s1 bs = quoteBytes s2 bs := by
  induction bs with
  | nil => rfl
  | cons b r ih => simp only [quoteBytes, h b, ih]

/-- without `_app_url`, the application URL is the origin followed by the quoted script name — the same
quoted script name the `*_path` helpers use as their application URL -/
theorem appUrlOf_eq (g : GenFacts) (e : Env) (o : Ovr) (h : o.appUrl = none) :
    appUrlOf e o = originText (originOf e o) ++ quotedScriptName e := by
  unfold appUrlOf originOf
  rw [h]
  simp only
  split
  · simp only [partialAppUrl, partialParts_eq_wanted]
  · simp only [applicationUrl, hostUrl, quotedScriptName, quote, quoteBytes_congr _ _ g.webob]

/-! ### well-formed caller / server supplied origin texts -/

/-- characters of a host name or port as the caller / the server supplies them: unreserved, sub-delims, `:` -/
def authCharOk (c : Char) : Bool := isUnreservedC c || isSubDelim c || c = ':'

theorem authCharOk_facts (c : Char) (h : authCharOk c = true) :
    (isUrlC c = true ∧ notNetlocDelim c = true ∧ c ≠ '[' ∧ c ≠ ']') ∧ c ≠ '%' := by
  simp only [authCharOk, isUrlC, notNetlocDelim, isUnreservedC, isAlnum, isSubDelim, isGenDelim, Bool.or_eq_true,
    Bool.and_eq_true, Bool.not_eq_true', Bool.or_eq_false_iff, decide_eq_true_eq, decide_eq_false_iff_not,
    char_eq_iff, Char.reduceToNat, ne_eq] at h ⊢
  omega

def schemeOk (s : Text) : Bool := startsAlpha s && s.all isSchemeChar

theorem mem_cut_fst (sep : Char) (t : Text) (c : Char) (h : c ∈ (cut sep t).1) : c ∈ t := by
  induction t with
  | nil => simp [cut] at h
  | cons d r ih =>
    unfold cut at h
    split at h
    · simp at h
    · simp only [List.mem_cons] at h ⊢
      rcases h with e | m
      · exact .inl e
      · exact .inr (ih m)

theorem cut_some (sep : Char) (t a b : Text) (h : cut sep t = (a, some b)) : t = a ++ sep :: b ∧ sep ∉ a := by
  induction t generalizing a with
  | nil => simp [cut] at h
  | cons c r ih =>
    unfold cut at h
    split at h
    · rename_i hc
      simp only [Prod.mk.injEq, Option.some.injEq] at h
      obtain ⟨h1, h2⟩ := h
      subst h1; subst h2; subst hc
      simp
    · rename_i hc
      simp only [Prod.mk.injEq] at h
      obtain ⟨h1, h2⟩ := h
      have := ih (cut sep r).1 (by rw [← h2])
      subst h1
      refine ⟨by rw [List.cons_append, ← this.1], ?_⟩
      intro m
      rcases List.mem_cons.mp m with e | m
      · exact hc e.symm
      · exact this.2 m

/-- a host as the caller / the server supplies it: `reg-name` (unreserved / sub-delim / `:` characters), or a
bracketed IP literal `[…]` whose content is made of such characters and passes `_check_bracketed_host`.
A `[` without its `]` — or with anything after the `]` — is outside. -/
def hostOk (h : Text) : Bool :=
  match h with
  | '[' :: r =>
    (match cut ']' r with
     | (v, some []) => v.all authCharOk && checkBracketedHost v
     | _ => false)
  | _ => h.all authCharOk

theorem hostOk_cases (h : Text) (hk : hostOk h = true) :
    (∀ c ∈ h, authCharOk c = true) ∨
    ∃ v, h = '[' :: v ++ [']'] ∧ (∀ c ∈ v, authCharOk c = true) ∧ checkBracketedHost v = true := by
  unfold hostOk at hk
  split at hk
  · rename_i r
    split at hk
    · rename_i v hc
      simp only [Bool.and_eq_true] at hk
      have := cut_some ']' r v [] hc
      refine .inr ⟨v, by rw [this.1]; rfl, fun c hc => List.all_eq_true.mp hk.1 c hc, hk.2⟩
    · simp at hk
  · exact .inl (fun c hc => List.all_eq_true.mp hk c hc)

/-- the hypotheses under which scheme / host / port texts make an origin the parser recognises: the scheme is a
scheme, the host is a reg-name or a bracketed IP literal (`hostOk`), the port text holds only unreserved /
sub-delim / `:` characters. -/
structure OriginTextsOk (w : Text × Text × Option Text) : Prop where
  scheme : schemeOk w.1 = true
  host : hostOk w.2.1 = true
  port : ∀ p, w.2.2 = some p → ∀ c ∈ p, authCharOk c = true

/-- the port suffix of `authText` -/
def portSuffix (p : Option Text) : Text :=
  match p with
  | some pt => if pt = [] then [] else ':' :: pt
  | none => []

theorem authText_eq (w : Text × Text × Option Text) : authText w = w.2.1 ++ portSuffix w.2.2 := by
  obtain ⟨s, h, p⟩ := w
  cases p <;> rfl

theorem mem_portSuffix (p : Option Text) (c : Char) (hc : c ∈ portSuffix p) : c = ':' ∨ ∃ pt, p = some pt ∧ c ∈ pt := by
  cases p with
  | none => simp [portSuffix] at hc
  | some pt =>
    simp only [portSuffix] at hc
    split at hc
    · simp at hc
    · rcases List.mem_cons.mp hc with e | m
      · exact .inl e
      · exact .inr ⟨pt, rfl, m⟩

theorem portSuffix_chars (w : Text × Text × Option Text) (h : OriginTextsOk w) :
    ∀ c ∈ portSuffix w.2.2, authCharOk c = true := by
  intro c hc
  rcases mem_portSuffix _ c hc with e | ⟨pt, hp, m⟩
  · subst e; decide
  · exact h.port pt hp c m

theorem netlocOk_plain (n : Text) (h : ∀ c ∈ n, authCharOk c = true) : netlocOk n = true := by
  have h1 : n.contains '[' = false := by
    cases hc : n.contains '[' with
    | false => rfl
    | true => exact absurd rfl (authCharOk_facts _ (h '[' (by simpa using hc))).1.2.2.1
  have h2 : n.contains ']' = false := by
    cases hc : n.contains ']' with
    | false => rfl
    | true => exact absurd rfl (authCharOk_facts _ (h ']' (by simpa using hc))).1.2.2.2
  simp only [netlocOk, h1, h2, Bool.false_and, Bool.or_self, Bool.false_eq_true, if_false]

theorem netlocOk_bracketed (v pp : Text) (hv : ∀ c ∈ v, authCharOk c = true) (hk : checkBracketedHost v = true) :
    netlocOk ('[' :: v ++ [']'] ++ pp) = true := by
  have hno : ']' ∉ v := fun m => (authCharOk_facts _ (hv ']' m)).1.2.2.2 rfl
  have e : '[' :: v ++ [']'] ++ pp = '[' :: (v ++ ']' :: pp) := by simp
  rw [e]
  have c1 : ('[' :: (v ++ ']' :: pp)).contains '[' = true := by simp
  have c2 : ('[' :: (v ++ ']' :: pp)).contains ']' = true := by simp
  have c3 : cut '[' ('[' :: (v ++ ']' :: pp)) = ([], some (v ++ ']' :: pp)) := by simp [cut]
  simp only [netlocOk, c1, c2, c3, Bool.not_true, Bool.and_false, Bool.or_self, Bool.false_eq_true, if_false,
    Bool.and_self, if_true, Option.getD_some, cut_append_sep ']' v pp hno, hk]

theorem originOk_of_texts (w : Text × Text × Option Text) (h : OriginTextsOk w) : OriginOk w.1 (authText w) := by
  have hs := h.scheme
  simp only [schemeOk, Bool.and_eq_true] at hs
  have hps := portSuffix_chars w h
  rw [authText_eq]
  rcases hostOk_cases _ h.host with hh | ⟨v, hv, hvc, hk⟩
  · have hall : ∀ c ∈ w.2.1 ++ portSuffix w.2.2, authCharOk c = true := by
      intro c hc
      rcases List.mem_append.mp hc with m | m
      · exact hh c m
      · exact hps c m
    refine ⟨hs.1, hs.2, fun c hc => ?_, netlocOk_plain _ hall⟩
    exact ⟨(authCharOk_facts c (hall c hc)).1.1, (authCharOk_facts c (hall c hc)).1.2.1⟩
  · rw [hv]
    refine ⟨hs.1, hs.2, fun c hc => ?_, netlocOk_bracketed v _ hvc hk⟩
    simp only [List.cons_append, List.mem_cons, List.mem_append, List.not_mem_nil, or_false] at hc
    rcases hc with e | (m | e) | m
    · subst e; decide
    · exact ⟨(authCharOk_facts c (hvc c m)).1.1, (authCharOk_facts c (hvc c m)).1.2.1⟩
    · subst e; decide
    · exact ⟨(authCharOk_facts c (hps c m)).1.1, (authCharOk_facts c (hps c m)).1.2.1⟩

theorem authText_wf (w : Text × Text × Option Text) (h : OriginTextsOk w) : pctWF isUrlC (authText w) = true := by
  have hps := portSuffix_chars w h
  rw [authText_eq]
  apply pctWF_of_all
  intro c hc
  rcases List.mem_append.mp hc with m | m
  · rcases hostOk_cases _ h.host with hh | ⟨v, hv, hvc, hk⟩
    · exact ⟨(authCharOk_facts c (hh c m)).1.1, (authCharOk_facts c (hh c m)).2⟩
    · rw [hv] at m
      simp only [List.cons_append, List.mem_cons, List.mem_append, List.not_mem_nil, or_false] at m
      rcases m with e | m | e
      · subst e; decide
      · exact ⟨(authCharOk_facts c (hvc c m)).1.1, (authCharOk_facts c (hvc c m)).2⟩
      · subst e; decide
  · exact ⟨(authCharOk_facts c (hps c m)).1.1, (authCharOk_facts c (hps c m)).2⟩

/-! ### the parser and the grammar on a whole generated URL -/

theorem wf_gt (ok : Char → Bool) (hok : ∀ c, ok c = true → isQueryC c = true) (t : Text) (h : pctWF ok t = true) :
    ∀ c ∈ t, 32 < c.toNat ∧ c ≠ '#' := by
  intro c hc
  have := mem_of_pctWF ok t h c hc
  have h2 : isQueryC c = true ∨ c = '%' ∨ isHexC c = true := by
    rcases this with h | h | h
    · exact .inl (hok c h)
    · exact .inr (.inl h)
    · exact .inr (.inr h)
  exact ⟨(queryC_gt c h2).1, (queryC_gt c h2).2.1⟩

/-- **the standard parser on a generated URL** -/
theorem assembled_split (g : GenFacts) (sch auth pre path suffix : Text) (q : Query) (a : Text) (tr : Bool)
    (ho : OriginOk sch auth) (hpre : BodyOk pre) (hlead : ∃ r, path = '/' :: r)
    (hp : pctWF isPathC path = true) (hs : pctWF isPathC suffix = true) :
    urlsplit ((sch ++ colonSlashSlash ++ auth ++ pre) ++ path ++ suffix ++ qsOf q ++ fragOf a tr)
      = some ⟨sch.map lowerC, auth, pre ++ path ++ suffix, (qsOpt q).getD [], (fragOpt a tr).getD []⟩ := by
  have hb := bodyOk_compose pre path suffix hpre hlead hp hs
  have := urlsplit_assembled sch auth (pre ++ path ++ suffix) (qsOpt q) (fragOpt a tr) ho hb
    (fun t ht => wf_gt isQueryC (fun _ h => h) t (qsOpt_wf g q t ht))
    (fun t ht c hc => (wf_gt isQueryC (fun _ h => h) t (fragOpt_wf g a tr t ht) c hc).1)
  rw [← this, qsOf_eq, fragOf_eq]
  simp only [List.append_assoc]

/-- the grammar of a whole generated URL: only RFC 3986 characters, every `%` followed by two hex digits -/
theorem assembled_wf (g : GenFacts) (sch auth pre path suffix : Text) (q : Query) (a : Text) (tr : Bool)
    (hsch : sch.all isSchemeChar = true) (hauth : pctWF isUrlC auth = true) (hpre : pctWF isPathC pre = true)
    (hp : pctWF isPathC path = true) (hs : pctWF isPathC suffix = true) :
    pctWF isUrlC ((sch ++ colonSlashSlash ++ auth ++ pre) ++ path ++ suffix ++ qsOf q ++ fragOf a tr) = true := by
  have hpu : ∀ t, pctWF isPathC t = true → pctWF isUrlC t = true :=
    fun t ht => pctWF_mono _ _ (fun c hc => pathC_urlC c (.inl hc)) t ht
  have hschw : pctWF isUrlC sch = true := by
    apply pctWF_of_all
    intro c hc
    have := schemeChar_facts c (List.all_eq_true.mp hsch c hc)
    refine ⟨this.2.2, ?_⟩
    intro e; subst e
    have := List.all_eq_true.mp hsch '%' hc
    exact absurd this (by decide)
  rw [qsOf_eq, fragOf_eq]
  repeat' apply pctWF_append
  · exact hschw
  · decide
  · exact hauth
  · exact hpu _ hpre
  · exact hpu _ hp
  · exact hpu _ hs
  · exact optPre_wf '?' (.inl (by decide)) _ (qsOpt_wf g q)
  · exact optPre_wf '#' (.inr rfl) _ (fragOpt_wf g a tr)

theorem urlC_of_wf (t : Text) (h : pctWF isUrlC t = true) : ∀ c ∈ t, isUrlC c = true := by
  intro c hc
  rcases mem_of_pctWF _ _ h c hc with h | h | h
  · exact h
  · subst h; decide
  · exact queryC_urlC c (.inr (.inr h))

theorem length_map_lowerC (s : Text) : (s.map lowerC).length = s.length := by simp

theorem unquote_nil : unquote [] = some [] := by
  have := unquote_quote [] (by intro b hb; simp at hb) []
  rwa [quote_nil] at this

end Pyr.Url
