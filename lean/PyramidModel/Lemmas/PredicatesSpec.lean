import PyramidModel.Lemmas.PredicatesMake
/-! X06 helper definitions and lemmas used by the property theorems of `Props/X06.lean`: the well-formedness classes of
the phash clause, injectivity of the joined items, the accumulator lemma of webob's best-range loop, weights of `make`. -/
namespace Pyr.Pred
open Pyr Pyr.Rx

/-- the elements of a configuration value -/
def elems : PVal → List Text
  | .one t => [t]
  | .many ts => ts

/-- `as_sorted_tuple` keeps exactly the elements given -/
theorem sorted_tuple_members (v : PVal) (x : Text) : x ∈ asSortedTuple v ↔ x ∈ elems v := by
  cases v with
  | one t => simp [asSortedTuple, elems]
  | many ts => simp only [asSortedTuple, elems]; exact mem_sortT

/-- what the loop over the ranges computes, with its accumulator -/
theorem bestRange_spec (o : Text) : ∀ (rs : List Range) (acc : Option (Nat × Nat)),
    (∀ q s, acc = some (q, s) → s ≠ 0) →
    (bestRange o rs acc = none ↔ acc = none ∧ ∀ r ∈ rs, specificity r o = 0) ∧
    (∀ q s, bestRange o rs acc = some (q, s) →
      s ≠ 0 ∧ (acc = some (q, s) ∨ ∃ r ∈ rs, specificity r o = s ∧ r.q = q) ∧
      (∀ r ∈ rs, specificity r o ≤ s) ∧ (∀ q0 s0, acc = some (q0, s0) → s0 ≤ s))
  | [], acc, hacc => by
    simp only [bestRange]
    refine ⟨by simp, ?_⟩
    intro q s h
    exact ⟨hacc q s h, Or.inl h, by simp, fun q0 s0 h0 => by rw [h] at h0; cases h0; exact Nat.le_refl _⟩
  | r :: rs, acc, hacc => by
    simp only [bestRange]
    by_cases h0 : specificity r o = 0
    · simp only [h0, if_true]
      have ih := bestRange_spec o rs acc hacc
      refine ⟨?_, ?_⟩
      · rw [ih.1]; simp [h0]
      · intro q s h
        obtain ⟨a, b, c, d⟩ := ih.2 q s h
        refine ⟨a, ?_, ?_, d⟩
        · rcases b with b | ⟨r', hr', e⟩
          · exact Or.inl b
          · exact Or.inr ⟨r', List.mem_cons_of_mem _ hr', e⟩
        · intro r' hr'
          rcases List.mem_cons.mp hr' with rfl | hr'
          · omega
          · exact c r' hr'
    · simp only [h0, if_false]
      cases acc with
      | none =>
        simp only
        have ih := bestRange_spec o rs (some (r.q, specificity r o)) (fun q s h => by cases h; exact h0)
        refine ⟨?_, ?_⟩
        · simp [ih.1, h0]
        · intro q s h
          obtain ⟨a, b, c, d⟩ := ih.2 q s h
          refine ⟨a, Or.inr ?_, ?_, by simp⟩
          · rcases b with b | ⟨r', hr', e⟩
            · cases b; exact ⟨r, List.mem_cons_self, rfl, rfl⟩
            · exact ⟨r', List.mem_cons_of_mem _ hr', e⟩
          · intro r' hr'
            rcases List.mem_cons.mp hr' with rfl | hr'
            · exact d _ _ rfl
            · exact c r' hr'
      | some p =>
        obtain ⟨q0, s0⟩ := p
        simp only
        by_cases hle : specificity r o ≤ s0
        · simp only [hle, if_true]
          have ih := bestRange_spec o rs (some (q0, s0)) hacc
          refine ⟨by simp [ih.1], ?_⟩
          intro q s h
          obtain ⟨a, b, c, d⟩ := ih.2 q s h
          refine ⟨a, ?_, ?_, d⟩
          · rcases b with b | ⟨r', hr', e⟩
            · exact Or.inl b
            · exact Or.inr ⟨r', List.mem_cons_of_mem _ hr', e⟩
          · intro r' hr'
            rcases List.mem_cons.mp hr' with rfl | hr'
            · exact Nat.le_trans hle (d q0 s0 rfl)
            · exact c r' hr'
        · simp only [hle, if_false]
          have ih := bestRange_spec o rs (some (r.q, specificity r o)) (fun q s h => by cases h; exact h0)
          refine ⟨by simp [ih.1], ?_⟩
          intro q s h
          obtain ⟨a, b, c, d⟩ := ih.2 q s h
          refine ⟨a, Or.inr ?_, ?_, ?_⟩
          · rcases b with b | ⟨r', hr', e⟩
            · cases b; exact ⟨r, List.mem_cons_self, rfl, rfl⟩
            · exact ⟨r', List.mem_cons_of_mem _ hr', e⟩
          · intro r' hr'
            rcases List.mem_cons.mp hr' with rfl | hr'
            · exact d _ _ rfl
            · exact c r' hr'
          · intro q1 s1 h1
            cases h1
            have := d _ _ rfl
            omega

theorem dictGet_dictSet (d : Dict) (k k' : Text) (v : MVal) :
    dictGet (dictSet d k v) k' = if k' = k then some v else dictGet d k' := by
  induction d with
  | nil =>
    simp only [dictSet, dictGet]
    by_cases h : k = k' <;> simp [h, eq_comm]
  | cons e es ih =>
    obtain ⟨a, b⟩ := e
    simp only [dictSet]
    by_cases ha : a = k
    · subst ha
      simp only [if_true, dictGet]
      by_cases h : a = k'
      · subst h; simp
      · have : ¬ k' = a := fun e => h e.symm
        simp [h, this]
    · simp only [ha, if_false, dictGet, ih]
      by_cases h : a = k'
      · subst h; simp [ha]
      · simp [h]

/-- no element is empty or contains the joiner's first character -/
def JoinFree (c : Char) (l : List Text) : Prop := ∀ x ∈ l, x ≠ [] ∧ c ∉ x

theorem mem_mkMethod (v : PVal) (x : Text) (h : x ∈ mkMethod v) : x ∈ elems v ∨ x = HEAD := by
  unfold mkMethod at h
  simp only at h
  split at h
  · rcases List.mem_append.mp (mem_sortT.mp h) with h | h
    · exact Or.inl ((sorted_tuple_members v x).mp h)
    · exact Or.inr (by simpa using h)
  · exact Or.inl ((sorted_tuple_members v x).mp h)

/-- a parsed `request_param` element for which the phash clause is claimed -/
def ParamWF (kv : Text × Option Text) : Prop :=
  kv.1 ≠ [] ∧ ',' ∉ kv.1 ∧ '=' ∉ kv.1 ∧ ∀ w, kv.2 = some w → w ≠ [] ∧ ',' ∉ w

theorem paramItem_inj (a b : Text × Option Text) (ha : ParamWF a) (hb : ParamWF b) (h : paramItem a = paramItem b) : a = b := by
  obtain ⟨ka, va⟩ := a
  obtain ⟨kb, vb⟩ := b
  cases va with
  | none =>
    cases vb with
    | none => simp only [paramItem] at h; rw [h]
    | some w =>
      cases w with
      | nil => exact absurd rfl (hb.2.2.2 [] rfl).1
      | cons x xs =>
        simp only [paramItem] at h
        exact absurd (by rw [h]; simp) ha.2.2.1
  | some w =>
    cases w with
    | nil => exact absurd rfl (ha.2.2.2 [] rfl).1
    | cons x xs =>
      cases vb with
      | none =>
        simp only [paramItem] at h
        exact absurd (by rw [← h]; simp) hb.2.2.1
      | some w' =>
        cases w' with
        | nil => exact absurd rfl (hb.2.2.2 [] rfl).1
        | cons y ys =>
          simp only [paramItem] at h
          have := append_cons_inj_of_not_mem ha.2.2.1 hb.2.2.1 h
          simp only at this
          rw [this.1, this.2]

theorem map_inj_on {α β : Type} (f : α → β) : ∀ (l₁ l₂ : List α), (∀ a ∈ l₁, ∀ b ∈ l₂, f a = f b → a = b) → l₁.map f = l₂.map f → l₁ = l₂
  | [], [], _, _ => rfl
  | [], _ :: _, _, h => by cases h
  | _ :: _, [], _, h => by cases h
  | a :: as, b :: bs, hi, h => by
    simp only [List.map_cons, List.cons.injEq] at h
    rw [hi a List.mem_cons_self b List.mem_cons_self h.1,
      map_inj_on f as bs (fun x hx y hy => hi x (List.mem_cons_of_mem _ hx) y (List.mem_cons_of_mem _ hy)) h.2]

/-- a `match_param` element for which the phash clause is claimed -/
def MatchWF (kv : Text × Text) : Prop := '=' ∉ kv.1 ∧ ',' ∉ kv.1 ∧ ',' ∉ kv.2

/-- a parsed `header` element for which the phash clause is claimed (the regex is the one `re.compile` gives its text) -/
def HeaderWF (E : Env) (x : Text × Option (Text × Rx)) : Prop :=
  x.1 ≠ [] ∧ ',' ∉ x.1 ∧ '=' ∉ x.1 ∧ ∀ vs rx, x.2 = some (vs, rx) → vs ≠ [] ∧ ',' ∉ vs ∧ E.re vs = some rx

/-- what `HeaderPredicate.__init__` stores: the regex compiled from the text after the first `:` -/
theorem parseHeader_re (E : Env) (name : Text) (x : Text × Option (Text × Rx)) (h : parseHeader E name = .ok x) :
    ∀ vs rx, x.2 = some (vs, rx) → E.re vs = some rx ∧ name = x.1 ++ ':' :: vs ∧ ':' ∉ x.1 := by
  intro vs rx hx
  unfold parseHeader at h
  cases hs : splitFirst ':' name with
  | none => rw [hs] at h; cases h; cases hx
  | some p =>
    obtain ⟨n, v⟩ := p
    rw [hs] at h
    simp only at h
    cases hr : E.re v with
    | none => rw [hr] at h; cases h
    | some r =>
      rw [hr] at h
      cases h
      cases hx
      have := (splitFirst_some_iff ':' name _ _).mp hs
      exact ⟨hr, this.1, this.2⟩

theorem headerItem_inj (E : Env) (a b : Text × Option (Text × Rx)) (ha : HeaderWF E a) (hb : HeaderWF E b)
    (h : headerItem a = headerItem b) : a = b := by
  obtain ⟨ka, va⟩ := a
  obtain ⟨kb, vb⟩ := b
  cases va with
  | none =>
    cases vb with
    | none => simp only [headerItem] at h; rw [h]
    | some w =>
      obtain ⟨vs, rx⟩ := w
      cases vs with
      | nil => exact absurd rfl (hb.2.2.2 [] rx rfl).1
      | cons x xs =>
        simp only [headerItem] at h
        exact absurd (by rw [h]; simp) ha.2.2.1
  | some w =>
    obtain ⟨vs, rx⟩ := w
    cases vs with
    | nil => exact absurd rfl (ha.2.2.2 [] rx rfl).1
    | cons x xs =>
      cases vb with
      | none =>
        simp only [headerItem] at h
        exact absurd (by rw [← h]; simp) hb.2.2.1
      | some w' =>
        obtain ⟨vs', rx'⟩ := w'
        cases vs' with
        | nil => exact absurd rfl (hb.2.2.2 [] rx' rfl).1
        | cons y ys =>
          simp only [headerItem] at h
          have := append_cons_inj_of_not_mem ha.2.2.1 hb.2.2.1 h
          have e1 := (ha.2.2.2 _ rx rfl).2.2
          have e2 := (hb.2.2.2 _ rx' rfl).2.2
          rw [this.2] at e1
          rw [e1] at e2
          cases e2
          simp only at this
          rw [this.1, this.2]

theorem makeVals_weights (E : Env) (n : Nat) (f : Factory) : ∀ (vals : List (Bool × Val)) (a a' : Acc),
    makeVals E n f vals a = .ok a' → a'.weights = a.weights ++ List.replicate vals.length (2 ^ (n + 1))
  | [], a, a', h => by simp only [makeVals] at h; cases h; simp
  | (nt, v) :: r, a, a', h => by
    simp only [makeVals] at h
    cases hc : construct E f v with
    | error e => rw [hc] at h; cases h
    | ok p0 =>
      rw [hc] at h
      simp only at h
      by_cases hl : latin1 (phash (if nt = true then Pred.notted p0 else p0)) = true
      · simp only [hl, if_true] at h
        rw [makeVals_weights E n f r _ a' h]
        simp [List.replicate_succ]
      · simp only [hl] at h
        cases h

/-- the number of values given under a keyword (`none`: absent or None) -/
def shape (v : KwVal) : Option Nat := v.map List.length

theorem makeLoop_weights_shape (E : Env) : ∀ (ord : List (Text × Factory)) (n : Nat) (kw₁ kw₂ : Kw) (a₁ a₂ b₁ b₂ : Acc) (r₁ r₂ : Kw),
    (keys kw₁).Nodup → (keys kw₂).Nodup → (∀ name, shape (kwGet name kw₁) = shape (kwGet name kw₂)) →
    a₁.weights = a₂.weights → makeLoop E n ord kw₁ a₁ = .ok (b₁, r₁) → makeLoop E n ord kw₂ a₂ = .ok (b₂, r₂) →
    b₁.weights = b₂.weights
  | [], n, kw₁, kw₂, a₁, a₂, b₁, b₂, r₁, r₂, _, _, _, hw, h₁, h₂ => by
    simp only [makeLoop] at h₁ h₂
    cases h₁; cases h₂; exact hw
  | (name, f) :: rest, n, kw₁, kw₂, a₁, a₂, b₁, b₂, r₁, r₂, hn₁, hn₂, hs, hw, h₁, h₂ => by
    simp only [makeLoop] at h₁ h₂
    rw [kwPop_closed name kw₁ hn₁] at h₁
    rw [kwPop_closed name kw₂ hn₂] at h₂
    have hn₁' := keys_filter_nodup (fun e => e.1 != name) hn₁
    have hn₂' := keys_filter_nodup (fun e => e.1 != name) hn₂
    have hget : ∀ (kw : Kw) (nm : Text), kwGet nm (kw.filter (fun e => e.1 != name)) = if nm = name then none else kwGet nm kw := by
      intro kw nm
      induction kw with
      | nil => simp [kwGet]
      | cons e es ih =>
        obtain ⟨k, v⟩ := e
        simp only [List.filter_cons]
        by_cases hk : k = name
        · subst hk
          simp only [bne_self_eq_false, Bool.false_eq_true, if_false, ih, kwGet]
          by_cases hnm : nm = k
          · simp [hnm]
          · have : ¬ k = nm := fun e => hnm e.symm
            simp [hnm, this]
        · have : (k != name) = true := by simpa using hk
          simp only [this, if_true, kwGet, ih]
          by_cases hnm : nm = name
          · subst hnm; simp [hk]
          · simp [hnm]
    have hs' : ∀ nm, shape (kwGet nm (kw₁.filter (fun e => e.1 != name))) = shape (kwGet nm (kw₂.filter (fun e => e.1 != name))) := by
      intro nm
      rw [hget, hget]
      by_cases hnm : nm = name
      · simp [hnm]
      · simp only [hnm, if_false]; exact hs nm
    have hsn := hs name
    cases hv₁ : kwGet name kw₁ with
    | none =>
      cases hv₂ : kwGet name kw₂ with
      | none =>
        simp only [hv₁] at h₁; simp only [hv₂] at h₂
        exact makeLoop_weights_shape E rest (n + 1) _ _ a₁ a₂ b₁ b₂ r₁ r₂ hn₁' hn₂' hs' hw h₁ h₂
      | some vals₂ => rw [hv₁, hv₂] at hsn; simp [shape] at hsn
    | some vals₁ =>
      cases hv₂ : kwGet name kw₂ with
      | none => rw [hv₁, hv₂] at hsn; simp [shape] at hsn
      | some vals₂ =>
        rw [hv₁, hv₂] at hsn
        simp only [shape, Option.map_some, Option.some.injEq] at hsn
        simp only [hv₁] at h₁; simp only [hv₂] at h₂
        cases hm₁ : makeVals E n f vals₁ a₁ with
        | error e => rw [hm₁] at h₁; cases h₁
        | ok c₁ =>
          cases hm₂ : makeVals E n f vals₂ a₂ with
          | error e => rw [hm₂] at h₂; cases h₂
          | ok c₂ =>
            rw [hm₁] at h₁; rw [hm₂] at h₂
            have hw' : c₁.weights = c₂.weights := by
              rw [makeVals_weights E n f vals₁ a₁ c₁ hm₁, makeVals_weights E n f vals₂ a₂ c₂ hm₂, hw, hsn]
            exact makeLoop_weights_shape E rest (n + 1) _ _ c₁ c₂ b₁ b₂ r₁ r₂ hn₁' hn₂' hs' hw' h₁ h₂

end Pyr.Pred
