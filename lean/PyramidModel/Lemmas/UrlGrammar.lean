import PyramidModel.Lemmas.UrlParts
/-
Helper lemmas for C17, part 4: every generated part obeys the RFC 3986 grammar of its component, given the
(decidable) facts about the generated safe sets collected in `genOk`.
-/
namespace Pyr.Url
open Pyr Pyr.Trav Pyr.Pct

/-- everything the theorems need to know about the safe sets extracted from the source — one decidable
proposition, discharged by `decide` in `Props/C17.lean` against the *current* `Gen/C17.lean`:
each set lies inside the character class of the component it is used
in and never holds `%`; element / resource-name sets do not hold `/`; the sets used for paths hold `/` where the
code relies on it; `quote_plus`'s set holds none of `+ & =`; WebOb's `PATH_SAFE` keeps the same bytes as the set
`_quoted_script_name` uses (modulo the always-safe ones). -/
def genOk : Bool :=
  safeWithin isPcharC Gen.elementSafe && !Gen.elementSafe.contains 47 &&
  safeWithin isPcharC Gen.resNameSafe && !Gen.resNameSafe.contains 47 &&
  safeWithin isPathC Gen.scriptSafe && Gen.scriptSafe.contains 47 &&
  safeWithin isPathC Gen.routeLitSafe && Gen.routeLitSafe.contains 47 &&
  safeWithin isPathC Gen.routeValSafe &&
  safeWithin isQueryC Gen.querySafe &&
  safeWithin isQueryC Gen.anchorSafe &&
  safeWithin isQueryC Gen.plusSafe && Gen.plusSafe.all (fun b => b != 43 && b != 38 && b != 61) &&
  (List.range 256).all (fun n => (isUnreserved (UInt8.ofNat n) || webobPathSafe.contains (UInt8.ofNat n)) ==
      (isUnreserved (UInt8.ofNat n) || Gen.scriptSafe.contains (UInt8.ofNat n))) &&
  (List.range 256).all (fun n => isUnreserved (UInt8.ofNat n) == Gen.alwaysSafe.contains (UInt8.ofNat n))

structure GenFacts : Prop where
  element : safeWithin isPcharC Gen.elementSafe = true
  elementNoSlash : Gen.elementSafe.contains 47 = false
  resName : safeWithin isPcharC Gen.resNameSafe = true
  resNameNoSlash : Gen.resNameSafe.contains 47 = false
  script : safeWithin isPathC Gen.scriptSafe = true
  scriptSlash : Gen.scriptSafe.contains 47 = true
  routeLit : safeWithin isPathC Gen.routeLitSafe = true
  routeLitSlash : Gen.routeLitSafe.contains 47 = true
  routeVal : safeWithin isPathC Gen.routeValSafe = true
  query : safeWithin isQueryC Gen.querySafe = true
  anchor : safeWithin isQueryC Gen.anchorSafe = true
  plus : safeWithin isQueryC Gen.plusSafe = true
  plusOk : PlusSafeOk Gen.plusSafe
  webob : ∀ b : UInt8, (isUnreserved b || webobPathSafe.contains b) = (isUnreserved b || Gen.scriptSafe.contains b)

theorem genFacts_of_genOk (h : genOk = true) : GenFacts := by
  unfold genOk at h
  simp only [Bool.and_eq_true, Bool.not_eq_true'] at h
  obtain ⟨⟨⟨⟨⟨⟨⟨⟨⟨⟨⟨⟨⟨⟨h1, h2⟩, h3⟩, h4⟩, h5⟩, h6⟩, h7⟩, h8⟩, h9⟩, h10⟩, h11⟩, h12⟩, h13⟩, h14⟩, _⟩ := h
  refine ⟨h1, h2, h3, h4, h5, h6, h7, h8, h9, h10, h11, h12, ⟨safeOk_of_within _ _ h12, ?_⟩, ?_⟩
  · intro b hb
    have := List.all_eq_true.mp h13 b hb
    simp only [Bool.and_eq_true, bne_iff_ne, ne_eq] at this
    exact ⟨this.1.1, this.1.2, this.2⟩
  · intro b
    have := List.all_eq_true.mp h14 b.toNat (List.mem_range.mpr (byte_toNat_lt b))
    simpa using this

/-! ### class inclusions -/

theorem unres_pchar (c : Char) (h : isUnreservedC c = true) : isPcharC c = true := by simp [isPcharC, h]
theorem unres_path (c : Char) (h : isUnreservedC c = true) : isPathC c = true := by simp [isPathC, isPcharC, h]
theorem unres_query (c : Char) (h : isUnreservedC c = true) : isQueryC c = true := by simp [isQueryC, isPcharC, h]
theorem pchar_path (c : Char) (h : isPcharC c = true) : isPathC c = true := by simp [isPathC, h]

theorem safeWithin_mono (ok ok' : Char → Bool) (h : ∀ c, ok c = true → ok' c = true) (safe : List UInt8)
    (hs : safeWithin ok safe = true) : safeWithin ok' safe = true := by
  unfold safeWithin at hs ⊢
  apply List.all_eq_true.mpr
  intro b hb
  have := List.all_eq_true.mp hs b hb
  simp only [Bool.and_eq_true] at this ⊢
  exact ⟨this.1, h _ this.2⟩

/-! ### grammar of quoted texts and their joins -/

theorem pctWF_quote (ok : Char → Bool) (safe : List UInt8) (hs : safeWithin ok safe = true)
    (hu : ∀ c, isUnreservedC c = true → ok c = true) (t : Text) : pctWF ok (quote safe t) = true :=
  pctWF_quoteBytes ok safe hs hu _

theorem pctWF_cons (ok : Char → Bool) (c : Char) (t : Text) (hc : ok c = true) (hne : c ≠ '%')
    (ht : pctWF ok t = true) : pctWF ok (c :: t) = true := by
  unfold pctWF at ht ⊢
  simp [pctScan, hne, hc, ht]

theorem pctWF_joinWith (ok : Char → Bool) (sep : Char) (hsep : ok sep = true) (hne : sep ≠ '%') (xs : List Text)
    (h : ∀ x ∈ xs, pctWF ok x = true) : pctWF ok (joinWith sep xs) = true := by
  induction xs with
  | nil => rfl
  | cons x r ih =>
    cases r with
    | nil => simpa [joinWith] using h x (by simp)
    | cons y r' =>
      simp only [joinWith]
      apply pctWF_append _ _ _ (h x (by simp))
      exact pctWF_cons ok sep _ hsep hne (ih (fun z hz => h z (by simp [hz])))

/-- `quote` keeps a leading `/` when the safe set holds it -/
theorem quote_slash (safe : List UInt8) (h : safe.contains 47 = true) (t : Text) :
    quote safe ('/' :: t) = '/' :: quote safe t := by
  have e : utf8Enc ('/' :: t) = 47 :: utf8Enc t := by
    simp only [utf8Enc, List.flatMap_cons]
    have : String.utf8EncodeChar '/' = [47] := by decide
    rw [this]; rfl
  unfold quote
  rw [e]
  simp only [quoteBytes, h, Bool.or_true, if_true]
  have : Char.ofNat (47 : UInt8).toNat = '/' := by decide
  rw [this]

/-! ### route paths -/

/-- a compiled pattern starts with a literal that starts with `/` (`_compile_route` prepends one) -/
def routeWF : List Piece → Bool
  | .lit (c :: _) :: _ => c == '/'
  | _ => false

abbrev RouteWF (ps : List Piece) : Prop := routeWF ps = true

theorem genPiece_wf (g : GenFacts) (kw : Kw) (p : Piece) (t : Text) (h : genPiece kw p = .ok t) :
    pctWF isPathC t = true := by
  cases p with
  | lit l =>
    simp only [genPiece, Except.ok.injEq] at h; subst h
    exact pctWF_quote _ _ g.routeLit unres_path _
  | ph n =>
    simp only [genPiece] at h
    split at h <;> try (simp at h)
    subst h
    exact pctWF_quote _ _ g.routeVal unres_path _
  | star n =>
    simp only [genPiece] at h
    split at h <;> try (simp at h)
    · subst h; exact pctWF_quote _ _ g.routeVal unres_path _
    · subst h
      apply pctWF_joinWith _ _ (by decide) (by decide)
      intro x hx
      obtain ⟨v, _, e⟩ := List.mem_map.mp hx
      subst e
      exact pctWF_quote _ _ g.routeVal unres_path _

theorem routeGenerate_wf (g : GenFacts) (kw : Kw) (ps : List Piece) (path : Text)
    (h : routeGenerate kw ps = .ok path) : pctWF isPathC path = true := by
  induction ps generalizing path with
  | nil => simp only [routeGenerate, Except.ok.injEq] at h; subst h; rfl
  | cons p r ih =>
    simp only [routeGenerate] at h
    split at h <;> try (simp at h)
    rename_i a b ha hb
    subst h
    exact pctWF_append _ _ _ (genPiece_wf g kw p a ha) (ih b hb)

theorem routeGenerate_lead (g : GenFacts) (kw : Kw) (ps : List Piece) (path : Text) (hw : RouteWF ps)
    (h : routeGenerate kw ps = .ok path) : ∃ r, path = '/' :: r := by
  match ps, hw with
  | .lit (c :: l) :: r, hw =>
    have hc : c = '/' := by simpa [routeWF, RouteWF] using hw
    subst hc
    simp only [routeGenerate] at h
    split at h <;> try (simp at h)
    rename_i a b ha hb
    subst h
    simp only [genPiece, Except.ok.injEq] at ha
    rw [quote_slash _ g.routeLitSlash] at ha
    subst ha
    exact ⟨_, rfl⟩

/-! ### elements, resources, script name -/

theorem joinElements_wf (g : GenFacts) (es : List Text) : pctWF isPathC (joinElements es) = true := by
  apply pctWF_joinWith _ _ (by decide) (by decide)
  intro x hx
  obtain ⟨v, _, e⟩ := List.mem_map.mp hx
  subst e
  exact pctWF_quote _ _ (safeWithin_mono _ _ pchar_path _ g.element) unres_path _

theorem routeSuffix_wf (g : GenFacts) (path : Text) (es : List Text) : pctWF isPathC (routeSuffix path es) = true := by
  unfold routeSuffix
  split
  · rfl
  · split
    · exact joinElements_wf g es
    · exact pctWF_cons _ _ _ (by decide) (by decide) (joinElements_wf g es)

theorem virtualPath_wf (g : GenFacts) (names : List Text) : pctWF isPathC (virtualPath names) = true := by
  unfold virtualPath
  split
  · decide
  · apply pctWF_cons _ _ _ (by decide) (by decide)
    apply pctWF_append
    · apply pctWF_joinWith _ _ (by decide) (by decide)
      intro x hx
      obtain ⟨v, _, e⟩ := List.mem_map.mp hx
      subst e
      exact pctWF_quote _ _ (safeWithin_mono _ _ pchar_path _ g.resName) unres_path _
    · decide

theorem virtualPath_shape (names : List Text) : ∃ a, virtualPath names = '/' :: a ∧ ∃ b, virtualPath names = b ++ ['/'] := by
  unfold virtualPath
  split
  · exact ⟨[], rfl, [], rfl⟩
  · exact ⟨_, rfl, '/' :: joinWith '/' (names.map (quote Gen.resNameSafe)), by simp⟩

theorem quotedScriptName_wf (g : GenFacts) (e : Env) : pctWF isPathC (quotedScriptName e) = true :=
  pctWF_quote _ _ g.script unres_path _

/-- PEP 3333: `SCRIPT_NAME` is empty or starts with `/` -/
def ScriptOk (e : Env) : Prop := e.scriptName = [] ∨ ∃ r, e.scriptName = '/' :: r

theorem quote_nil (safe : List UInt8) : quote safe [] = [] := by simp [quote, utf8Enc, quoteBytes]

theorem quotedScriptName_lead (g : GenFacts) (e : Env) (h : ScriptOk e) :
    quotedScriptName e = [] ∨ ∃ r, quotedScriptName e = '/' :: r := by
  unfold quotedScriptName
  rcases h with h | ⟨r, h⟩
  · rw [h]; exact .inl (quote_nil _)
  · rw [h, quote_slash _ g.scriptSlash]; exact .inr ⟨_, rfl⟩

theorem bodyOk_script (g : GenFacts) (e : Env) (h : ScriptOk e) : BodyOk (quotedScriptName e) :=
  ⟨quotedScriptName_lead g e h, quotedScriptName_wf g e⟩

/-- prefix (empty or `/…`) + a path that starts with `/` + more path text is again a path text -/
theorem bodyOk_compose (pre path suffix : Text) (hpre : BodyOk pre) (hlead : ∃ r, path = '/' :: r)
    (hp : pctWF isPathC path = true) (hs : pctWF isPathC suffix = true) : BodyOk (pre ++ path ++ suffix) := by
  refine ⟨?_, pctWF_append _ _ _ (pctWF_append _ _ _ hpre.wf hp) hs⟩
  obtain ⟨r, hr⟩ := hlead
  rcases hpre.lead with e | ⟨r', e⟩
  · subst e; subst hr; exact .inr ⟨r ++ suffix, by simp⟩
  · subst e; exact .inr ⟨r' ++ path ++ suffix, by simp⟩

/-! ### query string and fragment -/

/-- the query text after `?`, when there is a `?` -/
def qsOpt : Query → Option Text
  | .absent => none
  | .null => none
  | .str q => if q = [] then none else some (quote Gen.querySafe q)
  | .pairs ps truthy => if ps = [] && !truthy then none else some (urlencode ps)

def fragOpt (anchor : Text) (truthy : Bool := false) : Option Text :=
  if anchor = [] && !truthy then none else some (quote Gen.anchorSafe anchor)

theorem qsOf_eq (q : Query) : qsOf q = optPre '?' (qsOpt q) := by
  cases q with
  | absent => rfl
  | null => rfl
  | str q => simp only [qsOf, qsOpt]; split <;> rfl
  | pairs ps t => simp only [qsOf, qsOpt]; split <;> rfl

theorem fragOf_eq (a : Text) (tr : Bool) : fragOf a tr = optPre '#' (fragOpt a tr) := by
  simp only [fragOf, fragOpt]; split <;> rfl

theorem pctScan_map (ok ok' : Char → Bool) (f : Char → Char) (hp : ∀ c, (f c = '%') ↔ (c = '%'))
    (hh : ∀ c, isHexC c = true → isHexC (f c) = true) (ho : ∀ c, c ≠ '%' → ok c = true → ok' (f c) = true)
    (t : Text) (s : PState) (h : pctScan ok s t = true) : pctScan ok' s (t.map f) = true := by
  induction t generalizing s with
  | nil => cases s <;> simp_all [pctScan]
  | cons c r ih =>
    cases s with
    | txt =>
      simp only [pctScan, List.map_cons] at h ⊢
      by_cases hc : c = '%'
      · simp only [hc, if_true] at h
        simp only [(hp c).mpr hc, if_true]
        exact ih _ h
      · simp only [hc, if_false, Bool.and_eq_true] at h
        have : f c ≠ '%' := fun e => hc ((hp c).mp e)
        simp only [this, if_false, Bool.and_eq_true]
        exact ⟨ho c hc h.1, ih _ h.2⟩
    | h1 =>
      simp only [pctScan, List.map_cons, Bool.and_eq_true] at h ⊢
      exact ⟨hh c h.1, ih _ h.2⟩
    | h2 =>
      simp only [pctScan, List.map_cons, Bool.and_eq_true] at h ⊢
      exact ⟨hh c h.1, ih _ h.2⟩

theorem sp2plus_facts (c : Char) : ((sp2plus c = '%') ↔ (c = '%')) ∧ (isHexC c = true → isHexC (sp2plus c) = true) := by
  unfold sp2plus
  by_cases h : c = ' '
  · subst h; decide
  · simp [h]

/-- `quote_plus` output obeys the query grammar -/
theorem quotePlus_wf (safe : List UInt8) (hs : safeWithin isQueryC safe = true) (t : Text) :
    pctWF isQueryC (quotePlus safe t) = true := by
  unfold quotePlus pctWF
  let ok' : Char → Bool := fun c => isQueryC c || c = ' '
  have hs' : safeWithin ok' (safe ++ [32]) = true := by
    unfold safeWithin
    apply List.all_eq_true.mpr
    intro b hb
    rcases List.mem_append.mp hb with h | h
    · have := List.all_eq_true.mp hs b h
      simp only [Bool.and_eq_true] at this ⊢
      exact ⟨this.1, by simp [ok', this.2]⟩
    · simp at h; subst h; decide
  have h1 := pctWF_quoteBytes ok' (safe ++ [32]) hs' (fun c hc => by simp [ok', unres_query c hc]) (utf8Enc t)
  apply pctScan_map ok' isQueryC sp2plus (fun c => (sp2plus_facts c).1) (fun c => (sp2plus_facts c).2) _ _ _ h1
  intro c _ hc
  unfold sp2plus
  by_cases h : c = ' '
  · simp [h]; decide
  · simp only [h, if_false]
    simpa [ok', h] using hc

theorem amp_wf (xs : List Text) (h : ∀ x ∈ xs, pctWF isQueryC x = true) : pctWF isQueryC (amp xs) = true := by
  induction xs with
  | nil => rfl
  | cons x r ih =>
    have : amp (x :: r) = ('&' :: x) ++ amp r := by simp [amp]
    rw [this]
    exact pctWF_append _ _ _ (pctWF_cons _ _ _ (by decide) (by decide) (h x (by simp))) (ih (fun z hz => h z (by simp [hz])))

theorem pc_wf (safe : List UInt8) (hs : safeWithin isQueryC safe = true) (k v : Text) :
    pctWF isQueryC (pc safe k v) = true :=
  pctWF_append _ _ _ (quotePlus_wf safe hs k) (pctWF_cons _ _ _ (by decide) (by decide) (quotePlus_wf safe hs v))

theorem urlencodeWith_wf (safe : List UInt8) (hs : safeWithin isQueryC safe = true) (ps : List (Text × QVal)) :
    pctWF isQueryC (urlencodeWith safe ps) = true := by
  have hall : ∀ qs : List (Text × QVal), ∀ x ∈ allPieces safe qs, pctWF isQueryC x = true := by
    intro qs x hx
    rw [allPieces_expand] at hx
    obtain ⟨kv, _, e⟩ := List.mem_map.mp hx
    subst e; exact pc_wf safe hs _ _
  cases ps with
  | nil => rfl
  | cons kv r =>
    rw [urlencodeWith_cons]
    apply pctWF_append
    · have hpl : ∀ x ∈ pl safe kv, pctWF isQueryC x = true :=
        fun x hx => hall [kv] x (by simpa [allPieces] using hx)
      cases h : pl safe kv with
      | nil => rfl
      | cons x xs =>
        rw [h] at hpl
        simp only [joinPre, List.nil_append]
        exact pctWF_append _ _ _ (hpl x (by simp)) (amp_wf xs (fun z hz => hpl z (by simp [hz])))
    · exact amp_wf _ (hall r)

theorem qsOpt_wf (g : GenFacts) (q : Query) (t : Text) (h : qsOpt q = some t) : pctWF isQueryC t = true := by
  cases q with
  | absent => simp [qsOpt] at h
  | null => simp [qsOpt] at h
  | str s =>
    simp only [qsOpt] at h
    split at h <;> simp at h
    subst h; exact pctWF_quote _ _ g.query unres_query _
  | pairs ps tr =>
    simp only [qsOpt] at h
    split at h <;> simp at h
    subst h; exact urlencodeWith_wf _ g.plus ps

theorem fragOpt_wf (g : GenFacts) (a : Text) (tr : Bool) (t : Text) (h : fragOpt a tr = some t) : pctWF isQueryC t = true := by
  simp only [fragOpt] at h
  split at h <;> simp at h
  subst h; exact pctWF_quote _ _ g.anchor unres_query _

theorem optPre_wf (d : Char) (hd : isQueryC d = true ∨ d = '#') (o : Option Text)
    (h : ∀ t, o = some t → pctWF isQueryC t = true) : pctWF isUrlC (optPre d o) = true := by
  cases o with
  | none => rfl
  | some t =>
    have hu : ∀ c, isQueryC c = true → isUrlC c = true := fun c hc => queryC_urlC c (.inl hc)
    have hdu : isUrlC d = true := by
      rcases hd with h | h
      · exact hu d h
      · subst h; decide
    have hne : d ≠ '%' := by
      rcases hd with h | h
      · intro e; subst e; exact absurd h (by decide)
      · subst h; decide
    exact pctWF_cons _ _ _ hdu hne (pctWF_mono _ _ hu _ (h t rfl))

end Pyr.Url
