import PyramidModel.ResourceUrl
import PyramidModel.Lemmas.Traversal
/-! Declarative spec for C07 (what the property statement demands), written without reference to the model's
algorithm.  Core only: it is linked into the driver so that the harness can compare it with its own oracle. -/
namespace Pyr.ResUrl
open Pyr.Trav

/-- the path of a resource in a URL: every name quoted and followed by a slash, after the leading slash —
`/` for the root, `/a%20b/c/` for `('a b', 'c')` -/
def pathOf (names : List Seg) : Text := '/' :: names.flatMap fun n => quoteSegment n ++ ['/']

/-- the virtual root designated by a header, as the traverser reads it (`decode_path_info`, `split_path_info`) -/
def headerVroot (hdr : Bytes) : Option (List Seg) := (decodePathInfo hdr).map splitPathInfo

/-- resource at `p` lies inside the virtual root at `vt` (the virtual root itself included) -/
def inside (vt p : List Seg) : Bool := vt.isPrefixOf p

/-- the URL path the property demands: the virtual-root prefix is omitted exactly when the resource lies inside -/
def specVirtualPath (p : List Seg) (vt : Option (List Seg)) : Text :=
  match vt with
  | none => pathOf p
  | some vt => if inside vt p then pathOf (p.drop vt.length) else pathOf p

/-- application URL + that path + the extra elements, quoted and joined -/
def specUrl (appUrl : Text) (p : List Seg) (vt : Option (List Seg)) (els : List Seg) : Text :=
  appUrl ++ specVirtualPath p vt ++ joinWith '/' (els.map quoteSegment)

/-- the canonical header for a virtual root at `vt`: `/` + names joined by `/`, UTF-8, plus `k` trailing slashes -/
def vrootHeader (vt : List Seg) (k : Nat) : Bytes := utf8Enc ('/' :: joinWith '/' vt) ++ List.replicate k 47

/-- what traversing back must give: that resource, empty view name, nothing left over -/
def specBack (p vt : List Seg) : Result :=
  { context := p, viewName := [], subpath := [], traversed := p, virtualRoot := vt, virtualRootPath := vt }

end Pyr.ResUrl
