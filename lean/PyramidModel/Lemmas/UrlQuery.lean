import PyramidModel.Lemmas.Url
/-
Helper lemmas for C17, part 2: `urlencode` in closed form and `parse_qsl ∘ urlencode`.
-/
namespace Pyr.Url
open Pyr Pyr.Trav Pyr.Pct

/-- one `k=v` piece -/
def pc (safe : List UInt8) (k v : Text) : Text := quotePlus safe k ++ '=' :: quotePlus safe v

/-- the pieces one item contributes -/
def pl (safe : List UInt8) (kv : Text × QVal) : List Text :=
  match kv.2 with
  | .none => [pc safe kv.1 []]
  | .one v => [pc safe kv.1 v]
  | .many vs => vs.map (pc safe kv.1)

def allPieces (safe : List UInt8) (ps : List (Text × QVal)) : List Text := ps.flatMap (pl safe)

/-- every piece preceded by `&` -/
def amp (xs : List Text) : Text := xs.flatMap fun x => '&' :: x

/-- pieces glued with the running `prefix` -/
def joinPre (pre : Text) : List Text → Text
  | [] => []
  | x :: xs => pre ++ x ++ amp xs

theorem quotePlus_nil (safe : List UInt8) : quotePlus safe [] = [] := by
  simp [quotePlus, utf8Enc, quoteBytes]

theorem amp_append (a b : List Text) : amp (a ++ b) = amp a ++ amp b := by simp [amp]

theorem joinPre_amp (xs : List Text) : joinPre ['&'] xs = amp xs := by
  cases xs <;> simp [joinPre, amp]

theorem allPieces_expand (safe : List UInt8) (ps : List (Text × QVal)) :
    allPieces safe ps = (expand ps).map fun kv => pc safe kv.1 kv.2 := by
  induction ps with
  | nil => simp [allPieces, expand]
  | cons kv r ih =>
    obtain ⟨k, v⟩ := kv
    simp only [allPieces, List.flatMap_cons] at ih ⊢
    cases v with
    | none => simp [pl, expand, ih]
    | one v => simp [pl, expand, ih]
    | many vs => simp [pl, expand, ih, List.map_map, Function.comp_def]

/-! ### the loop in closed form -/

theorem inner_fold (k : Text) (safe : List UInt8) (xs : List Text) (res pre : Text) :
    xs.foldl (fun (rp : Text × Text) x => (rp.1 ++ rp.2 ++ k ++ '=' :: quotePlus safe x, ['&'])) (res, pre)
      = (res ++ joinPre pre (xs.map fun x => k ++ '=' :: quotePlus safe x), if xs = [] then pre else ['&']) := by
  induction xs generalizing res pre with
  | nil => simp [joinPre]
  | cons x r ih =>
    simp only [List.foldl_cons, ih, List.map_cons, joinPre, joinPre_amp]
    cases r with
    | nil => simp [joinPre, amp]
    | cons y r' => simp [joinPre, amp, List.append_assoc]

theorem encStep_eq (safe : List UInt8) (res pre : Text) (kv : Text × QVal) :
    encStep safe (res, pre) kv = (res ++ joinPre pre (pl safe kv), ['&']) := by
  obtain ⟨k, v⟩ := kv
  cases v with
  | none => simp [encStep, pl, pc, joinPre, amp, quotePlus_nil, List.append_assoc]
  | one v => simp [encStep, pl, pc, joinPre, amp, List.append_assoc]
  | many vs =>
    simp only [encStep, inner_fold, pl]
    rfl

theorem fold_amp (safe : List UInt8) (ps : List (Text × QVal)) (res : Text) :
    ps.foldl (encStep safe) (res, ['&']) = (res ++ amp (allPieces safe ps), ['&']) := by
  induction ps generalizing res with
  | nil => simp [allPieces, amp]
  | cons kv r ih =>
    simp only [List.foldl_cons, encStep_eq, ih, joinPre_amp, allPieces, List.flatMap_cons, amp_append,
      List.append_assoc]

/-- `urlencode` in closed form: the pieces of the first item glued without prefix, every later piece with `&` -/
theorem urlencodeWith_cons (safe : List UInt8) (kv : Text × QVal) (r : List (Text × QVal)) :
    urlencodeWith safe (kv :: r) = joinPre [] (pl safe kv) ++ amp (allPieces safe r) := by
  simp [urlencodeWith, encStep_eq, fold_amp]

theorem urlencodeWith_nil (safe : List UInt8) : urlencodeWith safe [] = [] := rfl

/-! ### splitting at `&` -/

theorem splitOn_amp (x : Text) (ys : List Text) (hx : '&' ∉ x) (hy : ∀ y ∈ ys, '&' ∉ y) :
    splitOn '&' (x ++ amp ys) = x :: ys := by
  induction ys generalizing x with
  | nil => simpa [amp] using splitOn_no_sep '&' x hx
  | cons y r ih =>
    have : x ++ amp (y :: r) = x ++ '&' :: (y ++ amp r) := by simp [amp]
    rw [this, splitOn_append_sep, splitOn_no_sep '&' x hx, ih y (hy y (by simp)) (fun z hz => hy z (by simp [hz]))]
    simp

/-- the `&`-separated fields of `urlencode`'s output, empty fields dropped, are exactly the pieces -/
theorem fields_urlencode (safe : List UInt8) (ps : List (Text × QVal))
    (hamp : ∀ p ∈ allPieces safe ps, '&' ∉ p) (hne : ∀ p ∈ allPieces safe ps, p ≠ []) :
    (splitOn '&' (urlencodeWith safe ps)).filter (fun nv => !nv.isEmpty) = allPieces safe ps := by
  have hfilter : ∀ l : List Text, (∀ p ∈ l, p ≠ []) → l.filter (fun nv => !nv.isEmpty) = l := by
    intro l hl
    apply List.filter_eq_self.mpr
    intro p hp
    have := hl p hp
    cases p with
    | nil => exact absurd rfl this
    | cons _ _ => rfl
  cases ps with
  | nil => simp [urlencodeWith_nil, splitOn, allPieces]
  | cons kv r =>
    rw [urlencodeWith_cons]
    have hall : allPieces safe (kv :: r) = pl safe kv ++ allPieces safe r := by simp [allPieces]
    rw [hall] at hamp hne ⊢
    cases hpl : pl safe kv with
    | nil =>
      rw [hpl] at hamp hne
      have := splitOn_amp [] (allPieces safe r) (by simp) (fun y hy => hamp y (by simp [hy]))
      simp only [joinPre, List.nil_append] at this ⊢
      rw [this]
      simp only [List.filter_cons, List.isEmpty_nil, Bool.not_true, Bool.false_eq_true, if_false]
      exact hfilter _ (fun p hp => hne p (by simp [hp]))
    | cons x xs =>
      rw [hpl] at hamp hne
      have e : joinPre [] (x :: xs) ++ amp (allPieces safe r) = x ++ amp (xs ++ allPieces safe r) := by
        simp [joinPre, amp_append]
      rw [e, splitOn_amp x _ (hamp x (by simp)) (fun y hy => hamp y (by
        rcases List.mem_append.mp hy with h | h
        · simp [h]
        · simp [h]))]
      simpa using hfilter (x :: (xs ++ allPieces safe r)) (fun p hp => hne p (by simpa using hp))

/-! ### the pieces decode -/

/-- what the safe set of `quote_plus` must avoid for `parse_qsl` to undo `urlencode` -/
def PlusSafeOk (safe : List UInt8) : Prop :=
  SafeOk safe ∧ ∀ b ∈ safe, b ≠ 43 ∧ b ≠ 38 ∧ b ≠ 61

instance (safe : List UInt8) : Decidable (PlusSafeOk safe) := by unfold PlusSafeOk; infer_instance

theorem safeOk_space (safe : List UInt8) (hs : SafeOk safe) : SafeOk (safe ++ [32]) := by
  intro b hb
  rcases List.mem_append.mp hb with h | h
  · exact hs b h
  · simp at h; subst h; decide

/-- a delimiter (`&`, `=`) never occurs in `quote_plus` output -/
theorem delim_not_mem_quotePlus (safe : List UInt8) (hs : PlusSafeOk safe) (t : Text) (d : Char) (n : UInt8)
    (hd : d = Char.ofNat n.toNat) (hn : n = 38 ∨ n = 61) : d ∉ quotePlus safe t := by
  intro hm
  unfold quotePlus at hm
  obtain ⟨c, hc, e⟩ := List.mem_map.mp hm
  have hdne : d ≠ '+' ∧ d ≠ '%' ∧ isUnreservedC d = false ∧ d ≠ ' ' := by
    rcases hn with h | h <;> subst h <;> subst hd <;> decide
  have hcd : c = d := by
    unfold sp2plus at e
    split at e
    · exact absurd e.symm hdne.1
    · exact e
  subst hcd
  refine not_mem_quoteBytes (safe ++ [32]) (utf8Enc t) c hdne.2.2.1 hdne.2.1 ?_ hc
  intro b hb e2
  have hbn : b = n := by
    have h1 := congrArg Char.toNat e2
    rw [hd, byteChar_toNat, byteChar_toNat] at h1
    exact (UInt8.toNat_inj.mp h1).symm
  rcases List.mem_append.mp hb with h | h
  · have := (hs.2 b h).2
    rcases hn with h' | h' <;> subst h' <;> subst hbn <;> simp at this
  · simp at h; subst h
    rcases hn with h' | h' <;> subst h' <;> simp at hbn

theorem pc_facts (safe : List UInt8) (hs : PlusSafeOk safe) (k v : Text) :
    '&' ∉ pc safe k v ∧ pc safe k v ≠ [] ∧ cut '=' (pc safe k v) = (quotePlus safe k, some (quotePlus safe v)) := by
  have ha : ∀ t, '&' ∉ quotePlus safe t := fun t => delim_not_mem_quotePlus safe hs t '&' 38 (by decide) (.inl rfl)
  have he : ∀ t, '=' ∉ quotePlus safe t := fun t => delim_not_mem_quotePlus safe hs t '=' 61 (by decide) (.inr rfl)
  refine ⟨?_, ?_, ?_⟩
  · intro m
    unfold pc at m
    rcases List.mem_append.mp m with m | m
    · exact ha k m
    · rcases List.mem_cons.mp m with e | m
      · exact absurd e (by decide)
      · exact ha v m
  · unfold pc; simp
  · unfold pc; exact cut_append_sep '=' _ _ (he k)

/-- **`parse_qsl(urlencode(q)) == expand(q)`** for every list of items, whatever the texts. -/
theorem parseQsl_urlencodeWith (safe : List UInt8) (hs : PlusSafeOk safe) (ps : List (Text × QVal)) :
    parseQsl (urlencodeWith safe ps) = some (expand ps) := by
  have hp : ∀ p ∈ allPieces safe ps, '&' ∉ p ∧ p ≠ [] := by
    intro p hp
    rw [allPieces_expand] at hp
    obtain ⟨kv, _, e⟩ := List.mem_map.mp hp
    subst e
    exact ⟨(pc_facts safe hs kv.1 kv.2).1, (pc_facts safe hs kv.1 kv.2).2.1⟩
  have hfields := fields_urlencode safe ps (fun p h => (hp p h).1) (fun p h => (hp p h).2)
  have hmap : ∀ l : List (Text × Text),
      (l.map fun kv => pc safe kv.1 kv.2).mapM (fun nv =>
        match cut '=' nv with
        | (n, some v) =>
          (match unquotePlus n, unquotePlus v with
           | some n', some v' => some (n', v')
           | _, _ => none)
        | (n, none) =>
          (match unquotePlus n with
           | some n' => some (n', [])
           | none => none)) = some l := by
    intro l
    induction l with
    | nil => simp
    | cons kv r ih =>
      obtain ⟨k, v⟩ := kv
      simp only [List.map_cons, List.mapM_cons, (pc_facts safe hs k v).2.2,
        unquotePlus_quotePlus safe hs.1 (fun b hb => (hs.2 b hb).1), ih]
      rfl
  unfold parseQsl
  split
  · rename_i h0
    -- an empty output has no pieces
    have : allPieces safe ps = [] := by
      rw [← hfields, h0]; simp [splitOn]
    rw [allPieces_expand] at this
    have : expand ps = [] := by simpa using this
    rw [this]
  · rw [hfields, allPieces_expand]
    exact hmap (expand ps)

end Pyr.Url
