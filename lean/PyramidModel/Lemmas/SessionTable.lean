import PyramidModel.Lemmas.SessionSpec
import PyramidModel.Gen.C10Wrap
/-!
C10: what the hand-written model assumes about the SHAPE of `CookieSession`'s class body, in a form that can be
compared with the table `extract/c10.py` regenerates from the source (`Gen/C10Wrap.lean`).
-/
namespace Pyr.Session

/-- the Python attribute an operation of the model goes through -/
def methodOf : Op → String
  | .get _ _ => "get" | .getitem _ => "__getitem__" | .contains _ => "__contains__" | .len => "__len__"
  | .keys => "keys" | .items => "items" | .values => "values" | .iter => "__iter__"
  | .set _ _ => "__setitem__" | .del _ => "__delitem__" | .update _ => "update" | .pop _ _ => "pop"
  | .popitem => "popitem" | .setdefault _ _ => "setdefault" | .clear => "clear"
  | .flash _ _ _ => "flash" | .popFlash _ => "pop_flash" | .peekFlash _ => "peek_flash"
  | .newCsrf _ => "new_csrf_token" | .getCsrf _ => "get_csrf_token"
  | .invalidate => "invalidate" | .changed => "changed"

/-- the wrapper `runOp` applies FIRST for each operation (`invalidate` and `changed` are plain methods; `invalidate`
reaches the `manage_changed` wrapper through `self.clear()`) -/
def sourceWrapOf : Op → String
  | .get _ _ | .getitem _ | .contains _ | .len | .keys | .items | .values | .iter => "manage_accessed"
  | .peekFlash _ | .getCsrf _ => "manage_accessed"
  | .invalidate | .changed => "plain"
  | _ => "manage_changed"

/-- the wrapped methods the composite methods of the model call (`runOp`: flash -> opSetdefault, …) -/
def modelInnerCalls : List (String × List String) := [
  ("changed", ["_set_cookie"]),
  ("invalidate", ["clear"]),
  ("flash", ["setdefault"]),
  ("pop_flash", ["pop"]),
  ("peek_flash", ["get"]),
  ("new_csrf_token", ["__setitem__"]),
  ("get_csrf_token", ["get", "new_csrf_token"]),
  ("_set_cookie", [])]

/-- the in-place mutators of `dict` that the statement's operation list reaches -/
def dictMutators : List String := ["clear", "update", "setdefault", "pop", "popitem", "__setitem__", "__delitem__"]

/-- the read accessors of `dict` that the statement's operation list reaches -/
def dictReaders : List String := ["get", "__getitem__", "items", "values", "keys", "__contains__", "__len__", "__iter__"]

end Pyr.Session
