import PyramidModel.Lemmas.SessionSpec
import PyramidModel.Gen.C10Wrap
/-!
C10: the behavioural tables `extract/c10.py` obtains by RUNNING the session code of the tree under test
(`Gen/C10Wrap.lean`), and the same tables computed from the model (`runOp`, `load`, `finish`), so that Props/C10.lean can
decide them equal.  The probes here mirror, one for one and in order, the probes of the translator.
-/
namespace Pyr.Session

/-- the Python attribute an operation of the model goes through -/
def methodOf : Op → String
  | .get _ _ => "get" | .getitem _ => "__getitem__" | .contains _ => "__contains__" | .len => "__len__"
  | .keys => "keys" | .items => "items" | .values => "values" | .iter => "__iter__"
  | .set _ _ => "__setitem__" | .del _ => "__delitem__" | .update _ => "update" | .pop _ _ => "pop"
  | .popitem => "popitem" | .setdefault _ _ => "setdefault" | .clear => "clear"
  | .flash _ _ _ => "flash" | .popFlash _ => "pop_flash" | .peekFlash _ => "peek_flash"
  | .newCsrf _ => "new_csrf_token" | .getCsrf _ => "get_csrf_token"
  | .invalidate => "invalidate" | .changed => "changed"

/-- the spec's class of an operation, in the translator's vocabulary -/
def classOf (op : Op) : String :=
  match Spec.wrapOf op with
  | .accessed => "accessed"
  | .changed => "changed"
  | .plain => "mark"

/-- a session loaded from a cookie renewed and created at 100.0 s (not dirty, `accessed` still the float) -/
def probeSess (d : Data) : Sess := ⟨d, 400, 400, false, 400, false, false, 0⟩

def probeState : Data := [("a", .int 1), ("_csrft_", .str "t"), ("_f_", .arr [.str "x"])]

def probeTok : String := "0707070707070707070707070707070707070707"

/-- the translator's `_classify`, on the model: the call at 105.75 s and at 120.5 s with reissue_time 10, and at 120.5 s
without reissue -/
def classify (op : Op) (d : Data) : String :=
  let a := (runOp ⟨none, some 10, true⟩ 423 op (probeSess d)).1
  let b := (runOp ⟨none, some 10, true⟩ 482 op (probeSess d)).1
  let n := (runOp ⟨none, none, true⟩ 482 op (probeSess d)).1
  if a.dirty && a.accessed == 420 && a.accInt && a.callbacks == 1 && b.dirty && b.accessed == 480 && n.dirty && n.callbacks == 1 then
    "changed"
  else if !a.dirty && a.accessed == 420 && a.accInt && a.callbacks == 0 && b.dirty && b.accessed == 480 && b.accInt
      && b.callbacks == 1 && !n.dirty && n.accessed == 480 then "accessed"
  else if a.dirty && a.accessed == 400 && !a.accInt && a.callbacks == 1 && n.dirty && n.accessed == 400 then "mark"
  else "unknown"

/-- (probe name, loaded state, call) — same names, same order as `CALLS` in extract/c10.py -/
def probes : List (String × Data × Op) := [
  ("get", probeState, .get "a" none),
  ("get/default", probeState, .get "zz" (some .null)),
  ("__getitem__", probeState, .getitem "a"),
  ("items", probeState, .items),
  ("values", probeState, .values),
  ("keys", probeState, .keys),
  ("__contains__", probeState, .contains "a"),
  ("__len__", probeState, .len),
  ("__iter__", probeState, .iter),
  ("clear", probeState, .clear),
  ("update", probeState, .update [("b", .int 1)]),
  ("setdefault", probeState, .setdefault "b" (.int 1)),
  ("setdefault/present", probeState, .setdefault "a" (.int 1)),
  ("pop", probeState, .pop "a" none),
  ("pop/default-is-stored", [("a", .null)], .pop "a" (some .null)),
  ("pop/absent-with-default", probeState, .pop "zz" (some .null)),
  ("pop/absent", probeState, .pop "zz" none),
  ("popitem", probeState, .popitem),
  ("__setitem__", probeState, .set "b" (.int 1)),
  ("__delitem__", probeState, .del "a"),
  ("__delitem__/absent", probeState, .del "zz"),
  ("flash", probeState, .flash (.str "m") "" true),
  ("flash/no-duplicate", probeState, .flash (.str "x") "" false),
  ("pop_flash", probeState, .popFlash ""),
  ("pop_flash/absent", probeState, .popFlash "q"),
  ("peek_flash", probeState, .peekFlash ""),
  ("new_csrf_token", probeState, .newCsrf probeTok),
  ("get_csrf_token", probeState, .getCsrf probeTok),
  ("get_csrf_token/no-token", [("a", .int 1)], .getCsrf probeTok),
  ("changed", probeState, .changed),
  ("invalidate", probeState, .invalidate)]

def modelBehaviour : List (String × String) := probes.map (fun p => (p.1, classify p.2.2 p.2.1))

/-- the in-place mutators of `dict` that the statement's operation list reaches -/
def dictMutators : List String := ["clear", "update", "setdefault", "pop", "popitem", "__setitem__", "__delitem__"]

/-- the read accessors of `dict` that the statement's operation list reaches -/
def dictReaders : List String := ["get", "__getitem__", "items", "values", "keys", "__contains__", "__len__", "__iter__"]

/-- the cookie of the threshold probes: renewed and created at 100.0 s, state `{'a': 1}` -/
def probeWire : Wire := Wire.ofPayload ⟨400, false, 400, [("a", .int 1)]⟩

def modelTimeout (t : Option Nat) (now : Nat) : Option Bool :=
  (load ⟨t, none, true⟩ now (some probeWire)).map (fun s => s.data.isEmpty)

def modelReissue (r now : Nat) : Bool :=
  (runOp ⟨none, some r, true⟩ now (.get "a" none) (probeSess [("a", .int 1)])).1.dirty

/-- a serialiser whose output has exactly `n` characters -/
def sizeCodec (n : Nat) : Codec Unit := ⟨fun _ => (), fun _ => none, fun _ => n⟩

def isCookie {κ : Type} : Outcome κ → Bool
  | .cookie _ => true
  | _ => false

def dirtySess : Sess := (runOp ⟨none, none, true⟩ 400 (.set "b" (.int 1)) (probeSess [("a", .int 1)])).1

def modelSize (n : Nat) : Bool := isCookie (finish (sizeCodec n) ⟨none, none, true⟩ false dirtySess)

def modelExc (soe exc : Bool) : Bool := isCookie (finish (sizeCodec 10) ⟨none, none, soe⟩ exc dirtySess)

def modelCallbacksAfterMany : Nat :=
  (runOps ⟨none, some 0, true⟩ 440 (probeSess probeState)
    [(0, .get "a" none), (0, .set "b" (.int 1)), (0, .flash (.str "m") "" true), (0, .changed), (0, .newCsrf probeTok),
     (0, .invalidate), (0, .popFlash ""), (0, .getCsrf probeTok)]).2.1.callbacks

def modelPayload : Nat × Bool × Nat × List String :=
  let s := (runOp ⟨none, some 10, true⟩ 482 (.get "a" none) (probeSess [("a", .int 1)])).1
  (s.payload.accessed, s.payload.accInt, s.payload.created, s.payload.data.map (·.1))

/-- the translator's payload-shape probe on the model: the session `__init__` builds at 1000.0 s from the deserialised
value `v` under timeout `t` — `(0, 0, [])` = raises, else `(1 = new | 2 = not new, created, keys)` -/
def modelShape (t : Option Nat) (v : JV) : Nat × Nat × List String :=
  match load ⟨t, none, true⟩ 4000 (some (v.toWire digitStrNum)) with
  | none => (0, 0, [])
  | some s => (if s.new then 1 else 2, s.created, s.data.map (·.1))

end Pyr.Session
