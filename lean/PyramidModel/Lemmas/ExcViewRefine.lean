import PyramidModel.Props.C03
import PyramidModel.Lemmas.ExcViewSpec
import PyramidModel.Lemmas.ExcViewDict
/-! Helper lemmas for C14: the model of `handler` / `_error_handler` / `invoke_exception_view` against the declarative
reading (`specHandler`, `specRender`), through C03's `lookup_eq_spec`. -/
namespace Pyr.ExcView
open Pyr.ViewLookup
set_option linter.unusedSimpArgs false

theorem handler_eq_spec (w : World) (stmts : List Stmt) (site : Site) (r : Request) (ctxObj : Nat)
    (hc : Coherent (allRegs w.sec stmts)) :
    handler w (registerAll (allRegs w.sec stmts)) stmts site r ctxObj = specHandler w stmts site r ctxObj := by
  cases site with
  | early e => rfl
  | lookup =>
    simp only [handler, specHandler, lookup_eq_spec _ _ _ hc]
    rfl

theorem excRequest_permitted (r : Request) (e : Exc) (c : List Nat) : (excRequest r e c).permitted = r.permitted := rfl

theorem again_isNotFound (e : Exc) : e.again.isNotFound = e.isNotFound := rfl

/-- the core of `invoke_exception_view` against its declarative reading; `prior` = how the attributes read before -/
theorem invokeCore_spec (w : World) (stmts : List Stmt) (r1 : Request) (e : Exc) (comb : List Nat) (d : Dict)
    (reraise : Bool) (prior : String → Option Nat) (hp : ∀ k, dget d k = prior k)
    (hc : Coherent (allRegs w.sec stmts)) :
    (invokeCore w (registerAll (allRegs w.sec stmts)) stmts (excRequest r1 e comb) e d reraise).2.2
        = (specCore w stmts r1 e comb reraise prior).outcome ∧
    (invokeCore w (registerAll (allRegs w.sec stmts)) stmts (excRequest r1 e comb) e d reraise).2.1
        = (specCore w stmts r1 e comb reraise prior).seen ∧
    ∀ k, dget (invokeCore w (registerAll (allRegs w.sec stmts)) stmts (excRequest r1 e comb) e d reraise).1 k
        = (specCore w stmts r1 e comb reraise prior).attr k := by
  obtain ⟨hin1, hin2, hin3⟩ := dget_inside_block d e.id e.id
  have hfail : ∀ k, dget (restore (popAll hidden d).2 (dset (dset (popAll hidden d).1 "exception" e.id) "exc_info" e.id)) k
      = prior k := fun k => (dget_after_block d e.id e.id k).trans (hp k)
  have hfailT : ∀ k, dget (restore (popAll hidden d).2
      (dset (dset (dset (popAll hidden d).1 "exception" e.id) "exc_info" e.id) "response" w.viewResponse)) k
      = prior k := fun k => (dget_after_block_touch d e.id e.id w.viewResponse k).trans (hp k)
  have hok : ∀ (dd : Dict), (∀ k, dget dd k = prior k) → ∀ k,
      dget (dset (dset dd "exception" e.id) "exc_info" e.id) k
        = if k = "exception" ∨ k = "exc_info" then some e.id else prior k := by
    intro dd hdd k
    by_cases h2 : k = "exc_info"
    · subst h2; simp [dget_dset_same]
    · by_cases h1 : k = "exception"
      · subst h1
        rw [dget_dset_other _ _ _ _ (by decide), dget_dset_same]; simp
      · rw [dget_dset_other _ _ _ _ h2, dget_dset_other _ _ _ _ h1, hdd]
        simp [h1, h2]
  simp only [invokeCore, callExcView, lookup_eq_spec _ _ _ hc, expectedView, specCore, excWinner, excRequest_permitted]
  cases hf : (candidates (allRegs w.sec stmts) clsExc (excRequest r1 e comb)).find?
      (fun x => x.holds (excRequest r1 e comb)) with
  | none =>
    by_cases hreg : anyRegistered (allRegs w.sec stmts) clsExc (excRequest r1 e comb) = true
    · simp only [hreg, if_true]
      exact ⟨by first | rfl | trivial, by first | rfl | trivial, hfail⟩
    · simp only [hreg, Bool.false_eq_true, if_false]
      exact ⟨by first | rfl | trivial, by first | rfl | trivial, hfail⟩
  | some v =>
    by_cases hs : (v.secured && !r1.permitted) = true
    · simp only [hs, if_true]
      exact ⟨by first | rfl | trivial, by first | rfl | trivial, hfail⟩
    · simp only [hs, Bool.false_eq_true, if_false]
      by_cases ht : touchOf stmts v.tag = true
      · simp only [ht, if_true]
        cases hb : bodyOf stmts v.tag with
        | respond =>
          simp only [hin1, hin2, hin3]
          exact ⟨by first | rfl | trivial, by first | rfl | trivial, hok _ hfailT⟩
        | returnContext =>
          simp only [hin1, hin2, hin3]
          exact ⟨by first | rfl | trivial, by first | rfl | trivial, hok _ hfailT⟩
        | raise e2 =>
          simp only [hin1, hin2, hin3]
          exact ⟨by first | rfl | trivial, by first | rfl | trivial, hfailT⟩
      · simp only [ht, Bool.false_eq_true, if_false]
        cases hb : bodyOf stmts v.tag with
        | respond =>
          simp only [hin1, hin2, hin3]
          exact ⟨by first | rfl | trivial, by first | rfl | trivial, hok _ hfail⟩
        | returnContext =>
          simp only [hin1, hin2, hin3]
          exact ⟨by first | rfl | trivial, by first | rfl | trivial, hok _ hfail⟩
        | raise e2 =>
          simp only [hin1, hin2, hin3]
          exact ⟨by first | rfl | trivial, by first | rfl | trivial, hfail⟩

/-- `specRender` is `specCore` without `reraise`, with `_error_handler`'s rule on top: an `HTTPNotFound` out of the
lookup becomes the original exception -/
theorem specRender_eq (w : World) (stmts : List Stmt) (r : Request) (e : Exc) (comb : List Nat) (d : Dict)
    (hw : w.ok = true) :
    (specRender w stmts r e comb d).outcome =
      (match (specCore w stmts r e comb false (dget d)).outcome with
       | .error e2 => if e2.isNotFound then .error e else .error e2
       | .ok resp => .ok resp) ∧
    (specRender w stmts r e comb d).seen = (specCore w stmts r e comb false (dget d)).seen ∧
    (specRender w stmts r e comb d).attr = (specCore w stmts r e comb false (dget d)).attr := by
  simp only [World.ok, Bool.and_eq_true, Bool.not_eq_true'] at hw
  obtain ⟨⟨hnf, hmm⟩, hfb⟩ := hw
  simp only [specRender, specCore]
  cases hwin : excWinner w stmts r e comb with
  | none =>
    by_cases hreg : anyRegistered (allRegs w.sec stmts) clsExc (excRequest r e comb) = true
    · simp [hreg, hmm]
    · simp [hreg, hnf]
  | some v =>
    by_cases hs : (v.secured && !r.permitted) = true
    · simp [hs, hfb]
    · cases hb : bodyOf stmts v.tag with
      | respond => simp [hs, hb]; try rfl
      | returnContext => simp [hs, hb]; try rfl
      | raise e2 =>
        by_cases hn : e2.isNotFound = true
        · simp [hs, hb, hn, again_isNotFound]
        · simp [hs, hb, hn, again_isNotFound]

/-- `_error_handler` against the declarative rendering of `e` -/
theorem errorHandler_spec (w : World) (stmts : List Stmt) (r : Request) (e : Exc) (comb : List Nat) (d : Dict)
    (hc : Coherent (allRegs w.sec stmts)) (hw : w.ok = true) :
    (errorHandler w (registerAll (allRegs w.sec stmts)) stmts (excRequest r e comb) e d).2.2
        = (specRender w stmts r e comb d).outcome ∧
    (errorHandler w (registerAll (allRegs w.sec stmts)) stmts (excRequest r e comb) e d).2.1
        = (specRender w stmts r e comb d).seen ∧
    ∀ k, dget (errorHandler w (registerAll (allRegs w.sec stmts)) stmts (excRequest r e comb) e d).1 k
        = (specRender w stmts r e comb d).attr k := by
  obtain ⟨h1, h2, h3⟩ := invokeCore_spec w stmts r e comb d false (dget d) (fun _ => rfl) hc
  obtain ⟨g1, g2, g3⟩ := specRender_eq w stmts r e comb d hw
  rw [g1, g2, g3, ← h1, ← h2]
  simp only [errorHandler, invokeExceptionView]
  rcases hx : invokeCore w (registerAll (allRegs w.sec stmts)) stmts (excRequest r e comb) e d false with ⟨d', seen, out⟩
  rw [hx] at h3
  cases out with
  | ok resp => exact ⟨rfl, rfl, h3⟩
  | error e2 =>
    by_cases hn : e2.isNotFound = true
    · simp only [hn, if_true]; exact ⟨by first | rfl | trivial, by first | rfl | trivial, h3⟩
    · simp only [hn, Bool.false_eq_true, if_false]; exact ⟨by first | rfl | trivial, by first | rfl | trivial, h3⟩

/-- a `find?` over `P ++ S ++ rest` is decided inside `P ++ S` as soon as something there satisfies the predicate -/
theorem find?_in_prefix {α} (p : α → Bool) (P rest : List α) (x : α) (hx : x ∈ P) (hp : p x = true) :
    ∃ v, (P ++ rest).find? p = some v ∧ v ∈ P := by
  rw [List.find?_append]
  cases hf : P.find? p with
  | some v => exact ⟨v, rfl, List.mem_of_find?_eq_some hf⟩
  | none =>
    have := List.find?_eq_none.mp hf x hx
    simp [hp] at this

theorem candidatesOn_single (regs : List ViewReg) (classifier : Nat) (r : Request) (q c : Nat) :
    candidatesOn regs classifier r [q] [c] = slotCands regs classifier r q c := by
  simp [candidatesOn]

/-- the candidate list split at the slot `(q, c)`: everything of earlier request interfaces, then — for `q` — everything
of earlier (nearer) classes, then the slot itself, then the rest -/
theorem candidates_split (regs : List ViewReg) (classifier : Nat) (r : Request) (A B C D : List Nat) (q c : Nat)
    (hq : r.reqSro = A ++ q :: B) (hs : r.ctxSro = C ++ c :: D) :
    candidates regs classifier r =
      (candidatesOn regs classifier r A r.ctxSro ++ candidatesOn regs classifier r [q] C ++ slotCands regs classifier r q c)
        ++ (candidatesOn regs classifier r [q] D ++ candidatesOn regs classifier r B r.ctxSro) := by
  rw [candidates_eq_on, hq]
  have h1 : A ++ q :: B = A ++ ([q] ++ B) := by simp
  rw [h1, candidatesOn_append_req, candidatesOn_append_req]
  have h2 : candidatesOn regs classifier r [q] (C ++ c :: D) =
      candidatesOn regs classifier r [q] C ++ slotCands regs classifier r q c ++ candidatesOn regs classifier r [q] D := by
    have h3 : C ++ c :: D = C ++ ([c] ++ D) := by simp
    rw [h3, candidatesOn_append_ctx, candidatesOn_append_ctx, candidatesOn_single]
    simp
  rw [hs, h2]
  simp [List.append_assoc]

theorem mem_candidatesOn (regs : List ViewReg) (classifier : Nat) (r : Request) (qs cs : List Nat) (x : DView)
    (h : x ∈ candidatesOn regs classifier r qs cs) :
    ∃ q ∈ qs, ∃ c ∈ cs, x ∈ slotCands regs classifier r q c := by
  simp only [candidatesOn, List.mem_flatMap] at h
  obtain ⟨q, hq, c, hc, hx⟩ := h
  exact ⟨q, hq, c, hc, hx⟩

theorem mkPredsFrom_nil (names : List String) (n : Nat) : mkPredsFrom [] names n = [] := by
  induction names generalizing n with
  | nil => rfl
  | cons a rest ih => simp [mkPredsFrom, ih]

/-- tags identify statements: the body found for a statement's tag is that statement's body -/
theorem bodyOf_of_mem (stmts : List Stmt) (s : Stmt) (hs : s ∈ stmts) (hu : (stmts.map (·.tag)).Nodup) :
    bodyOf stmts s.tag = s.body := by
  induction stmts with
  | nil => simp at hs
  | cons a rest ih =>
    simp only [bodyOf, List.find?_cons]
    by_cases ha : a.tag = s.tag
    · simp only [ha, decide_true]
      rcases List.mem_cons.mp hs with h | h
      · rw [h]
      · have hnd : (a.tag :: rest.map (·.tag)).Nodup := hu
        have : a.tag ∉ rest.map (·.tag) := (List.nodup_cons.mp hnd).1
        exact absurd (List.mem_map.mpr ⟨s, h, ha.symm⟩) this
    · simp only [ha, decide_false]
      rcases List.mem_cons.mp hs with h | h
      · exact absurd (h ▸ rfl) ha
      · have hnd : (a.tag :: rest.map (·.tag)).Nodup := hu
        have := ih h (List.nodup_cons.mp hnd).2
        simpa [bodyOf] using this

end Pyr.ExcView
