/-
Soundness of `Pyr.Skel.post`: whatever the oracle decides, an execution of a skeleton started in a configuration
the abstract state describes keeps the monitor alive and ends in one of the (monitor state, height, outcome)
triples `post` returned.  For every statement term; core Lean only.
-/
import PyramidModel.Skeleton

namespace Pyr.Skel

theorem collect_mem {α β : Type} {f : α → Option (List β)} {xs : List α} {R : List β}
    (h : collect f xs = some R) {x : α} (hx : x ∈ xs) : ∃ r, f x = some r ∧ ∀ y ∈ r, y ∈ R := by
  induction xs generalizing R with
  | nil => cases hx
  | cons z zs ih =>
    simp only [collect] at h
    split at h
    · next a b ha hb =>
      simp at h; subst h
      rcases List.mem_cons.mp hx with hxz | hxz
      · subst hxz
        exact ⟨a, ha, fun y hy => List.mem_append_left _ hy⟩
      · obtain ⟨r, hr, hin⟩ := ih hb hxz
        exact ⟨r, hr, fun y hy => List.mem_append_right _ (hin y hy)⟩
    · simp at h

/-- the abstract state `a` describes configuration `c`: same height above `base`, the monitor has come to `a.1` -/
def Describes (m : Monitor) (base q0 : Nat) (a : AState) (c : Cfg) : Prop :=
  c.depth = base + a.2 ∧ m.run base q0 c.trace = some a.1

theorem describes_visit {m : Monitor} {base q0 : Nat} {a a' : AState} {c : Cfg} (h : Describes m base q0 a c)
    {s : Nat} {flag : Bool} (hv : m.visit a s flag = some a') : Describes m base q0 a' (c.visit s flag) := by
  obtain ⟨hd, hr⟩ := h
  have hh : a'.2 = a.2 := by
    simp only [Monitor.visit] at hv
    split at hv
    · simp at hv; rw [← hv]
    · split at hv
      · simp at hv
      · simp at hv; rw [← hv]
  refine ⟨by simp [Cfg.visit, hd, hh], ?_⟩
  simp only [Cfg.visit, Monitor.run, hr]
  have : c.depth - base = a.2 := by omega
  rw [this]
  have ha : ((a.1, a.2) : AState) = a := rfl
  rw [ha, hv]

def MSound (m : Monitor) (qt : Nat → Bool) (o : Oracle) (s : Stmt) : Prop :=
  ∀ a R, post m qt s a = some R → ∀ base q0 (c : Cfg), Describes m base q0 a c →
    ∃ a', Describes m base q0 a' (exec o s c).1 ∧ (a', (exec o s c).2) ∈ R

/-- iterating a body that is sound, from a state of a set closed under normal iterations -/
theorem iter_msound {m : Monitor} {base q0 : Nat} {f : Cfg → Cfg × Outcome} {g : AState → Option (List ARes)}
    {S : List AState} {Rs : List ARes} (hcol : collect g S = some Rs)
    (hclosed : ∀ r ∈ Rs, isNormal r = true → r.1 ∈ S)
    (hf : ∀ a R, g a = some R → ∀ c, Describes m base q0 a c →
      ∃ a', Describes m base q0 a' (f c).1 ∧ (a', (f c).2) ∈ R) :
    ∀ n a c, a ∈ S → Describes m base q0 a c →
      ∃ a', Describes m base q0 a' (iter f n c).1 ∧
        (((iter f n c).2 = .normal ∧ a' ∈ S) ∨ ((iter f n c).2 ≠ .normal ∧ (a', (iter f n c).2) ∈ Rs)) := by
  intro n
  induction n with
  | zero => intro a c ha hd; exact ⟨a, hd, Or.inl ⟨rfl, ha⟩⟩
  | succ n ih =>
    intro a c ha hd
    obtain ⟨r, hr, hin⟩ := collect_mem hcol ha
    obtain ⟨a1, hd1, hm1⟩ := hf a r hr c hd
    simp only [iter]
    generalize hfc : f c = res at hd1 hm1
    obtain ⟨c1, oc⟩ := res
    cases oc with
    | normal =>
      have := hclosed _ (hin _ hm1) rfl
      exact ih a1 c1 this hd1
    | returned => exact ⟨a1, hd1, Or.inr ⟨by simp, hin _ hm1⟩⟩
    | raised => exact ⟨a1, hd1, Or.inr ⟨by simp, hin _ hm1⟩⟩

theorem post_sound {m : Monitor} {qt : Nat → Bool} {o : Oracle} (hq : o.respects qt) : ∀ s, MSound m qt o s := by
  intro s
  induction s with
  | skip => intro a R h base q0 c hd; simp [post] at h; subst h; exact ⟨a, hd, by simp [exec]⟩
  | push =>
    intro a R h base q0 c hd
    simp [post] at h; subst h
    exact ⟨(a.1, a.2 + 1), ⟨by simp [exec, hd.1]; omega, hd.2⟩, by simp [exec]⟩
  | pop =>
    intro a R h base q0 c hd
    simp only [post] at h
    split at h
    · simp at h
    · simp at h; subst h
      exact ⟨(a.1, a.2 - 1), ⟨by simp [exec, hd.1]; omega, hd.2⟩, by simp [exec]⟩
  | call s =>
    intro a R h base q0 c hd
    simp only [post] at h
    split at h
    · simp at h
    · next a0 h0 =>
      simp only [exec]
      cases hr : o.raises s (c.count s) with
      | false =>
        refine ⟨a0, describes_visit hd h0, ?_⟩
        split at h
        · simp at h; subst h; simp
        · split at h
          · simp at h
          · simp at h; subst h; simp
      | true =>
        split at h
        · next hqs => rw [hq s _ hqs] at hr; cases hr
        · split at h
          · simp at h
          · next a1 h1 =>
            simp at h; subst h
            exact ⟨a1, describes_visit hd h1, by simp⟩
  | ret => intro a R h base q0 c hd; simp [post] at h; subst h; exact ⟨a, hd, by simp [exec]⟩
  | raise => intro a R h base q0 c hd; simp [post] at h; subst h; exact ⟨a, hd, by simp [exec]⟩
  | unknown => intro a R h; simp [post] at h
  | seq x y ihx ihy =>
    intro a R h base q0 c hd
    simp only [post] at h
    split at h
    · simp at h
    · next Rx hx =>
      obtain ⟨a1, hd1, hm1⟩ := ihx a Rx hx base q0 c hd
      obtain ⟨r, hr, hin⟩ := collect_mem h hm1
      simp only [exec]
      generalize exec o x c = res at hd1 hm1 hr
      obtain ⟨c1, oc⟩ := res
      cases oc with
      | normal =>
        simp only [isNormal, ↓reduceIte] at hr
        obtain ⟨a2, hd2, hm2⟩ := ihy a1 r hr base q0 c1 hd1
        exact ⟨a2, hd2, hin _ hm2⟩
      | returned =>
        simp [isNormal] at hr; subst hr
        exact ⟨a1, hd1, hin _ (by simp)⟩
      | raised =>
        simp [isNormal] at hr; subst hr
        exact ⟨a1, hd1, hin _ (by simp)⟩
  | ite s x y ihx ihy =>
    intro a R h base q0 c hd
    simp only [post] at h
    split at h
    · next at' af ht hf =>
      split at h
      · next Rx Ry hx hy =>
        simp at h; subst h
        simp only [exec]
        split
        · next htk =>
          rw [htk]
          obtain ⟨a2, hd2, hm2⟩ := ihx at' Rx hx base q0 _ (describes_visit hd ht)
          exact ⟨a2, hd2, List.mem_append_left _ hm2⟩
        · next htk =>
          simp at htk; rw [htk]
          obtain ⟨a2, hd2, hm2⟩ := ihy af Ry hy base q0 _ (describes_visit hd hf)
          exact ⟨a2, hd2, List.mem_append_right _ hm2⟩
      · simp at h
    · simp at h
  | loop s b ihb =>
    intro a R h base q0 c hd
    simp only [post] at h
    split at h
    · next a0 a1 h0 h1 =>
      split at h
      · simp at h
      · next RL hL =>
        simp at h; subst h
        simp only [exec]
        cases hn : o.iters s (c.count s) with
        | zero =>
          simp only [bne_self_eq_false, iter]
          exact ⟨a0, describes_visit hd h0, by simp⟩
        | succ n =>
          have hflag : (n + 1 != 0) = true := by simp
          rw [hflag]
          simp only [loopRes] at hL
          split at hL
          · simp at hL
          · next Rs hcol =>
            split at hL
            · next hall =>
              simp at hL; subst hL
              have hclosed : ∀ r ∈ Rs, isNormal r = true → r.1 ∈ closeUnder (post m qt b) 64 [a1] := by
                intro r hr hnr
                have := (List.all_eq_true.mp hall) r hr
                simp only [hnr, Bool.not_true, Bool.false_or] at this
                exact List.contains_iff_mem.mp this
              have hmem : a1 ∈ closeUnder (post m qt b) 64 [a1] := by
                have : ∀ (k : Nat) (S : List AState), a1 ∈ S → a1 ∈ closeUnder (post m qt b) k S := by
                  intro k
                  induction k with
                  | zero => intro S hS; exact hS
                  | succ k ihk =>
                    intro S hS
                    simp only [closeUnder]
                    split
                    · exact hS
                    · split
                      · exact hS
                      · exact ihk _ (List.mem_append_left _ hS)
                exact this 64 [a1] (by simp)
              obtain ⟨a', hd', hres⟩ := iter_msound (m := m) (base := base) (q0 := q0) hcol hclosed
                (fun a R hp c hdc => ihb a R hp base q0 c hdc) (n + 1) a1 _ hmem (describes_visit hd h1)
              refine ⟨a', hd', ?_⟩
              rcases hres with ⟨hno, hS⟩ | ⟨hnn, hR⟩
              · rw [hno]
                refine List.mem_cons_of_mem _ (List.mem_append_left _ ?_)
                exact List.mem_map.mpr ⟨a', hS, rfl⟩
              · refine List.mem_cons_of_mem _ (List.mem_append_right _ ?_)
                refine List.mem_filter.mpr ⟨hR, ?_⟩
                generalize (iter (exec o b) (n + 1) (c.visit s true)).2 = oc at hnn
                cases oc <;> simp_all [isNormal]
            · simp at hL
    · simp at h
  | scope b ihb =>
    intro a R h base q0 c hd
    simp only [post] at h
    split at h
    · simp at h
    · next Rb hb =>
      simp at h; subst h
      obtain ⟨a1, hd1, hm1⟩ := ihb a Rb hb base q0 c hd
      simp only [exec]
      generalize exec o b c = res at hd1 hm1
      obtain ⟨c1, oc⟩ := res
      cases oc with
      | normal => exact ⟨a1, hd1, List.mem_map.mpr ⟨_, hm1, by simp⟩⟩
      | returned => exact ⟨a1, hd1, List.mem_map.mpr ⟨_, hm1, by simp⟩⟩
      | raised => exact ⟨a1, hd1, List.mem_map.mpr ⟨_, hm1, by simp⟩⟩
  | tryFinally b f ihb ihf =>
    intro a R h base q0 c hd
    simp only [post] at h
    split at h
    · simp at h
    · next Rb hb =>
      obtain ⟨a1, hd1, hm1⟩ := ihb a Rb hb base q0 c hd
      obtain ⟨r, hr, hin⟩ := collect_mem h hm1
      simp only [exec]
      generalize exec o b c = res at hd1 hm1 hr
      obtain ⟨c1, oc⟩ := res
      simp only at hr
      split at hr
      · simp at hr
      · next Rf hf =>
        simp at hr; subst hr
        obtain ⟨a2, hd2, hm2⟩ := ihf a1 Rf hf base q0 c1 hd1
        generalize exec o f c1 = res2 at hd2 hm2
        obtain ⟨c2, oc2⟩ := res2
        cases oc2 with
        | normal => exact ⟨a2, hd2, hin _ (List.mem_map.mpr ⟨_, hm2, by simp⟩)⟩
        | returned => exact ⟨a2, hd2, hin _ (List.mem_map.mpr ⟨_, hm2, by simp⟩)⟩
        | raised => exact ⟨a2, hd2, hin _ (List.mem_map.mpr ⟨_, hm2, by simp⟩)⟩
  | tryExcept b hh ihb ihh =>
    intro a R h base q0 c hd
    simp only [post] at h
    split at h
    · simp at h
    · next Rb hb =>
      obtain ⟨a1, hd1, hm1⟩ := ihb a Rb hb base q0 c hd
      obtain ⟨r, hr, hin⟩ := collect_mem h hm1
      simp only [exec]
      generalize exec o b c = res at hd1 hm1 hr
      obtain ⟨c1, oc⟩ := res
      cases oc with
      | normal => simp at hr; subst hr; exact ⟨a1, hd1, hin _ (by simp)⟩
      | returned => simp at hr; subst hr; exact ⟨a1, hd1, hin _ (by simp)⟩
      | raised =>
        simp only [↓reduceIte] at hr
        obtain ⟨a2, hd2, hm2⟩ := ihh a1 r hr base q0 c1 hd1
        exact ⟨a2, hd2, hin _ hm2⟩

/-! ### the monitors of the request path (spec side) -/

def callSites : Stmt → List Nat
  | .call s => [s]
  | .seq a b => callSites a ++ callSites b
  | .ite _ a b => callSites a ++ callSites b
  | .loop _ b => callSites b
  | .scope b => callSites b
  | .tryFinally b f => callSites b ++ callSites f
  | .tryExcept b h => callSites b ++ callSites h
  | _ => []

/-- role of a site according to a generated table, restricted to the roles `keep` -/
def roleIn (table : List (Nat × Nat)) (keep : Nat → Bool) (s : Nat) : Option Nat :=
  match table.find? (fun e => e.1 == s) with
  | some e => if keep e.2 then some e.2 else none
  | none => none

def branchSites : Stmt → List Nat
  | .seq a b => branchSites a ++ branchSites b
  | .ite s a b => s :: (branchSites a ++ branchSites b)
  | .loop s b => s :: branchSites b
  | .scope b => branchSites b
  | .tryFinally b f => branchSites b ++ branchSites f
  | .tryExcept b h => branchSites b ++ branchSites h
  | _ => []

/-- Callback order on the request path (roles 0 = the tween chain / main handler is called, 1 = a response callback,
2 = notify(NewResponse), 3 = a finished callback — flag = it raised; 11 = `finish_request` looks at the
finished-callback deque), every such event at height `H` above the caller.  State = `b + 10·f`, `f` = finish_request
has been reached, and `b`:

  0 nothing yet   1 a response left the chain   2 NewResponse sent   3 finished callbacks, no observed failure before
  4 an observed event failed   5 finished callbacks after a failure   6 a finished callback failed (nothing may follow)

Not allowed: a response callback or NewResponse before the chain returned or after it raised; a response callback
after NewResponse or after a failing one; NewResponse twice or after a failing response callback; the chain twice;
a finished callback before finish_request is reached, anything else after it; finish_request twice; anything after
a failing finished callback. -/
def cbOrderStep (H : Nat) (q r h : Nat) (raised : Bool) : Option Nat :=
  if h != H then none else
  let f := q / 10
  let b := q % 10
  if r == 11 then (if f == 0 then some (b + 10) else none) else
  if r == 3 then
    if f == 0 || b == 6 then none else
    if raised then some 16 else
    match b with
    | 0 => some 15
    | 1 => some 13
    | 2 => some 13
    | 3 => some 13
    | 4 => some 15
    | 5 => some 15
    | _ => none
  else
    if f != 0 then none else
    match b, r, raised with
    | 0, 0, false => some 1
    | 0, 0, true => some 4
    | 1, 1, false => some 1
    | 1, 1, true => some 4
    | 1, 2, false => some 2
    | 1, 2, true => some 4
    | _, _, _ => none

def cbOrder (table : List (Nat × Nat)) (H : Nat) : Monitor :=
  { role := roleIn table (fun r => r < 4 || r == 11), step := cbOrderStep H }

/-- Stage order inside `Router.handle_request` (roles 4 NewRequest, 5 routes mapper, 6 BeforeTraversal, 7 root / route
factory, 8 traverser, 9 ContextFound, 10 `_call_view`): strictly increasing, all at the caller's height, nothing after
a failing one.  State = the last stage seen (3 = none yet), 99 = a stage failed. -/
def stageOrderStep (q r h : Nat) (raised : Bool) : Option Nat :=
  if h != 0 || q == 99 || r <= q then none else if raised then some 99 else some r

def stageOrder (table : List (Nat × Nat)) : Monitor :=
  { role := roleIn table (fun r => 4 ≤ r ∧ r ≤ 10), step := stageOrderStep }

/-- what `post` must have found for a request-path entry point: every execution ends at the caller's depth; one that
does not raise has seen the chain respond and no observed event fail; one that saw a failure raises; every one has
reached finish_request (state ≥ 10) unless it failed before the pipeline was entered at all (state 0: the request
factory, the request extensions or the RequestContext constructor raised) -/
def cbVerdictOk (R : List ARes) : Bool :=
  R.all fun r => r.1.2 == 0 && (10 ≤ r.1.1 || r.1.1 == 0) && (r.2 == .raised || [11, 12, 13].contains r.1.1) &&
    (![14, 15, 16].contains r.1.1 || r.2 == .raised)

def checkCb (table : List (Nat × Nat)) (quiet : Nat → Bool) (H : Nat) (s : Stmt) : Bool :=
  match post (cbOrder table H) quiet s (0, 0) with
  | some R => cbVerdictOk R
  | none => false

def checkStages (table : List (Nat × Nat)) (quiet : Nat → Bool) (s : Stmt) : Bool :=
  (post (stageOrder table) quiet s (3, 0)).isSome

/-- the table is a function, names every role exactly once, and its sites are call sites of the terms they are
observed in (roles 0–3 and the branch site 11 under `top`, roles 4–10 under `handle`) -/
def rolesWellFormed (table : List (Nat × Nat)) (top handle : Stmt) : Bool :=
  (table.map (·.1)).Nodup &&
  (List.range 12).all (fun r => (table.filter (fun e => e.2 == r)).length == 1) &&
  table.all (fun e => e.2 < 12 && (if e.2 == 11 then (branchSites top).contains e.1
                                   else if e.2 < 4 then (callSites top).contains e.1 else (callSites handle).contains e.1))

end Pyr.Skel
