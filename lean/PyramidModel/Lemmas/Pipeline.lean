/-
Invariants of the pipeline model (`Pyr.Pipeline`): a small program logic over the model's exception/state
monad (`Inv`: a computation started with the request on top of the stack leaves the stack as it was, logs only
chain-stage events with `current request = self`, and the two callback deques grow exactly by the registrations
it logged), the exact behaviour of the callback loops, and the mutual induction over the request tree.
Core Lean only.
-/
import PyramidModel.Pipeline

namespace Pyr.Pipeline

/-! ### log vocabulary (spec side) -/

/-- events that carry a "current request is self" observation have it true -/
def Ev.curOk : Ev → Bool
  | .hook _ c _ => c
  | .cb _ _ c _ => c
  | .resume c _ => c
  | _ => true

/-- what may be logged while the tween chain runs: hooks other than NewResponse, registrations, view resumptions,
subrequest markers — no callback, no chain marker -/
def Ev.isStage : Ev → Bool
  | .hook p _ _ => p != .newResponse
  | .reg _ _ => true
  | .resume _ _ => true
  | .sub _ => true
  | .cb _ _ _ _ => false
  | .chain _ => false

def regId (k : CbKind) : Ev → Option Nat
  | .reg k' i => if k' = k then some i else none
  | _ => none

/-- ids of the callbacks of kind `k` registered in a log, in order -/
def regsOf (k : CbKind) (evs : List Ev) : List Nat := evs.filterMap (regId k)

def Ev.isReg : Ev → Bool
  | .reg _ _ => true
  | _ => false

def Ev.isFinCb : Ev → Bool
  | .cb .fin _ _ _ => true
  | _ => false

def finId : Ev → Option Nat
  | .cb .fin i _ _ => some i
  | _ => none

/-- ids of the finished callbacks run in a log, in order -/
def finIds (evs : List Ev) : List Nat := evs.filterMap finId

/-- the response phase of a log: `some i` = response callback `i` ran, `none` = the NewResponse event -/
def respItem : Ev → Option (Option Nat)
  | .cb .resp i _ _ => some (some i)
  | .hook .newResponse _ _ => some none
  | _ => none

def respTrace (evs : List Ev) : List (Option Nat) := evs.filterMap respItem

def cbFaulty (cfg : Cfg) (i : Nat) : Bool := (cbFault cfg i).isSome

/-- the callbacks a deque run reaches: up to and including the first one that fails -/
def throughFault (cfg : Cfg) : List Nat → List Nat
  | [] => []
  | i :: rest => if cbFaulty cfg i then [i] else i :: throughFault cfg rest

/-- what the statement demands after a response left the chain: each registered response callback, in order, up to
a failing one; then NewResponse iff none failed -/
def expectedResp (cfg : Cfg) : List Nat → List (Option Nat)
  | [] => [none]
  | i :: rest => if cbFaulty cfg i then [some i] else some i :: expectedResp cfg rest

theorem regsOf_append (k : CbKind) (a b : List Ev) : regsOf k (a ++ b) = regsOf k a ++ regsOf k b := by
  simp [regsOf, List.filterMap_append]

theorem throughFault_of_none (cfg : Cfg) (ids : List Nat) (h : ∀ i ∈ ids, cbFaulty cfg i = false) :
    throughFault cfg ids = ids := by
  induction ids with
  | nil => rfl
  | cons i rest ih =>
    simp only [throughFault, h i (List.mem_cons_self)]
    simp
    exact ih (fun j hj => h j (List.mem_cons_of_mem _ hj))

/-! ### the program logic -/

@[simp] theorem bind_def {α β} (m : M α) (f : α → M β) : (m >>= f) = M.bind m f := rfl
@[simp] theorem pure_def {α} (a : α) : (pure a : M α) = M.pure a := rfl

/-- `s'` is reached from `s` by logging `evs` -/
structure Step (s s' : St) (evs : List Ev) : Prop where
  stack : s'.stack = s.stack
  log : s'.log = s.log ++ evs
  respQ : s'.respQ = s.respQ ++ regsOf .resp evs
  finQ : s'.finQ = s.finQ ++ regsOf .fin evs
  good : ∀ e ∈ evs, e.isStage = true ∧ e.curOk = true

theorem Step.refl (s : St) : Step s s [] :=
  ⟨rfl, by simp, by simp [regsOf], by simp [regsOf], by simp⟩

theorem Step.trans {s s' s'' : St} {e1 e2 : List Ev} (h1 : Step s s' e1) (h2 : Step s' s'' e2) :
    Step s s'' (e1 ++ e2) := by
  refine ⟨h2.stack.trans h1.stack, ?_, ?_, ?_, ?_⟩
  · rw [h2.log, h1.log, List.append_assoc]
  · rw [h2.respQ, h1.respQ, regsOf_append, List.append_assoc]
  · rw [h2.finQ, h1.finQ, regsOf_append, List.append_assoc]
  · intro e he
    rcases List.mem_append.mp he with h | h
    · exact h1.good e h
    · exact h2.good e h

/-- started with `self` on top of the stack, `m` (whatever its outcome) is a `Step` -/
structure Inv {α} (me : Path) (m : M α) : Prop where
  run : ∀ s, s.stack.head? = some me → ∃ evs, Step s (m s).st evs

theorem Inv_pure {α} (self : Path) (a : α) : Inv self (M.pure a) :=
  ⟨fun s _ => ⟨[], Step.refl s⟩⟩

theorem Inv_throw {α} (self : Path) (e : Exc) : Inv self (throw e : M α) :=
  ⟨fun s _ => ⟨[], Step.refl s⟩⟩

theorem Inv_bind {α β} {self : Path} {m : M α} {f : α → M β} (hm : Inv self m) (hf : ∀ a, Inv self (f a)) :
    Inv self (M.bind m f) := by
  refine ⟨fun s hs => ?_⟩
  obtain ⟨e1, h1⟩ := hm.run s hs
  simp only [M.bind]
  cases hms : m s with
  | ok a s' =>
    rw [hms] at h1
    simp only [R.st] at h1
    obtain ⟨e2, h2⟩ := (hf a).run s' (by rw [h1.stack]; exact hs)
    exact ⟨e1 ++ e2, h1.trans h2⟩
  | err e s' =>
    rw [hms] at h1
    exact ⟨e1, h1⟩

theorem Inv_tryCatch {α} {self : Path} {m : M α} {h : Exc → M α} (hm : Inv self m) (hh : ∀ e, Inv self (h e)) :
    Inv self (tryCatch m h) := by
  refine ⟨fun s hs => ?_⟩
  obtain ⟨e1, h1⟩ := hm.run s hs
  simp only [tryCatch]
  cases hms : m s with
  | ok a s' => rw [hms] at h1; exact ⟨e1, h1⟩
  | err e s' =>
    rw [hms] at h1
    simp only [R.st] at h1
    obtain ⟨e2, h2⟩ := (hh e).run s' (by rw [h1.stack]; exact hs)
    exact ⟨e1 ++ e2, h1.trans h2⟩

theorem Inv_tryFinally {α} {self : Path} {m : M α} {f : M Unit} (hm : Inv self m) (hf : Inv self f) :
    Inv self (tryFinally m f) := by
  refine ⟨fun s hs => ?_⟩
  obtain ⟨e1, h1⟩ := hm.run s hs
  simp only [tryFinally]
  cases hms : m s with
  | ok a s' =>
    rw [hms] at h1
    simp only [R.st] at h1
    obtain ⟨e2, h2⟩ := hf.run s' (by rw [h1.stack]; exact hs)
    refine ⟨e1 ++ e2, ?_⟩
    cases hfs : f s' with
    | ok u s'' => rw [hfs] at h2; simp only [hfs]; exact h1.trans h2
    | err e s'' => rw [hfs] at h2; simp only [hfs]; exact h1.trans h2
  | err e s' =>
    rw [hms] at h1
    simp only [R.st] at h1
    obtain ⟨e2, h2⟩ := hf.run s' (by rw [h1.stack]; exact hs)
    refine ⟨e1 ++ e2, ?_⟩
    cases hfs : f s' with
    | ok u s'' => rw [hfs] at h2; simp only [hfs]; exact h1.trans h2
    | err e' s'' => rw [hfs] at h2; simp only [hfs]; exact h1.trans h2

theorem Inv_ite {α} {self : Path} {c : Prop} [Decidable c] {a b : M α} (ha : Inv self a) (hb : Inv self b) :
    Inv self (if c then a else b) := by
  split <;> assumption

/-! ### primitives -/

/-- `register` logs exactly the registrations it appends to the deques -/
theorem register_spec (stage : Stage) (regs : List Reg) (i : Nat) (s : St) :
    ∃ evs s', register stage regs i s = .ok () s' ∧ (∀ e ∈ evs, e.isReg = true) ∧
      s'.stack = s.stack ∧ s'.log = s.log ++ evs ∧ s'.respQ = s.respQ ++ regsOf .resp evs ∧
      s'.finQ = s.finQ ++ regsOf .fin evs ∧ s'.kids = s.kids := by
  induction regs generalizing i s with
  | nil => exact ⟨[], s, rfl, by simp, rfl, by simp, by simp [regsOf], by simp [regsOf], rfl⟩
  | cons r rest ih =>
    simp only [register]
    split
    · cases hk : r.kind with
      | resp =>
        obtain ⟨evs, s', h1, h2, h3, h4, h5, h6, h7⟩ := ih (i + 1)
          { s with log := s.log ++ [Ev.reg .resp i], respQ := s.respQ ++ [i] }
        refine ⟨Ev.reg .resp i :: evs, s', h1, ?_, h3, ?_, ?_, ?_, h7⟩
        · intro e he
          rcases List.mem_cons.mp he with h | h
          · subst h; rfl
          · exact h2 e h
        · rw [h4]; simp
        · rw [h5]; simp [regsOf, regId]
        · rw [h6]; simp [regsOf, regId]
      | fin =>
        obtain ⟨evs, s', h1, h2, h3, h4, h5, h6, h7⟩ := ih (i + 1)
          { s with log := s.log ++ [Ev.reg .fin i], finQ := s.finQ ++ [i] }
        refine ⟨Ev.reg .fin i :: evs, s', h1, ?_, h3, ?_, ?_, ?_, h7⟩
        · intro e he
          rcases List.mem_cons.mp he with h | h
          · subst h; rfl
          · exact h2 e h
        · rw [h4]; simp
        · rw [h5]; simp [regsOf, regId]
        · rw [h6]; simp [regsOf, regId]
    · exact ih (i + 1) s

theorem isReg_good {e : Ev} (h : e.isReg = true) : e.isStage = true ∧ e.curOk = true := by
  cases e <;> simp_all [Ev.isReg, Ev.isStage, Ev.curOk]

/-- what a hook does to the state, whatever its outcome -/
theorem hook_spec (cfg : Cfg) (self : Path) (p : Point) (s : St) :
    ∃ evs, (∀ e ∈ evs, e.isReg = true) ∧
      (hook cfg self p s).st.stack = s.stack ∧
      (hook cfg self p s).st.log = s.log ++ Ev.hook p (s.stack.head? == some self) s.stack.length :: evs ∧
      (hook cfg self p s).st.respQ = s.respQ ++ regsOf .resp evs ∧
      (hook cfg self p s).st.finQ = s.finQ ++ regsOf .fin evs := by
  obtain ⟨evs, s', h1, h2, h3, h4, h5, h6, _⟩ := register_spec (.hook p) cfg.regs 0
    { s with log := s.log ++ [Ev.hook p (s.stack.head? == some self) s.stack.length] }
  refine ⟨evs, h2, ?_⟩
  have hst : (hook cfg self p s).st = s' := by
    simp only [hook, bind_def, pure_def, M.bind, getStack, emit, h1]
    cases faultOf cfg p with
    | none => rfl
    | some k =>
      cases k with
      | plain => rfl
      | http => rfl
      | soft =>
        simp only
        split <;> rfl
  rw [hst]
  refine ⟨h3, ?_, h5, h6⟩
  rw [h4]; simp

theorem Inv_hook (cfg : Cfg) (self : Path) (p : Point) (hp : p ≠ .newResponse) : Inv self (hook cfg self p) := by
  refine ⟨fun s hs => ?_⟩
  obtain ⟨evs, h1, h2, h3, h4, h5⟩ := hook_spec cfg self p s
  refine ⟨Ev.hook p (s.stack.head? == some self) s.stack.length :: evs, h2, h3, ?_, ?_, ?_⟩
  · rw [h4]; simp only [regsOf]; rw [List.filterMap_cons_none (by rfl)]
  · rw [h5]; simp only [regsOf]; rw [List.filterMap_cons_none (by rfl)]
  · intro e he
    rcases List.mem_cons.mp he with h | h
    · subst h
      simp [Ev.isStage, Ev.curOk, hs, hp]
    · exact isReg_good (h1 e h)

theorem Inv_resume (self : Path) : Inv self (resume self) := by
  refine ⟨fun s hs => ?_⟩
  refine ⟨[Ev.resume (s.stack.head? == some self) s.stack.length], rfl, rfl, by simp [resume, bind_def, M.bind, getStack, emit, R.st, regsOf, regId], by simp [resume, bind_def, M.bind, getStack, emit, R.st, regsOf, regId], ?_⟩
  intro e he
  simp at he; subst he
  simp [Ev.isStage, Ev.curOk, hs]

/-- `invoke_exception_view`: the extra frame it pushes is the request itself and is popped on every path -/
theorem invokeExcView_step (xv : Bool) (cfg : Cfg) (self : Path) (e : Exc) (s : St) :
    ∃ evs, Step s (invokeExcView xv cfg self e s).st evs := by
  simp only [invokeExcView, bind_def, M.bind, push, tryFinally, pop]
  cases xv with
  | false =>
    refine ⟨[], ?_⟩
    simp only [Bool.false_eq_true, ↓reduceIte, pure_def, M.pure, R.st]
    exact ⟨by simp, by simp, by simp [regsOf], by simp [regsOf], by simp⟩
  | true =>
    simp only [↓reduceIte, bind_def, pure_def, M.bind]
    obtain ⟨evs, hin⟩ := (Inv_hook cfg self .excView (by decide)).run { s with stack := self :: s.stack } (by simp)
    refine ⟨evs, ?_⟩
    cases hh : hook cfg self .excView { s with stack := self :: s.stack } with
    | ok a s' =>
      rw [hh] at hin
      simp only [R.st] at hin
      simp only [M.pure, R.st]
      exact ⟨by simp [hin.stack], hin.log, hin.respQ, hin.finQ, hin.good⟩
    | err e' s' =>
      rw [hh] at hin
      simp only [R.st] at hin
      simp only [R.st]
      exact ⟨by simp [hin.stack], hin.log, hin.respQ, hin.finQ, hin.good⟩

theorem Inv_invokeExcView (xv : Bool) (cfg : Cfg) (self : Path) (e : Exc) :
    Inv self (invokeExcView xv cfg self e) :=
  ⟨fun s _ => invokeExcView_step xv cfg self e s⟩

/-- the explicit invocation for another request leaves the caller's stack and deques alone and logs, in the caller's
own log, only the marker and the resumption (with the caller current again) -/
theorem Inv_invokeOther (xv : Bool) (t : Kind × Option Kind × Bool) (self : Path) : Inv self (invokeOther xv t self) := by
  refine ⟨fun s hs => ?_⟩
  obtain ⟨evs, hst⟩ := invokeExcView_step (if t.2.2 then !xv else xv) (otherCfg t.2.1) (self ++ [otherId]) (excOf t.1)
    { stack := s.stack }
  have hstack := hst.stack
  simp only at hstack
  refine ⟨[Ev.sub otherId, Ev.resume (s.stack.head? == some self) s.stack.length], ?_⟩
  have key : ∀ (r : R Bool), r.st.stack = s.stack →
      Step s (match (match r with
                      | .ok true _ => Outcome.resp
                      | .ok false _ => Outcome.raised .http
                      | .err e _ => Outcome.raised e) with
              | .resp => (R.ok () { s with
                  log := s.log ++ [Ev.sub otherId, Ev.resume (r.st.stack.head? == some self) r.st.stack.length],
                  stack := r.st.stack,
                  kids := s.kids ++ [Tr.node r.st.log (match r with
                      | .ok true _ => Outcome.resp
                      | .ok false _ => Outcome.raised .http
                      | .err e _ => Outcome.raised e) r.st.stack.length [] (r.st.respQ.length, r.st.finQ.length)] } : R Unit)
              | .raised e => R.err e { s with
                  log := s.log ++ [Ev.sub otherId, Ev.resume (r.st.stack.head? == some self) r.st.stack.length],
                  stack := r.st.stack,
                  kids := s.kids ++ [Tr.node r.st.log (match r with
                      | .ok true _ => Outcome.resp
                      | .ok false _ => Outcome.raised .http
                      | .err e _ => Outcome.raised e) r.st.stack.length [] (r.st.respQ.length, r.st.finQ.length)] }).st
        [Ev.sub otherId, Ev.resume (s.stack.head? == some self) s.stack.length] := by
    intro r hr
    have hgood : ∀ e ∈ [Ev.sub otherId, Ev.resume (s.stack.head? == some self) s.stack.length],
        e.isStage = true ∧ e.curOk = true := by
      intro e he
      simp at he
      rcases he with h | h <;> subst h <;> simp [Ev.isStage, Ev.curOk, hs]
    cases r with
    | ok b s' =>
      simp only [R.st] at hr
      cases b <;> simp only [R.st, hr] <;>
        exact ⟨rfl, rfl, by simp [regsOf, regId], by simp [regsOf, regId], hgood⟩
    | err e s' =>
      simp only [R.st] at hr
      simp only [R.st, hr]
      exact ⟨rfl, rfl, by simp [regsOf, regId], by simp [regsOf, regId], hgood⟩
  exact key _ hstack

/-! ### the chain, given that the subrequests are a `Step` -/

/-- structural proof search over the combinators; facts about sub-computations are taken from the context -/
macro "inv_auto" : tactic => `(tactic| repeat (first
  | assumption
  | exact Inv_pure _ _
  | exact Inv_throw _ _
  | exact Inv_resume _
  | exact Inv_invokeExcView _ _ _ _
  | exact Inv_invokeOther _ _ _
  | (apply Inv_hook; decide)
  | (apply Inv_hook; split <;> decide)
  | apply Inv_tryFinally
  | apply Inv_tryCatch
  | apply Inv_bind
  | apply Inv_ite
  | intro _
  | split))

theorem Inv_viewBody {xv : Bool} {cfg : Cfg} {self : Path} {subsM : M Unit} (hs : Inv self subsM) :
    Inv self (viewBody xv cfg self subsM) := by
  unfold viewBody
  simp only [bind_def, pure_def]
  inv_auto

theorem Inv_callView {xv : Bool} {cfg : Cfg} {self : Path} {subsM : M Unit} (hs : Inv self subsM) :
    Inv self (callView xv cfg self subsM) := by
  have := Inv_viewBody (xv := xv) (cfg := cfg) hs
  unfold callView
  simp only [bind_def, pure_def]
  inv_auto

theorem Inv_handleRequest {xv : Bool} {cfg : Cfg} {self : Path} {subsM : M Unit} (hs : Inv self subsM) :
    Inv self (handleRequest xv cfg self subsM) := by
  have := Inv_callView (xv := xv) (cfg := cfg) hs
  unfold handleRequest
  simp only [bind_def, pure_def]
  inv_auto

theorem Inv_tweenUnder {xv : Bool} {cfg : Cfg} {self : Path} {subsM : M Unit} (hs : Inv self subsM) :
    Inv self (tweenUnder xv cfg self subsM) := by
  have := Inv_handleRequest (xv := xv) (cfg := cfg) hs
  unfold tweenUnder
  simp only [bind_def, pure_def]
  inv_auto

theorem Inv_excviewTween {xv : Bool} {cfg : Cfg} {self : Path} {subsM : M Unit} (hs : Inv self subsM) :
    Inv self (excviewTween xv cfg self subsM) := by
  have := Inv_tweenUnder (xv := xv) (cfg := cfg) hs
  unfold excviewTween
  simp only [bind_def, pure_def]
  inv_auto

theorem Inv_tweenOver {xv : Bool} {cfg : Cfg} {self : Path} {subsM : M Unit} (hs : Inv self subsM) :
    Inv self (tweenOver xv cfg self subsM) := by
  have := Inv_excviewTween (xv := xv) (cfg := cfg) hs
  unfold tweenOver
  simp only [bind_def, pure_def]
  inv_auto

theorem Inv_chain {xv : Bool} {cfg : Cfg} {self : Path} {useTw : Bool} {subsM : M Unit} (hs : Inv self subsM) :
    Inv self (chain xv cfg self useTw subsM) := by
  have := Inv_tweenOver (xv := xv) (cfg := cfg) hs
  have := Inv_handleRequest (xv := xv) (cfg := cfg) hs
  unfold chain
  inv_auto

/-! ### the callback loops: FIFO work-lists drained until empty -/

def cbId (k : CbKind) : Ev → Option Nat
  | .cb k' i _ _ => if k' = k then some i else none
  | _ => none

/-- ids of the callbacks of kind `k` run in a log, in order -/
def cbIds (k : CbKind) (evs : List Ev) : List Nat := evs.filterMap (cbId k)

/-- what a drain of deque `k` logs: runs of callbacks of that kind and the registrations they make -/
def Ev.isCbOrReg (k : CbKind) : Ev → Bool
  | .cb k' _ _ _ => k' == k
  | .reg _ _ => true
  | _ => false

def allOk (cfg : Cfg) (q : List Nat) : Bool := q.all fun i => !cbFaulty cfg i

def other : CbKind → CbKind
  | .resp => .fin
  | .fin => .resp

theorem cbIds_append (k : CbKind) (a b : List Ev) : cbIds k (a ++ b) = cbIds k a ++ cbIds k b := by
  simp [cbIds, List.filterMap_append]

theorem finId_eq_cbId (e : Ev) : finId e = cbId .fin e := by
  cases e with
  | cb k i c d => cases k <;> simp [finId, cbId]
  | _ => rfl

theorem finIds_eq_cbIds (evs : List Ev) : finIds evs = cbIds .fin evs := by
  simp only [finIds, cbIds]
  congr 1
  exact funext finId_eq_cbId

theorem cbIds_regs (k : CbKind) {evs : List Ev} (h : ∀ e ∈ evs, e.isReg = true) : cbIds k evs = [] := by
  induction evs with
  | nil => rfl
  | cons e rest ih =>
    have he := h e List.mem_cons_self
    have := ih (fun x hx => h x (List.mem_cons_of_mem _ hx))
    simp only [cbIds] at this ⊢
    cases e <;> simp_all [Ev.isReg, cbId]

theorem getQ_setQ (k : CbKind) (q : List Nat) (s : St) : getQ k (setQ k q s) = q := by cases k <;> rfl
theorem getQ_other_setQ (k : CbKind) (q : List Nat) (s : St) : getQ (other k) (setQ k q s) = getQ (other k) s := by
  cases k <;> rfl

/-- the three ways a drain can end -/
inductive DrainEnd (cfg : Cfg) (k : CbKind) (n : Nat) (q0 : List Nat) (evs : List Ev) (r : R Unit) : Prop where
  | done (hok : ∃ u, r = .ok u r.st) (hq : getQ k r.st = [])
      (hall : cbIds k evs = q0 ++ regsOf k evs) (hnf : ∀ i ∈ cbIds k evs, cbFaulty cfg i = false)
  | failed (A : List Nat) (i : Nat) (L : List Nat) (herr : ∃ e, r = .err e r.st)
      (hrun : cbIds k evs = A ++ [i]) (hi : cbFaulty cfg i = true) (hA : ∀ a ∈ A, cbFaulty cfg a = false)
      (hall : A ++ i :: L = q0 ++ regsOf k evs) (hq : getQ k r.st = L)
  | fuel (hok : ∃ u, r = .ok u r.st) (hlen : (cbIds k evs).length = n)

theorem drain_spec (cfg : Cfg) (self : Path) (k : CbKind) : ∀ (n : Nat) (s : St), s.stack.head? = some self →
    ∃ evs, (drain cfg self k n s).st.stack = s.stack ∧ (drain cfg self k n s).st.log = s.log ++ evs ∧
      (∀ e ∈ evs, e.isCbOrReg k = true ∧ e.curOk = true) ∧
      getQ (other k) (drain cfg self k n s).st = getQ (other k) s ++ regsOf (other k) evs ∧
      DrainEnd cfg k n (getQ k s) evs (drain cfg self k n s) := by
  intro n
  induction n with
  | zero =>
    intro s _
    exact ⟨[], rfl, by simp [drain, R.st], by simp, by simp [drain, R.st, regsOf], .fuel ⟨(), rfl⟩ rfl⟩
  | succ n ih =>
    intro s hs
    simp only [drain]
    cases hq : getQ k s with
    | nil =>
      refine ⟨[], rfl, by simp [R.st], by simp, by simp [R.st, regsOf], ?_⟩
      exact .done ⟨(), rfl⟩ (by simpa [R.st] using hq) (by simp [cbIds, regsOf]) (by simp [cbIds])
    | cons i rest =>
      simp only
      obtain ⟨cevs, s3, h1, h2, h3, h4, h5, h6, _⟩ := register_spec (.cb i) cfg.regs 0
        { setQ k rest s with log := (setQ k rest s).log ++
            [Ev.cb k i ((setQ k rest s).stack.head? == some self) (setQ k rest s).stack.length] }
      rw [h1]
      simp only
      have hstk : (setQ k rest s).stack = s.stack := by cases k <;> rfl
      have hlog : (setQ k rest s).log = s.log := by cases k <;> rfl
      have hQk : getQ k s3 = rest ++ regsOf k cevs := by
        cases k
        · simpa [getQ, setQ] using h5
        · simpa [getQ, setQ] using h6
      have hQo : getQ (other k) s3 = getQ (other k) s ++ regsOf (other k) cevs := by
        cases k
        · simpa [getQ, setQ, other] using h6
        · simpa [getQ, setQ, other] using h5
      have hcb : (Ev.cb k i (s.stack.head? == some self) s.stack.length).isCbOrReg k = true ∧
          (Ev.cb k i (s.stack.head? == some self) s.stack.length).curOk = true := by
        simp [Ev.isCbOrReg, Ev.curOk, hs]
      have hcevs : ∀ e ∈ cevs, e.isCbOrReg k = true ∧ e.curOk = true := by
        intro e he
        have := h2 e he
        cases e <;> simp_all [Ev.isReg, Ev.isCbOrReg, Ev.curOk]
      have hids0 : cbIds k (Ev.cb k i (s.stack.head? == some self) s.stack.length :: cevs) = [i] := by
        have := cbIds_regs k h2
        simp only [cbIds] at this ⊢
        simp [cbId, this]
      have hregs0 : ∀ k', regsOf k' (Ev.cb k i (s.stack.head? == some self) s.stack.length :: cevs) = regsOf k' cevs := by
        intro k'
        simp only [regsOf]
        rw [List.filterMap_cons_none (by rfl)]
      rcases Option.eq_none_or_eq_some (cbFault cfg i) with hf | ⟨f, hf⟩
      · -- the callback succeeds: go on with what is in the deque now
        simp only [hf]
        obtain ⟨evs', e1, e2, e3, e4, e5⟩ := ih s3 (by rw [h3]; simpa [hstk] using hs)
        refine ⟨Ev.cb k i (s.stack.head? == some self) s.stack.length :: cevs ++ evs', ?_, ?_, ?_, ?_, ?_⟩
        · rw [e1, h3, hstk]
        · rw [e2, h4]; simp [hstk, hlog]
        · intro e he
          rcases List.mem_append.mp he with h | h
          · rcases List.mem_cons.mp h with h | h
            · subst h; exact hcb
            · exact hcevs e h
          · exact e3 e h
        · rw [e4, hQo, regsOf_append, hregs0, List.append_assoc]
        · have hnfi : cbFaulty cfg i = false := by simp [cbFaulty, hf]
          cases e5 with
          | done hok hq' hall hnf =>
            refine .done hok hq' ?_ ?_
            · rw [cbIds_append, hids0, hall, hQk, regsOf_append, hregs0]; simp
            · intro j hj
              rw [cbIds_append, hids0] at hj
              rcases List.mem_append.mp hj with h | h
              · simp at h; subst h; exact hnfi
              · exact hnf j h
          | failed A j L herr hrun hj hA hall hq' =>
            refine .failed (i :: A) j L herr ?_ hj ?_ ?_ hq'
            · rw [cbIds_append, hids0, hrun]; simp
            · intro a ha
              rcases List.mem_cons.mp ha with h | h
              · subst h; exact hnfi
              · exact hA a h
            · rw [regsOf_append, hregs0]
              simp only [List.cons_append]
              rw [hall, hQk]; simp
          | fuel hok hlen =>
            refine .fuel hok ?_
            rw [cbIds_append, hids0]; simp [hlen]
      · -- the callback fails: the rest stays in the deque
        simp only [hf]
        refine ⟨Ev.cb k i (s.stack.head? == some self) s.stack.length :: cevs, ?_, ?_, ?_, ?_, ?_⟩
        · simp only [R.st]; rw [h3, hstk]
        · simp only [R.st]; rw [h4]; simp [hstk, hlog]
        · intro e he
          rcases List.mem_cons.mp he with h | h
          · subst h; exact hcb
          · exact hcevs e h
        · simp only [R.st]; rw [hQo, hregs0]
        · refine .failed [] i (rest ++ regsOf k cevs) ⟨_, rfl⟩ (by simpa using hids0) (by simp [cbFaulty, hf]) (by simp) ?_ hQk
          rw [hregs0]; simp

theorem throughFault_split (cfg : Cfg) (A : List Nat) (i : Nat) (L : List Nat) (hA : ∀ a ∈ A, cbFaulty cfg a = false)
    (hi : cbFaulty cfg i = true) : throughFault cfg (A ++ i :: L) = A ++ [i] := by
  induction A with
  | nil => simp [throughFault, hi]
  | cons a rest ih =>
    simp only [List.cons_append, throughFault, hA a List.mem_cons_self, Bool.false_eq_true, ↓reduceIte]
    rw [ih (fun x hx => hA x (List.mem_cons_of_mem _ hx))]

theorem allOk_iff (cfg : Cfg) (q : List Nat) : allOk cfg q = true ↔ ∀ i ∈ q, cbFaulty cfg i = false := by
  simp [allOk, List.all_eq_true]

/-- what the statement reads off a drain that ended by itself (fewer than `n` callbacks ran): the callbacks run are
the complete FIFO sequence — what was queued plus what was registered meanwhile — through the first failing one; it
fails iff one fails; if none fails nothing is left -/
theorem drain_through {cfg : Cfg} {k : CbKind} {n : Nat} {q0 : List Nat} {evs : List Ev} {r : R Unit}
    (h : DrainEnd cfg k n q0 evs r) (hlen : (cbIds k evs).length < n) :
    cbIds k evs = throughFault cfg (q0 ++ regsOf k evs) ∧
    ((∃ u, r = .ok u r.st) ↔ allOk cfg (q0 ++ regsOf k evs) = true) ∧
    (allOk cfg (q0 ++ regsOf k evs) = true → getQ k r.st = []) := by
  cases h with
  | done hok hq hall hnf =>
    have hnf' : ∀ i ∈ q0 ++ regsOf k evs, cbFaulty cfg i = false := by rw [← hall]; exact hnf
    refine ⟨by rw [throughFault_of_none _ _ hnf']; exact hall, ⟨fun _ => (allOk_iff _ _).mpr hnf', fun _ => hok⟩, fun _ => hq⟩
  | failed A i L herr hrun hi hA hall hq =>
    have hnot : allOk cfg (q0 ++ regsOf k evs) = false := by
      rw [← hall]
      cases hx : allOk cfg (A ++ i :: L) with
      | false => rfl
      | true =>
        have := (allOk_iff _ _).mp hx i (by simp)
        rw [hi] at this; cases this
    refine ⟨by rw [← hall, throughFault_split cfg A i L hA hi]; exact hrun, ⟨?_, ?_⟩, ?_⟩
    · intro ⟨u, hu⟩
      obtain ⟨e, he⟩ := herr
      rw [he] at hu; cases hu
    · intro h; rw [hnot] at h; cases h
    · intro h; rw [hnot] at h; cases h
  | fuel hok hl => omega

theorem respTrace_regs {evs : List Ev} (h : ∀ e ∈ evs, e.isReg = true) : respTrace evs = [] := by
  induction evs with
  | nil => rfl
  | cons e rest ih =>
    have he := h e List.mem_cons_self
    cases e <;> simp_all [Ev.isReg, respTrace, respItem]

theorem respTrace_drain {evs : List Ev} (h : ∀ e ∈ evs, e.isCbOrReg .resp = true ∧ e.curOk = true) :
    respTrace evs = (cbIds .resp evs).map some := by
  induction evs with
  | nil => rfl
  | cons e rest ih =>
    have he := (h e List.mem_cons_self).1
    have := ih (fun x hx => h x (List.mem_cons_of_mem _ hx))
    simp only [respTrace, cbIds] at this ⊢
    cases e with
    | cb k i c d =>
      cases k with
      | resp => simp [respItem, cbId, this]
      | fin => simp [Ev.isCbOrReg] at he
    | reg k i => simp only [List.filterMap_cons, respItem, cbId]; exact this
    | _ => simp [Ev.isCbOrReg] at he

theorem expectedResp_eq (cfg : Cfg) (q : List Nat) :
    expectedResp cfg q = (throughFault cfg q).map some ++ (if allOk cfg q = true then [none] else []) := by
  induction q with
  | nil => simp [expectedResp, throughFault, allOk]
  | cons i rest ih =>
    simp only [expectedResp, throughFault, allOk, List.all_cons]
    rcases Bool.eq_false_or_eq_true (cbFaulty cfg i) with hf | hf
    · simp [hf]
    · simp only [hf, Bool.false_eq_true, ↓reduceIte, Bool.not_false, Bool.true_and, List.map_cons, List.cons_append]
      simp only [allOk] at ih
      exact congrArg (some i :: ·) ih

/-! ### the shape of one request's own log -/

def Ev.isChain : Ev → Bool
  | .chain _ => true
  | _ => false

theorem st_ok {α} (a : α) (s : St) : (R.ok a s).st = s := rfl
theorem st_err {α} (e : Exc) (s : St) : (R.err e s : R α).st = s := rfl

theorem tryFinally_st {α} (m : M α) (f : M Unit) (s : St) : (tryFinally m f s).st = (f (m s).st).st := by
  simp only [tryFinally]
  cases m s with
  | ok a s' => simp only [R.st]; cases f s' <;> rfl
  | err e s' => simp only [R.st]; cases f s' <;> rfl

theorem probed_eq (xv : Bool) (cfg : Cfg) (self : Path) (useTw : Bool) (subsM : M Unit) (s : St) :
    probed xv cfg self useTw subsM s =
      match chain xv cfg self useTw subsM s with
      | .ok _ s1 => .ok () { s1 with log := s1.log ++ [Ev.chain true] }
      | .err e s1 => .err e { s1 with log := s1.log ++ [Ev.chain false] } := by
  simp only [probed, tryCatch, bind_def, M.bind, emit, throw]
  cases chain xv cfg self useTw subsM s <;> rfl

/-- Router.finish_request: the finished-callback deque drained -/
theorem finPhase_spec (cfg : Cfg) (self : Path) (s : St) (hs : s.stack.head? = some self) :
    ∃ tail, (finPhase cfg self s).st.stack = s.stack ∧ (finPhase cfg self s).st.log = s.log ++ tail ∧
      (∀ e ∈ tail, e.isCbOrReg .fin = true ∧ e.curOk = true) ∧
      ((cbIds .fin tail).length < drainFuel →
        cbIds .fin tail = throughFault cfg (s.finQ ++ regsOf .fin tail) ∧
        (allOk cfg (s.finQ ++ regsOf .fin tail) = true → (finPhase cfg self s).st.finQ = [])) := by
  obtain ⟨evs, h1, h2, h3, _, h5⟩ := drain_spec cfg self .fin drainFuel s hs
  refine ⟨evs, h1, h2, h3, fun hl => ?_⟩
  obtain ⟨a, _, c⟩ := drain_through h5 hl
  exact ⟨a, c⟩

/-- what follows the chain inside the `try`: the response-callback deque drained, then (iff no callback failed)
NewResponse and the registrations its subscribers make -/
theorem respPhase_spec (cfg : Cfg) (self : Path) (s : St) (hs : s.stack.head? = some self) :
    ∃ rp np, (respPhase cfg self s).st.stack = s.stack ∧
      (respPhase cfg self s).st.log = s.log ++ (rp ++ np) ∧
      (respPhase cfg self s).st.finQ = s.finQ ++ regsOf .fin (rp ++ np) ∧
      (∀ e ∈ rp, e.isCbOrReg .resp = true ∧ e.curOk = true) ∧
      (np = [] ∨ ∃ d regEvs, np = Ev.hook .newResponse true d :: regEvs ∧ ∀ e ∈ regEvs, e.isReg = true) ∧
      ((cbIds .resp rp).length < drainFuel →
        respTrace (rp ++ np) = expectedResp cfg (s.respQ ++ regsOf .resp rp)) := by
  obtain ⟨rp, h1, h2, h3, h4, h5⟩ := drain_spec cfg self .resp drainFuel s hs
  simp only [respPhase, bind_def, pure_def, M.bind]
  cases hd : drain cfg self .resp drainFuel s with
  | err e s1 =>
    rw [hd] at h1 h2 h4 h5
    simp only [R.st] at h1 h2 h4
    refine ⟨rp, [], h1, by simpa [R.st] using h2, by simpa [R.st, getQ, other] using h4, h3, Or.inl rfl, fun hl => ?_⟩
    obtain ⟨a, b, _⟩ := drain_through h5 hl
    have hnot : allOk cfg (s.respQ ++ regsOf .resp rp) = false := by
      cases hx : allOk cfg (s.respQ ++ regsOf .resp rp) with
      | false => rfl
      | true =>
        obtain ⟨u, hu⟩ := b.mpr (by simpa [getQ] using hx)
        cases hu
    rw [List.append_nil, respTrace_drain h3, expectedResp_eq, hnot]
    simp only [getQ] at a
    rw [a]; simp
  | ok u s1 =>
    rw [hd] at h1 h2 h4 h5
    simp only [R.st] at h1 h2 h4
    simp only
    obtain ⟨regEvs, hr, g2, g3, _, g5⟩ := hook_spec cfg self .newResponse s1
    have hhead : (s1.stack.head? == some self) = true := by rw [h1]; simp [hs]
    refine ⟨rp, Ev.hook .newResponse true s1.stack.length :: regEvs, ?_, ?_, ?_, h3, Or.inr ⟨_, _, rfl, hr⟩, fun hl => ?_⟩
    · cases hh : hook cfg self .newResponse s1 with
      | ok a s' => rw [hh] at g2; simpa [R.st, M.pure, h1] using g2
      | err e s' => rw [hh] at g2; simpa [R.st, h1] using g2
    · cases hh : hook cfg self .newResponse s1 with
      | ok a s' => rw [hh] at g3; simp only [R.st, M.pure] at g3 ⊢; rw [g3, h2, hhead]; simp
      | err e s' => rw [hh] at g3; simp only [R.st] at g3 ⊢; rw [g3, h2, hhead]; simp
    · have hregs : regsOf .fin (rp ++ Ev.hook .newResponse true s1.stack.length :: regEvs) =
          regsOf .fin rp ++ regsOf .fin regEvs := by
        rw [regsOf_append]
        simp only [regsOf]
        rw [List.filterMap_cons_none (by rfl)]
      have h4' : s1.finQ = s.finQ ++ regsOf .fin rp := by simpa [getQ, other] using h4
      cases hh : hook cfg self .newResponse s1 with
      | ok a s' => rw [hh] at g5; simp only [R.st, M.pure] at g5 ⊢; rw [g5, h4', hregs]; simp
      | err e s' => rw [hh] at g5; simp only [R.st] at g5 ⊢; rw [g5, h4', hregs]; simp
    · obtain ⟨a, b, _⟩ := drain_through h5 hl
      have hall : allOk cfg (s.respQ ++ regsOf .resp rp) = true := by
        have := b.mp ⟨u, rfl⟩
        simpa [getQ] using this
      simp only [getQ] at a
      have hnp : respTrace (Ev.hook .newResponse true s1.stack.length :: regEvs) = [none] := by
        have := respTrace_regs hr
        simp only [respTrace] at this ⊢
        simp [respItem, this]
      simp only [respTrace, List.filterMap_append] at hnp ⊢
      have hrp := respTrace_drain h3
      simp only [respTrace] at hrp
      rw [hrp, hnp, expectedResp_eq, hall, a]
      simp

/-- Everything the statement says about one request's own log.  `pre`: chain-stage events before the chain marker.
`rp`: the response-callback deque being drained (runs of response callbacks and the registrations they make) — empty
unless the chain responded; the callbacks run are the FIFO sequence of everything registered in `pre ++ rp` through the
first failing one.  `np`: NewResponse (iff the drain completed) and its registrations.  `tail`: the finished-callback
deque being drained, the callbacks run are the FIFO sequence of every finished callback registered anywhere in the log
through the first failing one.  Every observation of the current request sees the request itself. -/
def LogShape (cfg : Cfg) (own : List Ev) : Prop :=
  ∃ pre b rp np tail, own = pre ++ Ev.chain b :: (rp ++ np ++ tail) ∧
    (∀ e ∈ pre, e.isStage = true ∧ e.curOk = true) ∧
    (∀ e ∈ rp, e.isCbOrReg .resp = true ∧ e.curOk = true) ∧
    (np = [] ∨ ∃ d regEvs, np = Ev.hook .newResponse true d :: regEvs ∧ ∀ e ∈ regEvs, e.isReg = true) ∧
    (b = false → rp = [] ∧ np = []) ∧
    (b = true → (cbIds .resp rp).length < drainFuel →
      respTrace (rp ++ np) = expectedResp cfg (regsOf .resp (pre ++ rp))) ∧
    (∀ e ∈ tail, e.isCbOrReg .fin = true ∧ e.curOk = true) ∧
    ((cbIds .fin tail).length < drainFuel →
      cbIds .fin tail = throughFault cfg (regsOf .fin (pre ++ (rp ++ np) ++ tail)))

theorem invokeRequest_shape {xv : Bool} {cfg : Cfg} {self : Path} {useTw : Bool} {subsM : M Unit}
    (hsub : Inv self subsM) (s0 : St) (h0 : s0.stack.head? = some self)
    (hl : s0.log = []) (hr : s0.respQ = []) (hf : s0.finQ = []) :
    (invokeRequest xv cfg self useTw subsM s0).st.stack = s0.stack ∧
    LogShape cfg (invokeRequest xv cfg self useTw subsM s0).st.log ∧
    ((cbIds .fin (invokeRequest xv cfg self useTw subsM s0).st.log).length < drainFuel →
      allOk cfg (regsOf .fin (invokeRequest xv cfg self useTw subsM s0).st.log) = true →
      (invokeRequest xv cfg self useTw subsM s0).st.finQ = []) := by
  obtain ⟨pre, h1⟩ := (Inv_chain (xv := xv) (cfg := cfg) (useTw := useTw) hsub).run s0 h0
  simp only [invokeRequest, tryFinally_st, bind_def, M.bind, probed_eq]
  have hpreids : cbIds .fin pre = [] := by
    have : ∀ e ∈ pre, cbId .fin e = none := by
      intro e he
      have := (h1.good e he).1
      cases e <;> simp_all [Ev.isStage, cbId]
    simp only [cbIds]
    exact List.filterMap_eq_nil_iff.mpr this
  cases hc : chain xv cfg self useTw subsM s0 with
  | ok u s1 =>
    rw [hc] at h1
    simp only [R.st] at h1
    simp only
    have hs1 : ({ s1 with log := s1.log ++ [Ev.chain true] } : St).stack.head? = some self := by
      simp [h1.stack, h0]
    obtain ⟨rp, np, p1, p2, p3, p4, p5, p6⟩ := respPhase_spec cfg self { s1 with log := s1.log ++ [Ev.chain true] } hs1
    generalize (respPhase cfg self { s1 with log := s1.log ++ [Ev.chain true] }).st = sR at p1 p2 p3 ⊢
    obtain ⟨tail, f1, f2, f3, f4⟩ := finPhase_spec cfg self sR (by rw [p1]; exact hs1)
    have hlogeq : (finPhase cfg self sR).st.log = pre ++ Ev.chain true :: (rp ++ np ++ tail) := by
      rw [f2, p2]; simp only [h1.log, hl]; simp
    have hfinQ : sR.finQ ++ regsOf .fin tail = regsOf .fin (pre ++ (rp ++ np) ++ tail) := by
      rw [p3]; simp only [h1.finQ, hf]
      simp [regsOf_append]
    have hcurnp : ∀ e ∈ np, e.curOk = true := by
      intro e he
      rcases p5 with h | ⟨d, regEvs, h, hreg⟩
      · subst h; cases he
      · subst h
        rcases List.mem_cons.mp he with h | h
        · subst h; rfl
        · exact (isReg_good (hreg e h)).2
    refine ⟨by rw [f1, p1]; exact h1.stack, ?_, ?_⟩
    · refine ⟨pre, true, rp, np, tail, hlogeq, h1.good, p4, p5, by simp, ?_, f3, ?_⟩
      · intro _ hlen
        rw [p6 hlen]; simp [h1.respQ, hr, regsOf_append]
      · intro hlen
        rw [(f4 hlen).1, hfinQ]
    · rw [hlogeq]
      intro hlen hall
      have hids : cbIds .fin (pre ++ Ev.chain true :: (rp ++ np ++ tail)) = cbIds .fin tail := by
        have hrp : cbIds .fin rp = [] := by
          simp only [cbIds]
          refine List.filterMap_eq_nil_iff.mpr fun e he => ?_
          have := (p4 e he).1
          cases e with
          | cb k i c d => cases k <;> simp_all [Ev.isCbOrReg, cbId]
          | _ => simp [cbId]
        have hnp : cbIds .fin np = [] := by
          rcases p5 with h | ⟨d, regEvs, h, hreg⟩
          · subst h; rfl
          · subst h
            have := cbIds_regs .fin hreg
            simp only [cbIds] at this ⊢
            rw [List.filterMap_cons_none (by rfl)]
            exact this
        simp only [cbIds, List.filterMap_append, List.filterMap_cons] at hrp hnp hpreids ⊢
        simp [hrp, hnp, hpreids, cbId]
      have hregs : regsOf .fin (pre ++ Ev.chain true :: (rp ++ np ++ tail)) = regsOf .fin (pre ++ (rp ++ np) ++ tail) := by
        simp only [regsOf, List.filterMap_append]
        rw [List.filterMap_cons_none (by rfl)]
        simp
      rw [hids] at hlen
      rw [hregs, ← hfinQ] at hall
      exact (f4 hlen).2 hall
  | err e s1 =>
    rw [hc] at h1
    simp only [R.st] at h1
    simp only [st_err]
    have hs1 : ({ s1 with log := s1.log ++ [Ev.chain false] } : St).stack.head? = some self := by
      simp [h1.stack, h0]
    obtain ⟨tail, f1, f2, f3, f4⟩ := finPhase_spec cfg self { s1 with log := s1.log ++ [Ev.chain false] } hs1
    have hlogeq : (finPhase cfg self { s1 with log := s1.log ++ [Ev.chain false] }).st.log =
        pre ++ Ev.chain false :: ([] ++ [] ++ tail) := by
      rw [f2]; simp only [h1.log, hl]; simp
    have hfinQ : s1.finQ ++ regsOf .fin tail = regsOf .fin (pre ++ ([] ++ []) ++ tail) := by
      simp only [h1.finQ, hf]
      simp [regsOf_append]
    refine ⟨by rw [f1]; exact h1.stack, ?_, ?_⟩
    · refine ⟨pre, false, [], [], tail, hlogeq, h1.good, by simp, Or.inl rfl, by simp, by simp, f3, ?_⟩
      intro hlen
      rw [(f4 hlen).1]
      exact congrArg _ hfinQ
    · rw [hlogeq]
      intro hlen hall
      have hids : cbIds .fin (pre ++ Ev.chain false :: ([] ++ [] ++ tail)) = cbIds .fin tail := by
        simp only [cbIds, List.filterMap_append, List.filterMap_cons] at hpreids ⊢
        simp [hpreids, cbId]
      have hregs : regsOf .fin (pre ++ Ev.chain false :: ([] ++ [] ++ tail)) = regsOf .fin (pre ++ ([] ++ []) ++ tail) := by
        simp only [regsOf, List.filterMap_append]
        rw [List.filterMap_cons_none (by rfl)]
        simp
      rw [hids] at hlen
      rw [hregs, ← hfinQ] at hall
      exact (f4 hlen).2 hall

/-! ### the request tree -/

def Tr.own : Tr → List Ev
  | .node o _ _ _ _ => o
def Tr.out : Tr → Outcome
  | .node _ o _ _ _ => o
def Tr.depthAfter : Tr → Nat
  | .node _ _ d _ _ => d
def Tr.kids : Tr → List Tr
  | .node _ _ _ k _ => k
/-- (response callbacks, finished callbacks) left in the deques after the request -/
def Tr.left : Tr → Nat × Nat
  | .node _ _ _ _ l => l

theorem runReq_eq (xv top : Bool) (cfg : Cfg) (subs : Reqs) (self : Path) (stack0 : List Path) :
    runReq xv top (.mk cfg subs) self stack0 =
      let r := invokeRequest xv cfg self (top || cfg.useTweens) (runSubs xv subs self 0) { stack := self :: stack0 }
      (.node r.st.log (outcomeOf r) r.st.stack.tail.length r.st.kids (r.st.respQ.length, r.st.finQ.length),
        outcomeOf r, r.st.stack.tail) := by
  rw [runReq]

mutual
  /-- a request (WSGI call or subrequest at any depth) gives the stack back exactly as it found it, and its own
  log has the shape the statement describes -/
  theorem runReq_props (xv top : Bool) : ∀ (r : Req) (self : Path) (stack0 : List Path),
      (runReq xv top r self stack0).2.2 = stack0 ∧ LogShape r.cfg (runReq xv top r self stack0).1.own ∧
      ((cbIds .fin (runReq xv top r self stack0).1.own).length < drainFuel →
        allOk r.cfg (regsOf .fin (runReq xv top r self stack0).1.own) = true →
        (runReq xv top r self stack0).1.left.2 = 0)
    | .mk cfg subs, self, stack0 => by
      have hsub := runSubs_inv xv subs self 0
      have h := invokeRequest_shape (xv := xv) (cfg := cfg) (useTw := (top || cfg.useTweens)) hsub
        { stack := self :: stack0 } (by simp) rfl rfl rfl
      rw [runReq_eq]
      simp only [Tr.own, Tr.left, Req.cfg]
      refine ⟨?_, h.2.1, ?_⟩
      · rw [h.1]; rfl
      · intro hlen hall
        rw [h.2.2 hlen hall]; rfl

  theorem runSubs_inv (xv : Bool) : ∀ (rs : Reqs) (self : Path) (i : Nat), Inv self (runSubs xv rs self i)
    | .nil, self, i => by
      refine ⟨fun s _ => ⟨[], ?_⟩⟩
      rw [runSubs]
      exact Step.refl s
    | .cons r rs, self, i => by
      refine ⟨fun s hs => ?_⟩
      have hr := (runReq_props xv false r (self ++ [i]) s.stack).1
      have hrest := runSubs_inv xv rs self (i + 1)
      rw [runSubs]
      simp only
      generalize hres : runReq xv false r (self ++ [i]) s.stack = res at hr
      obtain ⟨tr, out, stack'⟩ := res
      simp only at hr
      subst hr
      simp only
      have hstep : Step s { s with log := s.log ++ [Ev.sub i] ++ [Ev.resume (s.stack.head? == some self) s.stack.length],
                                   kids := s.kids ++ [tr] }
          [Ev.sub i, Ev.resume (s.stack.head? == some self) s.stack.length] := by
        refine ⟨rfl, by simp, by simp [regsOf, regId], by simp [regsOf, regId], ?_⟩
        intro e he
        simp at he
        rcases he with h | h <;> subst h <;> simp [Ev.isStage, Ev.curOk, hs]
      cases out with
      | resp =>
        simp only
        obtain ⟨evs, h2⟩ := hrest.run { s with log := s.log ++ [Ev.sub i] ++ [Ev.resume (s.stack.head? == some self) s.stack.length],
                                               kids := s.kids ++ [tr] } hs
        exact ⟨_, hstep.trans h2⟩
      | raised e =>
        simp only [st_err]
        exact ⟨_, hstep⟩
end

/-! ### small facts about the spec-side projections -/

theorem regsOf_chain (k : CbKind) (b : Bool) (l : List Ev) : regsOf k (Ev.chain b :: l) = regsOf k l := by
  simp only [regsOf]; rw [List.filterMap_cons_none (by rfl)]

theorem respTrace_of_stage {l : List Ev} (h : ∀ e ∈ l, e.isStage = true ∧ e.curOk = true) : respTrace l = [] := by
  induction l with
  | nil => rfl
  | cons e rest ih =>
    have he := (h e List.mem_cons_self).1
    have := ih (fun x hx => h x (List.mem_cons_of_mem _ hx))
    simp only [respTrace] at this ⊢
    cases e with
    | hook p c d =>
      cases p <;> simp_all [Ev.isStage, respItem]
    | cb k i c d => simp [Ev.isStage] at he
    | chain b => simp [Ev.isStage] at he
    | reg k i => simpa [respItem] using this
    | resume c d => simpa [respItem] using this
    | sub i => simpa [respItem] using this

theorem respTrace_of_fin {l : List Ev} (h : ∀ e ∈ l, e.isFinCb = true ∧ e.curOk = true) : respTrace l = [] := by
  induction l with
  | nil => rfl
  | cons e rest ih =>
    have he := (h e List.mem_cons_self).1
    have := ih (fun x hx => h x (List.mem_cons_of_mem _ hx))
    simp only [respTrace] at this ⊢
    cases e with
    | cb k i c d => cases k <;> simp_all [Ev.isFinCb, respItem]
    | _ => simp [Ev.isFinCb] at he

theorem expectedResp_of_none (cfg : Cfg) (ids : List Nat) (h : ∀ i ∈ ids, cbFaulty cfg i = false) :
    expectedResp cfg ids = ids.map some ++ [none] := by
  induction ids with
  | nil => rfl
  | cons i rest ih =>
    simp only [expectedResp, h i List.mem_cons_self]
    simp
    exact ih (fun j hj => h j (List.mem_cons_of_mem _ hj))

end Pyr.Pipeline
